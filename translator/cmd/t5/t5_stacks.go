package main

// T5: tunnel wrapper stacks and the bridge plumbing around them -> GenStacks.v
//
//   stack_sites            every function that builds a tunnel wrapper stack: ORDER of
//                          WithEncryption / WithCompression[FromPool] / limiter wrapping, guard
//                          and key expressions, close-function shape of the limiter wrapper,
//                          libio.Join calls
//   enc_key_args           third argument of every call of HandleTCPWorkConnection (the cipher key)
//   control_crypto_sites   the two NewCryptoReadWriter control-channel sites (file, func, key)
//   start_work_conn_fields the fields of the msg.StartWorkConn literal in GetWorkConnFromPool
//   get_work_conn_args     arguments of GetWorkConnFromPool in handleUserTCPConnection
//   client_dispatch        how the client picks the proxy for a work connection
//   visitor_conn_fields    fields of the msg.NewVisitorConn literal of the stcp visitor
//   visitor_newconn_args   arguments of VisitorManager.NewConn in server/service.go
//   pp_header_fields / pp_field_assigns / pp_writes    proxy-protocol header construction
//
// Expressions are canonicalised (see coq/Model/StackTypes.v) so that renaming a local or a
// parameter does not change the output.  Anything not recognised becomes SkUnknown / "?...".

import (
	"veriftranslator/tx"

	"bytes"
	"fmt"
	"go/ast"
	"go/parser"
	"go/token"
	"os"
	"path/filepath"
	"strconv"
	"strings"
)

func main() { tx.Main(tx.Unit{Name: "T5", File: "GenStacks.v", Fn: genStacks}) }

const (
	impLibio  = "github.com/fatedier/golib/io"
	impLimit  = "github.com/fatedier/frp/pkg/util/limit"
	impNetpkg = "github.com/fatedier/frp/pkg/util/net"
	impMsg    = "github.com/fatedier/frp/pkg/msg"
	impPP     = "github.com/pires/go-proxyproto"
)

type fileInfo struct {
	f       *ast.File
	imports map[string]string // local name -> import path
}

var fset = token.NewFileSet()

func parse(rel string) (*fileInfo, error) {
	f, err := parser.ParseFile(fset, filepath.Join(tx.Repo, rel), nil, 0)
	if err != nil {
		return nil, err
	}
	fi := &fileInfo{f: f, imports: map[string]string{}}
	for _, im := range f.Imports {
		p, _ := strconv.Unquote(im.Path.Value)
		name := p[strings.LastIndex(p, "/")+1:]
		if im.Name != nil {
			name = im.Name.Name
		}
		fi.imports[name] = p
	}
	return fi, nil
}

func (fi *fileInfo) fn(name string) *ast.FuncDecl {
	for _, d := range fi.f.Decls {
		if fd, ok := d.(*ast.FuncDecl); ok && fd.Name.Name == name && fd.Body != nil {
			return fd
		}
	}
	return nil
}

// ---- canonical expressions ----

type def struct {
	rhs   ast.Expr
	idx   int // index in a tuple assignment
	tuple bool
	pos   token.Pos
}

type fnCtx struct {
	fi      *fileInfo
	fd      *ast.FuncDecl
	recv    string
	params  map[string]int
	defs    map[string][]def
	decls   map[string]bool // locals declared (var x T) possibly without definition
	zeroIdx map[string]int
	tracked map[string]bool // names that are the stack variable (rendered $top)
	assigns map[string][]token.Pos
}

func newCtx(fi *fileInfo, fd *ast.FuncDecl) *fnCtx {
	c := &fnCtx{fi: fi, fd: fd, params: map[string]int{}, defs: map[string][]def{}, decls: map[string]bool{},
		zeroIdx: map[string]int{}, tracked: map[string]bool{}, assigns: map[string][]token.Pos{}}
	if fd.Recv != nil && len(fd.Recv.List) > 0 && len(fd.Recv.List[0].Names) > 0 {
		c.recv = fd.Recv.List[0].Names[0].Name
	}
	i := 0
	for _, p := range fd.Type.Params.List {
		if len(p.Names) == 0 {
			i++
		}
		for _, n := range p.Names {
			c.params[n.Name] = i
			i++
		}
	}
	if fd.Type.Results != nil {
		for _, p := range fd.Type.Results.List {
			for _, n := range p.Names {
				c.decls[n.Name] = true
			}
		}
	}
	ast.Inspect(fd.Body, func(n ast.Node) bool {
		switch s := n.(type) {
		case *ast.AssignStmt:
			for i, l := range s.Lhs {
				id, ok := l.(*ast.Ident)
				if !ok || id.Name == "_" {
					continue
				}
				c.assigns[id.Name] = append(c.assigns[id.Name], s.Pos())
				if len(s.Rhs) == len(s.Lhs) {
					c.defs[id.Name] = append(c.defs[id.Name], def{rhs: s.Rhs[i], pos: s.Pos()})
				} else if len(s.Rhs) == 1 {
					c.defs[id.Name] = append(c.defs[id.Name], def{rhs: s.Rhs[0], idx: i, tuple: true, pos: s.Pos()})
				}
			}
		case *ast.ValueSpec:
			for i, n := range s.Names {
				c.decls[n.Name] = true
				if i < len(s.Values) {
					c.defs[n.Name] = append(c.defs[n.Name], def{rhs: s.Values[i], pos: s.Pos()})
					c.assigns[n.Name] = append(c.assigns[n.Name], s.Pos())
				}
			}
		case *ast.RangeStmt:
			for _, e := range []ast.Expr{s.Key, s.Value} {
				if id, ok := e.(*ast.Ident); ok && id.Name != "_" {
					c.defs[id.Name] = append(c.defs[id.Name], def{}, def{})
				}
			}
		case *ast.FuncLit:
			for _, p := range s.Type.Params.List {
				for _, n := range p.Names {
					c.defs[n.Name] = append(c.defs[n.Name], def{}, def{})
				}
			}
		}
		return true
	})
	// a parameter that is assigned to is no longer "the parameter" after the assignment; keep
	// it as $i (its initial value) for canonicalisation but remember the assignments.
	for p := range c.params {
		delete(c.defs, p)
	}
	return c
}

func typeString(e ast.Expr) string {
	switch x := e.(type) {
	case *ast.Ident:
		return x.Name
	case *ast.StarExpr:
		return "*" + typeString(x.X)
	case *ast.SelectorExpr:
		return typeString(x.X) + "." + x.Sel.Name
	case *ast.ArrayType:
		if x.Len == nil {
			return "[]" + typeString(x.Elt)
		}
		return "[...]" + typeString(x.Elt)
	case *ast.MapType:
		return "map[" + typeString(x.Key) + "]" + typeString(x.Value)
	case *ast.InterfaceType:
		return "interface{}"
	}
	return fmt.Sprintf("?type%T", e)
}

func (c *fnCtx) canon(e ast.Expr) string { return c.canonD(e, 0) }

func (c *fnCtx) canonD(e ast.Expr, depth int) string {
	if depth > 10 {
		return "?deep"
	}
	switch x := e.(type) {
	case nil:
		return "?nil"
	case *ast.Ident:
		n := x.Name
		if n == c.recv && n != "" {
			return "$recv"
		}
		if c.tracked[n] {
			return "$top"
		}
		if i, ok := c.params[n]; ok {
			return "$" + strconv.Itoa(i)
		}
		ds := c.defs[n]
		switch {
		case len(ds) == 1 && ds[0].rhs != nil:
			s := c.canonD(ds[0].rhs, depth+1)
			if _, isBin := ds[0].rhs.(*ast.BinaryExpr); isBin {
				s = "(" + s + ")"
			}
			if ds[0].tuple {
				s += "#" + strconv.Itoa(ds[0].idx)
			}
			return s
		case len(ds) > 1:
			return "$multi:" + n
		case c.decls[n]:
			if _, ok := c.zeroIdx[n]; !ok {
				c.zeroIdx[n] = len(c.zeroIdx)
			}
			return "$v" + strconv.Itoa(c.zeroIdx[n])
		}
		return n
	case *ast.BasicLit:
		return x.Value
	case *ast.ParenExpr:
		return "(" + c.canonD(x.X, depth) + ")"
	case *ast.SelectorExpr:
		// field of a local defined once by a (pointer to a) composite literal: the field's value
		if id, ok := x.X.(*ast.Ident); ok && !c.tracked[id.Name] {
			if ds := c.defs[id.Name]; len(ds) == 1 && ds[0].rhs != nil && !ds[0].tuple {
				r := ds[0].rhs
				if u, ok := r.(*ast.UnaryExpr); ok && u.Op == token.AND {
					r = u.X
				}
				if cl, ok := r.(*ast.CompositeLit); ok {
					for _, el := range cl.Elts {
						if kv, ok := el.(*ast.KeyValueExpr); ok && identName(kv.Key) == x.Sel.Name {
							return c.canonD(kv.Value, depth+1)
						}
					}
				}
			}
		}
		return c.canonD(x.X, depth) + "." + x.Sel.Name
	case *ast.StarExpr:
		return "*" + c.canonD(x.X, depth)
	case *ast.UnaryExpr:
		return x.Op.String() + c.canonD(x.X, depth)
	case *ast.BinaryExpr:
		return c.canonD(x.X, depth) + " " + x.Op.String() + " " + c.canonD(x.Y, depth)
	case *ast.IndexExpr:
		return c.canonD(x.X, depth) + "[" + c.canonD(x.Index, depth) + "]"
	case *ast.ArrayType, *ast.MapType, *ast.InterfaceType:
		return typeString(x)
	case *ast.CallExpr:
		var args []string
		for _, a := range x.Args {
			args = append(args, c.canonD(a, depth))
		}
		return c.canonD(x.Fun, depth) + "(" + strings.Join(args, ", ") + ")"
	case *ast.CompositeLit:
		var el []string
		for _, a := range x.Elts {
			if kv, ok := a.(*ast.KeyValueExpr); ok {
				k := "?"
				if id, ok := kv.Key.(*ast.Ident); ok {
					k = id.Name
				}
				el = append(el, k+": "+c.canonD(kv.Value, depth))
			} else {
				el = append(el, c.canonD(a, depth))
			}
		}
		return typeString(x.Type) + "{" + strings.Join(el, ", ") + "}"
	case *ast.FuncLit:
		return "func{..}"
	case *ast.TypeAssertExpr:
		return c.canonD(x.X, depth) + ".(" + typeString(x.Type) + ")"
	}
	return fmt.Sprintf("?expr%T", e)
}

// pkgCall reports (import path, function name) if e is a call pkg.Fn(...) of an imported package.
func (c *fnCtx) pkgCall(e ast.Expr) (string, string, *ast.CallExpr) {
	call, ok := e.(*ast.CallExpr)
	if !ok {
		return "", "", nil
	}
	sel, ok := call.Fun.(*ast.SelectorExpr)
	if !ok {
		return "", "", nil
	}
	id, ok := sel.X.(*ast.Ident)
	if !ok {
		return "", "", nil
	}
	if _, shadow := c.defs[id.Name]; shadow {
		return "", "", nil
	}
	if _, isParam := c.params[id.Name]; isParam || id.Name == c.recv {
		return "", "", nil
	}
	p, ok := c.fi.imports[id.Name]
	if !ok {
		return "", "", nil
	}
	return p, sel.Sel.Name, call
}

// ---- stack sites ----

type layer struct{ coq string }

type site struct {
	file, fn string
	layers   []string
	joins    []string
}

func identName(e ast.Expr) string {
	if id, ok := e.(*ast.Ident); ok {
		return id.Name
	}
	return ""
}

func stripBytesConv(e ast.Expr) ast.Expr {
	if call, ok := e.(*ast.CallExpr); ok && len(call.Args) == 1 {
		if at, ok := call.Fun.(*ast.ArrayType); ok && at.Len == nil && identName(at.Elt) == "byte" {
			return call.Args[0]
		}
	}
	return e
}

func coqBool(b bool) string {
	if b {
		return "true"
	}
	return "false"
}

func extractSite(rel, fname string) (*site, error) {
	fi, err := parse(rel)
	if err != nil {
		return nil, err
	}
	fd := fi.fn(fname)
	if fd == nil {
		return nil, fmt.Errorf("%s: func %s not found", rel, fname)
	}
	c := newCtx(fi, fd)
	s := &site{file: rel, fn: fname}
	consumed := map[*ast.CallExpr]bool{}

	// pass 1: the tracked variables = every LHS of a recognised wrapper assignment
	ast.Inspect(fd.Body, func(n ast.Node) bool {
		as, ok := n.(*ast.AssignStmt)
		if !ok || len(as.Rhs) != 1 {
			return true
		}
		p, f, _ := c.pkgCall(as.Rhs[0])
		if (p == impLibio && (f == "WithEncryption" || f == "WithCompression" || f == "WithCompressionFromPool" || f == "WrapReadWriteCloser")) ||
			(p == impNetpkg && (f == "WrapReadWriteCloserToConn" || f == "WrapStatsConn")) {
			if n := identName(as.Lhs[0]); n != "" {
				c.tracked[n] = true
			}
		}
		return true
	})
	// the tracked variables are rendered $top, never expanded
	top := map[string]bool{}
	setTop := func(names ...string) {
		for k := range top {
			delete(top, k)
		}
		for _, n := range names {
			if n != "" {
				top[n] = true
			}
		}
	}
	laterAssigned := func(name string, after token.Pos) bool {
		for _, p := range c.assigns[name] {
			if p > after {
				return true
			}
		}
		return false
	}

	handleAssign := func(lhs []ast.Expr, rhs []ast.Expr, pos token.Pos, guards []string) {
		if len(rhs) != 1 {
			// parallel assignment: aliasing only
			return
		}
		guard := strings.Join(guards, " && ")
		l0 := ""
		if len(lhs) > 0 {
			l0 = identName(lhs[0])
		}
		p, f, call := c.pkgCall(rhs[0])
		switch {
		case p == impLibio && f == "WithEncryption" && len(call.Args) == 2:
			consumed[call] = true
			s.layers = append(s.layers, fmt.Sprintf("SkEnc %s %s %s", tx.CoqString(guard),
				tx.CoqString(c.canon(stripBytesConv(call.Args[1]))), coqBool(top[identName(call.Args[0])])))
			setTop(l0)
		case p == impLibio && (f == "WithCompression" || f == "WithCompressionFromPool") && len(call.Args) == 1:
			consumed[call] = true
			s.layers = append(s.layers, fmt.Sprintf("SkComp %s %s %s", tx.CoqString(guard),
				coqBool(f == "WithCompressionFromPool"), coqBool(top[identName(call.Args[0])])))
			setTop(l0)
		case p == impLibio && f == "WrapReadWriteCloser" && len(call.Args) == 3:
			consumed[call] = true
			rp, rf, rcall := c.pkgCall(call.Args[0])
			wp, wf, wcall := c.pkgCall(call.Args[1])
			if rp != impLimit || rf != "NewReader" || wp != impLimit || wf != "NewWriter" || len(rcall.Args) != 2 || len(wcall.Args) != 2 {
				s.layers = append(s.layers, fmt.Sprintf("SkUnknown %s", tx.CoqString("WrapReadWriteCloser with "+c.canon(call.Args[0])+" / "+c.canon(call.Args[1]))))
				setTop(l0)
				return
			}
			consumed[rcall], consumed[wcall] = true, true
			rdTop := top[identName(rcall.Args[0])]
			wrTop := top[identName(wcall.Args[0])]
			sameLim := c.canon(rcall.Args[1]) == c.canon(wcall.Args[1])
			cl := "CtOther"
			if fl, ok := call.Args[2].(*ast.FuncLit); ok && len(fl.Body.List) == 1 {
				if rs, ok := fl.Body.List[0].(*ast.ReturnStmt); ok && len(rs.Results) == 1 {
					if cc, ok := rs.Results[0].(*ast.CallExpr); ok && len(cc.Args) == 0 {
						if sel, ok := cc.Fun.(*ast.SelectorExpr); ok && sel.Sel.Name == "Close" {
							z := identName(sel.X)
							switch {
							case z != "" && z == l0:
								cl = "CtSelf"
							case z != "" && top[z] && laterAssigned(z, pos):
								cl = "CtReassigned"
							case z != "" && top[z]:
								cl = "CtInner"
							}
						}
					}
				}
			}
			if !sameLim {
				s.layers = append(s.layers, fmt.Sprintf("SkUnknown %s", tx.CoqString("reader and writer use different limiters")))
			}
			s.layers = append(s.layers, fmt.Sprintf("SkLimit %s %s %s %s", tx.CoqString(guard), coqBool(rdTop), coqBool(wrTop), cl))
			setTop(l0)
		case p == impNetpkg && f == "WrapReadWriteCloserToConn" && len(call.Args) == 2:
			consumed[call] = true
			s.layers = append(s.layers, fmt.Sprintf("SkToConn %s", coqBool(top[identName(call.Args[0])])))
			setTop(l0)
		case p == impNetpkg && f == "WrapStatsConn" && len(call.Args) == 2:
			s.layers = append(s.layers, fmt.Sprintf("SkStats %s", coqBool(top[identName(call.Args[0])])))
			setTop(l0)
		default:
			// aliasing: V = X / A := V
			if r := identName(rhs[0]); r != "" && l0 != "" {
				switch {
				case c.tracked[l0]:
					setTop(l0, r)
				case top[r]:
					top[l0] = true
				}
			} else if l0 != "" && c.tracked[l0] && len(s.layers) > 0 {
				s.layers = append(s.layers, fmt.Sprintf("SkUnknown %s", tx.CoqString("stack variable assigned "+c.canon(rhs[0]))))
				setTop(l0)
			}
		}
	}

	var walk func(list []ast.Stmt, guards []string)
	var walkStmt func(st ast.Stmt, guards []string)
	walkFuncLits := func(e ast.Node, guards []string) {
		ast.Inspect(e, func(n ast.Node) bool {
			if fl, ok := n.(*ast.FuncLit); ok {
				walk(fl.Body.List, guards)
				return false
			}
			return true
		})
	}
	walkStmt = func(st ast.Stmt, guards []string) {
		switch x := st.(type) {
		case nil:
		case *ast.IfStmt:
			walkStmt(x.Init, guards)
			cond := c.canon(x.Cond)
			// `if v, err = wrap(...); err != nil` : the condition is error handling, not a guard
			walk(x.Body.List, append(append([]string{}, guards...), cond))
			if x.Else != nil {
				walkStmt(x.Else, append(append([]string{}, guards...), "!("+cond+")"))
			}
		case *ast.BlockStmt:
			walk(x.List, guards)
		case *ast.ForStmt:
			walkStmt(x.Init, guards)
			walk(x.Body.List, guards)
		case *ast.RangeStmt:
			walk(x.Body.List, guards)
		case *ast.SwitchStmt:
			walk(x.Body.List, guards)
		case *ast.TypeSwitchStmt:
			walk(x.Body.List, guards)
		case *ast.SelectStmt:
			walk(x.Body.List, guards)
		case *ast.CaseClause:
			walk(x.Body, guards)
		case *ast.CommClause:
			walk(x.Body, guards)
		case *ast.LabeledStmt:
			walkStmt(x.Stmt, guards)
		case *ast.AssignStmt:
			handleAssign(x.Lhs, x.Rhs, x.Pos(), guards)
			walkFuncLits(x, guards)
		case *ast.DeclStmt:
			if gd, ok := x.Decl.(*ast.GenDecl); ok {
				for _, sp := range gd.Specs {
					if vs, ok := sp.(*ast.ValueSpec); ok && len(vs.Values) == len(vs.Names) {
						for i := range vs.Names {
							handleAssign([]ast.Expr{vs.Names[i]}, []ast.Expr{vs.Values[i]}, vs.Pos(), guards)
						}
					}
				}
			}
		case *ast.ExprStmt:
			if p, f, call := c.pkgCall(x.X); p == impLibio && f == "Join" && len(call.Args) == 2 {
				consumed[call] = true
				s.joins = append(s.joins, fmt.Sprintf("(%s, %s)", coqBool(top[identName(call.Args[0])]), coqBool(top[identName(call.Args[1])])))
			}
			walkFuncLits(x, guards)
		case *ast.GoStmt:
			walkFuncLits(x, guards)
		case *ast.DeferStmt:
			walkFuncLits(x, guards)
		case *ast.ReturnStmt:
			walkFuncLits(x, guards)
		}
	}
	walk = func(list []ast.Stmt, guards []string) {
		for _, st := range list {
			// Join may appear as `a, b, errs := libio.Join(x, y)`
			if as, ok := st.(*ast.AssignStmt); ok && len(as.Rhs) == 1 {
				if p, f, call := c.pkgCall(as.Rhs[0]); p == impLibio && f == "Join" && len(call.Args) == 2 {
					consumed[call] = true
					s.joins = append(s.joins, fmt.Sprintf("(%s, %s)", coqBool(top[identName(call.Args[0])]), coqBool(top[identName(call.Args[1])])))
					continue
				}
			}
			walkStmt(st, guards)
		}
	}
	walk(fd.Body.List, nil)

	// anything from the wrapper packages that was not consumed is unknown
	ast.Inspect(fd.Body, func(n ast.Node) bool {
		if call, ok := n.(*ast.CallExpr); ok && !consumed[call] {
			if p, f, _ := c.pkgCall(call); p == impLibio || p == impLimit {
				s.layers = append(s.layers, fmt.Sprintf("SkUnknown %s", tx.CoqString("unrecognised use of "+p[strings.LastIndex(p, "/")+1:]+"."+f)))
			}
		}
		return true
	})
	return s, nil
}

// ---- plumbing around the stacks ----

func findCalls(c *fnCtx, method string) []*ast.CallExpr {
	var res []*ast.CallExpr
	ast.Inspect(c.fd.Body, func(n ast.Node) bool {
		if call, ok := n.(*ast.CallExpr); ok {
			if sel, ok := call.Fun.(*ast.SelectorExpr); ok && sel.Sel.Name == method {
				res = append(res, call)
			}
		}
		return true
	})
	return res
}

func findLits(c *fnCtx, pkgPath, typ string) []*ast.CompositeLit {
	var res []*ast.CompositeLit
	ast.Inspect(c.fd.Body, func(n ast.Node) bool {
		if cl, ok := n.(*ast.CompositeLit); ok {
			if sel, ok := cl.Type.(*ast.SelectorExpr); ok && sel.Sel.Name == typ {
				if id, ok := sel.X.(*ast.Ident); ok && c.fi.imports[id.Name] == pkgPath {
					res = append(res, cl)
				}
			}
		}
		return true
	})
	return res
}

func litFields(c *fnCtx, cl *ast.CompositeLit) []string {
	var out []string
	for _, e := range cl.Elts {
		if kv, ok := e.(*ast.KeyValueExpr); ok {
			out = append(out, fmt.Sprintf("(%s, %s)", tx.CoqString(identName(kv.Key)), tx.CoqString(c.canon(kv.Value))))
		} else {
			out = append(out, fmt.Sprintf("(%s, %s)", tx.CoqString("?positional"), tx.CoqString(c.canon(e))))
		}
	}
	return out
}

func ctxOf(rel, fname string) (*fnCtx, error) {
	fi, err := parse(rel)
	if err != nil {
		return nil, err
	}
	fd := fi.fn(fname)
	if fd == nil {
		return nil, fmt.Errorf("%s: func %s not found", rel, fname)
	}
	return newCtx(fi, fd), nil
}

func coqList(items []string, indent string) string {
	if len(items) == 0 {
		return "[]"
	}
	return "[\n" + indent + strings.Join(items, ";\n"+indent) + "\n  ]"
}

var stackSites = [][2]string{
	{"server/proxy/proxy.go", "handleUserTCPConnection"},
	{"server/proxy/http.go", "GetRealConn"},
	{"server/proxy/udp.go", "Run"},
	{"server/visitor/visitor.go", "NewConn"},
	{"client/proxy/proxy.go", "HandleTCPWorkConnection"},
	{"client/proxy/udp.go", "InWorkConn"},
	{"client/proxy/sudp.go", "InWorkConn"},
	{"client/visitor/stcp.go", "handleConn"},
	{"client/visitor/sudp.go", "getNewVisitorConn"},
	{"client/visitor/xtcp.go", "handleConn"},
}

func genStacks() ([]byte, error) {
	var b bytes.Buffer
	b.WriteString(`(* GENERATED by translator unit t5 (translator/cmd/t5) from the Go sources on every run.  Do not edit.

   FORMAT (types in Model/StackTypes.v):
   stack_sites : list sk_site — one entry per function that builds a tunnel wrapper stack.
     sk_layers lists the wrappers in WRAPPING order (first = applied first = next to the wire;
     last = outermost).  SkEnc guard key wraps_top | SkComp guard pooled wraps_top |
     SkLimit guard rd_top wr_top close | SkToConn wraps_top | SkStats wraps_top | SkUnknown what.
     guard  = canonical condition(s) of the enclosing if statement(s), joined by " && " ("" = unconditional)
     key    = canonical key expression with the []byte conversion stripped
     *_top  = the wrapped argument is the current top of the stack (false = something else is wrapped)
     close  = what the limiter wrapper's close function closes (CtInner is the only correct shape)
     sk_joins = (a_is_top, b_is_top) for every libio.Join(a, b) in the function.
   Canonical expressions: $recv receiver, $i i-th parameter, single-definition locals expanded
   (#k = k-th result), $v<k> declared-only locals, $multi:<n> several definitions, $top stack variable.
   enc_key_args           (file, func, canonical 3rd argument) of each HandleTCPWorkConnection call
   control_crypto_sites   (file, func, canonical key) of each NewCryptoReadWriter call
   start_work_conn_fields (field, canonical value) of the msg.StartWorkConn literal in GetWorkConnFromPool
   get_work_conn_args     canonical arguments of GetWorkConnFromPool in handleUserTCPConnection
   client_dispatch_args   canonical arguments of pm.HandleWorkConn in client handleReqWorkConn
   client_dispatch_lookup canonical map lookups in proxy.Manager.HandleWorkConn
   visitor_conn_fields    (field, value) of msg.NewVisitorConn in client/visitor/stcp.go handleConn
   visitor_newconn_args   canonical arguments of VisitorManager.NewConn in server/service.go
   pp_header_fields       (field, value) of the pp.Header literal in HandleTCPWorkConnection
   pp_field_assigns       (guard, "root.field", value) for assignments to fields of locals there
   pp_writes              (callee, argument) of every WriteTo call there
   handshake_readers      (file, func, canonical first argument) of every msg.ReadMsg / msg.ReadMsgInto call in the functions
                          that read a handshake message from a connection and then hand the SAME connection to the tunnel
                          (stcp visitor handleConn, client handleReqWorkConn): a buffering reader in between swallows bytes
   bw_scale_expr          canonical expression assigned to the byte count in BandwidthQuantity.UnmarshalString
   bw_units               (unit constant, bytes) MB and KB of pkg/config/types
   limiter_ctors          (file, canonical guard, rate argument, burst argument) of the rate.NewLimiter call in the client's
                          and the server's proxy constructor
   stcp_visitor_events    what stcp visitor handleConn does to the visitor connection in source order: "arm:/clear:<SetXDeadline>",
                          prefixed "defer:" when inside a defer statement, "readmsg", "join"
   xtcp_fallback          the xtcp visitor's fallback decision in handleConn: "enclosing:<cond>" of the block that contains the
                          TransferConn call, then in source order "guard:<cond>" for every if statement of that block that returns
                          before the transfer, and "transfer:<visitor name>,<connection>"
   muxer_handle_events    what vhost.Muxer.handle does to a connection, in SOURCE ORDER: "arm:<SetXDeadline>" /
                          "clear:<SetXDeadline>" (argument time.Time{}), "sniff" (v.vhostFunc), "failHook", "successHook",
                          "checkAuth", "handoff" (send on l.accept), "?..." anything else that touches the connection
   tcpmux_hooks           (setter, argument) of the hook registrations in tcpmux.NewHTTPConnectTCPMuxer
   connect_response       canonical calls in HTTPConnectTCPMuxer.sendConnectResponse (what the success hook writes)
   yamux_cfg_sites        (file, func, field, canonical value) of every assignment to a field of the yamux config at the
                          two sites that open a session (client/connector.go Open, server/service.go HandleListener)
   yamux_window_bytes     (file, func, MaxStreamWindowSize in bytes, -1 if not a constant) at those sites
   yamux_default_close_timeout_ms   StreamCloseTimeout of yamux DefaultConfig() in the module cache (-1 = not found) *)
From FRP Require Import Model.StackTypes.
Open Scope string_scope.

Definition T5_translated : bool := true.

`)
	var sites []string
	for _, sf := range stackSites {
		s, err := extractSite(sf[0], sf[1])
		if err != nil {
			// a missing function is reported as a site with one unknown layer
			s = &site{file: sf[0], fn: sf[1], layers: []string{fmt.Sprintf("SkUnknown %s", tx.CoqString(tx.Sanitize(err.Error())))}}
		}
		sites = append(sites, fmt.Sprintf("{| sk_file := %s; sk_func := %s;\n       sk_layers := %s;\n       sk_joins := [%s] |}",
			tx.CoqString(s.file), tx.CoqString(s.fn), coqList(s.layers, "         "), strings.Join(s.joins, "; ")))
	}
	fmt.Fprintf(&b, "Definition stack_sites : list sk_site := %s.\n\n", coqList(sites, "    "))

	triple := func(a, bb, cc string) string {
		return fmt.Sprintf("(%s, %s, %s)", tx.CoqString(a), tx.CoqString(bb), tx.CoqString(cc))
	}
	// enc key call sites
	var keyArgs []string
	for _, rel := range []string{"client/proxy/proxy.go", "client/proxy/xtcp.go", "client/proxy/stcp.go", "client/proxy/general_tcp.go", "client/proxy/sudp.go", "client/proxy/udp.go"} {
		fi, err := parse(rel)
		if err != nil {
			continue
		}
		for _, d := range fi.f.Decls {
			fd, ok := d.(*ast.FuncDecl)
			if !ok || fd.Body == nil {
				continue
			}
			c := newCtx(fi, fd)
			for _, call := range findCalls(c, "HandleTCPWorkConnection") {
				k := "?arity"
				if len(call.Args) == 3 {
					k = c.canon(stripBytesConv(call.Args[2]))
				}
				keyArgs = append(keyArgs, triple(rel, fd.Name.Name, k))
			}
		}
	}
	fmt.Fprintf(&b, "Definition enc_key_args : list (string * string * string) := %s.\n\n", coqList(keyArgs, "    "))

	var ctlSites []string
	for _, rel := range []string{"server/control.go", "client/control.go"} {
		fi, err := parse(rel)
		if err != nil {
			continue
		}
		for _, d := range fi.f.Decls {
			fd, ok := d.(*ast.FuncDecl)
			if !ok || fd.Body == nil {
				continue
			}
			c := newCtx(fi, fd)
			for _, call := range findCalls(c, "NewCryptoReadWriter") {
				k := "?arity"
				if len(call.Args) == 2 {
					k = c.canon(stripBytesConv(call.Args[1]))
				}
				ctlSites = append(ctlSites, triple(rel, fd.Name.Name, k))
			}
		}
	}
	fmt.Fprintf(&b, "Definition control_crypto_sites : list (string * string * string) := %s.\n\n", coqList(ctlSites, "    "))

	pairsOf := func(name string, items []string) {
		fmt.Fprintf(&b, "Definition %s : list (string * string) := %s.\n\n", name, coqList(items, "    "))
	}
	strsOf := func(name string, items []string) {
		fmt.Fprintf(&b, "Definition %s : list string := %s.\n\n", name, coqList(items, "    "))
	}
	canonArgs := func(c *fnCtx, call *ast.CallExpr) []string {
		var out []string
		for _, a := range call.Args {
			out = append(out, tx.CoqString(c.canon(a)))
		}
		return out
	}

	// StartWorkConn literal
	var swc []string
	if c, err := ctxOf("server/proxy/proxy.go", "GetWorkConnFromPool"); err == nil {
		lits := findLits(c, impMsg, "StartWorkConn")
		if len(lits) == 1 {
			swc = litFields(c, lits[0])
		} else {
			swc = []string{fmt.Sprintf("(%s, %s)", tx.CoqString("?"), tx.CoqString(fmt.Sprintf("%d StartWorkConn literals", len(lits))))}
		}
	} else {
		swc = []string{fmt.Sprintf("(%s, %s)", tx.CoqString("?"), tx.CoqString(tx.Sanitize(err.Error())))}
	}
	pairsOf("start_work_conn_fields", swc)

	var gwc []string
	if c, err := ctxOf("server/proxy/proxy.go", "handleUserTCPConnection"); err == nil {
		calls := findCalls(c, "GetWorkConnFromPool")
		if len(calls) == 1 {
			gwc = canonArgs(c, calls[0])
		} else {
			gwc = []string{tx.CoqString(fmt.Sprintf("?%d calls", len(calls)))}
		}
	}
	strsOf("get_work_conn_args", gwc)

	var cda []string
	if c, err := ctxOf("client/control.go", "handleReqWorkConn"); err == nil {
		calls := findCalls(c, "HandleWorkConn")
		if len(calls) == 1 {
			cda = canonArgs(c, calls[0])
		} else {
			cda = []string{tx.CoqString(fmt.Sprintf("?%d calls", len(calls)))}
		}
	}
	strsOf("client_dispatch_args", cda)

	var cdl []string
	if c, err := ctxOf("client/proxy/proxy_manager.go", "HandleWorkConn"); err == nil {
		ast.Inspect(c.fd.Body, func(n ast.Node) bool {
			if ix, ok := n.(*ast.IndexExpr); ok {
				cdl = append(cdl, tx.CoqString(c.canonD(ix.X, 0)+"["+c.canon(ix.Index)+"]"))
			}
			return true
		})
		for _, call := range findCalls(c, "InWorkConn") {
			cdl = append(cdl, tx.CoqString("call "+c.canon(call)))
		}
	}
	strsOf("client_dispatch_lookup", cdl)

	var vcf []string
	if c, err := ctxOf("client/visitor/stcp.go", "handleConn"); err == nil {
		lits := findLits(c, impMsg, "NewVisitorConn")
		if len(lits) == 1 {
			vcf = litFields(c, lits[0])
		}
	}
	pairsOf("visitor_conn_fields", vcf)

	var vna []string
	if fi, err := parse("server/service.go"); err == nil {
		for _, d := range fi.f.Decls {
			fd, ok := d.(*ast.FuncDecl)
			if !ok || fd.Body == nil {
				continue
			}
			c := newCtx(fi, fd)
			for _, call := range findCalls(c, "NewConn") {
				if sel, ok := call.Fun.(*ast.SelectorExpr); ok && strings.HasSuffix(c.canon(sel.X), "VisitorManager") {
					vna = append(vna, canonArgs(c, call)...)
				}
			}
		}
	}
	strsOf("visitor_newconn_args", vna)

	// proxy protocol header
	var ppf, ppw []string
	var ppa []string
	if c, err := ctxOf("client/proxy/proxy.go", "HandleTCPWorkConnection"); err == nil {
		lits := findLits(c, impPP, "Header")
		if len(lits) == 1 {
			ppf = litFields(c, lits[0])
		} else {
			ppf = []string{fmt.Sprintf("(%s, %s)", tx.CoqString("?"), tx.CoqString(fmt.Sprintf("%d pp.Header literals", len(lits))))}
		}
		var walk func(list []ast.Stmt, guards []string)
		walk = func(list []ast.Stmt, guards []string) {
			for _, st := range list {
				switch x := st.(type) {
				case *ast.IfStmt:
					cond := c.canon(x.Cond)
					walk(x.Body.List, append(append([]string{}, guards...), cond))
					if x.Else != nil {
						switch e := x.Else.(type) {
						case *ast.BlockStmt:
							walk(e.List, append(append([]string{}, guards...), "!("+cond+")"))
						case *ast.IfStmt:
							walk([]ast.Stmt{e}, append(append([]string{}, guards...), "!("+cond+")"))
						}
					}
				case *ast.AssignStmt:
					if len(x.Lhs) == 1 && len(x.Rhs) == 1 {
						if sel, ok := x.Lhs[0].(*ast.SelectorExpr); ok {
							if root := identName(sel.X); root != "" {
								ppa = append(ppa, triple(strings.Join(guards, " && "), root+"."+sel.Sel.Name, c.canon(x.Rhs[0])))
							}
						}
					}
				}
			}
		}
		walk(c.fd.Body.List, nil)
		for _, call := range findCalls(c, "WriteTo") {
			arg := "?"
			if len(call.Args) == 1 {
				arg = c.canon(call.Args[0])
			}
			ppw = append(ppw, fmt.Sprintf("(%s, %s)", tx.CoqString(c.canon(call.Fun)), tx.CoqString(arg)))
		}
	}
	pairsOf("pp_header_fields", ppf)
	fmt.Fprintf(&b, "Definition pp_field_assigns : list (string * string * string) := %s.\n\n", coqList(ppa, "    "))
	pairsOf("pp_writes", ppw)
	var hrd []string
	for _, sf := range [][2]string{{"client/visitor/stcp.go", "handleConn"}, {"client/control.go", "handleReqWorkConn"}, {"client/visitor/sudp.go", "getNewVisitorConn"}} {
		c, err := ctxOf(sf[0], sf[1])
		if err != nil {
			hrd = append(hrd, triple(sf[0], sf[1], "?"+tx.Sanitize(err.Error())))
			continue
		}
		n := 0
		for _, name := range []string{"ReadMsgInto", "ReadMsg"} {
			for _, call := range findCalls(c, name) {
				if len(call.Args) >= 1 {
					hrd = append(hrd, triple(sf[0], sf[1], c.canon(call.Args[0])))
					n++
				}
			}
		}
		if n == 0 {
			hrd = append(hrd, triple(sf[0], sf[1], "?no ReadMsg call"))
		}
	}
	fmt.Fprintf(&b, "Definition handshake_readers : list (string * string * string) := %s.\n\n", coqList(hrd, "    "))

	// bandwidth quantity: string -> bytes -> limiter
	bwExpr := "?"
	if c, err := ctxOf("pkg/config/types/types.go", "UnmarshalString"); err == nil {
		ast.Inspect(c.fd.Body, func(n ast.Node) bool {
			if as, ok := n.(*ast.AssignStmt); ok && len(as.Lhs) == 1 && len(as.Rhs) == 1 {
				if sel, ok := as.Lhs[0].(*ast.SelectorExpr); ok && sel.Sel.Name == "i" && identName(sel.X) == c.recv {
					if bwExpr == "?" {
						bwExpr = c.canon(as.Rhs[0])
					} else {
						bwExpr = "?several assignments"
					}
				}
			}
			return true
		})
	}
	fmt.Fprintf(&b, "Definition bw_scale_expr : string := %s.\n\n", tx.CoqString(bwExpr))
	var units []string
	if fi, err := parse("pkg/config/types/types.go"); err == nil {
		for _, d := range fi.f.Decls {
			if gd, ok := d.(*ast.GenDecl); ok && gd.Tok == token.CONST {
				for _, sp := range gd.Specs {
					vs := sp.(*ast.ValueSpec)
					for i, n := range vs.Names {
						if (n.Name == "MB" || n.Name == "KB") && i < len(vs.Values) {
							v, ok := constInt(vs.Values[i])
							if !ok {
								v = -1
							}
							units = append(units, fmt.Sprintf("(%s, (%d)%%Z)", tx.CoqString(n.Name), v))
						}
					}
				}
			}
		}
	}
	fmt.Fprintf(&b, "Definition bw_units : list (string * Z) := %s.\n\n", coqList(units, "    "))
	var ctors []string
	for _, rel := range []string{"client/proxy/proxy.go", "server/proxy/proxy.go"} {
		c, err := ctxOf(rel, "NewProxy")
		if err != nil {
			ctors = append(ctors, fmt.Sprintf("(%s, %s, %s, %s)", tx.CoqString(rel), tx.CoqString("?"), tx.CoqString("?"), tx.CoqString("?")))
			continue
		}
		var walk func(list []ast.Stmt, guard string)
		walk = func(list []ast.Stmt, guard string) {
			for _, st := range list {
				switch x := st.(type) {
				case *ast.IfStmt:
					walk(x.Body.List, c.canon(x.Cond))
				case *ast.AssignStmt:
					if len(x.Rhs) == 1 {
						if call, ok := x.Rhs[0].(*ast.CallExpr); ok {
							if sel, ok := call.Fun.(*ast.SelectorExpr); ok && sel.Sel.Name == "NewLimiter" && len(call.Args) == 2 {
								ctors = append(ctors, fmt.Sprintf("(%s, %s, %s, %s)", tx.CoqString(rel), tx.CoqString(guard), tx.CoqString(c.canon(call.Args[0])), tx.CoqString(c.canon(call.Args[1]))))
							}
						}
					}
				}
			}
		}
		walk(c.fd.Body.List, "")
	}
	fmt.Fprintf(&b, "Definition limiter_ctors : list (string * string * string * string) := %s.\n\n", coqList(ctors, "    "))

	// stcp visitor: deadlines on the visitor connection relative to the join
	var sve []string
	if c, err := ctxOf("client/visitor/stcp.go", "handleConn"); err == nil {
		var visit func(n ast.Node, pre string)
		visit = func(n ast.Node, pre string) {
			ast.Inspect(n, func(m ast.Node) bool {
				switch x := m.(type) {
				case *ast.DeferStmt:
					visit(x.Call, "defer:")
					return false
				case *ast.CallExpr:
					if sel, ok := x.Fun.(*ast.SelectorExpr); ok {
						switch sel.Sel.Name {
						case "SetDeadline", "SetReadDeadline", "SetWriteDeadline":
							kind := "arm"
							if len(x.Args) == 1 {
								if cl, ok := x.Args[0].(*ast.CompositeLit); ok && len(cl.Elts) == 0 && typeString(cl.Type) == "time.Time" {
									kind = "clear"
								}
							}
							sve = append(sve, pre+kind+":"+sel.Sel.Name)
						case "ReadMsgInto", "ReadMsg":
							sve = append(sve, pre+"readmsg")
						case "Join":
							sve = append(sve, pre+"join")
						}
					}
				}
				return true
			})
		}
		visit(c.fd.Body, "")
	} else {
		sve = []string{"?" + tx.Sanitize(err.Error())}
	}
	var sveq []string
	for _, e := range sve {
		sveq = append(sveq, tx.CoqString(e))
	}
	strsOf("stcp_visitor_events", sveq)

	// xtcp visitor: when is the user connection handed to the fallback visitor
	var xfb []string
	if c, err := ctxOf("client/visitor/xtcp.go", "handleConn"); err == nil {
		hasTransfer := func(n ast.Node) *ast.CallExpr {
			var res *ast.CallExpr
			ast.Inspect(n, func(m ast.Node) bool {
				if call, ok := m.(*ast.CallExpr); ok {
					if sel, ok := call.Fun.(*ast.SelectorExpr); ok && sel.Sel.Name == "TransferConn" {
						res = call
					}
				}
				return true
			})
			return res
		}
		var search func(list []ast.Stmt, enclosing string) bool
		search = func(list []ast.Stmt, enclosing string) bool {
			for i, st := range list {
				call := hasTransfer(st)
				if call == nil {
					continue
				}
				// descend if the call sits in a nested block of an if statement whose own header does not hold it
				if ifs, ok := st.(*ast.IfStmt); ok && (ifs.Init == nil || hasTransfer(ifs.Init) == nil) && hasTransfer(ifs.Cond) == nil {
					if search(ifs.Body.List, c.canon(ifs.Cond)) {
						return true
					}
				}
				xfb = append(xfb, "enclosing:"+enclosing)
				for _, prev := range list[:i] {
					if ifs, ok := prev.(*ast.IfStmt); ok {
						returns := false
						for _, b := range ifs.Body.List {
							if _, ok := b.(*ast.ReturnStmt); ok {
								returns = true
							}
						}
						if returns {
							xfb = append(xfb, "guard:"+c.canon(ifs.Cond))
						} else {
							xfb = append(xfb, "?if "+c.canon(ifs.Cond))
						}
					}
				}
				var args []string
				for _, a := range call.Args {
					args = append(args, c.canon(a))
				}
				xfb = append(xfb, "transfer:"+strings.Join(args, ","))
				return true
			}
			return false
		}
		if !search(c.fd.Body.List, "") {
			xfb = []string{"?no TransferConn call"}
		}
	} else {
		xfb = []string{"?" + tx.Sanitize(err.Error())}
	}
	var xfbq []string
	for _, e := range xfb {
		xfbq = append(xfbq, tx.CoqString(e))
	}
	strsOf("xtcp_fallback", xfbq)

	// vhost muxer: order of events on a connection
	var mev []string
	if c, err := ctxOf("pkg/util/vhost/vhost.go", "handle"); err == nil {
		ast.Inspect(c.fd.Body, func(n ast.Node) bool {
			switch x := n.(type) {
			case *ast.SendStmt:
				if strings.HasSuffix(c.canon(x.Chan), ".accept") {
					mev = append(mev, "handoff")
				} else {
					mev = append(mev, "?send "+c.canon(x.Chan))
				}
			case *ast.CallExpr:
				sel, ok := x.Fun.(*ast.SelectorExpr)
				if !ok {
					return true
				}
				switch sel.Sel.Name {
				case "SetDeadline", "SetReadDeadline", "SetWriteDeadline":
					kind := "arm"
					if len(x.Args) == 1 {
						if cl, ok := x.Args[0].(*ast.CompositeLit); ok && len(cl.Elts) == 0 && typeString(cl.Type) == "time.Time" {
							kind = "clear"
						}
					}
					mev = append(mev, kind+":"+sel.Sel.Name)
				case "vhostFunc":
					mev = append(mev, "sniff")
				case "failHook", "successHook", "checkAuth":
					mev = append(mev, sel.Sel.Name)
				case "Write", "WriteTo", "Read", "ReadFrom":
					mev = append(mev, "?"+c.canon(x))
				}
			}
			return true
		})
	} else {
		mev = []string{"?" + tx.Sanitize(err.Error())}
	}
	var mevq []string
	for _, e := range mev {
		mevq = append(mevq, tx.CoqString(e))
	}
	strsOf("muxer_handle_events", mevq)

	var hooks, cresp []string
	if c, err := ctxOf("pkg/util/tcpmux/httpconnect.go", "NewHTTPConnectTCPMuxer"); err == nil {
		ast.Inspect(c.fd.Body, func(n ast.Node) bool {
			if call, ok := n.(*ast.CallExpr); ok {
				if sel, ok := call.Fun.(*ast.SelectorExpr); ok && strings.HasPrefix(sel.Sel.Name, "Set") && strings.HasSuffix(sel.Sel.Name, "Func") && len(call.Args) == 1 {
					hooks = append(hooks, fmt.Sprintf("(%s, %s)", tx.CoqString(sel.Sel.Name), tx.CoqString(c.canon(call.Args[0]))))
				}
			}
			return true
		})
	}
	pairsOf("tcpmux_hooks", hooks)
	if c, err := ctxOf("pkg/util/tcpmux/httpconnect.go", "sendConnectResponse"); err == nil {
		ast.Inspect(c.fd.Body, func(n ast.Node) bool {
			switch x := n.(type) {
			case *ast.IfStmt:
				cresp = append(cresp, tx.CoqString("if "+c.canon(x.Cond)))
			case *ast.ReturnStmt:
				if len(x.Results) == 1 {
					cresp = append(cresp, tx.CoqString("return "+c.canon(x.Results[0])))
				}
			}
			return true
		})
	}
	strsOf("connect_response", cresp)

	// yamux session configuration
	var ycfg, ywin []string
	for _, sf := range [][2]string{{"client/connector.go", "Open"}, {"server/service.go", "HandleListener"}} {
		c, err := ctxOf(sf[0], sf[1])
		if err != nil {
			ycfg = append(ycfg, fmt.Sprintf("(%s, %s, %s, %s)", tx.CoqString(sf[0]), tx.CoqString(sf[1]), tx.CoqString("?"), tx.CoqString(tx.Sanitize(err.Error()))))
			continue
		}
		cfgVars := map[string]bool{}
		ast.Inspect(c.fd.Body, func(n ast.Node) bool {
			if as, ok := n.(*ast.AssignStmt); ok && len(as.Lhs) == 1 && len(as.Rhs) == 1 {
				if call, ok := as.Rhs[0].(*ast.CallExpr); ok {
					if sel, ok := call.Fun.(*ast.SelectorExpr); ok && sel.Sel.Name == "DefaultConfig" {
						if id, ok := sel.X.(*ast.Ident); ok && strings.HasSuffix(c.fi.imports[id.Name], "/yamux") {
							cfgVars[identName(as.Lhs[0])] = true
						}
					}
				}
			}
			return true
		})
		win := int64(-1)
		ast.Inspect(c.fd.Body, func(n ast.Node) bool {
			if as, ok := n.(*ast.AssignStmt); ok && len(as.Lhs) == 1 && len(as.Rhs) == 1 {
				if sel, ok := as.Lhs[0].(*ast.SelectorExpr); ok && cfgVars[identName(sel.X)] {
					delete(c.defs, identName(sel.X)) // render the config variable by name, not by its definition
					val := c.canon(as.Rhs[0])
					val = strings.ReplaceAll(val, identName(sel.X)+".", "$cfg.")
					ycfg = append(ycfg, fmt.Sprintf("(%s, %s, %s, %s)", tx.CoqString(sf[0]), tx.CoqString(sf[1]), tx.CoqString(sel.Sel.Name), tx.CoqString(val)))
					if sel.Sel.Name == "MaxStreamWindowSize" {
						if v, ok := constInt(as.Rhs[0]); ok {
							win = v
						}
					}
				}
			}
			return true
		})
		if len(cfgVars) == 0 {
			ycfg = append(ycfg, fmt.Sprintf("(%s, %s, %s, %s)", tx.CoqString(sf[0]), tx.CoqString(sf[1]), tx.CoqString("?"), tx.CoqString("no yamux DefaultConfig() in this function")))
		}
		ywin = append(ywin, fmt.Sprintf("(%s, %s, (%d)%%Z)", tx.CoqString(sf[0]), tx.CoqString(sf[1]), win))
	}
	fmt.Fprintf(&b, "Definition yamux_cfg_sites : list (string * string * string * string) := %s.\n\n", coqList(ycfg, "    "))
	fmt.Fprintf(&b, "Definition yamux_window_bytes : list (string * string * Z) := %s.\n\n", coqList(ywin, "    "))
	fmt.Fprintf(&b, "Definition yamux_default_close_timeout_ms : Z := (%d)%%Z.\n", yamuxDefaultCloseTimeoutMs())
	return b.Bytes(), nil
}

// constInt evaluates integer literals combined with * (e.g. 6 * 1024 * 1024).
func constInt(e ast.Expr) (int64, bool) {
	switch x := e.(type) {
	case *ast.BasicLit:
		if x.Kind == token.INT {
			v, err := strconv.ParseInt(x.Value, 0, 64)
			return v, err == nil
		}
	case *ast.ParenExpr:
		return constInt(x.X)
	case *ast.BinaryExpr:
		a, ok1 := constInt(x.X)
		bb, ok2 := constInt(x.Y)
		if ok1 && ok2 && x.Op == token.MUL {
			return a * bb, true
		}
	}
	return 0, false
}

// yamuxDefaultCloseTimeoutMs reads StreamCloseTimeout of DefaultConfig() from the yamux module the repository
// pins in go.mod (module cache), as N * time.<Unit>.
func yamuxDefaultCloseTimeoutMs() int64 {
	gomod, err := os.ReadFile(filepath.Join(tx.Repo, "go.mod"))
	if err != nil {
		return -1
	}
	ver := ""
	for _, line := range strings.Split(string(gomod), "\n") {
		f := strings.Fields(line)
		for i := 0; i+1 < len(f); i++ {
			if f[i] == "github.com/fatedier/yamux" && strings.HasPrefix(f[i+1], "v") {
				ver = f[i+1] // a replace directive comes later in the file and wins
			}
		}
	}
	if ver == "" {
		return -1
	}
	cache := os.Getenv("GOMODCACHE")
	if cache == "" {
		gp := os.Getenv("GOPATH")
		if gp == "" {
			home, _ := os.UserHomeDir()
			gp = filepath.Join(home, "go")
		}
		cache = filepath.Join(gp, "pkg", "mod")
	}
	f, err := parser.ParseFile(token.NewFileSet(), filepath.Join(cache, "github.com", "fatedier", "yamux@"+ver, "mux.go"), nil, 0)
	if err != nil {
		return -1
	}
	res := int64(-1)
	units := map[string]int64{"Millisecond": 1, "Second": 1000, "Minute": 60000, "Hour": 3600000}
	ast.Inspect(f, func(n ast.Node) bool {
		fd, ok := n.(*ast.FuncDecl)
		if !ok || fd.Name.Name != "DefaultConfig" {
			return true
		}
		ast.Inspect(fd, func(m ast.Node) bool {
			kv, ok := m.(*ast.KeyValueExpr)
			if !ok || identName(kv.Key) != "StreamCloseTimeout" {
				return true
			}
			if be, ok := kv.Value.(*ast.BinaryExpr); ok && be.Op == token.MUL {
				if v, ok := constInt(be.X); ok {
					if sel, ok := be.Y.(*ast.SelectorExpr); ok {
						if u, ok := units[sel.Sel.Name]; ok {
							res = v * u
						}
					}
				}
			}
			return false
		})
		return false
	})
	return res
}
