from vlib import Check

PID = "C13"

MANIFEST = dict(
    text="Machine-checked theorems (Coq 8.16.1) over one executable model of the three load-balancing group controllers "
         "(server/group tcp.go, http.go, tcpmux.go) at lock / channel-operation granularity: a join is two atomic steps (lookup-or-create "
         "under the controller lock; first-member or later-member branch under the group lock), a leave closes the hand-off channel, the "
         "real listener, releases the port/route and removes the group by name; close of a closed channel is an explicit Crashed state. "
         "Proved: key/parameter checks with the code's specific errors, refused joins change nothing (a refused FIRST join leaves an "
         "empty group object in the table: F-C10c, proved and observed), hand-off only to a current member, http counter rotation; and "
         "for ALL request lists and ALL schedules of the current code (join = one atomic step under the controller lock, after the "
         "repair of F-C13): no crash, endpoint open iff the controller's table holds a group with members for it, detached objects "
         "are dead, members = successful joins that have not left, the group can be recreated at once after its last leave. The old "
         "two-step join is kept as regression-witness theorems (crash for tcp/tcpmux, leaked route for http) and the same schedules "
         "are attempted on the real controllers through verifhook gates in child processes on every run.",
    note="Trusted: Coq kernel+VM; harness transcription; gates at the two model-step boundaries. ports.Manager and vhost.Routers are "
         "modelled only as far as the groups use them (used set, allowed range, oracle for the port-0 choice, OS probe and net.Listen). "
         "The lock structure of the six join/leave functions and the shape of Accept/Close are read from the source on every run "
         "(translator unit c13locks) and checked reflectively. Exercised through the exported controllers and through a whole in-process frps.",
    technique="Coq proof (inductive invariant over schedules; vm_compute witnesses for refutations) + gate-driven differential correspondence",
    design="4/C13")


def q(tier, quick, thorough):
    return quick if tier == "quick" else thorough


def recipe(c: Check):
    c.build(["Properties/C13.vo", "Corr/C13.vo"], harness=["c13"], units=["c13locks"])
    c.obligations("C13")
    st = c.run_driver("groups", q(c.tier, 240, 3000), shards=q(c.tier, 4, 16), timeout=1500)
    st2 = c.run_driver("sysgroups", q(c.tier, 1, 6), shards=1, timeout=600)
    ctr2 = c.cov.get("coq_counters", {}).get("sysgroups", {})
    if st2 and ctr2:
        for name in ("NSYSDELIVERED", "NSYSREFUSEDJOIN"):
            if ctr2.get(name, 0) <= 0:
                c.broken.append(dict(kind="coverage", name="counter %s is 0 in the whole-frps driver" % name, detail=str(ctr2)))
    ctr = c.cov.get("coq_counters", {}).get("groups", {})
    if st and ctr:
        # branches the property names must have been reached
        for name in ("NDELIVERED", "NREFUSEDJOIN", "NSHELL"):
            if ctr.get(name, 0) <= 0:
                c.broken.append(dict(kind="coverage", name="counter %s is 0: a branch the property names was never reached" % name,
                                     detail=str(ctr)))
        # the theorems say the current model never shows these; seeing one means model and proofs have drifted apart
        for name in ("NCRASH", "NLOST", "NORPHAN"):
            if ctr.get(name, 0) != 0:
                c.failures.append(dict(key="monitor:C13:%s" % name.lower(), driver="groups",
                                       what="the model itself shows a crash / orphan endpoint / lost connection on an executed schedule",
                                       case=str(ctr)))
        d = st.get("distribution", {})
        if sum(v for k, v in d.items() if k.startswith("overlap-attempted:")) <= 0:
            c.broken.append(dict(kind="coverage", name="no join/last-leave overlap was attempted through the gates", detail=str(d)))
    return c.finish(
        rule="groups driver: for each of tcp/http/tcpmux, real exported controllers (group.NewTCPGroupCtl with a real ports.Manager on "
             "127.0.13.1:21300-21349, group.NewHTTPGroupController with real vhost.Routers + HTTPReverseProxy route configs, "
             "group.NewTCPMuxGroupCtl with a real tcpmux.HTTPConnectTCPMuxer) driven by (a) sequential histories of joins (right/wrong "
             "key, same/different port, address, route parameters, repeated name, port 0, not-allowed / foreign-bound ports, unknown "
             "multiplexer), leaves, connections/requests (which member's Accept() returns it / which CreateConnFn is called), environment "
             "take/free of the port or route; (b) rotation histories; (c) gate-driven schedules (after_lookup, before_handoff) incl. the "
             "F-C13 shapes; each case replayed by Model.Group.run on the same request list and schedule; compared: per-thread outcome "
             "(join result + error kind + real port, receiver of each connection, refused/stranded), crash, controller table (name, "
             "member count), used ports/routes, open endpoints, listeners whose Accept died, total number of connections returned by "
             "Accept calls; (d) choreographies through the group lock: a member closing while a connection waits at the hand-off "
             "(select race in Accept, 18 rounds), a join started inside the last leave's critical section. sysgroups driver: whole "
             "in-process frps + real in-process frpc clients with grouped tcp/http/tcpmux proxies and labelled backends (joins, wrong "
             "key, other port, user connections, session drops, recreation with another key), replayed by the same model. distinct = "
             "distinct case text; non-trivial = at least 2 requests",
        assumptions=["oracles (operation arguments): port chosen for remotePort=0, OS probe result, net.Listen result, receiver among blocked Accept calls",
                     "each group listener is closed at most once (BaseProxy.Close is the only caller); a second Close would panic on closeCh",
                     "ports.Manager reserved-port bookkeeping and vhost prefix/wildcard matching are outside this model (C09, C06)"])
