(* C19 — proofs about the visitor manager model (Model/Reconcile.v: vm_update, vm_keep) *)
From Coq Require Import List ZArith Bool Lia.
From FRP Require Import Model.Wrapper Model.Reconcile Proofs.ReconcileProofs.
Import ListNotations.
Open Scope Z_scope.

Section DelFacts.
  Context {V : Type}.
  Implicit Types m : rc_map V.

  Lemma rc_get_del_same : forall m k, rc_get (rc_del m k) k = None.
  Proof.
    induction m as [|[k0 v0] r IH]; intros k; simpl; auto.
    destruct (k0 =? k) eqn:E; simpl; auto. rewrite E. apply IH.
  Qed.

  Lemma rc_get_del_other : forall m k k', k <> k' -> rc_get (rc_del m k) k' = rc_get m k'.
  Proof.
    induction m as [|[k0 v0] r IH]; intros k k' Hne; simpl; auto.
    destruct (k0 =? k) eqn:E; simpl.
    - apply Z.eqb_eq in E. subst k0. destruct (k =? k') eqn:E2; [apply Z.eqb_eq in E2; congruence|]. apply IH; auto.
    - destruct (k0 =? k'); auto.
  Qed.

  Lemma rc_keys_del_in : forall m k k', In k' (rc_keys (rc_del m k)) -> In k' (rc_keys m).
  Proof.
    induction m as [|[k0 v0] r IH]; intros k k' H; simpl in *; auto.
    destruct (k0 =? k); simpl in *.
    - right. eapply IH; eauto.
    - destruct H as [H|H]; auto. right. eapply IH; eauto.
  Qed.

  Lemma rc_keys_del_nodup : forall m k, NoDup (rc_keys m) -> NoDup (rc_keys (rc_del m k)).
  Proof.
    induction m as [|[k0 v0] r IH]; intros k Hnd; simpl; auto.
    inversion Hnd as [|? ? Hn Hr]; subst. destruct (k0 =? k); simpl; auto.
    constructor; auto. intros Hin. apply Hn. eapply rc_keys_del_in; eauto.
  Qed.

  Lemma rc_keys_set_nodup : forall m k v, NoDup (rc_keys m) -> NoDup (rc_keys (rc_set m k v)).
  Proof.
    intros m k v Hnd. destruct (rc_get m k) as [v0|] eqn:Hg.
    - assert (rc_keys (rc_set m k v) = rc_keys m) as ->; auto.
      clear Hnd. revert k v v0 Hg. induction m as [|[k0 x] r IH]; intros k v v0 Hg; simpl in *; try discriminate.
      destruct (k0 =? k) eqn:E; simpl.
      + apply Z.eqb_eq in E. subst. reflexivity.
      + f_equal. eapply IH; eauto.
    - rewrite rc_keys_set_absent; auto. apply NoDup_app_snoc_c19; auto.
      intros Hin. apply rc_get_notin_conv in Hin. congruence.
  Qed.

  Lemma rc_get_set : forall m k v k', rc_get (rc_set m k v) k' = if k =? k' then Some v else rc_get m k'.
  Proof.
    intros m k v k'. destruct (k =? k') eqn:E.
    - apply Z.eqb_eq in E. subst. apply rc_get_set_same.
    - apply rc_get_set_other. intros H. subst. rewrite Z.eqb_refl in E. discriminate.
  Qed.

  Lemma rc_get_del : forall m k k', rc_get (rc_del m k) k' = if k =? k' then None else rc_get m k'.
  Proof.
    intros m k k'. destruct (k =? k') eqn:E.
    - apply Z.eqb_eq in E. subst. apply rc_get_del_same.
    - apply rc_get_del_other. intros H. subst. rewrite Z.eqb_refl in E. discriminate.
  Qed.
End DelFacts.

(* ---- well-formed visitor manager states ---- *)
Definition vm_wf (s : vm_state) : Prop :=
  NoDup (rc_keys (vm_cfgs s)) /\ NoDup (rc_keys (vm_vis s)) /\
  (forall n c, rc_get (vm_cfgs s) n = Some c -> rc_name c = n) /\
  (forall n id, rc_get (vm_vis s) n = Some id -> rc_get (vm_cfgs s) n <> None /\ id < vm_next s).

Lemma vm_wf_init : vm_wf vm_init.
Proof. repeat split; simpl; try constructor; intros; discriminate. Qed.

(* ---- delete loop ---- *)
Fixpoint vm_deleted (cm : rc_map rc_cfg) (l : rc_map rc_cfg) (n : Z) : bool :=
  match l with
  | [] => false
  | (k, old) :: r => ((k =? n) && negb (rc_keep cm k old)) || vm_deleted cm r n
  end.

Lemma vm_deleted_notin : forall cm l n, ~ In n (rc_keys l) -> vm_deleted cm l n = false.
Proof.
  intros cm l. induction l as [|[k old] r IH]; intros n Hn; simpl; auto.
  destruct (k =? n) eqn:E.
  - apply Z.eqb_eq in E. subst. exfalso. apply Hn. left; reflexivity.
  - simpl. apply IH. intros H. apply Hn. right; assumption.
Qed.

Lemma vm_deleted_get : forall cm l n, NoDup (rc_keys l) ->
  vm_deleted cm l n = match rc_get l n with Some old => negb (rc_keep cm n old) | None => false end.
Proof.
  intros cm l. induction l as [|[k old] r IH]; intros n Hnd; simpl; auto.
  inversion Hnd as [|? ? Hn Hr]; subst. destruct (k =? n) eqn:E; simpl.
  - apply Z.eqb_eq in E. subst. rewrite (vm_deleted_notin cm r n Hn). apply orb_false_r.
  - apply IH; auto.
Qed.

Lemma vm_del_loop_spec : forall cm l s, NoDup (rc_keys l) ->
  let r := vm_del_loop cm l s in
  vm_next (fst r) = vm_next s /\
  (forall n, rc_get (vm_cfgs (fst r)) n = if vm_deleted cm l n then None else rc_get (vm_cfgs s) n) /\
  (forall n, rc_get (vm_vis (fst r)) n = if vm_deleted cm l n then None else rc_get (vm_vis s) n) /\
  (forall id n, In (VMClosed id n) (snd r) <-> vm_deleted cm l n = true /\ rc_get (vm_vis s) n = Some id) /\
  (forall e, In e (snd r) -> exists id n, e = VMClosed id n) /\
  (NoDup (rc_keys (vm_cfgs s)) -> NoDup (rc_keys (vm_cfgs (fst r)))) /\
  (NoDup (rc_keys (vm_vis s)) -> NoDup (rc_keys (vm_vis (fst r)))).
Proof.
  intros cm l. induction l as [|[k old] r IH]; intros s Hnd; simpl.
  - repeat split; auto; try (intros [H _]; discriminate); intros; contradiction.
  - inversion Hnd as [|? ? Hk Hr]; subst. destruct (rc_keep cm k old) eqn:K.
    + destruct (IH s Hr) as (I1 & I2 & I3 & I4 & I5 & I6 & I7). cbv zeta in *.
      assert (Hs : forall n, ((k =? n) && negb true || vm_deleted cm r n) = vm_deleted cm r n)
        by (intros n; simpl; rewrite andb_false_r; reflexivity).
      split; [exact I1|]. split; [intros n; rewrite Hs; apply I2|]. split; [intros n; rewrite Hs; apply I3|].
      split; [intros id n; rewrite Hs; apply I4|]. auto.
    + set (s1 := {| vm_cfgs := rc_del (vm_cfgs s) k; vm_vis := rc_del (vm_vis s) k; vm_next := vm_next s |}).
      destruct (IH s1 Hr) as (I1 & I2 & I3 & I4 & I5 & I6 & I7). cbv zeta in *.
      destruct (vm_del_loop cm r s1) as [s2 evs]. simpl in *.
      pose proof (vm_deleted_notin cm r k Hk) as Hdk.
      split; [exact I1|]. split.
      { intros n. rewrite I2, rc_get_del. destruct (k =? n) eqn:E; simpl; auto.
        destruct (vm_deleted cm r n); reflexivity. }
      split.
      { intros n. rewrite I3, rc_get_del. destruct (k =? n) eqn:E; simpl; auto.
        destruct (vm_deleted cm r n); reflexivity. }
      split.
      { intros id n. rewrite in_app_iff, I4, rc_get_del. split.
        - intros [H|[H1 H2]].
          + destruct (rc_get (vm_vis s) k) as [id0|] eqn:Hv; simpl in H; [|contradiction].
            destruct H as [H|[]]. inversion H; subst. rewrite Z.eqb_refl. simpl. auto.
          + destruct (k =? n) eqn:E; [discriminate|]. simpl. auto.
        - intros [H1 H2]. destruct (k =? n) eqn:E; simpl in H1.
          + apply Z.eqb_eq in E. subst n. left. rewrite H2. left; reflexivity.
          + right. auto. }
      split.
      { intros e Hin. apply in_app_or in Hin. destruct Hin as [Hin|Hin]; [|apply I5; auto].
        destruct (rc_get (vm_vis s) k) as [id0|]; simpl in Hin; [|contradiction].
        destruct Hin as [Hin|[]]. subst. eauto. }
      split.
      { intros H. apply I6. apply rc_keys_del_nodup. exact H. }
      { intros H. apply I7. apply rc_keys_del_nodup. exact H. }
Qed.

(* ---- startVisitor ---- *)
Lemma vm_start_spec : forall s c ok, vm_wf s -> rc_get (vm_cfgs s) (rc_name c) <> None ->
  rc_get (vm_vis s) (rc_name c) = None ->
  let r := vm_start s c ok in
  vm_wf (fst r) /\ vm_cfgs (fst r) = vm_cfgs s /\ vm_next s <= vm_next (fst r) /\
  (forall n, n <> rc_name c -> rc_get (vm_vis (fst r)) n = rc_get (vm_vis s) n) /\
  (if ok then rc_get (vm_vis (fst r)) (rc_name c) = Some (vm_next s) /\ vm_next (fst r) = vm_next s + 1 /\
              snd r = [VMStarted (vm_next s) (rc_name c)]
   else fst r = s /\ snd r = [VMStartFailed (rc_name c)]).
Proof.
  intros s c ok (W1 & W2 & W3 & W4) Hc Hv. unfold vm_start. destruct ok; simpl.
  - split.
    + split; [exact W1|]. split; [apply rc_keys_set_nodup; exact W2|]. split; [exact W3|].
      intros n id H. simpl in H. rewrite rc_get_set in H. destruct (rc_name c =? n) eqn:E.
      * apply Z.eqb_eq in E. subst n. inversion H; subst. simpl. split; [exact Hc|lia].
      * destruct (W4 n id H). simpl. split; auto. lia.
    + split; auto. split; [lia|]. split.
      * intros n Hn. apply rc_get_set_other. auto.
      * split; [apply rc_get_set_same|auto].
  - repeat split; auto; try lia; apply (W4 n id H).
Qed.

(* ---- add loop ---- *)
Lemma vm_add_loop_spec : forall cfgs ok s, vm_wf s ->
  let r := vm_add_loop cfgs ok s in
  vm_wf (fst r) /\ vm_next s <= vm_next (fst r) /\
  (forall n, rc_get (vm_cfgs (fst r)) n =
             match rc_get (vm_cfgs s) n with Some c => Some c | None => rc_first cfgs n end) /\
  (forall n, rc_get (vm_cfgs s) n <> None -> rc_get (vm_vis (fst r)) n = rc_get (vm_vis s) n) /\
  (forall n, rc_get (vm_cfgs s) n = None -> rc_first cfgs n = None -> rc_get (vm_vis (fst r)) n = None) /\
  (forall n c, rc_get (vm_cfgs s) n = None -> rc_first cfgs n = Some c ->
     if ok n then exists id, vm_next s <= id < vm_next (fst r) /\ rc_get (vm_vis (fst r)) n = Some id /\
                             In (VMStarted id n) (snd r)
     else rc_get (vm_vis (fst r)) n = None /\ In (VMStartFailed n) (snd r)) /\
  (forall e, In e (snd r) ->
     match e with VMClosed _ _ => False | VMStarted _ n | VMStartFailed n => rc_get (vm_cfgs s) n = None end) /\
  ((forall c, In c cfgs -> rc_get (vm_cfgs s) (rc_name c) <> None) -> r = (s, [])).
Proof.
  induction cfgs as [|c r IH]; intros ok s Hwf; simpl.
  - split; [exact Hwf|]. split; [lia|]. split; [intros n; destruct (rc_get (vm_cfgs s) n); reflexivity|].
    split; [auto|]. split.
    { intros n Hn _. destruct Hwf as (_ & _ & _ & W4). destruct (rc_get (vm_vis s) n) as [id|] eqn:E; auto.
      destruct (W4 n id E). contradiction. }
    split; [intros; discriminate|]. split; [intros e []|auto].
  - destruct (rc_get (vm_cfgs s) (rc_name c)) as [c0|] eqn:Hg.
    + destruct (IH ok s Hwf) as (I1 & I2 & I3 & I4 & I5 & I6 & I7 & I8). cbv zeta in *.
      split; [exact I1|]. split; [exact I2|]. split.
      { intros n. rewrite I3. destruct (rc_get (vm_cfgs s) n) eqn:E; auto.
        destruct (rc_name c =? n) eqn:E2; auto. apply Z.eqb_eq in E2. subst. congruence. }
      split; [exact I4|]. split.
      { intros n Hn Hf. apply I5; auto. destruct (rc_name c =? n) eqn:E2; auto. discriminate. }
      split.
      { intros n c' Hn Hf. apply (I6 n c'); auto. destruct (rc_name c =? n) eqn:E2; auto.
        apply Z.eqb_eq in E2. subst. congruence. }
      split; [exact I7|]. intros H. apply I8. intros c' Hin. apply H. right; assumption.
    + set (s1 := {| vm_cfgs := rc_set (vm_cfgs s) (rc_name c) c; vm_vis := vm_vis s; vm_next := vm_next s |}).
      destruct Hwf as (W1 & W2 & W3 & W4).
      assert (Hwf1 : vm_wf s1).
      { repeat split; simpl; auto.
        - apply rc_keys_set_nodup; auto.
        - intros n c' H. rewrite rc_get_set in H. destruct (rc_name c =? n) eqn:E.
          + inversion H; subst. apply Z.eqb_eq in E. auto.
          + apply (W3 n c' H).
        - rewrite rc_get_set. destruct (rc_name c =? n); [discriminate|]. apply (W4 n id H).
        - apply (W4 n id H). }
      assert (Hv : rc_get (vm_vis s) (rc_name c) = None).
      { destruct (rc_get (vm_vis s) (rc_name c)) as [id|] eqn:E; auto. destruct (W4 _ _ E). contradiction. }
      assert (Hc1 : rc_get (vm_cfgs s1) (rc_name c) <> None) by (simpl; rewrite rc_get_set_same; discriminate).
      pose proof (vm_start_spec s1 c (ok (rc_name c)) Hwf1 Hc1 Hv) as Hst. cbv zeta in Hst.
      destruct (vm_start s1 c (ok (rc_name c))) as [s2 ev] eqn:Es.
      destruct Hst as (S1 & S2 & S3 & S4 & S5). simpl in S1, S2, S3, S4, S5.
      destruct (IH ok s2 S1) as (I1 & I2 & I3 & I4 & I5 & I6 & I7 & I8). cbv zeta in *.
      destruct (vm_add_loop r ok s2) as [s3 evs] eqn:El. simpl in *.
      split; [exact I1|]. split; [lia|]. split.
      { intros n. rewrite I3, S2. simpl. rewrite rc_get_set. destruct (rc_name c =? n) eqn:E.
        - apply Z.eqb_eq in E. subst. rewrite Hg. reflexivity.
        - reflexivity. }
      split.
      { intros n Hn. assert (n <> rc_name c) by (intros Heq; subst; contradiction).
        rewrite I4; [apply S4; auto|]. rewrite S2. simpl. rewrite rc_get_set.
        destruct (rc_name c =? n); [discriminate|auto]. }
      split.
      { intros n Hn Hf. destruct (rc_name c =? n) eqn:E; [discriminate|].
        apply I5; auto. rewrite S2. simpl. rewrite rc_get_set, E. exact Hn. }
      split.
      { intros n c' Hn Hf. destruct (rc_name c =? n) eqn:E.
        - apply Z.eqb_eq in E. subst n. inversion Hf; subst c'.
          assert (Hkeep : rc_get (vm_vis s3) (rc_name c) = rc_get (vm_vis s2) (rc_name c)).
          { apply I4. rewrite S2. simpl. rewrite rc_get_set_same. discriminate. }
          destruct (ok (rc_name c)).
          + destruct S5 as (A & B & C). exists (vm_next s). split; [lia|]. split; [congruence|].
            apply in_or_app. left. rewrite C. left; reflexivity.
          + destruct S5 as (A & B). subst s2. simpl in Hkeep. split; [congruence|].
            apply in_or_app. left. rewrite B. left; reflexivity.
        - assert (Hn2 : rc_get (vm_cfgs s2) n = None) by (rewrite S2; simpl; rewrite rc_get_set, E; exact Hn).
          specialize (I6 n c' Hn2 Hf). destruct (ok n).
          + destruct I6 as (id & A & B & C). exists id. split; [lia|]. split; auto. apply in_or_app; right; auto.
          + destruct I6 as (A & B). split; auto. apply in_or_app; right; auto. }
      split.
      { intros e Hin. apply in_app_or in Hin. destruct Hin as [Hin|Hin].
        - destruct (ok (rc_name c)).
          + destruct S5 as (_ & _ & C). rewrite C in Hin. destruct Hin as [Hin|[]]. subst e. exact Hg.
          + destruct S5 as (_ & C). rewrite C in Hin. destruct Hin as [Hin|[]]. subst e. exact Hg.
        - specialize (I7 e Hin). destruct e; auto; rewrite S2 in I7; simpl in I7; rewrite rc_get_set in I7;
            destruct (rc_name c =? name); try discriminate; auto. }
      intros H. exfalso. apply (H c); [left; reflexivity|exact Hg].
Qed.

(* ---- one round of keepVisitorsRunning ---- *)
Lemma vm_keep_loop_spec : forall l ok s, vm_wf s ->
  NoDup (rc_keys l) ->
  (forall k c, In (k, c) l -> rc_name c = k /\ rc_get (vm_cfgs s) k <> None) ->
  let r := vm_keep_loop l ok s in
  vm_wf (fst r) /\ vm_cfgs (fst r) = vm_cfgs s /\ vm_next s <= vm_next (fst r) /\
  (forall n id, rc_get (vm_vis s) n = Some id -> rc_get (vm_vis (fst r)) n = Some id) /\
  (forall n, ~ In n (rc_keys l) -> rc_get (vm_vis (fst r)) n = rc_get (vm_vis s) n) /\
  (forall n, In n (rc_keys l) -> rc_get (vm_vis s) n = None ->
     if ok n then exists id, vm_next s <= id /\ rc_get (vm_vis (fst r)) n = Some id /\ In (VMStarted id n) (snd r)
     else rc_get (vm_vis (fst r)) n = None) /\
  (forall e, In e (snd r) -> match e with VMClosed _ _ => False | _ => True end).
Proof.
  induction l as [|[k c] r IH]; intros ok s Hwf Hnd Hl; simpl.
  - split; [exact Hwf|]. split; [reflexivity|]. split; [lia|]. split; [auto|]. split; [auto|].
    split; [intros n []|intros e []].
  - inversion Hnd as [|? ? Hk Hr]; subst.
    destruct (Hl k c (or_introl eq_refl)) as [Hname Hcfg]. rewrite Hname.
    assert (Hl' : forall k' c', In (k', c') r -> rc_name c' = k' /\ rc_get (vm_cfgs s) k' <> None)
      by (intros; apply Hl; right; assumption).
    destruct (rc_get (vm_vis s) k) as [id0|] eqn:Hv.
    + destruct (IH ok s Hwf Hr Hl') as (I1 & I2 & I3 & I4 & I5 & I6 & I7). cbv zeta in *.
      split; [exact I1|]. split; [exact I2|]. split; [exact I3|]. split; [exact I4|]. split.
      { intros n Hn. apply I5. intros H. apply Hn. right; assumption. }
      split; [|exact I7].
      intros n [Hn|Hn] Hnone; [subst; congruence|]. apply I6; auto.
    + assert (Hc1 : rc_get (vm_cfgs s) (rc_name c) <> None) by (rewrite Hname; exact Hcfg).
      assert (Hv1 : rc_get (vm_vis s) (rc_name c) = None) by (rewrite Hname; exact Hv).
      pose proof (vm_start_spec s c (ok k) Hwf Hc1 Hv1) as Hst. cbv zeta in Hst.
      destruct (vm_start s c (ok k)) as [s1 ev] eqn:Es. simpl in Hst.
      destruct Hst as (S1 & S2 & S3 & S4 & S5). rewrite Hname in S4, S5.
      assert (Hl1 : forall k' c', In (k', c') r -> rc_name c' = k' /\ rc_get (vm_cfgs s1) k' <> None)
        by (intros k' c' Hin; rewrite S2; apply Hl'; assumption).
      destruct (IH ok s1 S1 Hr Hl1) as (I1 & I2 & I3 & I4 & I5 & I6 & I7). cbv zeta in *.
      destruct (vm_keep_loop r ok s1) as [s2 evs] eqn:El. simpl in *.
      split; [exact I1|]. split; [congruence|]. split; [lia|]. split.
      { intros n id Hn. apply I4. rewrite S4; auto. intros Heq. subst. congruence. }
      split.
      { intros n Hn. rewrite I5; [|intros H; apply Hn; right; assumption].
        apply S4. intros Heq. subst. apply Hn. left; reflexivity. }
      split.
      { intros n [Hn|Hn] Hnone.
        - subst n. destruct (ok k).
          + destruct S5 as (A & B & C). exists (vm_next s). split; [lia|]. split; [apply I4; exact A|].
            apply in_or_app. left. rewrite C. left; reflexivity.
          + destruct S5 as (A & B). subst s1. rewrite I5; auto.
        - assert (n <> k) by (intros Heq; subst; contradiction).
          assert (Hn1 : rc_get (vm_vis s1) n = None) by (rewrite S4; auto).
          specialize (I6 n Hn Hn1). destruct (ok n); auto.
          destruct I6 as (id & A & B & C). exists id. split; [lia|]. split; auto. apply in_or_app; right; auto. }
      intros e Hin. apply in_app_or in Hin. destruct Hin as [Hin|Hin]; [|apply I7; auto].
      destruct (ok k).
      * destruct S5 as (_ & _ & C). rewrite C in Hin. destruct Hin as [Hin|[]]. subst; exact I.
      * destruct S5 as (_ & C). rewrite C in Hin. destruct Hin as [Hin|[]]. subst; exact I.
Qed.

(* keepVisitorsRunning: running visitors are left alone, the configuration table is untouched, and
   every configured visitor that is not running is started again; it runs iff Run() succeeds *)
Theorem vm_keep_restarts : forall s ok, vm_wf s ->
  let r := vm_keep s ok in
  vm_wf (fst r) /\ vm_cfgs (fst r) = vm_cfgs s /\
  (forall n id, rc_get (vm_vis s) n = Some id -> rc_get (vm_vis (fst r)) n = Some id) /\
  (forall n c, rc_get (vm_cfgs s) n = Some c -> rc_get (vm_vis s) n = None ->
     if ok n then exists id, vm_next s <= id /\ rc_get (vm_vis (fst r)) n = Some id /\ In (VMStarted id n) (snd r)
     else rc_get (vm_vis (fst r)) n = None) /\
  (forall e, In e (snd r) -> match e with VMClosed _ _ => False | _ => True end).
Proof.
  intros s ok Hwf. unfold vm_keep. pose proof Hwf as (W1 & W2 & W3 & W4).
  assert (Hl : forall k c, In (k, c) (vm_cfgs s) -> rc_name c = k /\ rc_get (vm_cfgs s) k <> None).
  { intros k c Hin. pose proof (rc_in_get _ _ _ W1 Hin) as Hg. split; [apply (W3 k c Hg)|congruence]. }
  destruct (vm_keep_loop_spec (vm_cfgs s) ok s Hwf W1 Hl) as (I1 & I2 & I3 & I4 & I5 & I6 & I7). cbv zeta in *.
  split; [exact I1|]. split; [exact I2|]. split; [exact I4|]. split; [|exact I7].
  intros n c Hg Hv. apply I6; auto. eapply rc_get_some_in_keys; eauto.
Qed.

Corollary vm_keep_all_running : forall s ok, vm_wf s -> (forall n, ok n = true) ->
  forall n c, rc_get (vm_cfgs (fst (vm_keep s ok))) n = Some c -> rc_get (vm_vis (fst (vm_keep s ok))) n <> None.
Proof.
  intros s ok Hwf Hok n c Hg. destruct (vm_keep_restarts s ok Hwf) as (_ & H2 & H3 & H4 & _). cbv zeta in *.
  rewrite H2 in Hg. destruct (rc_get (vm_vis s) n) as [id|] eqn:Hv.
  - rewrite (H3 n id Hv). discriminate.
  - specialize (H4 n c Hg Hv). rewrite Hok in H4. destruct H4 as (id & _ & H & _). congruence.
Qed.

(* ---- UpdateAll ---- *)
Lemma vm_del_loop_all_keep : forall cm l s,
  (forall k old, In (k, old) l -> rc_keep cm k old = true) -> vm_del_loop cm l s = (s, []).
Proof.
  intros cm l. induction l as [|[k old] r IH]; intros s H; simpl; auto.
  rewrite (H k old (or_introl eq_refl)). apply IH. intros; apply H; right; assumption.
Qed.

Theorem vm_update_converges : forall s cfgs ok, vm_wf s ->
  let r := vm_update s cfgs ok in
  vm_wf (fst r) /\
  (forall n, rc_get (vm_cfgs (fst r)) n = rc_first cfgs n) /\
  (* unchanged entries: same visitor object (or still none), nothing closed, nothing started *)
  (forall n c, rc_get (vm_cfgs s) n = Some c -> rc_first cfgs n = Some c ->
     rc_get (vm_vis (fst r)) n = rc_get (vm_vis s) n /\
     (forall e, In e (snd r) -> match e with VMClosed _ m | VMStarted _ m | VMStartFailed m => m <> n end)) /\
  (* entries that disappeared or changed: their running visitor was closed *)
  (forall n c id, rc_get (vm_cfgs s) n = Some c -> rc_first cfgs n <> Some c ->
     rc_get (vm_vis s) n = Some id -> In (VMClosed id n) (snd r)) /\
  (* new and changed entries are started; they run iff Run() succeeds, with a fresh visitor object *)
  (forall n c', rc_first cfgs n = Some c' -> rc_get (vm_cfgs s) n <> Some c' ->
     if ok n then exists id, vm_next s <= id /\ rc_get (vm_vis (fst r)) n = Some id /\ In (VMStarted id n) (snd r)
     else rc_get (vm_vis (fst r)) n = None /\ In (VMStartFailed n) (snd r)) /\
  (* names that are not configured any more have no visitor *)
  (forall n, rc_first cfgs n = None -> rc_get (vm_vis (fst r)) n = None).
Proof.
  intros s cfgs ok Hwf. pose proof Hwf as (W1 & W2 & W3 & W4). unfold vm_update.
  set (cm := rc_cfgs_map cfgs).
  destruct (vm_del_loop_spec cm (vm_cfgs s) s W1) as (D1 & D2 & D3 & D4 & D5 & D6 & D7). cbv zeta in *.
  destruct (vm_del_loop cm (vm_cfgs s) s) as [s1 ev1] eqn:Ed. simpl in *.
  assert (Hdel : forall n, vm_deleted cm (vm_cfgs s) n =
                           match rc_get (vm_cfgs s) n with Some old => negb (rc_keep cm n old) | None => false end)
    by (intros n; apply vm_deleted_get; exact W1).
  assert (Hwf1 : vm_wf s1).
  { split; [apply D6; exact W1|]. split; [apply D7; exact W2|]. split.
    - intros n c H. rewrite D2 in H. destruct (vm_deleted cm (vm_cfgs s) n); [discriminate|]. apply (W3 n c H).
    - intros n id H. rewrite D3 in H. rewrite D2. destruct (vm_deleted cm (vm_cfgs s) n); [discriminate|].
      rewrite D1. apply (W4 n id H). }
  destruct (vm_add_loop_spec cfgs ok s1 Hwf1) as (A1 & A2 & A3 & A4 & A5 & A6 & A7 & _). cbv zeta in *.
  destruct (vm_add_loop cfgs ok s1) as [s2 ev2] eqn:Ea. simpl in *.
  assert (Hs1 : forall n, rc_get (vm_cfgs s1) n =
                          match rc_get (vm_cfgs s) n with
                          | Some old => if rc_keep cm n old then Some old else None
                          | None => None end).
  { intros n. rewrite D2, Hdel. destruct (rc_get (vm_cfgs s) n) as [old|]; auto. destruct (rc_keep cm n old); reflexivity. }
  split; [exact A1|]. split.
  { intros n. rewrite A3, Hs1. destruct (rc_get (vm_cfgs s) n) as [old|] eqn:Hg; auto.
    destruct (rc_keep cm n old) eqn:K; auto. apply rc_keep_spec in K. congruence. }
  split.
  { intros n c Hg Hf. assert (K : rc_keep cm n c = true) by (apply rc_keep_spec; exact Hf).
    assert (Hc1 : rc_get (vm_cfgs s1) n = Some c) by (rewrite Hs1, Hg, K; reflexivity).
    split.
    - rewrite A4; [|congruence]. rewrite D3, Hdel, Hg, K. reflexivity.
    - intros e Hin. apply in_app_or in Hin. destruct Hin as [Hin|Hin].
      + destruct (D5 e Hin) as (id & m & He). subst e. intros Heq. subst m.
        apply D4 in Hin. destruct Hin as [Hd _]. rewrite Hdel, Hg, K in Hd. discriminate.
      + specialize (A7 e Hin). destruct e; try contradiction; intros Heq; subst; congruence. }
  split.
  { intros n c id Hg Hf Hv. apply in_or_app. left. apply D4. split; auto.
    rewrite Hdel, Hg. destruct (rc_keep cm n c) eqn:K; auto. apply rc_keep_spec in K. contradiction. }
  split.
  { intros n c' Hf Hne. assert (Hc1 : rc_get (vm_cfgs s1) n = None).
    { rewrite Hs1. destruct (rc_get (vm_cfgs s) n) as [old|] eqn:Hg; auto.
      destruct (rc_keep cm n old) eqn:K; auto. apply rc_keep_spec in K. congruence. }
    specialize (A6 n c' Hc1 Hf). destruct (ok n).
    - destruct A6 as (id & X & Y & Z). exists id. split; [lia|]. split; auto. apply in_or_app; right; auto.
    - destruct A6 as (X & Y). split; auto. apply in_or_app; right; auto. }
  intros n Hf. apply A5; auto. rewrite Hs1. destruct (rc_get (vm_cfgs s) n) as [old|] eqn:Hg; auto.
  destruct (rc_keep cm n old) eqn:K; auto. apply rc_keep_spec in K. congruence.
Qed.

(* loading the identical set again (any duplicates, any Run() results) changes nothing *)
Theorem vm_update_identical : forall s cfgs ok1 ok2, vm_wf s ->
  vm_update (fst (vm_update s cfgs ok1)) cfgs ok2 = (fst (vm_update s cfgs ok1), []).
Proof.
  intros s cfgs ok1 ok2 Hwf. destruct (vm_update_converges s cfgs ok1 Hwf) as (H1 & H2 & _). cbv zeta in *.
  set (s1 := fst (vm_update s cfgs ok1)) in *. pose proof H1 as (W1 & _).
  unfold vm_update. rewrite vm_del_loop_all_keep.
  - destruct (vm_add_loop_spec cfgs ok2 s1 H1) as (_ & _ & _ & _ & _ & _ & _ & A8). cbv zeta in A8.
    rewrite A8; auto. intros c Hin Hnone. rewrite H2 in Hnone. apply (rc_first_in cfgs c Hin Hnone).
  - intros k old Hin. apply rc_keep_spec. rewrite <- H2. apply rc_in_get; auto.
Qed.
