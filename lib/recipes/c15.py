from vlib import Check

PID = "C15"

MANIFEST = dict(
    text="Machine-checked theorems (Coq 8.16.1) over an executable model of the server plugin manager "
         "(pkg/plugin/server/manager.go Register and the six loops, http.go Handle/do) and of its call sites: the chain "
         "returns Ok c' iff every plugin registered for the operation accepted and c' is the left fold of the modifications; "
         "consulted = the prefix up to and including the first non-accept, in registration order, each shown the content as "
         "rewritten so far; any transport error / non-200 / malformed body / reject refuses; plugins not registered for an "
         "operation are never consulted; every handler acts on the returned content and refuses on error; every proxy "
         "removed by CloseProxy or by session end yields exactly one notification. The loops, Register and the call sites "
         "are regenerated from the Go source on every run (translator T6) as an instruction IR whose interpreter is proved "
         "equal to the chain for every table the reflective checker accepts; today's table is checked by the kernel.",
    note="Trusted: Coq kernel+VM; translator T6 (go/ast) for the shapes it reports; harness transcription. encoding/json and "
         "net/http are oracles (transport result, status, body-parse result are inputs of the model's HTTP decision); what "
         "they do on resets, truncated bodies and garbage is observed by the driver with real HTTP stubs. A reply "
         "{\"unchange\":false,\"content\":null} panics the manager (modelled as RCrash, reported as a finding). Contents are "
         "compared as 64-bit digests of their JSON text.",
    technique="Coq proof (induction, reflective checker over a translated IR) + differential correspondence via vm_compute",
    design="4/C15")


def q(tier, quick, thorough):
    return quick if tier == "quick" else thorough


def recipe(c: Check):
    c.build(["Properties/C15.vo", "Corr/C15.vo"], harness=["c15"], units=["t6"])
    c.obligations("C15")
    # reflective obligations over today's tables: table_ok, sites_ok, nsites_ok (each an eq_refl inside a theorem above)
    st = c.run_driver("plugins", q(c.tier, 1500, 20000), shards=q(c.tier, 8, 16), timeout=q(c.tier, 600, 3000))
    if st is not None:
        if st.get("null_content_reply_crashes_frps"):
            c.failures.append(dict(key="impl:null-content-reply-crashes-frps", driver="plugins",
                                   what="a plugin reply {\"unchange\":false,\"content\":null} to Login is not refused cleanly: "
                                        + str(st.get("null_content_probe_detail"))[:600],
                                   case="work/h_c15 nullcrash -extra Login   (child process: in-process frps, one HTTP plugin for Login, scripted login)"))
        cnt = c.cov.get("coq_counters", {}).get("plugins", {})
        need = ["NOK", "NREJECTED", "NERROR", "NTHREADED", "NMULTI", "NHTTP", "NSYS", "NNOTIFY", "NUNREACHABLE", "NDUPNAMES"]
        missing = [k for k in need if cnt.get(k, 0) <= 0]
        d = st.get("distribution") or {}
        for k in ("gateway-session-seen", "gateway-login-shown-to-plugin-with-always-auth-pass", "sys-slow-plugin-answer",
                  "notify-behind-slow-plugin", "sys-legacy-ini-config"):
            if d.get(k, 0) <= 0 and not st.get("impl_failures"):
                missing.append(k)
        if missing and not c.broken:
            c.broken.append(dict(kind="sanity", name="driver plugins never reached: " + ",".join(missing),
                                 detail="a model branch the property names was not exercised by this run: %s" % cnt))
    return c.finish(
        rule="plugins driver: chains of 0-4 stub plugins, each registered for a random subset of the six operation strings "
             "(plus near-miss strings), one scripted reply per plugin: (1) Go values implementing plugin.Plugin on the real "
             "Manager (raw res/retContent/err triples incl. nil content), (2) real HTTP plugins (NewHTTPPluginOptions) against "
             "stub HTTP servers on 127.0.15.x (non-200 with an acceptable body, RST, close without reply, truncated body, "
             "garbage / mistyped / trailing JSON, reject, unchange with content, unchange=false with modified / absent / null "
             "content, bodies {} and null), (3) an in-process frps started like cmd/frps from a TOML/JSON configuration file (LoadServerConfig incl. Complete, validation, "
             "NewService) whose httpPlugins entries have arbitrary names (omitted, empty, duplicates), and a scripted peer: the gated operation's "
             "visible effect (LoginResp, NewProxyResp, Pong, StartWorkConn, user connection served) must be the one derived "
             "from the chain's returned content, and CloseProxy notifications on explicit close and session end; plus sessions that enter through the ssh tunnel gateway (authorized_keys, real x/crypto ssh client, virtual frpc on the internal listener): Login, NewProxy, NewWorkConn and NewUserConn of such a session are gated like an ordinary session's. Compared with "
             "the IR interpreter over today's translated tables and with the chain specification: manager answer (content "
             "digest / reject reason / generic error / panic) and the ordered list of requests each stub received (plugin, op "
             "string, content digest). distinct = distinct case text; non-trivial = at least one plugin consulted",
        assumptions=["encoding/json and net/http are oracles: the model's HTTP decision takes (transport result, status, body-parse result) as inputs; "
                     "the harness scripts real sockets to realise each of them and observes the outcome",
                     "contents are compared by a 64-bit digest of their canonical JSON text",
                     "Go map iteration order at session end is an oracle; notifications are compared as multisets"])
