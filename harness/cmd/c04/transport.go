package main

// Network listeners other than plain tcp: the same dial hooks the real frpc uses (client/connector.go).
// kcp is left out: a KCP session has no close notification, so "the server closed the connection"
// is not observable by a scripted peer.

import (
	"context"
	"fmt"
	"net"
	"time"

	libnet "github.com/fatedier/golib/net"
	quic "github.com/quic-go/quic-go"

	v1 "github.com/fatedier/frp/pkg/config/v1"
	"github.com/fatedier/frp/pkg/transport"
	netpkg "github.com/fatedier/frp/pkg/util/net"
	"verifharness/hx"
)

func availableTransports() []string { return []string{"websocket", "tls", "quic"} }

func configureTransport(c *v1.ServerConfig, addr, t string) {
	if t == "quic" {
		c.QUICBindPort = hx.FreeUDPPort(addr)
	}
}

// quicConn keeps the QUIC connection of a stream so that closing the stream also ends the connection.
type quicConn struct {
	net.Conn
	qc quic.Connection
}

func (q *quicConn) Close() error {
	err := q.Conn.Close()
	go func() {
		time.Sleep(200 * time.Millisecond)
		_ = q.qc.CloseWithError(0, "")
	}()
	return err
}

func dialTransport(s *hx.Server, t string) (net.Conn, error) {
	addr := net.JoinHostPort(s.Addr, fmt.Sprint(s.Port))
	switch t {
	case "websocket":
		return libnet.Dial(addr,
			libnet.WithAfterHook(libnet.AfterHook{Hook: netpkg.DialHookWebsocket("tcp", "")}),
			libnet.WithAfterHook(libnet.AfterHook{Hook: netpkg.DialHookCustomTLSHeadByte(false, false)}),
			libnet.WithProtocol("tcp"), libnet.WithTimeout(3*time.Second))
	case "tls":
		tc, err := transport.NewClientTLSConfig("", "", "", s.Addr)
		if err != nil {
			return nil, err
		}
		return libnet.Dial(addr,
			libnet.WithAfterHook(libnet.AfterHook{Hook: netpkg.DialHookCustomTLSHeadByte(true, false)}),
			libnet.WithTLSConfig(tc),
			libnet.WithProtocol("tcp"), libnet.WithTimeout(3*time.Second))
	case "quic":
		tc, err := transport.NewClientTLSConfig("", "", "", s.Addr)
		if err != nil {
			return nil, err
		}
		tc.NextProtos = []string{"frp"}
		ctx, cancel := context.WithTimeout(context.Background(), 3*time.Second)
		defer cancel()
		qc, err := quic.DialAddr(ctx, net.JoinHostPort(s.Addr, fmt.Sprint(s.Cfg.QUICBindPort)), tc,
			&quic.Config{MaxIdleTimeout: 30 * time.Second, KeepAlivePeriod: 10 * time.Second})
		if err != nil {
			return nil, err
		}
		st, err := qc.OpenStreamSync(ctx)
		if err != nil {
			return nil, err
		}
		return &quicConn{Conn: netpkg.QuicStreamToNetConn(st, qc), qc: qc}, nil
	}
	return s.Dial()
}
