package main

import "verifharness/hx"

var drivers = map[string]hx.DriverFn{}

func main() {
	if childMain() {
		return
	}
	hx.Main(drivers)
}
