(* C10 — basic lemmas for Model/SrvRes.v: decidable keys, association lists. *)
From Coq Require Import Lia ZifyBool ZifyNat.
From FRP Require Import Model.SrvRes Proofs.PortsProofs.
Open Scope Z_scope.

(* ---------- key equality ---------- *)
Lemma rkind_eqb_spec : forall a b, reflect (a = b) (rkind_eqb a b).
Proof. intros [] []; constructor; congruence. Qed.

Lemma rkey_eqb_spec : forall a b : rkey, reflect (a = b) (rkey_eqb a b).
Proof.
  intros [[d1 l1] u1] [[d2 l2] u2]. unfold rkey_eqb.
  destruct (String.eqb_spec d1 d2); [|constructor; congruence].
  destruct (String.eqb_spec l1 l2); [|constructor; congruence].
  destruct (String.eqb_spec u1 u2); constructor; congruence.
Qed.

Lemma slot_eqb_spec : forall a b, reflect (a = b) (slot_eqb a b).
Proof.
  intros [x p|k r|n|n] [y q|k' r'|m|m]; simpl; try (constructor; congruence).
  - destruct (Z.eqb_spec x y); [|constructor; congruence].
    destruct (Z.eqb_spec p q); constructor; congruence.
  - destruct (rkind_eqb_spec k k'); [|constructor; congruence].
    destruct (rkey_eqb_spec r r'); constructor; congruence.
  - destruct (String.eqb_spec n m); constructor; congruence.
  - destruct (String.eqb_spec n m); constructor; congruence.
Qed.

Lemma gkind_eqb_spec : forall a b, reflect (a = b) (gkind_eqb a b).
Proof. intros [] []; constructor; congruence. Qed.

Lemma gid_eqb_spec : forall a b : gid, reflect (a = b) (gid_eqb a b).
Proof.
  intros [k g] [k' g']. unfold gid_eqb. simpl.
  destruct (gkind_eqb_spec k k'); [|constructor; congruence].
  destruct (String.eqb_spec g g'); constructor; congruence.
Qed.

Lemma slot_eqb_refl : forall a, slot_eqb a a = true.
Proof. intros a. destruct (slot_eqb_spec a a); congruence. Qed.

(* ---------- association lists ---------- *)
Section AssocLemmas.
  Context {K V : Type} (eqb : K -> K -> bool).
  Hypothesis eqb_spec : forall a b, reflect (a = b) (eqb a b).

  Lemma al_get_del_eq : forall k (l : list (K * V)), al_get eqb k (al_del eqb k l) = None.
  Proof.
    induction l as [|[q v] r IH]; simpl; [reflexivity|].
    destruct (eqb_spec k q); [exact IH|]. simpl. destruct (eqb_spec k q); [contradiction|exact IH].
  Qed.

  Lemma al_get_del_neq : forall k k' (l : list (K * V)), k' <> k -> al_get eqb k' (al_del eqb k l) = al_get eqb k' l.
  Proof.
    induction l as [|[q v] r IH]; simpl; intros N; [reflexivity|].
    destruct (eqb_spec k q) as [->|N1].
    - destruct (eqb_spec k' q); [contradiction|auto].
    - simpl. destruct (eqb_spec k' q); auto.
  Qed.

  Lemma al_get_set_eq : forall k v (l : list (K * V)), al_get eqb k (al_set eqb k v l) = Some v.
  Proof. intros. unfold al_set. simpl. destruct (eqb_spec k k); congruence. Qed.

  Lemma al_get_set_neq : forall k k' v (l : list (K * V)), k' <> k -> al_get eqb k' (al_set eqb k v l) = al_get eqb k' l.
  Proof.
    intros. unfold al_set. simpl. destruct (eqb_spec k' k); [contradiction|]. apply al_get_del_neq; assumption.
  Qed.

  Lemma al_del_absent : forall k (l : list (K * V)), al_get eqb k l = None -> al_del eqb k l = l.
  Proof.
    induction l as [|[q v] r IH]; simpl; intros H; [reflexivity|].
    destruct (eqb_spec k q); [discriminate|]. f_equal. auto.
  Qed.

  Lemma al_in_del : forall k k' v (l : list (K * V)), In (k', v) (al_del eqb k l) <-> In (k', v) l /\ k' <> k.
  Proof.
    induction l as [|[q w] r IH]; simpl; [tauto|].
    destruct (eqb_spec k q) as [->|N]; simpl; rewrite IH.
    - split; [tauto|]. intros [[E|H] D]; [inversion E; subst; contradiction|tauto].
    - split; [intros [E|[H D]]; [inversion E; subst; split; [auto|congruence]|tauto]|tauto].
  Qed.

  Lemma al_get_in : forall k v (l : list (K * V)), al_get eqb k l = Some v -> In (k, v) l.
  Proof.
    induction l as [|[q w] r IH]; simpl; intros H; [discriminate|].
    destruct (eqb_spec k q) as [->|N]; [inversion H; auto|auto].
  Qed.

  Lemma al_in_get_nodup : forall k v (l : list (K * V)), NoDup (map fst l) -> In (k, v) l -> al_get eqb k l = Some v.
  Proof.
    induction l as [|[q w] r IH]; simpl; intros ND H; [contradiction|].
    inversion ND as [|? ? Hn Hr]; subst.
    destruct H as [E|H].
    - inversion E; subst. destruct (eqb_spec k k); congruence.
    - destruct (eqb_spec k q) as [->|N]; [|auto].
      exfalso. apply Hn. change q with (fst (q, v)). apply in_map. exact H.
  Qed.

  Lemma al_get_none_notin : forall k (l : list (K * V)), al_get eqb k l = None -> ~ In k (map fst l).
  Proof.
    induction l as [|[q w] r IH]; simpl; intros H; [tauto|].
    destruct (eqb_spec k q) as [->|N]; [discriminate|]. intros [E|I]; [congruence|]. apply IH; assumption.
  Qed.

  Lemma al_notin_get_none : forall k (l : list (K * V)), ~ In k (map fst l) -> al_get eqb k l = None.
  Proof.
    induction l as [|[q w] r IH]; simpl; intros H; [reflexivity|].
    destruct (eqb_spec k q) as [->|N]; [tauto|]. apply IH. tauto.
  Qed.

  Lemma al_del_keys_incl : forall k x (l : list (K * V)), In x (map fst (al_del eqb k l)) -> In x (map fst l).
  Proof.
    induction l as [|[q w] r IH]; simpl; [tauto|].
    destruct (eqb_spec k q); simpl; [auto|]. intros [E|H]; auto.
  Qed.

  Lemma al_del_nodup : forall k (l : list (K * V)), NoDup (map fst l) -> NoDup (map fst (al_del eqb k l)).
  Proof.
    induction l as [|[q w] r IH]; simpl; intros ND; [constructor|].
    inversion ND as [|? ? Hn Hr]; subst.
    destruct (eqb_spec k q); [auto|]. simpl. constructor; [|auto].
    intros I. apply Hn. eapply al_del_keys_incl; eauto.
  Qed.

  Lemma al_get_some_in_keys : forall k v (l : list (K * V)), al_get eqb k l = Some v -> In k (map fst l).
  Proof. intros k v l H. apply al_get_in in H. change k with (fst (k, v)). apply in_map. exact H. Qed.
End AssocLemmas.

Arguments al_get_del_eq {K V eqb}.
Arguments al_get_del_neq {K V eqb}.
Arguments al_get_set_eq {K V eqb}.
Arguments al_get_set_neq {K V eqb}.
Arguments al_del_absent {K V eqb}.
Arguments al_in_del {K V eqb}.
Arguments al_get_in {K V eqb}.
Arguments al_in_get_nodup {K V eqb}.
Arguments al_get_none_notin {K V eqb}.
Arguments al_notin_get_none {K V eqb}.
Arguments al_del_nodup {K V eqb}.
Arguments al_get_some_in_keys {K V eqb}.
Arguments al_del_keys_incl {K V eqb}.

Lemma Z_eqb_spec' : forall a b : Z, reflect (a = b) (a =? b).
Proof. exact Z.eqb_spec. Qed.
