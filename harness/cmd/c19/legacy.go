package main

// Legacy ini against toml through the real loader (pkg/config.LoadClientConfig): every value C19 depends
// on — the health check of a proxy (type, timeout, maxFailed, interval, path), the routing fields of an
// http proxy (subdomain, custom domains, locations) and the entry's identity (name, type, local address) —
// must arrive the same from both formats, and loading the same file twice must give deep-equal objects
// (a reload of an unchanged file is decided by reflect.DeepEqual).  Go-side check, reported as finding.

import (
	"fmt"
	"os"
	"path/filepath"
	"reflect"

	"github.com/fatedier/frp/pkg/config"
	v1 "github.com/fatedier/frp/pkg/config/v1"
)

const legacyIni = `[common]
server_addr = 127.0.19.2
server_port = 7000

[web]
type = http
local_ip = 127.0.19.4
local_port = 8081
subdomain = web
custom_domains = a.example.org,b.example.org
locations = /api,/static
health_check_type = http
health_check_url = /healthz
health_check_timeout_s = 4
health_check_max_failed = 3
health_check_interval_s = 7

[db]
type = tcp
local_ip = 127.0.19.4
local_port = 5432
remote_port = 6001
health_check_type = tcp
health_check_max_failed = 2

[plain]
type = tcp
local_ip = 127.0.19.4
local_port = 22
remote_port = 6002
`

const modernToml = `serverAddr = "127.0.19.2"
serverPort = 7000

[[proxies]]
name = "web"
type = "http"
localIP = "127.0.19.4"
localPort = 8081
subdomain = "web"
customDomains = ["a.example.org", "b.example.org"]
locations = ["/api", "/static"]
healthCheck.type = "http"
healthCheck.path = "/healthz"
healthCheck.timeoutSeconds = 4
healthCheck.maxFailed = 3
healthCheck.intervalSeconds = 7

[[proxies]]
name = "db"
type = "tcp"
localIP = "127.0.19.4"
localPort = 5432
remotePort = 6001
healthCheck.type = "tcp"
healthCheck.maxFailed = 2

[[proxies]]
name = "plain"
type = "tcp"
localIP = "127.0.19.4"
localPort = 22
remotePort = 6002
`

type c19view struct {
	Name, Type, LocalIP string
	LocalPort           int
	Health              v1.HealthCheckConfig
	SubDomain           string
	CustomDomains       []string
	Locations           []string
	RemotePort          int
}

func viewOf(c v1.ProxyConfigurer) c19view {
	b := c.GetBaseConfig()
	v := c19view{Name: b.Name, Type: b.Type, LocalIP: b.LocalIP, LocalPort: b.LocalPort, Health: b.HealthCheck}
	switch x := c.(type) {
	case *v1.HTTPProxyConfig:
		v.SubDomain, v.CustomDomains, v.Locations = x.SubDomain, x.CustomDomains, x.Locations
	case *v1.TCPProxyConfig:
		v.RemotePort = x.RemotePort
	}
	return v
}

func checkLegacyIni() (problems []string, err error) {
	dir, err := os.MkdirTemp("", "c19legacy")
	if err != nil {
		return nil, err
	}
	defer os.RemoveAll(dir)
	ini, toml := filepath.Join(dir, "frpc.ini"), filepath.Join(dir, "frpc.toml")
	if err := os.WriteFile(ini, []byte(legacyIni), 0o644); err != nil {
		return nil, err
	}
	if err := os.WriteFile(toml, []byte(modernToml), 0o644); err != nil {
		return nil, err
	}
	load := func(p string) (map[string]v1.ProxyConfigurer, error) {
		_, pcs, _, _, err := config.LoadClientConfig(p, false)
		if err != nil {
			return nil, err
		}
		m := map[string]v1.ProxyConfigurer{}
		for _, c := range pcs {
			m[c.GetBaseConfig().Name] = c
		}
		return m, nil
	}
	a, err := load(ini)
	if err != nil {
		return nil, fmt.Errorf("legacy ini: %w", err)
	}
	a2, err := load(ini)
	if err != nil {
		return nil, err
	}
	b, err := load(toml)
	if err != nil {
		return nil, fmt.Errorf("toml: %w", err)
	}
	b2, err := load(toml)
	if err != nil {
		return nil, err
	}
	for _, name := range []string{"web", "db", "plain"} {
		if a[name] == nil || b[name] == nil {
			problems = append(problems, fmt.Sprintf("proxy %s missing after loading (ini %v, toml %v)", name, a[name] != nil, b[name] != nil))
			continue
		}
		if va, vb := viewOf(a[name]), viewOf(b[name]); !reflect.DeepEqual(va, vb) {
			problems = append(problems, fmt.Sprintf("proxy %s: legacy ini gives %+v, toml gives %+v", name, va, vb))
		}
		if !reflect.DeepEqual(a[name], a2[name]) {
			problems = append(problems, fmt.Sprintf("proxy %s: loading the same ini twice does not give deep-equal objects", name))
		}
		if !reflect.DeepEqual(b[name], b2[name]) {
			problems = append(problems, fmt.Sprintf("proxy %s: loading the same toml twice does not give deep-equal objects", name))
		}
	}
	return problems, nil
}
