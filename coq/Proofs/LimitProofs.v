(* C01: proofs about Model/Limit.v (pkg/util/limit). *)
From FRP Require Import Model.Limit.
From Coq Require Import Lia.
Open Scope Z_scope.

Lemma blen_nil : blen [] = 0. Proof. reflexivity. Qed.
Lemma blen_nonneg p : 0 <= blen p. Proof. unfold blen; lia. Qed.
Lemma blen_cons x (p : bytes) : blen (x :: p) = 1 + blen p.
Proof. unfold blen; cbn [length]; lia. Qed.
Lemma blen_app a b : blen (a ++ b) = blen a + blen b.
Proof. unfold blen; rewrite app_length; lia. Qed.
Lemma blen_firstn n p : 0 <= n <= blen p -> blen (firstn (Z.to_nat n) p) = n.
Proof. unfold blen; intros; rewrite firstn_length; lia. Qed.
Lemma blen_skipn n p : 0 <= n <= blen p -> blen (skipn (Z.to_nat n) p) = blen p - n.
Proof. unfold blen; intros; rewrite skipn_length; lia. Qed.

Definition chunk_ok (b : Z) (c : bytes) : Prop := 0 < blen c <= b.

Lemma lim_write_go_ok : forall fuel b p, 0 < b -> (length p <= fuel)%nat ->
  exists l, lim_write_go fuel b p = Some (blen p, l) /\ List.concat l = p /\ Forall (chunk_ok b) l.
Proof.
  induction fuel as [|f IH]; intros b p Hb Hlen.
  - destruct p; [|cbn in Hlen; lia]. exists []. cbn. auto.
  - destruct p as [|x r]. { exists []. cbn. auto. }
    cbn [lim_write_go]. remember (x :: r) as p eqn:Hp.
    assert (Hpl : 0 < blen p) by (subst p; rewrite blen_cons; pose proof (blen_nonneg r); lia).
    set (e := if b <? blen p then b else blen p).
    assert (He : 0 < e <= blen p /\ e <= b) by (unfold e; destruct (b <? blen p) eqn:E; lia).
    destruct (e <=? 0) eqn:E0; [lia|].
    assert (Hl' : (length (skipn (Z.to_nat e) p) <= f)%nat).
    { rewrite skipn_length. unfold blen in He. lia. }
    destruct (IH b (skipn (Z.to_nat e) p) Hb Hl') as (l & Hgo & Hcat & Hall).
    rewrite Hgo. exists (firstn (Z.to_nat e) p :: l). split; [|split].
    + f_equal. f_equal. rewrite blen_skipn by lia. lia.
    + cbn [List.concat]. rewrite Hcat. apply firstn_skipn.
    + constructor; [|exact Hall]. unfold chunk_ok. rewrite blen_firstn by lia. lia.
Qed.

(* limit_write_lossless: for ALL p and every burst b > 0 the write loop returns normally,
   reports |p| bytes, issues chunks whose concatenation is exactly p, each non-empty and <= b
   (so every WaitN call asks for at most burst tokens and cannot fail with "exceeds burst") *)
Theorem limit_write_lossless : forall b p, 0 < b ->
  exists l, limit_write_full b p = Some (blen p, l) /\ limit_write b p = Some l /\
            List.concat l = p /\ Forall (fun c => 0 < blen c <= b) l.
Proof.
  intros b p Hb. unfold limit_write, limit_write_full.
  destruct (lim_write_go_ok (S (length p)) b p Hb) as (l & H1 & H2 & H3); [lia|].
  exists l. rewrite H1. auto.
Qed.

(* nothing is written when the burst is not positive: the loop never returns normally *)
Theorem limit_write_nonpositive_burst : forall b p, b <= 0 -> p <> [] -> limit_write b p = None.
Proof.
  intros b p Hb Hp. unfold limit_write, limit_write_full. destruct p as [|x r]; [congruence|].
  cbn [lim_write_go length]. remember (x :: r) as p.
  assert (0 < blen p) by (subst p; rewrite blen_cons; pose proof (blen_nonneg r); lia).
  destruct (b <? blen p) eqn:E; [|lia].
  destruct (b <=? 0) eqn:E0; [reflexivity|lia].
Qed.

Lemma limit_write_all_ok : forall b cs, 0 < b ->
  exists ws, limit_write_all b cs = Some ws /\ st_flat ws = st_flat cs /\ Forall (fun c => 0 < blen c <= b) ws.
Proof.
  intros b cs Hb. induction cs as [|p r IH].
  - exists []. cbn. auto.
  - destruct IH as (ws & Hw & Hf & Ha).
    destruct (limit_write_lossless b p Hb) as (l & _ & Hl & Hc & Hall).
    cbn [limit_write_all]. rewrite Hl, Hw. exists (l ++ ws). split; [reflexivity|]. split.
    + unfold st_flat in *. rewrite concat_app. cbn [List.concat]. rewrite Hc, Hf. reflexivity.
    + apply Forall_app. auto.
Qed.

(* limit_read_lossless: whatever the buffer sizes and however little the inner reader hands over,
   the bytes returned by a sequence of Read calls followed by what is still unread are exactly the
   stream; every returned slice fits the burst (so WaitN cannot fail) and the caller's buffer *)
Theorem limit_read_lossless : forall b reads s, 0 < b ->
  let '(outs, eof, rest) := limit_read_seq b s reads in
  List.concat outs ++ rest = s /\ Forall (fun c => blen c <= b) outs /\ (eof = true -> rest = []).
Proof.
  intros b reads. induction reads as [|[plen offer] r IH]; intros s Hb.
  - cbn. repeat split; [constructor|discriminate].
  - cbn [limit_read_seq]. unfold limit_read1.
    set (want := if b <? plen then b else plen).
    destruct ((0 <? want) && (blen s =? 0)) eqn:E.
    + cbn. apply andb_prop in E. destruct E as [_ E]. apply Z.eqb_eq in E.
      destruct s; [auto|]. rewrite blen_cons in E. pose proof (blen_nonneg s). lia.
    + set (n := Z.max 0 (Z.min want (Z.min offer (blen s)))).
      specialize (IH (skipn (Z.to_nat n) s) Hb).
      destruct (limit_read_seq b (skipn (Z.to_nat n) s) r) as [[outs e] rest].
      destruct IH as (H1 & H2 & H3). split; [|split].
      * cbn [List.concat]. rewrite <- app_assoc, H1. apply firstn_skipn.
      * constructor; [|exact H2].
        assert (Hw : want <= b) by (unfold want; destruct (b <? plen) eqn:?; lia).
        pose proof (blen_nonneg s).
        destruct (Z.le_gt_cases n (blen s)) as [Hn|Hn].
        -- rewrite blen_firstn; unfold n in *; lia.
        -- unfold n in Hn. lia.
      * exact H3.
Qed.

(* a single Read never returns more than the (shrunk) buffer: min(burst, len p) *)
Theorem limit_read_shrinks : forall b s plen offer, 0 < b ->
  let '(out, _, _, n) := limit_read1 b s plen offer in
  blen out = n /\ n <= b /\ n <= Z.max 0 plen.
Proof.
  intros b s plen offer Hb. unfold limit_read1.
  set (want := if b <? plen then b else plen).
  assert (Hw : want <= b /\ want <= plen) by (unfold want; destruct (b <? plen) eqn:?; lia).
  destruct ((0 <? want) && (blen s =? 0)); [cbn; lia|].
  pose proof (blen_nonneg s). rewrite blen_firstn by lia. lia.
Qed.
