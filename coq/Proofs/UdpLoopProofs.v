(* C10 — proofs about Model/UdpLoop.v: every interleaving of UDPProxy.Close with the goroutines of Run. *)
From Coq Require Import List ZArith Bool Lia.
From FRP Require Import Model.UdpLoop.
Import ListNotations.

Lemma nrem_in : forall c x l, In x (nrem c l) <-> In x l /\ x <> c.
Proof.
  induction l as [|y r IH]; simpl; [tauto|].
  destruct (Nat.eqb_spec c y) as [->|N]; simpl; rewrite IH; [|].
  - split; [tauto|]. intros [[E|H] D]; [congruence|tauto].
  - split; [intros [E|[H D]]; [subst; split; [auto|congruence]|tauto]|tauto].
Qed.

Lemma close_opt_in : forall w x l, In x (close_opt w l) <-> In x l /\ w <> Some x.
Proof.
  intros [c|] x l; simpl; [rewrite nrem_in|]; split; try tauto.
  - intros [H D]. split; [assumption|]. intros E. injection E as ->. tauto.
  - intros [H D]. split; [assumption|]. intros ->. tauto.
  - intros H. split; [assumption|discriminate].
Qed.

(* the invariant of the repaired code *)
Record UInv (s : ust) : Prop := {
  ui_flag : u_closed s = true <-> u_close s <> CIdle;
  ui_chk : u_chk s = u_closed s;
  ui_open : forall c, In c (u_open s) -> u_loop s = LGot c \/ (u_work s = Some c /\ u_close s <> CDone)
}.

Lemma uinv_init : UInv u_init.
Proof. constructor; simpl; [split; [discriminate|tauto]|reflexivity|tauto]. Qed.

Lemma uinv_step : forall s a, UInv s -> UInv (ustep true s a).
Proof.
  intros s a [F K O]. pose proof (Build_UInv s F K O) as HS. destruct a as [ok| | |c| | |c]; unfold ustep.
  - destruct (u_loop s) eqn:L; try exact HS.
    destruct ok.
    + constructor; simpl; try assumption. intros c [<-|H]; [auto|]. destruct (O c H) as [E|E]; [congruence|auto].
    + destruct (u_chk s); [|exact HS]. constructor; simpl; try assumption.
      intros c H. destruct (O c H) as [E|E]; [congruence|auto].
  - destruct (u_loop s) as [|c| |] eqn:L; try exact HS.
    cbn [andb]. destruct (u_closed s) eqn:C.
    + constructor; simpl; try assumption.
      intros c' H. apply nrem_in in H. destruct H as [H D]. destruct (O c' H) as [E|E]; [congruence|auto].
    + constructor; simpl; try assumption.
      intros c' H. apply close_opt_in in H. destruct H as [H D]. destruct (O c' H) as [E|[E _]]; [|congruence].
      injection E as ->. right. split; [reflexivity|]. intros X.
      assert (u_close s <> CIdle) by congruence. apply F in H0. congruence.
  - destruct (u_loop s) eqn:L; try exact HS.
    destruct (u_chk s).
    + constructor; simpl; try assumption. intros c H. destruct (O c H) as [E|E]; [congruence|auto].
    + destruct (rd_sending (u_readers s)); [|exact HS].
      constructor; simpl; try assumption. intros c H. destruct (O c H) as [E|E]; [congruence|auto].
  - destruct (rd_get c (u_readers s)) as [[| |]|]; try exact HS.
    + destruct (nin c (u_open s)); [exact HS|]. constructor; simpl; assumption.
    + destruct (u_chk s); [|exact HS]. constructor; simpl; assumption.
  - destruct (u_close s) eqn:C; try exact HS.
    constructor; simpl; [split; [discriminate|reflexivity]|reflexivity|].
    intros c H. destruct (O c H) as [E|[E _]]; [auto|]. right. split; [assumption|discriminate].
  - destruct (u_close s) eqn:C; try exact HS.
    constructor; simpl; [|assumption|].
    + split; [discriminate|]. intros _. apply F. congruence.
    + intros c H. apply close_opt_in in H. destruct H as [H D]. destruct (O c H) as [E|[E _]]; [auto|congruence].
  - constructor; simpl; try assumption. intros c' H. apply nrem_in in H. destruct H as [H D]. auto.
Qed.

Lemma uinv_run : forall sched s, UInv s -> UInv (urun true sched s).
Proof.
  induction sched as [|a t IH]; intros s H; simpl; [assumption|]. apply IH. apply uinv_step. assumption.
Qed.

(* every schedule: once Close has returned and the loop of Run has ended, no connection the proxy was
   ever given is open *)
Theorem udp_close_leaves_no_connection_open : forall sched,
  let s := urun true sched u_init in
  u_close s = CDone -> u_loop s = LDone -> u_open s = [].
Proof.
  intros sched s C L. pose proof (uinv_run sched u_init uinv_init) as [F K O]. fold s in F, K, O.
  destruct (u_open s) as [|c r] eqn:E; [reflexivity|]. exfalso.
  destruct (O c) as [X|[_ X]]; [simpl; auto|congruence|congruence].
Qed.

(* ... and the loop does end: after the first half of Close, whatever it is doing, its next step is its last *)
Theorem udp_loop_ends_after_close : forall sched,
  let s := urun true sched u_init in
  u_close s <> CIdle -> u_loop s <> LDone ->
  exists a, u_loop (ustep true s a) = LDone.
Proof.
  intros sched s C L. pose proof (uinv_run sched u_init uinv_init) as [F K O]. fold s in F, K, O.
  assert (CL : u_closed s = true) by (apply F; assumption). assert (CH : u_chk s = true) by congruence.
  destruct (u_loop s) as [|c| |] eqn:E; [| | |congruence].
  - exists (AFetch false). unfold ustep. rewrite E, CH. reflexivity.
  - exists AStore. unfold ustep. rewrite E, CL. reflexivity.
  - exists ARecv. unfold ustep. rewrite E, CH. reflexivity.
Qed.

(* a connection fetched while the proxy was being closed is closed on the spot *)
Theorem udp_fetched_during_close_is_closed : forall sched c,
  let s := urun true sched u_init in
  u_loop s = LGot c -> u_close s <> CIdle -> ~ In c (u_open (ustep true s AStore)) /\ u_loop (ustep true s AStore) = LDone.
Proof.
  intros sched c s L C. pose proof (uinv_run sched u_init uinv_init) as [F K O]. fold s in F, K, O.
  assert (CL : u_closed s = true) by (apply F; assumption).
  unfold ustep. rewrite L, CL. simpl. split; [|reflexivity]. rewrite nrem_in. tauto.
Qed.

(* the code before the repair: the witness schedule of F-C10d leaves connection 1 open for good *)
Theorem udp_old_close_order_refuted :
  let s := urun false u_witness u_init in
  u_close s = CDone /\ u_loop s = LDone /\ u_open s = [1%nat].
Proof. vm_compute. repeat split. Qed.

(* the same schedule on the repaired code *)
Example udp_witness_repaired : u_open (urun true u_witness u_init) = [] /\ u_loop (urun true u_witness u_init) = LDone.
Proof. vm_compute. split; reflexivity. Qed.
