(* C18 — the template layer of configuration files (pkg/config/load.go RenderWithTemplate with the
   functions of pkg/config/template.go).  text/template itself is third-party: the model covers the
   document shapes the harness writes — literal text, `{{ .Envs.NAME }}`, and `range` loops over
   parseNumberRangePair / parseNumberRange — and is compared with the real renderer on every run.
   Model only: no proofs here. *)
From FRP Require Export Model.Literals.
Open Scope Z_scope.

Inductive pair_seg := PSText (t : bytes) | PSFirst | PSSecond.

Inductive tseg :=
| TText (t : bytes)
| TEnv (name : bytes)                                   (* {{ .Envs.NAME }} *)
| TPairs (a b : bytes) (body : list pair_seg)           (* {{ range $i, $v := parseNumberRangePair "a" "b" }} body {{ end }} *)
| TRange (a : bytes) (pre post : bytes).                (* {{ range $i, $n := parseNumberRange "a" }}pre{{ $n }}post{{ end }} *)

(* a missing key of the map prints as text/template's "<no value>" (observed; missingkey=default) *)
Definition tpl_no_value : bytes := hx "3c6e6f2076616c75653e".
Fixpoint tpl_env (envs : list (bytes * bytes)) (name : bytes) : bytes :=
  match envs with
  | [] => tpl_no_value
  | (k, v) :: r => if bytes_eqb k name then v else tpl_env r name
  end.

Definition tpl_pair (body : list pair_seg) (p : Z * Z) : bytes :=
  List.concat (map (fun s => match s with
                        | PSText t => t
                        | PSFirst => lit_itoa (fst p)
                        | PSSecond => lit_itoa (snd p)
                        end) body).

Inductive tresult := TOk (out : bytes) | TErr | TNoReturn.

Definition tpl_seg (envs : list (bytes * bytes)) (s : tseg) : tresult :=
  match s with
  | TText t => TOk t
  | TEnv n => TOk (tpl_env envs n)
  | TPairs a b body =>
      match number_range_pairs a b with
      | PairsOk l => TOk (List.concat (map (tpl_pair body) l))
      | PairsNoReturn => TNoReturn
      | _ => TErr
      end
  | TRange a pre post =>
      match parse_range_numbers a with
      | RNOk l => TOk (List.concat (map (fun n => pre ++ lit_itoa n ++ post) l))
      | RNNoReturn => TNoReturn
      | RNErr => TErr
      end
  end.

(* execution is sequential and stops at the first failing action *)
Fixpoint tpl_render (envs : list (bytes * bytes)) (segs : list tseg) : tresult :=
  match segs with
  | [] => TOk []
  | s :: r =>
      match tpl_seg envs s with
      | TOk o => match tpl_render envs r with TOk o' => TOk (o ++ o') | e => e end
      | e => e
      end
  end.

(* ---- the environment map (pkg/config/load.go init): for each entry of os.Environ(),
   pair := strings.SplitN(env, "=", 2); entries without '=' are skipped; glbEnvs[pair[0]] = pair[1].
   Split at the FIRST '=': the value keeps every further '='. *)
Definition tpl_eq : byte := "="%byte.

Fixpoint env_split (s : bytes) : option (bytes * bytes) :=
  match s with
  | [] => None
  | b :: r =>
      if Byte.eqb b tpl_eq then Some ([], r)
      else match env_split r with
           | Some (k, v) => Some (b :: k, v)
           | None => None
           end
  end.

(* a later assignment to the same key overwrites an earlier one: newest first, first match wins *)
Definition env_build (environ : list bytes) : list (bytes * bytes) :=
  fold_left (fun acc e => match env_split e with Some p => p :: acc | None => acc end) environ [].
