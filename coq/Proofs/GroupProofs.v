(* Proofs about Model/Group.v (property C13). *)
From Coq Require Import Lia.
From FRP Require Import Model.Group.
Import Grp.
Open Scope Z_scope.

(* ------------------------------------------------------------------ *)
(* basics                                                              *)
(* ------------------------------------------------------------------ *)
Lemma lz_eqb_eq : forall a b, lz_eqb a b = true <-> a = b.
Proof.
  induction a as [|x a IH]; destruct b as [|y b]; simpl; split; intro H; try congruence; try discriminate.
  - apply andb_prop in H. destruct H as [H1 H2]. apply Z.eqb_eq in H1. apply IH in H2. subst. reflexivity.
  - inversion H; subst. rewrite Z.eqb_refl. simpl. apply IH. reflexivity.
Qed.

Lemma lz_eqb_refl : forall a, lz_eqb a a = true.
Proof. intro a. apply lz_eqb_eq. reflexivity. Qed.

Lemma zmem_In : forall x l, zmem x l = true <-> In x l.
Proof.
  intros x l. unfold zmem. rewrite existsb_exists. split.
  - intros [y [Hy He]]. apply Z.eqb_eq in He. subst. exact Hy.
  - intro H. exists x. split; [exact H|apply Z.eqb_refl].
Qed.

Lemma rmem_In : forall r l, rmem r l = true <-> In r l.
Proof.
  intros r l. unfold rmem. rewrite existsb_exists. split.
  - intros [y [Hy He]]. apply lz_eqb_eq in He. subst. exact Hy.
  - intro H. exists r. split; [exact H|apply lz_eqb_refl].
Qed.

Lemma rmem_rdel_same : forall r l, rmem r (rdel r l) = false.
Proof.
  intros r l. destruct (rmem r (rdel r l)) eqn:E; [|reflexivity].
  apply rmem_In in E. unfold rdel in E. apply filter_In in E. destruct E as [_ E].
  rewrite lz_eqb_refl in E. discriminate.
Qed.

Lemma rmem_rdel_other : forall r r' l, r <> r' -> rmem r' (rdel r l) = rmem r' l.
Proof.
  intros r r' l Hne. destruct (rmem r' l) eqn:E.
  - apply rmem_In. apply rmem_In in E. unfold rdel. apply filter_In. split; [exact E|].
    destruct (lz_eqb r r') eqn:E2; [apply lz_eqb_eq in E2; congruence|reflexivity].
  - destruct (rmem r' (rdel r l)) eqn:E2; [|reflexivity].
    apply rmem_In in E2. unfold rdel in E2. apply filter_In in E2. destruct E2 as [E2 _].
    apply rmem_In in E2. congruence.
Qed.

Lemma is_nil_true : forall A (l : list A), is_nil l = true <-> l = [].
Proof. intros A [|x l]; simpl; split; congruence. Qed.

Lemma is_nil_false : forall A (l : list A), is_nil l = false <-> l <> [].
Proof. intros A [|x l]; simpl; split; congruence. Qed.

Lemma nth_error_upd_same : forall A (l : list A) i x, (i < length l)%nat -> nth_error (upd l i x) i = Some x.
Proof.
  induction l as [|y l IH]; intros i x H; simpl in *; [lia|].
  destruct i; simpl; [reflexivity|]. apply IH. lia.
Qed.

Lemma nth_error_upd_other : forall A (l : list A) i j x, i <> j -> nth_error (upd l i x) j = nth_error l j.
Proof.
  induction l as [|y l IH]; intros i j x H; simpl; [reflexivity|].
  destruct i, j; simpl; try reflexivity; try congruence. apply IH. congruence.
Qed.

Lemma length_upd : forall A (l : list A) i x, length (upd l i x) = length l.
Proof. induction l as [|y l IH]; intros [|i] x; simpl; try reflexivity. rewrite IH. reflexivity. Qed.

Lemma nth_error_lt : forall A (l : list A) i x, nth_error l i = Some x -> (i < length l)%nat.
Proof. intros A l i x H. apply nth_error_Some. congruence. Qed.

Lemma remove_first_In_other : forall x y l, In x l -> x <> y -> In x (remove_first y l).
Proof.
  induction l as [|z l IH]; simpl; intros Hin Hne; [exact Hin|].
  destruct (y =? z) eqn:E.
  - apply Z.eqb_eq in E. subst. destruct Hin as [H|H]; [congruence|exact H].
  - destruct Hin as [H|H]; [left; exact H|right; apply IH; assumption].
Qed.

Lemma remove_first_subset : forall x y l, In x (remove_first y l) -> In x l.
Proof.
  induction l as [|z l IH]; simpl; intro H; [exact H|].
  destruct (y =? z); [right; exact H|]. destruct H as [H|H]; [left; exact H|right; apply IH; exact H].
Qed.

Lemma tab_get_In : forall t n gid, tab_get t n = Some gid -> In (n, gid) t.
Proof.
  induction t as [|[k v] t IH]; simpl; intros n gid H; [discriminate|].
  destruct (k =? n) eqn:E.
  - apply Z.eqb_eq in E. inversion H; subst. left. reflexivity.
  - right. apply IH. exact H.
Qed.

Lemma tab_get_None : forall t n, tab_get t n = None -> ~ In n (map fst t).
Proof.
  induction t as [|[k v] t IH]; simpl; intros n H; [tauto|].
  destruct (k =? n) eqn:E; [discriminate|]. apply Z.eqb_neq in E. intros [H1|H1]; [congruence|].
  exact (IH n H H1).
Qed.

Lemma In_tab_get : forall t n gid, NoDup (map fst t) -> In (n, gid) t -> tab_get t n = Some gid.
Proof.
  induction t as [|[k v] t IH]; simpl; intros n gid Hnd Hin; [tauto|].
  inversion Hnd as [|? ? Hk Hnd']; subst.
  destruct Hin as [H|H].
  - inversion H; subst. rewrite Z.eqb_refl. reflexivity.
  - destruct (k =? n) eqn:E.
    + apply Z.eqb_eq in E. subst. exfalso. apply Hk. apply in_map_iff. exists (n, gid). split; [reflexivity|exact H].
    + apply IH; assumption.
Qed.

Lemma In_tab_del : forall t n e, In e (tab_del t n) <-> In e t /\ fst e <> n.
Proof.
  intros t n e. unfold tab_del. rewrite filter_In. split; intros [H1 H2]; split; try exact H1.
  - destruct (fst e =? n) eqn:E; [discriminate|]. apply Z.eqb_neq. exact E.
  - apply Z.eqb_neq in H2. rewrite H2. reflexivity.
Qed.

(* ------------------------------------------------------------------ *)
(* joins: key and parameters, specific errors, refused = unchanged     *)
(* ------------------------------------------------------------------ *)

(* a refused join leaves the whole state as it was (step 2) *)
Lemma mutate_refused_unchanged : forall k s gid j lid s' e,
  mutate k s gid j lid = (s', JErr e) -> s' = s.
Proof.
  intros k s gid j lid s' e H. unfold mutate in H.
  destruct (nth_error (s_heap s) gid) as [g|]; [|inversion H; reflexivity].
  destruct k.
  - destruct (is_nil (g_lns g)).
    + destruct (acquire s j); [|inversion H; reflexivity].
      destruct (negb (j_lis j)); inversion H; reflexivity.
    + repeat match type of H with (if ?c then _ else _) = _ => destruct c end; inversion H; reflexivity.
  - destruct (is_nil (g_funcs g)).
    + destruct (rmem (res_of KHttp (j_par j) 0) (s_used s)); inversion H; reflexivity.
    + repeat match type of H with (if ?c then _ else _) = _ => destruct c end; inversion H; reflexivity.
  - repeat match type of H with (if ?c then _ else _) = _ => destruct c end; inversion H; reflexivity.
Qed.

(* the whole join (both steps) refused, group already in the table: state identical *)
Lemma join_refused_unchanged : forall k s j lid s' e,
  tab_get (s_tab s) (j_group j) <> None ->
  join_seq k s j lid = (s', JErr e) -> s' = s.
Proof.
  intros k s j lid s' e Hin H. unfold join_seq, lookup in H.
  destruct (tab_get (s_tab s) (j_group j)) as [gid|]; [|congruence].
  eapply mutate_refused_unchanged. exact H.
Qed.

(* ... group not in the table: the refused join leaves an empty group object behind (F-C10c) *)
Lemma join_refused_first_leaves_shell : forall k s j lid s' e,
  tab_get (s_tab s) (j_group j) = None ->
  join_seq k s j lid = (s', JErr e) ->
  s_tab s' = s_tab s ++ [(j_group j, length (s_heap s))] /\
  s_heap s' = s_heap s ++ [new_grp] /\ s_used s' = s_used s /\ s_env s' = s_env s.
Proof.
  intros k s j lid s' e Hn H. unfold join_seq, lookup in H. rewrite Hn in H.
  apply mutate_refused_unchanged in H. subst s'. simpl. repeat split; reflexivity.
Qed.

(* accepted by a group that already has members => same name, parameters, (port), key *)
Lemma join_accepted_matches : forall k s gid g j lid s' p,
  nth_error (s_heap s) gid = Some g -> members k g <> [] ->
  mutate k s gid j lid = (s', JOk p) ->
  g_name g = j_group j /\ g_par g = j_par j /\ g_key g = j_key j /\
  (k = KTcp -> g_port g = j_port j /\ p = g_real g) /\
  (k = KHttp -> ~ In (j_m j) (g_funcs g)).
Proof.
  intros k s gid g j lid s' p Hg Hm H. unfold mutate in H. rewrite Hg in H.
  destruct k; simpl in Hm.
  - apply is_nil_false in Hm. rewrite Hm in H.
    destruct (g_name g =? j_group j) eqn:E1; simpl in H; [|inversion H].
    destruct (lz_eqb (g_par g) (j_par j)) eqn:E2; simpl in H; [|inversion H].
    destruct (g_port g =? j_port j) eqn:E3; simpl in H; [|inversion H].
    destruct (g_key g =? j_key j) eqn:E4; simpl in H; [|inversion H].
    inversion H; subst. apply Z.eqb_eq in E1, E3, E4. apply lz_eqb_eq in E2.
    repeat split; try assumption; try discriminate.
  - apply is_nil_false in Hm. rewrite Hm in H.
    destruct (g_name g =? j_group j) eqn:E1; simpl in H; [|inversion H].
    destruct (lz_eqb (g_par g) (j_par j)) eqn:E2; simpl in H; [|inversion H].
    destruct (g_key g =? j_key j) eqn:E4; simpl in H; [|inversion H].
    destruct (zmem (j_m j) (g_funcs g)) eqn:E5; [inversion H|].
    inversion H; subst. apply Z.eqb_eq in E1, E4. apply lz_eqb_eq in E2.
    repeat split; try assumption; try discriminate.
    intros _ Hin. apply zmem_In in Hin. congruence.
  - destruct (negb (j_mux j)); [inversion H|].
    apply is_nil_false in Hm. rewrite Hm in H.
    destruct (g_name g =? j_group j) eqn:E1; simpl in H; [|inversion H].
    destruct (lz_eqb (g_par g) (j_par j)) eqn:E2; simpl in H; [|inversion H].
    destruct (g_key g =? j_key j) eqn:E4; simpl in H; [|inversion H].
    inversion H; subst. apply Z.eqb_eq in E1, E4. apply lz_eqb_eq in E2.
    repeat split; try assumption; try discriminate.
Qed.

(* the code's specific error for each kind of mismatch, in the code's order *)
Lemma join_wrong_params : forall k s gid g j lid,
  nth_error (s_heap s) gid = Some g -> members k g <> [] -> (k = KMux -> j_mux j = true) ->
  (g_name g <> j_group j \/ g_par g <> j_par j) ->
  mutate k s gid j lid = (s, JErr EParams).
Proof.
  intros k s gid g j lid Hg Hm Hx Hne. unfold mutate. rewrite Hg.
  assert (Hc : negb (g_name g =? j_group j) || negb (lz_eqb (g_par g) (j_par j)) = true).
  { destruct Hne as [H|H].
    - apply Z.eqb_neq in H. rewrite H. reflexivity.
    - destruct (lz_eqb (g_par g) (j_par j)) eqn:E; [apply lz_eqb_eq in E; congruence|].
      apply orb_true_r. }
  destruct k; simpl in Hm; apply is_nil_false in Hm; rewrite Hm.
  - rewrite Hc. reflexivity.
  - rewrite Hc. reflexivity.
  - rewrite (Hx eq_refl). simpl. rewrite Hc. reflexivity.
Qed.

Lemma join_different_port : forall s gid g j lid,
  nth_error (s_heap s) gid = Some g -> g_lns g <> [] ->
  g_name g = j_group j -> g_par g = j_par j -> g_port g <> j_port j ->
  mutate KTcp s gid j lid = (s, JErr EDiffPort).
Proof.
  intros s gid g j lid Hg Hm H1 H2 H3. unfold mutate. rewrite Hg.
  apply is_nil_false in Hm. rewrite Hm. rewrite H1, H2, Z.eqb_refl, lz_eqb_refl. simpl.
  apply Z.eqb_neq in H3. rewrite H3. reflexivity.
Qed.

Lemma join_wrong_key : forall k s gid g j lid,
  nth_error (s_heap s) gid = Some g -> members k g <> [] -> (k = KMux -> j_mux j = true) ->
  g_name g = j_group j -> g_par g = j_par j -> (k = KTcp -> g_port g = j_port j) ->
  g_key g <> j_key j ->
  mutate k s gid j lid = (s, JErr EAuth).
Proof.
  intros k s gid g j lid Hg Hm Hx H1 H2 H3 H4. unfold mutate. rewrite Hg.
  apply Z.eqb_neq in H4.
  destruct k; simpl in Hm; apply is_nil_false in Hm; rewrite Hm.
  - rewrite H1, H2, (H3 eq_refl), !Z.eqb_refl, lz_eqb_refl. simpl. rewrite H4. reflexivity.
  - rewrite H1, H2, Z.eqb_refl, lz_eqb_refl. simpl. rewrite H4. reflexivity.
  - rewrite (Hx eq_refl). simpl. rewrite H1, H2, Z.eqb_refl, lz_eqb_refl. simpl. rewrite H4. reflexivity.
Qed.

Lemma join_repeated_name : forall s gid g j lid,
  nth_error (s_heap s) gid = Some g -> g_funcs g <> [] ->
  g_name g = j_group j -> g_par g = j_par j -> g_key g = j_key j -> In (j_m j) (g_funcs g) ->
  mutate KHttp s gid j lid = (s, JErr ERepeated).
Proof.
  intros s gid g j lid Hg Hm H1 H2 H3 H4. unfold mutate. rewrite Hg.
  apply is_nil_false in Hm. rewrite Hm. rewrite H1, H2, H3, !Z.eqb_refl, lz_eqb_refl. simpl.
  apply zmem_In in H4. rewrite H4. reflexivity.
Qed.

(* matching join on a group with members is accepted and only appends the new member *)
Lemma join_right_key_accepted : forall k s gid g j lid,
  nth_error (s_heap s) gid = Some g -> members k g <> [] -> (k = KMux -> j_mux j = true) ->
  g_name g = j_group j -> g_par g = j_par j -> (k = KTcp -> g_port g = j_port j) ->
  g_key g = j_key j -> (k = KHttp -> ~ In (j_m j) (g_funcs g)) ->
  exists s' p, mutate k s gid j lid = (s', JOk p) /\
    exists g', nth_error (s_heap s') gid = Some g' /\ members k g' = (match k with KHttp => j_m j :: members k g | _ => members k g ++ [lid] end) /\
    s_tab s' = s_tab s /\ s_used s' = s_used s.
Proof.
  intros k s gid g j lid Hg Hm Hx H1 H2 H3 H4 H5. unfold mutate. rewrite Hg.
  pose proof (nth_error_lt _ _ _ _ Hg) as Hlt.
  destruct k; simpl in Hm; apply is_nil_false in Hm; rewrite Hm.
  - rewrite H1, H2, (H3 eq_refl), H4, !Z.eqb_refl, lz_eqb_refl. simpl.
    eexists; eexists; split; [reflexivity|]. simpl. eexists. split; [apply nth_error_upd_same; exact Hlt|].
    simpl. repeat split.
  - rewrite H1, H2, H4, !Z.eqb_refl, lz_eqb_refl. simpl.
    destruct (zmem (j_m j) (g_funcs g)) eqn:E; [apply zmem_In in E; exfalso; exact (H5 eq_refl E)|].
    eexists; eexists; split; [reflexivity|]. simpl. eexists. split; [apply nth_error_upd_same; exact Hlt|].
    simpl. repeat split.
  - rewrite (Hx eq_refl). simpl. rewrite H1, H2, H4, !Z.eqb_refl, lz_eqb_refl. simpl.
    eexists; eexists; split; [reflexivity|]. simpl. eexists. split; [apply nth_error_upd_same; exact Hlt|].
    simpl. repeat split.
Qed.

(* ------------------------------------------------------------------ *)
(* more list facts                                                     *)
(* ------------------------------------------------------------------ *)
Lemma upd_cases : forall A (l : list A) i j x y,
  nth_error (upd l i x) j = Some y ->
  (j = i /\ y = x) \/ (j <> i /\ nth_error l j = Some y).
Proof.
  intros A l i j x y H. destruct (Nat.eq_dec j i) as [E|E].
  - subst. left. split; [reflexivity|].
    assert (Hlt : (i < length l)%nat).
    { rewrite <- (length_upd _ l i x). eapply nth_error_lt. exact H. }
    rewrite nth_error_upd_same in H by exact Hlt. congruence.
  - right. split; [exact E|]. rewrite nth_error_upd_other in H by congruence. exact H.
Qed.

Lemma NoDup_map_filter : forall A B (f : A -> B) p (l : list A), NoDup (map f l) -> NoDup (map f (filter p l)).
Proof.
  induction l as [|x l IH]; simpl; intro H; [constructor|].
  inversion H as [|? ? Hx Hl]; subst. destruct (p x); simpl; [constructor|]; auto.
  intro Hin. apply Hx. apply in_map_iff in Hin. destruct Hin as [y [Hy Hin]].
  apply filter_In in Hin. apply in_map_iff. exists y. tauto.
Qed.

Lemma tab_keys_inj : forall (t : list (Z * nat)) n v v', NoDup (map fst t) -> In (n, v) t -> In (n, v') t -> v = v'.
Proof.
  intros t n v v' Hnd H1 H2. pose proof (In_tab_get _ _ _ Hnd H1). pose proof (In_tab_get _ _ _ Hnd H2). congruence.
Qed.

Lemma tab_vals_inj : forall (t : list (Z * nat)) n n' v, NoDup (map snd t) -> In (n, v) t -> In (n', v) t -> n = n'.
Proof.
  induction t as [|[a b] t IH]; simpl; intros n n' v Hnd H1 H2; [tauto|].
  inversion Hnd as [|? ? Hb Hnd']; subst.
  destruct H1 as [H1|H1], H2 as [H2|H2].
  - congruence.
  - inversion H1; subst. exfalso. apply Hb. apply in_map_iff. exists (n', v). split; [reflexivity|exact H2].
  - inversion H2; subst. exfalso. apply Hb. apply in_map_iff. exists (n, v). split; [reflexivity|exact H1].
  - eapply IH; eassumption.
Qed.

Lemma filter_neq_In : forall x m l, In x l -> x <> m -> In x (filter (fun y => negb (y =? m)) l).
Proof.
  intros x m l H Hne. apply filter_In. split; [exact H|]. apply Z.eqb_neq in Hne. rewrite Hne. reflexivity.
Qed.

Lemma nth_error_app_new : forall A (l : list A) x, nth_error (l ++ [x]) (length l) = Some x.
Proof. intros. rewrite nth_error_app2 by lia. rewrite Nat.sub_diag. reflexivity. Qed.

Lemma nth_error_app_old : forall A (l : list A) x i y, nth_error l i = Some y -> nth_error (l ++ [x]) i = Some y.
Proof. intros A l x i y H. rewrite nth_error_app1; [exact H|]. eapply nth_error_lt. exact H. Qed.

Lemma nth_error_app_cases : forall A (l : list A) x i y, nth_error (l ++ [x]) i = Some y ->
  nth_error l i = Some y \/ (i = length l /\ y = x).
Proof.
  intros A l x i y H. destruct (Nat.lt_ge_cases i (length l)) as [Hlt|Hge].
  - left. rewrite nth_error_app1 in H by exact Hlt. exact H.
  - right. rewrite nth_error_app2 in H by exact Hge.
    destruct (i - length l)%nat eqn:E; simpl in H.
    + inversion H. split; [lia|reflexivity].
    + destruct n; discriminate.
Qed.

Lemma kind_http_dec : forall k : kind, {k = KHttp} + {k <> KHttp}.
Proof. destruct k; [right|left|right]; congruence. Qed.

Lemma NoDup_app_one : forall A (l : list A) x, NoDup l -> ~ In x l -> NoDup (l ++ [x]).
Proof.
  induction l as [|y l IH]; simpl; intros x Hnd Hx; [constructor; [tauto|constructor]|].
  inversion Hnd as [|? ? Hy Hl]; subst. constructor.
  - intro Hin. apply in_app_or in Hin. simpl in Hin. destruct Hin as [H|[H|[]]]; [tauto|subst; tauto].
  - apply IH; tauto.
Qed.

(* ------------------------------------------------------------------ *)
(* the schedule invariant (current code: joins and leaves are atomic)   *)
(* ------------------------------------------------------------------ *)
Section Sched.
Variable k : kind.
Variable reqs : list req.

Definition is_join (i : nat) (j : jreq) : Prop := nth_error reqs i = Some (QJoin j).

Record Inv (tab : list (Z * nat)) (heap : list grp) (thr : list tst) : Prop := mkInv {
  I_keys : NoDup (map fst tab);
  I_vals : NoDup (map snd tab);
  (* what the table refers to is an open object that carries the entry's name once it has members *)
  I_tabv : forall n gid, In (n, gid) tab ->
     exists g, nth_error heap gid = Some g /\ g_closed g = false /\ (members k g = [] \/ g_name g = n);
  (* an object with members is the one registered under its name *)
  I_live : forall gid g, nth_error heap gid = Some g -> members k g <> [] -> In (g_name g, gid) tab;
  I_ep : forall gid g, nth_error heap gid = Some g -> (g_ep g = true <-> members k g <> []);
  I_mem : forall i j gid p, is_join i j -> nth_error thr i = Some (TMember gid p) ->
     exists g, nth_error heap gid = Some g /\ In (lid_of k j i) (members k g) /\ g_name g = j_group j;
  I_uniq : forall i i' j j' gid p p', is_join i j -> is_join i' j' ->
     nth_error thr i = Some (TMember gid p) -> nth_error thr i' = Some (TMember gid p') ->
     lid_of k j i = lid_of k j' i' -> i = i';
  I_nd : forall gid g, nth_error heap gid = Some g -> NoDup (members k g);
  (* every member recorded in an object belongs to a thread that holds it *)
  I_back : forall gid g x, nth_error heap gid = Some g -> In x (members k g) ->
     exists i j p, is_join i j /\ nth_error thr i = Some (TMember gid p) /\ lid_of k j i = x
}.

Definition same_proj (g g' : grp) : Prop :=
  g_name g = g_name g' /\ g_closed g = g_closed g' /\ members k g = members k g' /\ g_ep g = g_ep g'.

Definition passive (t : tst) : Prop := match t with TMember _ _ => False | _ => True end.

(* a thread that is not a member moves to a state that is not "member" *)
Lemma Inv_thr_passive : forall tab heap thr i t0 t,
  Inv tab heap thr -> nth_error thr i = Some t0 -> passive t0 -> passive t -> Inv tab heap (upd thr i t).
Proof.
  intros tab heap thr i t0 t [K V TV L E M U ND B] H0 Hp0 Hp. constructor; auto.
  - intros i' j gid p Hj H. apply upd_cases in H. destruct H as [[_ Hq]|[_ H]]; [rewrite <- Hq in Hp; simpl in Hp; tauto|eauto].
  - intros i1 i2 j j' gid p p' Hj Hj' H1 H2.
    apply upd_cases in H1. destruct H1 as [[_ Hq]|[_ H1]]; [rewrite <- Hq in Hp; simpl in Hp; tauto|].
    apply upd_cases in H2. destruct H2 as [[_ Hq]|[_ H2]]; [rewrite <- Hq in Hp; simpl in Hp; tauto|]. eauto.
  - intros gid g x Hg Hx. destruct (B _ _ _ Hg Hx) as [i' [j [p [Hj [Ht Hl]]]]].
    exists i', j, p. split; [exact Hj|]. split; [|exact Hl].
    rewrite nth_error_upd_other; [exact Ht|]. intro; subst. rewrite H0 in Ht. inversion Ht; subst. simpl in Hp0. tauto.
Qed.

Lemma Inv_heap_same : forall tab heap thr gid g g',
  Inv tab heap thr -> nth_error heap gid = Some g -> same_proj g g' -> Inv tab (upd heap gid g') thr.
Proof.
  intros tab heap thr gid g g' [K V TV L E M U ND B] Hg [P1 [P2 [P3 P4]]].
  pose proof (nth_error_lt _ _ _ _ Hg) as Hlt.
  constructor; auto.
  - intros n gid' Hin. destruct (TV _ _ Hin) as [g0 [H0 [H1 H2]]].
    destruct (Nat.eq_dec gid gid') as [->|Hne].
    + exists g'. rewrite nth_error_upd_same by exact Hlt. split; [reflexivity|].
      assert (g0 = g) by congruence. subst g0. rewrite <- P2, <- P3, <- P1. tauto.
    + exists g0. rewrite nth_error_upd_other by exact Hne. tauto.
  - intros gid' g0 H0 Hm. apply upd_cases in H0. destruct H0 as [[-> ->]|[_ H0]].
    + rewrite <- P1. apply (L _ _ Hg). rewrite P3. exact Hm.
    + eauto.
  - intros gid' g0 H0. apply upd_cases in H0. destruct H0 as [[-> ->]|[_ H0]].
    + rewrite <- P4, <- P3. apply (E _ _ Hg).
    + eauto.
  - intros i j gid' p Hj H. destruct (M _ _ _ _ Hj H) as [g0 [H0 [H1 H2]]].
    destruct (Nat.eq_dec gid gid') as [->|Hne].
    + exists g'. rewrite nth_error_upd_same by exact Hlt. split; [reflexivity|].
      assert (g0 = g) by congruence. subst g0. rewrite <- P3, <- P1. tauto.
    + exists g0. rewrite nth_error_upd_other by exact Hne. tauto.
  - intros gid' g0 H0. apply upd_cases in H0. destruct H0 as [[-> ->]|[_ H0]]; [rewrite <- P3|]; eauto.
  - intros gid' g0 x H0 Hx. apply upd_cases in H0. destruct H0 as [[-> ->]|[_ H0]].
    + rewrite <- P3 in Hx. eauto.
    + eauto.
Qed.

(* step 1 of a join *)
Lemma lookup_inv : forall s n s' gid thr,
  Inv (s_tab s) (s_heap s) thr -> lookup s n = (s', gid) ->
  Inv (s_tab s') (s_heap s') thr /\ In (n, gid) (s_tab s') /\ s_used s' = s_used s /\ s_env s' = s_env s /\
  (forall g0 gid0, nth_error (s_heap s) gid0 = Some g0 -> nth_error (s_heap s') gid0 = Some g0).
Proof.
  intros s n s' gid thr I H. unfold lookup in H.
  destruct (tab_get (s_tab s) n) as [v|] eqn:Eg.
  - inversion H; subst. split; [exact I|]. split; [apply tab_get_In; exact Eg|]. auto.
  - inversion H; subst. simpl. clear H.
    destruct I as [K V TV L E M U ND B].
    assert (Hfresh : ~ In (length (s_heap s)) (map snd (s_tab s))).
    { intro Hin. apply in_map_iff in Hin. destruct Hin as [[a b] [Hb Hin]]. simpl in Hb. subst b.
      destruct (TV _ _ Hin) as [g0 [H0 _]]. apply nth_error_lt in H0. lia. }
    split; [|split; [apply in_or_app; right; left; reflexivity|split; [reflexivity|split; [reflexivity|]]]].
    2:{ intros g0 gid0 H0. apply nth_error_app_old. exact H0. }
    constructor.
    + rewrite map_app. simpl. apply NoDup_app_one; [exact K|]. apply tab_get_None. exact Eg.
    + rewrite map_app. simpl. apply NoDup_app_one; [exact V|exact Hfresh].
    + intros n' gid' Hin. apply in_app_or in Hin. destruct Hin as [Hin|[Hin|[]]].
      * destruct (TV _ _ Hin) as [g0 [H0 H1]]. exists g0. split; [apply nth_error_app_old; exact H0|exact H1].
      * inversion Hin; subst. exists new_grp. split; [apply nth_error_app_new|].
        split; [reflexivity|left; destruct k; reflexivity].
    + intros gid' g0 H0 Hm. apply nth_error_app_cases in H0. destruct H0 as [H0|[_ ->]].
      * apply in_or_app. left. eauto.
      * exfalso. apply Hm. destruct k; reflexivity.
    + intros gid' g0 H0. apply nth_error_app_cases in H0. destruct H0 as [H0|[_ ->]]; [eauto|].
      destruct k; simpl; split; intro; congruence.
    + intros i j gid' p Hj Ht. destruct (M _ _ _ _ Hj Ht) as [g0 [H0 H1]]. exists g0.
      split; [apply nth_error_app_old; exact H0|exact H1].
    + exact U.
    + intros gid' g0 H0. apply nth_error_app_cases in H0. destruct H0 as [H0|[_ ->]]; [eauto|].
      destruct k; constructor.
    + intros gid' g0 x H0 Hx. apply nth_error_app_cases in H0. destruct H0 as [H0|[_ ->]]; [eauto|].
      exfalso. destruct k; simpl in Hx; exact Hx.
Qed.

(* what step 2 of a join does to the object it was given *)
Lemma mutate_spec : forall s gid g j lid s' r,
  nth_error (s_heap s) gid = Some g -> (k = KHttp -> lid = j_m j) ->
  mutate k s gid j lid = (s', r) ->
  (exists e, r = JErr e /\ s' = s) \/
  (exists p g', r = JOk p /\ s_tab s' = s_tab s /\ s_heap s' = upd (s_heap s) gid g' /\
     g_name g' = j_group j /\ g_closed g' = g_closed g /\
     ((members k g = [] /\ members k g' = [lid] /\ g_ep g' = true) \/
      (members k g <> [] /\ g_name g = j_group j /\ g_ep g' = g_ep g /\ (k = KHttp -> ~ In lid (members k g)) /\
       (members k g' = members k g ++ [lid] \/ members k g' = lid :: members k g)))).
Proof.
  intros s gid g j lid s' r Hg Hl H.
  destruct r as [p|e]; [|left; exists e; split; [reflexivity|eapply mutate_refused_unchanged; exact H]].
  right. unfold mutate in H. rewrite Hg in H.
  destruct k eqn:Ek; simpl.
  - destruct (is_nil (g_lns g)) eqn:En.
    + apply is_nil_true in En. destruct (acquire s j) as [real|e]; [|inversion H].
      destruct (negb (j_lis j)); [inversion H|].
      inversion H; subst. eexists; eexists. split; [reflexivity|]. simpl.
      repeat split; try reflexivity. left. simpl. rewrite En. simpl. repeat split; reflexivity.
    + destruct (negb (g_name g =? j_group j) || negb (lz_eqb (g_par g) (j_par j))) eqn:E1; [inversion H|].
      destruct (negb (g_port g =? j_port j)); [inversion H|].
      destruct (negb (g_key g =? j_key j)); [inversion H|].
      inversion H; subst. apply orb_false_elim in E1. destruct E1 as [E1 _].
      apply negb_false_iff in E1. apply Z.eqb_eq in E1. apply is_nil_false in En.
      eexists; eexists. split; [reflexivity|]. simpl.
      split; [reflexivity|]. split; [reflexivity|]. split; [exact E1|]. split; [reflexivity|].
      right. split; [exact En|]. split; [exact E1|]. split; [reflexivity|]. split; [discriminate|].
      left. reflexivity.
  - destruct (is_nil (g_funcs g)) eqn:En.
    + apply is_nil_true in En. destruct (rmem (res_of KHttp (j_par j) 0) (s_used s)); [inversion H|].
      inversion H; subst. eexists; eexists. split; [reflexivity|]. simpl.
      repeat split; try reflexivity. left. simpl. rewrite En, (Hl eq_refl). simpl. repeat split; reflexivity.
    + destruct (negb (g_name g =? j_group j) || negb (lz_eqb (g_par g) (j_par j))) eqn:E1; [inversion H|].
      destruct (negb (g_key g =? j_key j)); [inversion H|].
      destruct (zmem (j_m j) (g_funcs g)) eqn:Ez; [inversion H|].
      inversion H; subst. apply orb_false_elim in E1. destruct E1 as [E1 _].
      apply negb_false_iff in E1. apply Z.eqb_eq in E1. apply is_nil_false in En.
      eexists; eexists. split; [reflexivity|]. simpl.
      split; [reflexivity|]. split; [reflexivity|]. split; [exact E1|]. split; [reflexivity|].
      right. split; [exact En|]. split; [exact E1|]. split; [reflexivity|]. rewrite (Hl eq_refl). split.
      * intros _ Hin. apply zmem_In in Hin. congruence.
      * right. reflexivity.
  - destruct (negb (j_mux j)); [inversion H|].
    destruct (is_nil (g_lns g)) eqn:En.
    + apply is_nil_true in En. destruct (rmem (res_of KMux (j_par j) 0) (s_used s)); [inversion H|].
      inversion H; subst. eexists; eexists. split; [reflexivity|]. simpl.
      repeat split; try reflexivity. left. simpl. rewrite En. simpl. repeat split; reflexivity.
    + destruct (negb (g_name g =? j_group j) || negb (lz_eqb (g_par g) (j_par j))) eqn:E1; [inversion H|].
      destruct (negb (g_key g =? j_key j)); [inversion H|].
      inversion H; subst. apply orb_false_elim in E1. destruct E1 as [E1 _].
      apply negb_false_iff in E1. apply Z.eqb_eq in E1. apply is_nil_false in En.
      eexists; eexists. split; [reflexivity|]. simpl.
      split; [reflexivity|]. split; [reflexivity|]. split; [exact E1|]. split; [reflexivity|].
      right. split; [exact En|]. split; [exact E1|]. split; [reflexivity|]. split; [discriminate|].
      left. reflexivity.
Qed.

Lemma lid_of_http : forall j i, k = KHttp -> lid_of k j i = j_m j.
Proof. intros j i ->. reflexivity. Qed.

Lemma lid_of_chan_inj : forall j j' i i', k <> KHttp -> lid_of k j i = lid_of k j' i' -> i = i'.
Proof. intros j j' i i' Hk H. destruct k; simpl in H; try congruence; lia. Qed.

(* step 2 of a join keeps the invariant *)
Lemma mutate_inv : forall s gid j i s' r thr,
  Inv (s_tab s) (s_heap s) thr -> is_join i j -> nth_error thr i = Some TInit ->
  In (j_group j, gid) (s_tab s) ->
  mutate k s gid j (lid_of k j i) = (s', r) ->
  Inv (s_tab s') (s_heap s') (upd thr i (match r with JOk p => TMember gid p | JErr e => TRefused e end)).
Proof.
  intros s gid j i s' r thr I Hj Hi Hin H.
  pose proof I as [K V TV L E M U ND B].
  destruct (TV _ _ Hin) as [g [Hg [Hc Hnm]]].
  pose proof (nth_error_lt _ _ _ _ Hg) as Hlt.
  destruct (mutate_spec s gid g j _ s' r Hg (lid_of_http j i) H) as [[e [-> ->]]|[p [g' [-> [Et [Eh [En [Ec Hbr]]]]]]]].
  { eapply Inv_thr_passive; [exact I|exact Hi|exact Logic.I|exact Logic.I]. }
  rewrite Et, Eh. clear H.
  assert (Hbr' : (members k g = [] /\ members k g' = [lid_of k j i] /\ g_ep g' = true) \/
      (members k g <> [] /\ g_name g = j_group j /\ g_ep g' = g_ep g /\ (k = KHttp -> ~ In (lid_of k j i) (members k g)) /\
       (forall x, In x (members k g') <-> x = lid_of k j i \/ In x (members k g)))).
  { destruct Hbr as [Hb|[H1 [H2 [H3 [H4 H5]]]]]; [left; exact Hb|right].
    repeat split; try assumption; destruct H5 as [H5|H5]; rewrite H5; intro Hx.
    - apply in_app_or in Hx. simpl in Hx. destruct Hx as [Hx|[Hx|[]]]; auto.
    - simpl in Hx. destruct Hx as [Hx|Hx]; auto.
    - apply in_or_app. simpl. destruct Hx as [Hx|Hx]; auto.
    - simpl. destruct Hx as [Hx|Hx]; auto. }
  assert (Hfresh : ~ In (lid_of k j i) (members k g)).
  { intro Hold. destruct (B _ _ _ Hg Hold) as [i' [j' [p' [Hj' [Ht' Hl']]]]].
    destruct (kind_http_dec k) as [Hk|Hk].
    - destruct Hbr as [[Hm _]|[_ [_ [_ [Hnin _]]]]]; [rewrite Hm in Hold; exact Hold|exact (Hnin Hk Hold)].
    - apply (lid_of_chan_inj _ _ _ _ Hk) in Hl'. subst i'. congruence. }
  assert (Hnd' : NoDup (members k g')).
  { pose proof (ND _ _ Hg) as Hnd. destruct Hbr as [[_ [Hm' _]]|[_ [_ [_ [_ [H5|H5]]]]]]; rewrite ?Hm', ?H5.
    - constructor; [simpl; tauto|constructor].
    - apply NoDup_app_one; assumption.
    - constructor; assumption. }
  clear Hbr. rename Hbr' into Hbr.
  assert (Hthr : forall i' t, nth_error (upd thr i (TMember gid p)) i' = Some t ->
            (i' = i /\ t = TMember gid p) \/ (i' <> i /\ nth_error thr i' = Some t)).
  { intros i' t Ht. apply upd_cases in Ht. exact Ht. }
  assert (Hnomem : members k g = [] -> forall i' j' p', is_join i' j' -> nth_error thr i' = Some (TMember gid p') -> False).
  { intros Hm i' j' p' Hj' Ht'. destruct (M _ _ _ _ Hj' Ht') as [g0 [H0 [H1 _]]].
    assert (g0 = g) by congruence. subst g0. rewrite Hm in H1. exact H1. }
  constructor; auto.
  - (* I_tabv *)
    intros n gid' Hin'. destruct (TV _ _ Hin') as [g0 [H0 [H1 H2]]].
    destruct (Nat.eq_dec gid gid') as [<-|Hne].
    + exists g'. rewrite nth_error_upd_same by exact Hlt. split; [reflexivity|].
      split; [congruence|]. right. rewrite En. eapply tab_vals_inj; eassumption.
    + exists g0. rewrite nth_error_upd_other by exact Hne. tauto.
  - (* I_live *)
    intros gid' g0 H0 Hm. apply upd_cases in H0. destruct H0 as [[-> ->]|[_ H0]]; [rewrite En; exact Hin|eauto].
  - (* I_ep *)
    intros gid' g0 H0. apply upd_cases in H0. destruct H0 as [[-> ->]|[_ H0]]; [|eauto].
    destruct Hbr as [[_ [Hm' Hep]]|[Hm [_ [Hep [_ Hx]]]]].
    + rewrite Hm', Hep. split; intro; congruence.
    + rewrite Hep. rewrite (E _ _ Hg). split; intros _; [|exact Hm].
      intro Hm'. destruct (members k g) as [|y l] eqn:Ey; [congruence|].
      assert (Hy : In y (members k g')) by (apply Hx; right; left; reflexivity). rewrite Hm' in Hy. exact Hy.
  - (* I_mem *)
    intros i' j' gid' p' Hj' Ht. apply Hthr in Ht. destruct Ht as [[-> Ht]|[Hne Ht]].
    + inversion Ht; subst. unfold is_join in Hj, Hj'. assert (j' = j) by congruence. subst j'.
      exists g'. rewrite nth_error_upd_same by exact Hlt. split; [reflexivity|]. split; [|exact En].
      destruct Hbr as [[_ [Hm' _]]|[_ [_ [_ [_ Hx]]]]]; [rewrite Hm'; left; reflexivity|apply Hx; left; reflexivity].
    + destruct (M _ _ _ _ Hj' Ht) as [g0 [H0 [H1 H2]]].
      destruct (Nat.eq_dec gid gid') as [<-|Hneg].
      * assert (g0 = g) by congruence. subst g0.
        exists g'. rewrite nth_error_upd_same by exact Hlt. split; [reflexivity|].
        destruct Hbr as [[Hm _]|[_ [Hnm' [_ [_ Hx]]]]]; [rewrite Hm in H1; destruct H1|].
        split; [apply Hx; right; exact H1|congruence].
      * exists g0. rewrite nth_error_upd_other by exact Hneg. tauto.
  - (* I_uniq *)
    intros i1 i2 j1 j2 gid' p1 p2 Hj1 Hj2 H1 H2 Hl.
    apply Hthr in H1. apply Hthr in H2.
    destruct H1 as [[-> H1]|[Hn1 H1]], H2 as [[-> H2]|[Hn2 H2]]; [reflexivity| | |eauto].
    + inversion H1; subst gid' p1. unfold is_join in Hj, Hj1. assert (j1 = j) by congruence. subst j1.
      destruct (M _ _ _ _ Hj2 H2) as [g0 [H0 [Hm0 _]]]. assert (g0 = g) by congruence. subst g0.
      destruct Hbr as [[Hm _]|[_ [_ [_ [Hnin _]]]]]; [rewrite Hm in Hm0; destruct Hm0|].
      destruct (kind_http_dec k) as [Hk|Hk].
      * exfalso. apply (Hnin Hk). rewrite Hl. exact Hm0.
      * eapply lid_of_chan_inj; eassumption.
    + inversion H2; subst gid' p2. unfold is_join in Hj, Hj2. assert (j2 = j) by congruence. subst j2.
      destruct (M _ _ _ _ Hj1 H1) as [g0 [H0 [Hm0 _]]]. assert (g0 = g) by congruence. subst g0.
      destruct Hbr as [[Hm _]|[_ [_ [_ [Hnin _]]]]]; [rewrite Hm in Hm0; destruct Hm0|].
      destruct (kind_http_dec k) as [Hk|Hk].
      * exfalso. apply (Hnin Hk). rewrite <- Hl. exact Hm0.
      * eapply lid_of_chan_inj; eassumption.
  - (* I_nd *)
    intros gid' g0 H0. apply upd_cases in H0. destruct H0 as [[-> ->]|[_ H0]]; [exact Hnd'|eauto].
  - (* I_back *)
    intros gid' g0 x H0 Hx. apply upd_cases in H0. destruct H0 as [[-> ->]|[Hneg H0]].
    + assert (Hcase : x = lid_of k j i \/ In x (members k g)).
      { destruct Hbr as [[_ [Hm' _]]|[_ [_ [_ [_ Hxx]]]]]; [rewrite Hm' in Hx; destruct Hx as [Hx|[]]; auto|apply Hxx; exact Hx]. }
      destruct Hcase as [->|Hold].
      * exists i, j, p. split; [exact Hj|]. split; [|reflexivity]. apply nth_error_upd_same. eapply nth_error_lt. exact Hi.
      * destruct (B _ _ _ Hg Hold) as [i' [j' [p' [Hj' [Ht' Hl']]]]]. exists i', j', p'. split; [exact Hj'|]. split; [|exact Hl'].
        rewrite nth_error_upd_other; [exact Ht'|]. intro; subst. congruence.
    + destruct (B _ _ _ H0 Hx) as [i' [j' [p' [Hj' [Ht' Hl']]]]]. exists i', j', p'. split; [exact Hj'|]. split; [|exact Hl'].
      rewrite nth_error_upd_other; [exact Ht'|]. intro; subst. congruence.
Qed.

(* a leave, abstractly: the member's identity disappears from the object; if that empties it
   the endpoint goes and the table entry of that NAME is deleted *)
Lemma leave_abs_inv : forall tab heap thr jt j gid p g g' tab',
  Inv tab heap thr -> is_join jt j -> nth_error thr jt = Some (TMember gid p) -> nth_error heap gid = Some g ->
  (forall x, In x (members k g') -> In x (members k g) /\ x <> lid_of k j jt) ->
  (forall x, In x (members k g) -> x <> lid_of k j jt -> In x (members k g')) ->
  NoDup (members k g') -> g_name g' = g_name g ->
  ((members k g' <> [] /\ g_closed g' = g_closed g /\ g_ep g' = g_ep g /\ tab' = tab) \/
   (members k g' = [] /\ g_ep g' = false /\ tab' = tab_del tab (g_name g))) ->
  Inv tab' (upd heap gid g') (upd thr jt TLeft).
Proof.
  intros tab heap thr jt j gid p g g' tab' I Hj Ht Hg Hsub Hsup Hnd' Hname Hcase.
  pose proof I as [K V TV L E M U ND B].
  pose proof (nth_error_lt _ _ _ _ Hg) as Hlt.
  destruct (M _ _ _ _ Hj Ht) as [g0 [Hg0 [Hlid Hnm]]]. assert (g0 = g) by congruence. subst g0.
  assert (Hmne : members k g <> []) by (intro Hm; rewrite Hm in Hlid; exact Hlid).
  pose proof (L _ _ Hg Hmne) as Hin.
  destruct (TV _ _ Hin) as [g1 [Hg1 [Hcl Hor]]]. assert (g1 = g) by congruence. subst g1.
  assert (Hthr : forall i' t, nth_error (upd thr jt TLeft) i' = Some t ->
            (i' = jt /\ t = TLeft) \/ (i' <> jt /\ nth_error thr i' = Some t)).
  { intros i' t H. apply upd_cases in H. exact H. }
  assert (Hother : forall i' j' p', i' <> jt -> is_join i' j' -> nth_error thr i' = Some (TMember gid p') ->
            In (lid_of k j' i') (members k g')).
  { intros i' j' p' Hne Hj' Ht'. destruct (M _ _ _ _ Hj' Ht') as [g2 [Hg2 [Hl0 _]]]. assert (g2 = g) by congruence. subst g2.
    apply Hsup; [exact Hl0|]. intro Heq. apply Hne. eapply U; eassumption. }
  assert (HB : forall gid' g0 x, nth_error (upd heap gid g') gid' = Some g0 -> In x (members k g0) ->
     exists i j p, is_join i j /\ nth_error (upd thr jt TLeft) i = Some (TMember gid' p) /\ lid_of k j i = x).
  { intros gid' g0 x H0 Hx. apply upd_cases in H0. destruct H0 as [[-> ->]|[Hneg H0]].
    - destruct (Hsub _ Hx) as [Hx1 Hx2]. destruct (B _ _ _ Hg Hx1) as [i' [j' [p' [Hj' [Ht' Hl']]]]].
      exists i', j', p'. split; [exact Hj'|]. split; [|exact Hl'].
      rewrite nth_error_upd_other; [exact Ht'|]. intro; subst i'. unfold is_join in Hj, Hj'. congruence.
    - destruct (B _ _ _ H0 Hx) as [i' [j' [p' [Hj' [Ht' Hl']]]]].
      exists i', j', p'. split; [exact Hj'|]. split; [|exact Hl'].
      rewrite nth_error_upd_other; [exact Ht'|]. intro; subst i'. congruence. }
  assert (HU : forall i i' j j' gid p p', is_join i j -> is_join i' j' ->
     nth_error (upd thr jt TLeft) i = Some (TMember gid p) -> nth_error (upd thr jt TLeft) i' = Some (TMember gid p') ->
     lid_of k j i = lid_of k j' i' -> i = i').
  { intros i1 i2 j1 j2 gid' p1 p2 Hj1 Hj2 H1 H2 Hl.
    apply Hthr in H1. apply Hthr in H2.
    destruct H1 as [[_ H1]|[_ H1]]; [discriminate|]. destruct H2 as [[_ H2]|[_ H2]]; [discriminate|]. eauto. }
  assert (HND : forall gid' g0, nth_error (upd heap gid g') gid' = Some g0 -> NoDup (members k g0)).
  { intros gid' g0 H0. apply upd_cases in H0. destruct H0 as [[-> ->]|[_ H0]]; [exact Hnd'|eauto]. }
  destruct Hcase as [[Hne' [Hcl' [Hep' ->]]]|[Hem' [Hep' ->]]].
  - (* not the last member *)
    constructor; auto.
    + intros n gid' Hin'. destruct (TV _ _ Hin') as [g0 [H0 [H1 H2]]].
      destruct (Nat.eq_dec gid gid') as [<-|Hneg].
      * assert (g0 = g) by congruence. subst g0. exists g'. rewrite nth_error_upd_same by exact Hlt.
        split; [reflexivity|]. split; [congruence|]. right. rewrite Hname. destruct H2 as [H2|H2]; [congruence|exact H2].
      * exists g0. rewrite nth_error_upd_other by exact Hneg. tauto.
    + intros gid' g0 H0 Hm. apply upd_cases in H0. destruct H0 as [[-> ->]|[_ H0]]; [rewrite Hname; exact Hin|eauto].
    + intros gid' g0 H0. apply upd_cases in H0. destruct H0 as [[-> ->]|[_ H0]]; [|eauto].
      rewrite Hep'. rewrite (E _ _ Hg). tauto.
    + intros i' j' gid' p' Hj' Ht'. apply Hthr in Ht'. destruct Ht' as [[_ Ht']|[Hne Ht']]; [discriminate|].
      destruct (M _ _ _ _ Hj' Ht') as [g0 [H0 [H1 H2]]].
      destruct (Nat.eq_dec gid gid') as [<-|Hneg].
      * assert (g0 = g) by congruence. subst g0. exists g'. rewrite nth_error_upd_same by exact Hlt.
        split; [reflexivity|]. split; [eapply Hother; eassumption|congruence].
      * exists g0. rewrite nth_error_upd_other by exact Hneg. tauto.
  - (* the last member *)
    constructor; auto.
    + apply NoDup_map_filter. exact K.
    + apply NoDup_map_filter. exact V.
    + intros n gid' Hin'. apply In_tab_del in Hin'. destruct Hin' as [Hin' Hn]. simpl in Hn.
      destruct (TV _ _ Hin') as [g0 [H0 H1]].
      destruct (Nat.eq_dec gid gid') as [<-|Hneg].
      * exfalso. apply Hn. eapply tab_vals_inj; eassumption.
      * exists g0. rewrite nth_error_upd_other by exact Hneg. tauto.
    + intros gid' g0 H0 Hm. apply upd_cases in H0. destruct H0 as [[-> ->]|[Hneg H0]]; [congruence|].
      apply In_tab_del. split; [eauto|]. simpl. intro Heq. apply Hneg.
      pose proof (L _ _ H0 Hm) as Hin0. rewrite Heq in Hin0. eapply tab_keys_inj; eassumption.
    + intros gid' g0 H0. apply upd_cases in H0. destruct H0 as [[-> ->]|[_ H0]]; [|eauto].
      rewrite Hep', Hem'. split; intro; congruence.
    + intros i' j' gid' p' Hj' Ht'. apply Hthr in Ht'. destruct Ht' as [[_ Ht']|[Hne Ht']]; [discriminate|].
      destruct (M _ _ _ _ Hj' Ht') as [g0 [H0 [H1 H2]]].
      destruct (Nat.eq_dec gid gid') as [<-|Hneg].
      * exfalso. pose proof (Hother _ _ _ Hne Hj' Ht') as Hx. rewrite Hem' in Hx. exact Hx.
      * exists g0. rewrite nth_error_upd_other by exact Hneg. tauto.
Qed.

Lemma remove_first_NoDup : forall x l, NoDup l -> NoDup (remove_first x l) /\ ~ In x (remove_first x l).
Proof.
  induction l as [|y l IH]; simpl; intro H; [split; [constructor|tauto]|].
  inversion H as [|? ? Hy Hl]; subst. destruct (x =? y) eqn:E.
  - apply Z.eqb_eq in E. subst. tauto.
  - apply Z.eqb_neq in E. destruct (IH Hl) as [H1 H2]. split.
    + constructor; [|exact H1]. intro Hin. apply Hy. eapply remove_first_subset. exact Hin.
    + simpl. intros [H3|H3]; [congruence|tauto].
Qed.

Lemma leave_chan_inv : forall s thr jt j gid p,
  k <> KHttp -> Inv (s_tab s) (s_heap s) thr -> is_join jt j -> nth_error thr jt = Some (TMember gid p) ->
  exists s', leave_chan k s gid (Z.of_nat jt) = Some s' /\ Inv (s_tab s') (s_heap s') (upd thr jt TLeft) /\
             s_env s' = s_env s.
Proof.
  intros s thr jt j gid p Hk I Hj Ht.
  pose proof I as [K V TV L E M U ND B].
  destruct (M _ _ _ _ Hj Ht) as [g [Hg [Hlid Hnm]]].
  assert (Hmem : members k g = g_lns g) by (destruct k; try reflexivity; congruence).
  assert (Hl : lid_of k j jt = Z.of_nat jt) by (destruct k; try reflexivity; congruence).
  assert (Hmne : members k g <> []) by (intro Hm; rewrite Hm in Hlid; exact Hlid).
  destruct (TV _ _ (L _ _ Hg Hmne)) as [g1 [Hg1 [Hcl _]]]. assert (g1 = g) by congruence. subst g1.
  pose proof (ND _ _ Hg) as Hnd. rewrite Hmem in Hnd.
  destruct (remove_first_NoDup (Z.of_nat jt) _ Hnd) as [Hnd' Hnotin].
  unfold leave_chan. rewrite Hg.
  destruct (is_nil (remove_first (Z.of_nat jt) (g_lns g))) eqn:En.
  - rewrite Hcl. eexists. split; [reflexivity|]. simpl. split; [|reflexivity].
    apply is_nil_true in En.
    eapply leave_abs_inv with (g := g) (g' := shut g); try eassumption.
    + intros x Hx. exfalso. destruct k; simpl in Hx; try exact Hx; congruence.
    + intros x Hx Hne. rewrite Hmem in Hx. rewrite Hl in Hne.
      pose proof (remove_first_In_other _ _ _ Hx Hne) as H0. rewrite En in H0. destruct H0.
    + destruct k; try constructor; congruence.
    + reflexivity.
    + right. repeat split; destruct k; try reflexivity; congruence.
  - eexists. split; [reflexivity|]. simpl. split; [|reflexivity].
    apply is_nil_false in En.
    assert (Hmem' : members k (set_lns g (remove_first (Z.of_nat jt) (g_lns g))) = remove_first (Z.of_nat jt) (g_lns g))
      by (destruct k; try reflexivity; congruence).
    eapply leave_abs_inv with (g := g) (g' := set_lns g (remove_first (Z.of_nat jt) (g_lns g))); try eassumption.
    + intros x Hx. rewrite Hmem' in Hx. rewrite Hmem, Hl. split; [eapply remove_first_subset; exact Hx|].
      intro; subst. exact (Hnotin Hx).
    + intros x Hx Hne. rewrite Hmem', <- Hl. rewrite Hmem in Hx. apply remove_first_In_other; assumption.
    + rewrite Hmem'. exact Hnd'.
    + reflexivity.
    + left. rewrite Hmem'. repeat split; try reflexivity. exact En.
Qed.

Lemma leave_http_inv : forall s thr jt j gid p,
  k = KHttp -> Inv (s_tab s) (s_heap s) thr -> is_join jt j -> nth_error thr jt = Some (TMember gid p) ->
  Inv (s_tab (leave_http s (j_group j) (j_m j))) (s_heap (leave_http s (j_group j) (j_m j))) (upd thr jt TLeft) /\
  s_env (leave_http s (j_group j) (j_m j)) = s_env s.
Proof.
  intros s thr jt j gid p Hk I Hj Ht.
  pose proof I as [K V TV L E M U ND B].
  destruct (M _ _ _ _ Hj Ht) as [g [Hg [Hlid Hnm]]].
  assert (Hmem : members k g = g_funcs g) by (rewrite Hk; reflexivity).
  assert (Hl : lid_of k j jt = j_m j) by (rewrite Hk; reflexivity).
  assert (Hmne : members k g <> []) by (intro Hm; rewrite Hm in Hlid; exact Hlid).
  pose proof (L _ _ Hg Hmne) as Hin. rewrite Hnm in Hin.
  unfold leave_http. rewrite (In_tab_get _ _ _ K Hin), Hg.
  pose proof (ND _ _ Hg) as Hnd. rewrite Hmem in Hnd.
  set (f := filter (fun x => negb (x =? j_m j)) (g_funcs g)).
  assert (Hf : forall x, In x f <-> In x (g_funcs g) /\ x <> j_m j).
  { intro x. unfold f. rewrite filter_In. split; intros [H1 H2]; split; try exact H1.
    - destruct (x =? j_m j) eqn:Eq; [discriminate|]. apply Z.eqb_neq. exact Eq.
    - apply Z.eqb_neq in H2. rewrite H2. reflexivity. }
  destruct (is_nil f) eqn:En; simpl; (split; [|reflexivity]).
  - apply is_nil_true in En.
    eapply leave_abs_inv with (g := g) (g' := set_http_members g (remove_first (j_m j) (g_lns g)) f false); try eassumption.
    + intros x Hx. rewrite Hk in Hx. simpl in Hx. rewrite En in Hx. destruct Hx.
    + intros x Hx Hne. rewrite Hk. simpl. apply Hf. rewrite Hmem in Hx. rewrite Hl in Hne. tauto.
    + rewrite Hk. simpl. rewrite En. constructor.
    + reflexivity.
    + right. rewrite Hk. simpl. rewrite <- Hnm. repeat split. exact En.
  - apply is_nil_false in En.
    eapply leave_abs_inv with (g := g) (g' := set_http_members g (remove_first (j_m j) (g_lns g)) f (g_ep g)); try eassumption.
    + intros x Hx. rewrite Hk in Hx. simpl in Hx. rewrite Hmem, Hl. apply Hf. exact Hx.
    + intros x Hx Hne. rewrite Hk. simpl. apply Hf. rewrite Hmem in Hx. rewrite Hl in Hne. tauto.
    + rewrite Hk. simpl. apply NoDup_filter. exact Hnd.
    + reflexivity.
    + left. rewrite Hk. simpl. repeat split. exact En.
Qed.

Definition InvC (c : cfg) : Prop := Inv (s_tab (c_s c)) (s_heap (c_s c)) (c_t c).

Lemma same_proj_set_idx : forall g i, same_proj g (set_idx g i).
Proof. intros g i. unfold same_proj. destruct k; simpl; repeat split. Qed.
Lemma same_proj_set_wk : forall g b, same_proj g (set_wk g b).
Proof. intros g b. unfold same_proj. destruct k; simpl; repeat split. Qed.
Lemma same_proj_refl : forall g, same_proj g g.
Proof. intros g. unfold same_proj. repeat split. Qed.

Lemma http_pick_proj : forall g g' o, http_pick g = (g', o) -> g' = set_idx g (g_idx g + 1).
Proof.
  intros g g' o H. unfold http_pick in H. destruct (g_lns g); [inversion H; reflexivity|].
  destruct (nth_error _ _); inversion H; reflexivity.
Qed.

(* one step of the current code: never a crash, and the invariant is kept *)
Lemma step_inv : forall i c, InvC c ->
  exists c', step k reqs i c = Run c' /\ InvC c'.
Proof.
  intros i c I. unfold step, stepg. unfold InvC in *.
  destruct (nth_error reqs i) as [[j|jt|r who|r|r]|] eqn:Er; [| | | | |exists c; split; [reflexivity|exact I]].
  - (* join *)
    destruct (nth_error (c_t c) i) as [t|] eqn:Et; [|exists c; split; [reflexivity|exact I]].
    destruct t; try (exists c; split; [reflexivity|exact I]).
    + destruct (lookup (c_s c) (j_group j)) as [s' gid] eqn:El.
      destruct (lookup_inv _ _ _ _ _ I El) as [I' [Hin _]].
      destruct (mutate k s' gid j (lid_of k j i)) as [s'' r] eqn:Em.
      eexists. split; [reflexivity|]. simpl.
      eapply mutate_inv; eassumption.
    + destruct (closing i (c_cl c) && negb (nmem i (c_dead c))); eexists; (split; [reflexivity|exact I]).
    + destruct (closing i (c_cl c) && negb (nmem i (c_dead c))); eexists; (split; [reflexivity|exact I]).
  - (* leave *)
    destruct (nth_error (c_t c) i) as [t|] eqn:Et; [|exists c; split; [reflexivity|exact I]].
    destruct t; try (exists c; split; [reflexivity|exact I]).
    + (* first step *)
      destruct (nth_error reqs jt) as [[j| | | |]|] eqn:Ej; try (exists c; split; [reflexivity|exact I]).
      destruct (nth_error (c_t c) jt) as [tj|] eqn:Etj; [|exists c; split; [reflexivity|exact I]].
      destruct tj; try (exists c; split; [reflexivity|exact I]).
      assert (Hne : i <> jt) by (intro; subst; congruence).
      destruct (kind_http_dec k) as [Hk|Hk].
      * assert (Hti : nth_error (upd (c_t c) jt TLeft) i = Some TInit) by (rewrite nth_error_upd_other by congruence; exact Et).
        exists (let s' := leave_http (c_s c) (j_group j) (j_m j) in set_t (set_t c s' jt TLeft) s' i TDone). split.
        { rewrite Hk. reflexivity. }
        simpl. destruct (leave_http_inv _ _ _ _ _ _ Hk I Ej Etj) as [I' _].
        eapply Inv_thr_passive; [exact I'|exact Hti|exact Logic.I|exact Logic.I].
      * assert (Hs : exists c', (if closing jt (c_cl c) then Run c else Run (set_t (add_cl c jt gid) (c_s c) i TLeaving)) = Run c' /\
                       Inv (s_tab (c_s c')) (s_heap (c_s c')) (c_t c')).
        { destruct (closing jt (c_cl c)); eexists; (split; [reflexivity|]); [exact I|]. simpl.
          eapply Inv_thr_passive; [exact I|exact Et|exact Logic.I|exact Logic.I]. }
        destruct k; try congruence; exact Hs.
    + (* second step *)
      destruct (kind_http_dec k) as [Hk|Hk]; [exists c; split; [rewrite Hk; reflexivity|exact I]|].
      assert (Hs : exists c', match nth_error reqs jt, nth_error (c_t c) jt with
           | Some (QJoin j), Some (TMember gid _) =>
               match leave_chan k (c_s c) gid (Z.of_nat jt) with
               | None => Crashed
               | Some s' => Run (set_t (set_t c s' jt TLeft) s' i TDone)
               end
           | _, _ => Run c end = Run c' /\ Inv (s_tab (c_s c')) (s_heap (c_s c')) (c_t c')).
      { destruct (nth_error reqs jt) as [[j| | | |]|] eqn:Ej; try (exists c; split; [reflexivity|exact I]).
        destruct (nth_error (c_t c) jt) as [tj|] eqn:Etj; [|exists c; split; [reflexivity|exact I]].
        destruct tj; try (exists c; split; [reflexivity|exact I]).
        assert (Hne : i <> jt) by (intro; subst; congruence).
        assert (Hti : nth_error (upd (c_t c) jt TLeft) i = Some TLeaving) by (rewrite nth_error_upd_other by congruence; exact Et).
        destruct (leave_chan_inv (c_s c) _ _ _ _ _ Hk I Ej Etj) as [s' [Hs' [I' _]]].
        exists (set_t (set_t c s' jt TLeft) s' i TDone). split; [rewrite Hs'; reflexivity|].
        simpl. eapply Inv_thr_passive; [exact I'|exact Hti|exact Logic.I|exact Logic.I]. }
      destruct k; try congruence; exact Hs.
  - (* connection *)
    destruct (nth_error (c_t c) i) as [t|] eqn:Et; [|exists c; split; [reflexivity|exact I]].
    destruct t; try (exists c; split; [reflexivity|exact I]).
    + (* accept *)
      destruct (find_ep k (c_s c) r) as [gid|].
      2:{ eexists. split; [reflexivity|]. simpl. eapply Inv_thr_passive; [exact I|exact Et|exact Logic.I|exact Logic.I]. }
      destruct (nth_error (s_heap (c_s c)) gid) as [g|] eqn:Eg; [|exists c; split; [reflexivity|exact I]].
      destruct (kind_http_dec k) as [Hk|Hk].
      * destruct (http_pick g) as [g' o] eqn:Ep.
        exists (set_t c (set_heap (c_s c) (upd (s_heap (c_s c)) gid g')) i (TConn o)). split.
        { rewrite Hk. reflexivity. }
        simpl. apply http_pick_proj in Ep. subst g'.
        eapply Inv_thr_passive; [|exact Et|exact Logic.I|exact Logic.I].
        eapply Inv_heap_same; [exact I|exact Eg|apply same_proj_set_idx].
      * assert (Hs : exists c', (if g_wk g then if existsb (is_held gid (g_gen g)) (c_t c) then Run c else Run (set_t c (c_s c) i (THeld gid (g_gen g)))
                          else Run (mark_lost (set_t c (c_s c) i (TConn CStranded)) (negb (is_nil (g_lns g))))) = Run c' /\
                          Inv (s_tab (c_s c')) (s_heap (c_s c')) (c_t c')).
        { destruct (g_wk g); [destruct (existsb _ _)|]; eexists; (split; [reflexivity|]); simpl; try exact I;
            (eapply Inv_thr_passive; [exact I|exact Et|exact Logic.I|exact Logic.I]). }
        destruct k; try congruence; exact Hs.
    + (* hand-off *)
      destruct (nth_error (s_heap (c_s c)) gid) as [g|] eqn:Eg; [|exists c; split; [reflexivity|exact I]].
      destruct (g_closed g).
      * eexists. split; [reflexivity|]. simpl.
        eapply Inv_thr_passive; [|exact Et|exact Logic.I|exact Logic.I].
        eapply Inv_heap_same; [exact I|exact Eg|]. destruct (gen =? g_gen g); [apply same_proj_set_wk|apply same_proj_refl].
      * destruct (can_receive c gid who); [|exists c; split; [reflexivity|exact I]].
        eexists. split; [reflexivity|]. simpl. eapply Inv_thr_passive; [exact I|exact Et|exact Logic.I|exact Logic.I].
  - destruct (nth_error (c_t c) i) as [t|] eqn:Et; [|exists c; split; [reflexivity|exact I]].
    destruct t; try (exists c; split; [reflexivity|exact I]).
    destruct (rmem r (s_used (c_s c))); eexists; (split; [reflexivity|]); simpl;
      (eapply Inv_thr_passive; [exact I|exact Et|exact Logic.I|exact Logic.I]).
  - destruct (nth_error (c_t c) i) as [t|] eqn:Et; [|exists c; split; [reflexivity|exact I]].
    destruct t; try (exists c; split; [reflexivity|exact I]).
    destruct (rmem r (s_env (c_s c))); eexists; (split; [reflexivity|]); simpl;
      (eapply Inv_thr_passive; [exact I|exact Et|exact Logic.I|exact Logic.I]).
Qed.

Lemma run_inv : forall sched c, InvC c -> exists c', run k reqs sched (Run c) = Run c' /\ InvC c'.
Proof.
  induction sched as [|i sched IH]; intros c I; [exists c; split; [reflexivity|exact I]|].
  destruct (step_inv i c I) as [c1 [H1 I1]]. destruct (IH c1 I1) as [c' [H' I']].
  exists c'. split; [|exact I']. unfold run in *. simpl. fold (step k reqs i c). rewrite H1. exact H'.
Qed.

Lemma nth_error_repeat_inv : forall A (x y : A) n i, nth_error (repeat x n) i = Some y -> y = x.
Proof. intros A x y n i H. apply nth_error_In in H. apply repeat_spec in H. exact H. Qed.

Lemma nth_error_nil_inv : forall A i (x : A), nth_error [] i = Some x -> False.
Proof. intros A i x H. destruct i; discriminate. Qed.

Lemma init_inv : forall lo hi n, InvC (init_cfg lo hi n).
Proof.
  intros lo hi n. unfold InvC. simpl. constructor; simpl.
  - constructor.
  - constructor.
  - tauto.
  - intros gid0 g0 H. destruct (nth_error_nil_inv _ _ _ H).
  - intros gid0 g0 H. destruct (nth_error_nil_inv _ _ _ H).
  - intros i j gid0 p _ H. apply nth_error_repeat_inv in H. discriminate.
  - intros i i' j j' gid0 p p' _ _ H. apply nth_error_repeat_inv in H. discriminate.
  - intros gid0 g0 H. destruct (nth_error_nil_inv _ _ _ H).
  - intros gid0 g0 x H. destruct (nth_error_nil_inv _ _ _ H).
Qed.

Lemma run_from_init : forall sched lo hi, exists c', run k reqs sched (init lo hi reqs) = Run c' /\ InvC c'.
Proof. intros. apply run_inv. apply init_inv. Qed.
End Sched.

(* ------------------------------------------------------------------ *)
(* for all schedules                                                   *)
(* ------------------------------------------------------------------ *)
Theorem never_crash : forall k reqs sched lo hi, run k reqs sched (init lo hi reqs) <> Crashed.
Proof. intros. destruct (run_from_init k reqs sched lo hi) as [c' [H _]]. rewrite H. discriminate. Qed.

Lemma find_ep_from_some : forall k h i r gid, find_ep_from k h i r = Some gid ->
  exists g, (i <= gid)%nat /\ nth_error h (gid - i) = Some g /\ g_ep g = true /\ g_res k g = r.
Proof.
  induction h as [|g h IH]; simpl; intros i r gid H; [discriminate|].
  destruct (g_ep g && lz_eqb (g_res k g) r) eqn:E.
  - inversion H; subst. apply andb_prop in E. destruct E as [E1 E2]. apply lz_eqb_eq in E2.
    exists g. rewrite Nat.sub_diag. simpl. auto.
  - destruct (IH _ _ _ H) as [g0 [H1 [H2 H3]]]. exists g0. split; [lia|]. split; [|exact H3].
    replace (gid - i)%nat with (S (gid - S i)) by lia. simpl. exact H2.
Qed.

Lemma find_ep_from_none : forall k h i r, find_ep_from k h i r = None ->
  forall gid g, nth_error h gid = Some g -> g_ep g = true -> g_res k g = r -> False.
Proof.
  induction h as [|g h IH]; simpl; intros i r H gid g0 Hg He Hr; [destruct gid; discriminate|].
  destruct (g_ep g && lz_eqb (g_res k g) r) eqn:E; [discriminate|].
  destruct gid; simpl in Hg.
  - inversion Hg; subst. rewrite He, lz_eqb_refl in E. discriminate.
  - eapply IH; eassumption.
Qed.

(* the real listener / route of a group answers on r  <->  the controller's table holds a group
   with at least one member whose endpoint is r *)
Theorem endpoint_iff_members : forall k reqs sched lo hi c,
  run k reqs sched (init lo hi reqs) = Run c ->
  forall r, ep_open k (c_s c) r = true <-> tab_has_live k (c_s c) r = true.
Proof.
  intros k reqs sched lo hi c H r.
  destruct (run_from_init k reqs sched lo hi) as [c' [H' I]]. rewrite H in H'. inversion H'; subst c'. clear H'.
  destruct I as [K V TV L E M U ND B].
  unfold ep_open, tab_has_live, find_ep. split; intro Hx.
  - destruct (find_ep_from k (s_heap (c_s c)) 0 r) as [gid|] eqn:Ef; [|discriminate].
    apply find_ep_from_some in Ef. destruct Ef as [g [_ [Hg [He Hr]]]]. rewrite Nat.sub_0_r in Hg.
    assert (Hm : members k g <> []) by (apply (E _ _ Hg); exact He).
    apply existsb_exists. exists (g_name g, gid). split; [apply (L _ _ Hg Hm)|]. simpl. rewrite Hg.
    apply is_nil_false in Hm. rewrite Hm. simpl. apply lz_eqb_eq. exact Hr.
  - apply existsb_exists in Hx. destruct Hx as [[n gid] [Hin Hx]]. simpl in Hx.
    destruct (nth_error (s_heap (c_s c)) gid) as [g|] eqn:Hg; [|discriminate].
    apply andb_prop in Hx. destruct Hx as [H1 H2]. apply negb_true_iff in H1. apply is_nil_false in H1.
    apply lz_eqb_eq in H2.
    destruct (find_ep_from k (s_heap (c_s c)) 0 r) eqn:Ef; [reflexivity|].
    exfalso. eapply find_ep_from_none; try eassumption. apply (E _ _ Hg). exact H1.
Qed.

(* a group object that is not in the table has no members, no endpoint and is never joined again:
   nothing is left over of a group after its last leave *)
Theorem detached_is_dead : forall k reqs sched lo hi c,
  run k reqs sched (init lo hi reqs) = Run c ->
  forall gid g, nth_error (s_heap (c_s c)) gid = Some g ->
  (forall n, ~ In (n, gid) (s_tab (c_s c))) -> members k g = [] /\ g_ep g = false.
Proof.
  intros k reqs sched lo hi c H gid g Hg Hnot.
  destruct (run_from_init k reqs sched lo hi) as [c' [H' I]]. rewrite H in H'. inversion H'; subst c'. clear H'.
  destruct I as [K V TV L E M U ND B].
  assert (Hm : members k g = []).
  { destruct (members k g) eqn:Em; [reflexivity|]. exfalso. apply (Hnot (g_name g)). apply (L _ _ Hg). congruence. }
  split; [exact Hm|]. destruct (g_ep g) eqn:Ee; [|reflexivity]. exfalso. apply (E _ _ Hg); assumption.
Qed.

(* members recorded in the objects are exactly the threads that joined and have not left *)
Theorem members_are_holders : forall k reqs sched lo hi c,
  run k reqs sched (init lo hi reqs) = Run c ->
  (forall i j gid p, nth_error reqs i = Some (QJoin j) -> nth_error (c_t c) i = Some (TMember gid p) ->
     exists g, nth_error (s_heap (c_s c)) gid = Some g /\ In (lid_of k j i) (members k g) /\ g_name g = j_group j /\
               In (j_group j, gid) (s_tab (c_s c)) /\ g_closed g = false /\ g_ep g = true) /\
  (forall gid g x, nth_error (s_heap (c_s c)) gid = Some g -> In x (members k g) ->
     exists i j p, nth_error reqs i = Some (QJoin j) /\ nth_error (c_t c) i = Some (TMember gid p) /\ lid_of k j i = x).
Proof.
  intros k reqs sched lo hi c H.
  destruct (run_from_init k reqs sched lo hi) as [c' [H' I]]. rewrite H in H'. inversion H'; subst c'. clear H'.
  destruct I as [K V TV L E M U ND B]. split; [|exact B].
  intros i j gid p Hj Ht. destruct (M _ _ _ _ Hj Ht) as [g [Hg [Hl Hn]]]. exists g.
  assert (Hm : members k g <> []) by (intro Hm; rewrite Hm in Hl; exact Hl).
  pose proof (L _ _ Hg Hm) as Hin. destruct (TV _ _ Hin) as [g1 [Hg1 [Hc _]]]. assert (g1 = g) by congruence. subst g1.
  repeat split; try assumption; [rewrite <- Hn; exact Hin|apply (E _ _ Hg); exact Hm].
Qed.

(* ------------------------------------------------------------------ *)
(* recreate after the last leave                                       *)
(* ------------------------------------------------------------------ *)
Lemma tab_get_tab_del : forall t n, tab_get (tab_del t n) n = None.
Proof.
  induction t as [|[a b] t IH]; simpl; intro n; [reflexivity|].
  destruct (a =? n) eqn:E; simpl; [apply IH|]. rewrite E. apply IH.
Qed.

(* tcp / tcpmux: the only member leaves; a join under the same name with the same endpoint
   parameters and ANY key is then a successful first join of a fresh group object *)
Lemma recreate_chan : forall k s gid g lid s' j' lid',
  k <> KHttp -> nth_error (s_heap s) gid = Some g -> g_lns g = [lid] ->
  leave_chan k s gid lid = Some s' ->
  j_group j' = g_name g -> j_par j' = g_par g ->
  (k = KTcp -> j_port j' = g_real g /\ g_real g <> 0 /\ allowed s (g_real g) = true /\ j_os j' = true /\ j_lis j' = true) ->
  (k = KMux -> j_mux j' = true) ->
  exists s'' p, join_seq k s' j' lid' = (s'', JOk p).
Proof.
  intros k s gid g lid s' j' lid' Hk Hg Hl Hlv Hn Hp Ht Hm.
  unfold leave_chan in Hlv. rewrite Hg, Hl in Hlv. simpl in Hlv. rewrite Z.eqb_refl in Hlv. simpl in Hlv.
  destruct (g_closed g); [discriminate|]. inversion Hlv; subst s'. clear Hlv.
  unfold join_seq, lookup. simpl. rewrite Hn, tab_get_tab_del.
  unfold mutate. cbn [s_heap set_heap set_tab set_used]. rewrite nth_error_app_new.
  destruct k; [| congruence |].
  - destruct (Ht eq_refl) as [H1 [H2 [H3 [H4 H5]]]].
    simpl. unfold acquire. simpl. apply Z.eqb_neq in H2. rewrite H1, H2. unfold allowed in *. simpl. rewrite H3.
    unfold g_res. simpl. rewrite rmem_rdel_same. simpl. rewrite H4, H5. simpl.
    eexists; eexists. reflexivity.
  - simpl. rewrite (Hm eq_refl). simpl. unfold g_res. simpl. rewrite Hp, rmem_rdel_same.
    eexists; eexists. reflexivity.
Qed.

(* http: the only member leaves; the route can be registered again at once by a new group *)
Lemma recreate_http : forall s gid g m j',
  tab_get (s_tab s) (g_name g) = Some gid -> nth_error (s_heap s) gid = Some g -> g_funcs g = [m] ->
  j_group j' = g_name g -> j_par j' = g_par g ->
  exists s'' p, join_seq KHttp (leave_http s (g_name g) m) j' (j_m j') = (s'', JOk p).
Proof.
  intros s gid g m j' Ht Hg Hf Hn Hp.
  unfold leave_http. rewrite Ht, Hg, Hf. simpl. rewrite Z.eqb_refl. simpl.
  unfold join_seq, lookup. simpl. rewrite Hn, tab_get_tab_del.
  unfold mutate. cbn [s_heap set_heap set_tab set_used]. rewrite nth_error_app_new.
  simpl. unfold g_res. simpl. rewrite Hp, rmem_rdel_same.
  eexists; eexists. reflexivity.
Qed.

(* ------------------------------------------------------------------ *)
(* hand-off and rotation, step level                                    *)
(* ------------------------------------------------------------------ *)
(* a connection is handed over only to a listener that is a member of the group object at that
   very moment, and the step delivers it to exactly that one *)
Lemma handoff_to_member : forall k reqs i c c' r who gid gen m,
  k <> KHttp -> nth_error reqs i = Some (QConn r who) -> nth_error (c_t c) i = Some (THeld gid gen) ->
  step k reqs i c = Run c' -> nth_error (c_t c') i = Some (TConn (CTo m)) ->
  m = who /\ can_receive c gid who = true /\
  exists g, nth_error (s_heap (c_s c)) gid = Some g /\ g_closed g = false.
Proof.
  intros k reqs i c c' r who gid gen m Hk Hr Ht Hs Hc.
  unfold step, stepg in Hs. rewrite Hr, Ht in Hs.
  destruct (nth_error (s_heap (c_s c)) gid) as [g|] eqn:Eg; [|inversion Hs; subst; congruence].
  destruct (g_closed g) eqn:Ec.
  - inversion Hs; subst. simpl in Hc. rewrite nth_error_upd_same in Hc by (eapply nth_error_lt; exact Ht). discriminate.
  - destruct (can_receive c gid who) eqn:Ez; [|inversion Hs; subst; congruence].
    inversion Hs; subst. simpl in Hc. rewrite nth_error_upd_same in Hc by (eapply nth_error_lt; exact Ht).
    inversion Hc; subst. split; [reflexivity|]. split; [reflexivity|]. exists g. auto.
Qed.

(* http: request number n (counting from 1) after counter value i0 goes to pxyNames[(i0+n) mod len] *)
Lemma http_pick_member : forall g g' o, http_pick g = (g', o) -> g_lns g <> [] ->
  (forall x, In x (g_lns g) -> In x (g_funcs g)) ->
  g_idx g' = g_idx g + 1 /\ g_lns g' = g_lns g /\ g_funcs g' = g_funcs g /\
  exists name, nth_error (g_lns g) (Z.to_nat ((g_idx g + 1) mod Z.of_nat (length (g_lns g)))) = Some name /\ o = CTo name.
Proof.
  intros g g' o H Hne Hsub. unfold http_pick in H.
  destruct (g_lns g) as [|a l] eqn:El; [congruence|].
  assert (Hlt : (Z.to_nat ((g_idx g + 1) mod Z.of_nat (length (a :: l))) < length (a :: l))%nat).
  { assert (0 < Z.of_nat (length (a :: l))) by (simpl; lia).
    pose proof (Z.mod_pos_bound (g_idx g + 1) _ H0). lia. }
  destruct (nth_error (a :: l) _) as [name|] eqn:En; [|apply nth_error_None in En; lia].
  inversion H; subst. simpl. repeat split; try assumption.
  exists name. split; [reflexivity|]. assert (Hin : In name (g_funcs g)) by (apply Hsub; eapply nth_error_In; exact En).
  apply zmem_In in Hin. rewrite Hin. reflexivity.
Qed.

(* ------------------------------------------------------------------ *)
(* regression witnesses: the code before the repair of F-C13 (two-step join)  *)
(* ------------------------------------------------------------------ *)
Definition wj (par : list Z) (port m : Z) : req :=
  QJoin {| j_m := m; j_group := 7; j_key := 5; j_par := par; j_port := port; j_pick := 0;
           j_os := true; j_lis := true; j_mux := true |}.
Definition old_reqs (par : list Z) (port : Z) : list req :=
  [wj par port 1; wj par port 2; QLeave 0%nat; QLeave 1%nat; wj par port 3].
(* J0 joins | J1 looks the group up | last leave of J0 (close(closeCh); CloseListener) | J1 mutates the
   detached object | J1 leaves *)
Definition old_sched : list nat := [0; 0; 1; 2; 2; 1; 3; 3]%nat.

Lemma old_two_step_join_crashes_tcp :
  run2 KTcp (old_reqs [1] 21300) old_sched (init 21300 21399 (old_reqs [1] 21300)) = Crashed.
Proof. vm_compute. reflexivity. Qed.

Lemma old_two_step_join_crashes_mux :
  run2 KMux (old_reqs [1; 0; 0; 0] 0) old_sched (init 0 0 (old_reqs [1; 0; 0; 0] 0)) = Crashed.
Proof. vm_compute. reflexivity. Qed.

(* http: no crash, but the route stays registered for ever and a new group cannot take it *)
Lemma old_two_step_join_leaks_route_http :
  exists c, run2 KHttp (old_reqs [1; 2; 3] 0) (old_sched ++ [4; 4]%nat) (init 0 0 (old_reqs [1; 2; 3] 0)) = Run c /\
    no_member c = true /\ ep_open KHttp (c_s c) [1; 2; 3] = true /\ tab_has_live KHttp (c_s c) [1; 2; 3] = false /\
    nth_error (c_t c) 4 = Some (TRefused ERouteConflict).
Proof. eexists. split; [vm_compute; reflexivity|]. vm_compute. repeat split. Qed.

(* the same requests and the same schedule on the current (atomic) model: nothing of the sort *)
Lemma same_schedule_now_fine :
  exists c, run KTcp (old_reqs [1] 21300) (old_sched ++ [4]%nat) (init 21300 21399 (old_reqs [1] 21300)) = Run c /\
    nth_error (c_t c) 4 = Some (TMember 1 21300) /\ c_lost c = false.
Proof. eexists. split; [vm_compute; reflexivity|]. vm_compute. repeat split. Qed.

Lemma old_no_overlap_excludes_witness :
  no_overlap KTcp (old_reqs [1] 21300) old_sched (init 21300 21399 (old_reqs [1] 21300)) = false.
Proof. vm_compute. reflexivity. Qed.

(* F-C10c: a refused FIRST join leaves an empty group object in the controller's table *)
Lemma refused_first_join_shell_witness :
  exists c, run KTcp [QEnvTake [21300]; wj [1] 21300 1] [0; 1]%nat (init 21300 21399 [QEnvTake [21300]; wj [1] 21300 1]) = Run c /\
    nth_error (c_t c) 1 = Some (TRefused EPortUsed) /\ s_tab (c_s c) = [(7, 0%nat)] /\
    nth_error (s_heap (c_s c)) 0 = Some new_grp.
Proof. eexists. split; [vm_compute; reflexivity|]. vm_compute. repeat split. Qed.

(* for all schedules: whenever a thread is the only member of its group, its leave succeeds and
   the group can be created again at once (same name, same endpoint, any key) *)
Theorem recreate_after_last_leave_chan : forall k reqs sched lo hi c jt j gid p g,
  k <> KHttp -> run k reqs sched (init lo hi reqs) = Run c ->
  nth_error reqs jt = Some (QJoin j) -> nth_error (c_t c) jt = Some (TMember gid p) ->
  nth_error (s_heap (c_s c)) gid = Some g -> g_lns g = [Z.of_nat jt] ->
  exists s', leave_chan k (c_s c) gid (Z.of_nat jt) = Some s' /\
    forall j' lid', j_group j' = g_name g -> j_par j' = g_par g ->
      (k = KTcp -> j_port j' = g_real g /\ g_real g <> 0 /\ allowed (c_s c) (g_real g) = true /\ j_os j' = true /\ j_lis j' = true) ->
      (k = KMux -> j_mux j' = true) ->
      exists s'' p', join_seq k s' j' lid' = (s'', JOk p').
Proof.
  intros k reqs sched lo hi c jt j gid p g Hk H Hj Ht Hg Hl.
  destruct (run_from_init k reqs sched lo hi) as [c' [H' I]]. rewrite H in H'. inversion H'; subst c'. clear H'.
  destruct (leave_chan_inv k reqs (c_s c) (c_t c) jt j gid p Hk I Hj Ht) as [s' [Hs' _]].
  exists s'. split; [exact Hs'|]. intros j' lid' H1 H2 H3 H4. eapply recreate_chan; eassumption.
Qed.

Theorem recreate_after_last_leave_http : forall reqs sched lo hi c jt j gid p g,
  run KHttp reqs sched (init lo hi reqs) = Run c ->
  nth_error reqs jt = Some (QJoin j) -> nth_error (c_t c) jt = Some (TMember gid p) ->
  nth_error (s_heap (c_s c)) gid = Some g -> g_funcs g = [j_m j] ->
  forall j', j_group j' = j_group j -> j_par j' = g_par g ->
    exists s'' p', join_seq KHttp (leave_http (c_s c) (j_group j) (j_m j)) j' (j_m j') = (s'', JOk p').
Proof.
  intros reqs sched lo hi c jt j gid p g H Hj Ht Hg Hf j' H1 H2.
  destruct (run_from_init KHttp reqs sched lo hi) as [c' [H' I]]. rewrite H in H'. inversion H'; subst c'. clear H'.
  destruct I as [K V TV L E M U ND B].
  destruct (M _ _ _ _ Hj Ht) as [g0 [Hg0 [Hl Hn]]]. assert (g0 = g) by congruence. subst g0.
  assert (Hm : members KHttp g <> []) by (intro Hm; rewrite Hm in Hl; exact Hl).
  pose proof (L _ _ Hg Hm) as Hin. rewrite <- Hn.
  eapply recreate_http; try eassumption; try congruence.
  apply In_tab_get; assumption.
Qed.

(* ------------------------------------------------------------------ *)
(* no connection is lost while its group has a member (tcp / tcpmux)   *)
(* ------------------------------------------------------------------ *)
Definition WK (h : list grp) : Prop := forall gid g, nth_error h gid = Some g -> g_ep g = true -> g_wk g = true.

Lemma WK_upd : forall h gid g', WK h -> (g_ep g' = true -> g_wk g' = true) -> WK (upd h gid g').
Proof.
  intros h gid g' W H gid' g0 H0 He. apply upd_cases in H0. destruct H0 as [[_ ->]|[_ H0]]; [auto|eapply W; eassumption].
Qed.

Lemma lookup_wk : forall s n s' gid, WK (s_heap s) -> lookup s n = (s', gid) -> WK (s_heap s').
Proof.
  intros s n s' gid W H. unfold lookup in H. destruct (tab_get (s_tab s) n); inversion H; subst; [exact W|].
  simpl. intros gid' g0 H0 He. apply nth_error_app_cases in H0. destruct H0 as [H0|[_ ->]]; [eapply W; eassumption|discriminate].
Qed.

Lemma mutate_wk : forall k s gid j lid s' r, k <> KHttp -> WK (s_heap s) -> mutate k s gid j lid = (s', r) -> WK (s_heap s').
Proof.
  intros k s gid j lid s' r Hk W H. unfold mutate in H.
  destruct (nth_error (s_heap s) gid) as [g|] eqn:Hg; [|inversion H; subst; exact W].
  destruct k; [| congruence |].
  - destruct (is_nil (g_lns g)).
    + destruct (acquire s j); [|inversion H; subst; exact W].
      destruct (negb (j_lis j)); inversion H; subst; [exact W|]. simpl. apply WK_upd; [exact W|reflexivity].
    + repeat match type of H with (if ?c then _ else _) = _ => destruct c end; inversion H; subst; try exact W.
      simpl. apply WK_upd; [exact W|]. simpl. apply (W _ _ Hg).
  - repeat match type of H with (if ?c then _ else _) = _ => destruct c end; inversion H; subst; try exact W;
      simpl; (apply WK_upd; [exact W|]); simpl; try reflexivity. apply (W _ _ Hg).
Qed.

Lemma leave_chan_wk : forall k s gid lid s', WK (s_heap s) -> leave_chan k s gid lid = Some s' -> WK (s_heap s').
Proof.
  intros k s gid lid s' W H. unfold leave_chan in H.
  destruct (nth_error (s_heap s) gid) as [g|] eqn:Hg; [|inversion H; subst; exact W].
  destruct (is_nil (remove_first lid (g_lns g))).
  - destruct (g_closed g); [discriminate|]. inversion H; subst. simpl. apply WK_upd; [exact W|]. simpl. discriminate.
  - inversion H; subst. simpl. apply WK_upd; [exact W|]. simpl. apply (W _ _ Hg).
Qed.

Section Lost.
Variable k : kind.
Variable reqs : list req.
Hypothesis Hk : k <> KHttp.

Definition Good (c : cfg) : Prop := InvC k reqs c /\ WK (s_heap (c_s c)) /\ c_lost c = false.

Lemma closed_no_members : forall c gid g, InvC k reqs c -> nth_error (s_heap (c_s c)) gid = Some g ->
  g_closed g = true -> g_lns g = [] /\ g_ep g = false.
Proof.
  intros c gid g [K V TV L E M U ND B] Hg Hc.
  assert (Hmem : members k g = g_lns g) by (destruct k; try reflexivity; congruence).
  assert (Hm : members k g = []).
  { destruct (members k g) eqn:Em; [reflexivity|]. exfalso.
    assert (Hne : members k g <> []) by congruence.
    destruct (TV _ _ (L _ _ Hg Hne)) as [g1 [Hg1 [Hc1 _]]]. congruence. }
  split; [congruence|]. destruct (g_ep g) eqn:Ee; [|reflexivity]. exfalso. apply (E _ _ Hg); assumption.
Qed.

Lemma step_good : forall i c, Good c -> exists c', step k reqs i c = Run c' /\ Good c'.
Proof.
  intros i c [I [W Lo]]. destruct (step_inv k reqs i c I) as [c' [Hs I']]. exists c'. split; [exact Hs|].
  split; [exact I'|]. clear I'. unfold step, stepg in Hs.
  destruct (nth_error reqs i) as [[j|jt|r who|r|r]|] eqn:Er; [| | | | |inversion Hs; subst; auto].
  - destruct (nth_error (c_t c) i) as [t|] eqn:Et; [|inversion Hs; subst; auto].
    destruct t; try (inversion Hs; subst; auto; fail).
    + destruct (lookup (c_s c) (j_group j)) as [s' gid] eqn:El.
      destruct (mutate k s' gid j (lid_of k j i)) as [s'' r] eqn:Em. inversion Hs; subst. simpl.
      split; [|exact Lo]. eapply mutate_wk; [exact Hk| |exact Em]. eapply lookup_wk; eassumption.
    + destruct (closing i (c_cl c) && negb (nmem i (c_dead c))); inversion Hs; subst; auto.
    + destruct (closing i (c_cl c) && negb (nmem i (c_dead c))); inversion Hs; subst; auto.
  - destruct (nth_error (c_t c) i) as [t|] eqn:Et; [|inversion Hs; subst; auto].
    destruct t; try (inversion Hs; subst; auto; fail).
    + destruct (nth_error reqs jt) as [[j| | | |]|]; try (inversion Hs; subst; auto; fail).
      destruct (nth_error (c_t c) jt) as [tj|]; [|inversion Hs; subst; auto].
      destruct tj; try (inversion Hs; subst; auto; fail).
      destruct k; try congruence; (destruct (closing jt (c_cl c)); inversion Hs; subst; auto).
    + destruct k eqn:Ek; try congruence;
        (destruct (nth_error reqs jt) as [[j| | | |]|]; try (inversion Hs; subst; auto; fail);
         destruct (nth_error (c_t c) jt) as [tj|]; [|inversion Hs; subst; auto];
         destruct tj; try (inversion Hs; subst; auto; fail);
         match type of Hs with match ?x with _ => _ end = _ => destruct x as [s'|] eqn:El end; [|discriminate];
         inversion Hs; subst; simpl; split; [eapply leave_chan_wk; eassumption|exact Lo]).
  - destruct (nth_error (c_t c) i) as [t|] eqn:Et; [|inversion Hs; subst; auto].
    destruct t; try (inversion Hs; subst; auto; fail).
    + destruct (find_ep k (c_s c) r) as [gid|] eqn:Ef; [|inversion Hs; subst; auto].
      destruct (nth_error (s_heap (c_s c)) gid) as [g|] eqn:Eg; [|inversion Hs; subst; auto].
      assert (Hwk : g_wk g = true).
      { unfold find_ep in Ef. apply find_ep_from_some in Ef. destruct Ef as [g0 [_ [H0 [He _]]]].
        rewrite Nat.sub_0_r in H0. assert (g0 = g) by congruence. subst g0. apply (W _ _ Eg He). }
      destruct k; try congruence; rewrite Hwk in Hs;
        (destruct (existsb (is_held gid (g_gen g)) (c_t c)); inversion Hs; subst; auto).
    + destruct (nth_error (s_heap (c_s c)) gid) as [g|] eqn:Eg; [|inversion Hs; subst; auto].
      destruct (g_closed g) eqn:Ec.
      * destruct (closed_no_members c gid g I Eg Ec) as [Hl He].
        inversion Hs; subst. simpl. split.
        -- apply WK_upd; [exact W|]. destruct (gen =? g_gen g); simpl; congruence.
        -- rewrite Lo, Hl. reflexivity.
      * destruct (can_receive c gid who); inversion Hs; subst; auto.
  - destruct (nth_error (c_t c) i) as [t|] eqn:Et; [|inversion Hs; subst; auto].
    destruct t; try (inversion Hs; subst; auto; fail).
    destruct (rmem r (s_used (c_s c))); inversion Hs; subst; auto.
  - destruct (nth_error (c_t c) i) as [t|] eqn:Et; [|inversion Hs; subst; auto].
    destruct t; try (inversion Hs; subst; auto; fail).
    destruct (rmem r (s_env (c_s c))); inversion Hs; subst; auto.
Qed.

Lemma run_good : forall sched c, Good c -> exists c', run k reqs sched (Run c) = Run c' /\ Good c'.
Proof.
  induction sched as [|i sched IH]; intros c G; [exists c; split; [reflexivity|exact G]|].
  destruct (step_good i c G) as [c1 [H1 G1]]. destruct (IH c1 G1) as [c' [H' G']].
  exists c'. split; [|exact G']. unfold run in *. simpl. fold (step k reqs i c). rewrite H1. exact H'.
Qed.

Lemma init_good : forall lo hi n, Good (init_cfg lo hi n).
Proof.
  intros. split; [apply init_inv|]. split; [|reflexivity].
  intros gid g H. destruct (nth_error_nil_inv _ _ _ H).
Qed.
End Lost.

(* for all request lists and schedules: no connection is ever dropped or left in the backlog while
   its group has a member *)
Theorem never_lost_while_member_live : forall k reqs sched lo hi c,
  k <> KHttp -> run k reqs sched (init lo hi reqs) = Run c -> c_lost c = false.
Proof.
  intros k reqs sched lo hi c Hk H.
  destruct (run_good k reqs Hk sched _ (init_good k reqs lo hi (length reqs))) as [c' [H' [_ [_ L]]]].
  unfold init in H. rewrite H in H'. inversion H'; subst. exact L.
Qed.

(* ... and a connection the worker holds can be handed over as soon as any current member's accept
   loop runs: the hand-off step with that member as receiver delivers it *)
Theorem held_connection_deliverable : forall k reqs sched lo hi c i r who gid gen w p,
  k <> KHttp -> run k reqs sched (init lo hi reqs) = Run c ->
  nth_error reqs i = Some (QConn r who) -> nth_error (c_t c) i = Some (THeld gid gen) ->
  who = Z.of_nat w -> (exists j, nth_error reqs w = Some (QJoin j)) ->
  nth_error (c_t c) w = Some (TMember gid p) -> nmem w (c_dead c) = false ->
  exists c', step k reqs i c = Run c' /\ nth_error (c_t c') i = Some (TConn (CTo who)).
Proof.
  intros k reqs sched lo hi c i r who gid gen w p Hk H Hr Ht Hw [j Hj] Hm Hd.
  destruct (run_from_init k reqs sched lo hi) as [c0 [H0 I]]. rewrite H in H0. inversion H0; subst c0. clear H0.
  pose proof I as [K V TV L E M U ND B].
  destruct (M _ _ _ _ Hj Hm) as [g [Hg [Hl Hn]]].
  assert (Hne : members k g <> []) by (intro Hx; rewrite Hx in Hl; exact Hl).
  destruct (TV _ _ (L _ _ Hg Hne)) as [g1 [Hg1 [Hc _]]]. assert (g1 = g) by congruence. subst g1.
  unfold step, stepg. rewrite Hr, Ht, Hg, Hc.
  assert (Hcr : can_receive c gid who = true).
  { unfold can_receive. subst who. rewrite Nat2Z.id, Hm, Hd, Nat.eqb_refl. simpl.
    destruct (0 <=? Z.of_nat w) eqn:E0; [reflexivity|]. apply Z.leb_gt in E0. lia. }
  rewrite Hcr. eexists. split; [reflexivity|]. simpl. apply nth_error_upd_same. eapply nth_error_lt. exact Ht.
Qed.

(* ------------------------------------------------------------------ *)
(* http round-robin fairness                                           *)
(* ------------------------------------------------------------------ *)
Lemma filter_map_length : forall A B (f : A -> B) p l,
  length (filter p (map f l)) = length (filter (fun t => p (f t)) l).
Proof. induction l as [|x l IH]; simpl; [reflexivity|]. destruct (p (f x)); simpl; rewrite IH; reflexivity. Qed.

Lemma count_eq_seq : forall i n s,
  ((s <= i < s + n)%nat -> length (filter (fun u => Nat.eqb u i) (seq s n)) = 1%nat) /\
  (~ (s <= i < s + n)%nat -> length (filter (fun u => Nat.eqb u i) (seq s n)) = 0%nat).
Proof.
  induction n as [|n IH]; intro s; simpl.
  - split; intro H; [lia|reflexivity].
  - destruct (IH (S s)) as [IH1 IH2]. destruct (Nat.eqb s i) eqn:E; simpl.
    + apply Nat.eqb_eq in E. subst. split; intro H; [|lia]. rewrite IH2 by lia. reflexivity.
    + apply Nat.eqb_neq in E. split; intro H; [apply IH1|apply IH2]; lia.
Qed.

Section Fair.
Variable L i : nat.
Hypothesis HL : (i < L)%nat.
Let Q (u : nat) : bool := Nat.eqb (u mod L) i.

Lemma window_zero : length (filter Q (seq 0 L)) = 1%nat.
Proof.
  rewrite (filter_ext_in Q (fun u => Nat.eqb u i)).
  - apply (proj1 (count_eq_seq i L 0)). lia.
  - intros u Hu. apply in_seq in Hu. unfold Q. rewrite Nat.mod_small by lia. reflexivity.
Qed.

Lemma window_any : forall s, length (filter Q (seq s L)) = 1%nat.
Proof.
  induction s as [|s IH]; [apply window_zero|].
  destruct L as [|L'] eqn:EL; [lia|].
  rewrite seq_S, filter_app, app_length. simpl seq in IH. simpl filter in IH.
  assert (Hq : Q (S s + L') = Q s).
  { unfold Q. replace (S s + L')%nat with (s + 1 * L)%nat by lia. rewrite EL at 1. rewrite <- EL. rewrite Nat.mod_add by lia. reflexivity. }
  change (filter Q [(S s + L')%nat]) with (if Q (S s + L')%nat then [(S s + L')%nat] else []).
  rewrite Hq. destruct (Q s); simpl in *; lia.
Qed.

Lemma windows_k : forall k s, length (filter Q (seq s (k * L))) = k.
Proof.
  induction k as [|k IH]; intro s; [reflexivity|].
  simpl. rewrite seq_app, filter_app, app_length, window_any, IH. reflexivity.
Qed.

Lemma count_shift : forall a n s,
  length (filter (fun t => Q (a + t)) (seq s n)) = length (filter Q (seq (a + s) n)).
Proof.
  induction n as [|n IH]; intro s; [reflexivity|]. simpl.
  rewrite <- Nat.add_succ_r. destruct (Q (a + s)); simpl; rewrite IH; reflexivity.
Qed.
End Fair.

Lemma picks_spec : forall n g, g_lns g <> [] -> (forall x, In x (g_lns g) -> In x (g_funcs g)) ->
  picks g n = map (fun t => match nth_error (g_lns g) (Z.to_nat ((g_idx g + Z.of_nat t) mod Z.of_nat (length (g_lns g)))) with
                            | Some x => CTo x | None => CNoFunc end) (seq 1 n).
Proof.
  induction n as [|n IH]; intros g Hne Hsub; [reflexivity|].
  simpl picks. destruct (http_pick g) as [g' o] eqn:Ep.
  destruct (http_pick_member _ _ _ Ep Hne Hsub) as [Hi [Hl [Hf [name [Hn ->]]]]].
  simpl seq. simpl map. f_equal.
  - replace (g_idx g + Z.of_nat 1) with (g_idx g + 1) by lia. rewrite Hn. reflexivity.
  - rewrite IH by (rewrite ?Hl, ?Hf; assumption). rewrite <- (seq_shift n 1), map_map. apply map_ext. intro t.
    rewrite Hl, Hi. replace (g_idx g + 1 + Z.of_nat t) with (g_idx g + Z.of_nat (S t)) by lia. reflexivity.
Qed.

(* over k * n consecutive requests each of the n members of an http group is chosen exactly k times *)
Theorem http_fair : forall g k x,
  NoDup (g_lns g) -> (forall y, In y (g_lns g) -> In y (g_funcs g)) -> 0 <= g_idx g -> In x (g_lns g) ->
  length (filter (is_to x) (picks g (k * length (g_lns g)))) = k.
Proof.
  intros g k x Hnd Hsub Hidx Hx.
  assert (Hne : g_lns g <> []) by (intro H; rewrite H in Hx; exact Hx).
  set (L := length (g_lns g)). assert (HL : (0 < L)%nat) by (unfold L; destruct (g_lns g); [congruence|simpl; lia]).
  destruct (In_nth_error _ _ Hx) as [i Hi]. assert (HiL : (i < L)%nat) by (eapply nth_error_lt; exact Hi).
  rewrite picks_spec by assumption. rewrite filter_map_length.
  set (a := Z.to_nat (g_idx g)).
  rewrite (filter_ext_in _ (fun t => Nat.eqb ((a + t) mod L) i)).
  - rewrite (count_shift L i a). apply windows_k. exact HiL.
  - intros t _. fold L.
    assert (Hpos : Z.to_nat ((g_idx g + Z.of_nat t) mod Z.of_nat L) = ((a + t) mod L)%nat).
    { replace (g_idx g + Z.of_nat t) with (Z.of_nat (a + t)) by (unfold a; lia).
      rewrite <- Nat2Z.inj_mod. apply Nat2Z.id. }
    rewrite Hpos.
    assert (Hlt : ((a + t) mod L < L)%nat) by (apply Nat.mod_upper_bound; lia).
    destruct (nth_error (g_lns g) ((a + t) mod L)) as [y|] eqn:Ey; [|apply nth_error_None in Ey; fold L in Ey; lia].
    simpl. destruct (Nat.eqb ((a + t) mod L) i) eqn:E.
    + apply Nat.eqb_eq in E. rewrite E in Ey. assert (y = x) by congruence. subst. apply Z.eqb_refl.
    + apply Nat.eqb_neq in E. apply Z.eqb_neq. intro; subst y. apply E.
      apply (proj1 (NoDup_nth_error (g_lns g)) Hnd); [exact Hlt|congruence].
Qed.

(* tcp with a server-chosen port: after the only member left, the port that had been chosen is free
   again in the manager, and a new group asking for "any port" can be given exactly that one *)
Lemma recreate_tcp_port0 : forall s gid g lid s' j' lid',
  nth_error (s_heap s) gid = Some g -> g_lns g = [lid] ->
  leave_chan KTcp s gid lid = Some s' ->
  rmem [g_real g] (s_used s') = false /\
  (j_group j' = g_name g -> j_port j' = 0 -> j_pick j' = g_real g -> g_real g <> 0 ->
   allowed s (g_real g) = true -> j_lis j' = true ->
   exists s'', join_seq KTcp s' j' lid' = (s'', JOk (g_real g))).
Proof.
  intros s gid g lid s' j' lid' Hg Hl Hlv.
  unfold leave_chan in Hlv. rewrite Hg, Hl in Hlv. simpl in Hlv. rewrite Z.eqb_refl in Hlv. simpl in Hlv.
  destruct (g_closed g); [discriminate|]. inversion Hlv; subst s'. clear Hlv. simpl.
  split; [unfold g_res; simpl; apply rmem_rdel_same|].
  intros Hn Hp Hk Hr Ha Hli.
  unfold join_seq, lookup. simpl. rewrite Hn, tab_get_tab_del.
  unfold mutate. cbn [s_heap set_heap set_tab set_used]. rewrite nth_error_app_new.
  simpl. unfold acquire. simpl. rewrite Hp, Hk. simpl. apply Z.eqb_neq in Hr. rewrite Hr.
  unfold allowed in *. simpl. rewrite Ha. unfold g_res. simpl. rewrite rmem_rdel_same. simpl. rewrite Hli. simpl.
  eexists. reflexivity.
Qed.

(* ------------------------------------------------------------------ *)
(* a group with members keeps its port / route, whatever other groups do *)
(* ------------------------------------------------------------------ *)
Section Routes.
Variable k : kind.
Variable reqs : list req.

Record InvU (s : st) : Prop := mkInvU {
  U_in : forall gid g, nth_error (s_heap s) gid = Some g -> g_ep g = true -> rmem (g_res k g) (s_used s) = true;
  U_inj : forall gid1 gid2 g1 g2, nth_error (s_heap s) gid1 = Some g1 -> nth_error (s_heap s) gid2 = Some g2 ->
     g_ep g1 = true -> g_ep g2 = true -> g_res k g1 = g_res k g2 -> gid1 = gid2;
  U_env : forall r, rmem r (s_env s) = true ->
     rmem r (s_used s) = true /\ forall gid g, nth_error (s_heap s) gid = Some g -> g_ep g = true -> g_res k g <> r
}.

(* an update of one object that keeps its endpoint flag and its resource *)
Lemma InvU_upd_same : forall s gid g g',
  InvU s -> nth_error (s_heap s) gid = Some g -> g_ep g' = g_ep g -> g_res k g' = g_res k g ->
  InvU (set_heap s (upd (s_heap s) gid g')).
Proof.
  intros s gid g g' [A B C] Hg He Hr. constructor; simpl.
  - intros gid' g0 H0 Hep. apply upd_cases in H0. destruct H0 as [[-> ->]|[_ H0]]; [rewrite Hr; apply (A _ _ Hg); congruence|eauto].
  - intros gid1 gid2 g1 g2 H1 H2 E1 E2 Hq.
    apply upd_cases in H1. apply upd_cases in H2.
    destruct H1 as [[-> ->]|[N1 H1]], H2 as [[-> ->]|[N2 H2]]; [reflexivity| | |eauto].
    + rewrite Hr in Hq. rewrite He in E1. eapply B; eassumption.
    + rewrite Hr in Hq. rewrite He in E2. eapply B; eassumption.
  - intros r Hr'. destruct (C r Hr') as [C1 C2]. split; [exact C1|].
    intros gid' g0 H0 Hep. apply upd_cases in H0. destruct H0 as [[-> ->]|[_ H0]]; [rewrite Hr; apply (C2 _ _ Hg); congruence|eauto].
Qed.

(* an object gives its resource up (last leave) *)
Lemma InvU_release : forall s gid g g',
  InvU s -> nth_error (s_heap s) gid = Some g -> g_ep g = true -> g_ep g' = false ->
  InvU (set_used (set_heap s (upd (s_heap s) gid g')) (rdel (g_res k g) (s_used s))).
Proof.
  intros s gid g g' [A B C] Hg He He'. constructor; simpl.
  - intros gid' g0 H0 Hep. apply upd_cases in H0. destruct H0 as [[-> ->]|[N H0]]; [congruence|].
    rewrite rmem_rdel_other; [eauto|]. intro Hq. apply N. eapply B; eauto.
  - intros gid1 gid2 g1 g2 H1 H2 E1 E2 Hq.
    apply upd_cases in H1. apply upd_cases in H2.
    destruct H1 as [[-> ->]|[N1 H1]]; [congruence|]. destruct H2 as [[-> ->]|[N2 H2]]; [congruence|]. eauto.
  - intros r Hr'. destruct (C r Hr') as [C1 C2]. split.
    + rewrite rmem_rdel_other; [exact C1|]. apply (C2 _ _ Hg He).
    + intros gid' g0 H0 Hep. apply upd_cases in H0. destruct H0 as [[-> ->]|[_ H0]]; [congruence|eauto].
Qed.

(* an object without endpoint takes a resource that nobody has *)
Lemma InvU_take : forall s gid g g',
  InvU s -> nth_error (s_heap s) gid = Some g -> g_ep g = false ->
  rmem (g_res k g') (s_used s) = false ->
  InvU (set_used (set_heap s (upd (s_heap s) gid g')) (g_res k g' :: s_used s)).
Proof.
  intros s gid g g' [A B C] Hg He Hfree.
  assert (Hcons : forall r u x, rmem r u = true -> rmem r (x :: u) = true).
  { intros r u x H. apply rmem_In. right. apply rmem_In. exact H. }
  constructor; simpl.
  - intros gid' g0 H0 Hep. apply upd_cases in H0. destruct H0 as [[-> ->]|[_ H0]].
    + rewrite lz_eqb_refl. reflexivity.
    + rewrite (A _ _ H0 Hep). apply orb_true_r.
  - intros gid1 gid2 g1 g2 H1 H2 E1 E2 Hq.
    apply upd_cases in H1. apply upd_cases in H2.
    destruct H1 as [[-> ->]|[N1 H1]], H2 as [[-> ->]|[N2 H2]]; [reflexivity| | |eauto].
    + exfalso. rewrite Hq in Hfree. rewrite (A _ _ H2 E2) in Hfree. discriminate.
    + exfalso. rewrite <- Hq in Hfree. rewrite (A _ _ H1 E1) in Hfree. discriminate.
  - intros r Hr'. destruct (C r Hr') as [C1 C2]. split; [rewrite C1; apply orb_true_r|].
    intros gid' g0 H0 Hep. apply upd_cases in H0. destruct H0 as [[-> ->]|[_ H0]]; [|eauto].
    intro Hq. rewrite Hq in Hfree. congruence.
Qed.

Lemma lookup_invu : forall s n s' gid, InvU s -> lookup s n = (s', gid) -> InvU s'.
Proof.
  intros s n s' gid [A B C] H. unfold lookup in H. destruct (tab_get (s_tab s) n); inversion H; subst; [constructor; assumption|].
  assert (Hcase : forall gid' g0, nth_error (s_heap s ++ [new_grp]) gid' = Some g0 -> g_ep g0 = true -> nth_error (s_heap s) gid' = Some g0).
  { intros gid' g0 H0 He. apply nth_error_app_cases in H0. destruct H0 as [H0|[_ ->]]; [exact H0|discriminate]. }
  constructor; simpl.
  - intros gid' g0 H0 He. eauto.
  - intros gid1 gid2 g1 g2 H1 H2 E1 E2. eauto.
  - intros r Hr. destruct (C r Hr) as [C1 C2]. split; [exact C1|]. intros gid' g0 H0 He. eauto.
Qed.

(* what step 2 of a join does to ports / routes *)
Lemma mutate_res_spec : forall s gid g j lid s' r,
  nth_error (s_heap s) gid = Some g -> mutate k s gid j lid = (s', r) ->
  s' = s \/
  (exists g', s' = set_heap s (upd (s_heap s) gid g') /\ g_ep g' = g_ep g /\ g_res k g' = g_res k g) \/
  (exists g', s' = set_used (set_heap s (upd (s_heap s) gid g')) (g_res k g' :: s_used s) /\
              members k g = [] /\ rmem (g_res k g') (s_used s) = false).
Proof.
  intros s gid g j lid s' r Hg H. unfold mutate in H. rewrite Hg in H.
  destruct k eqn:Ek.
  - destruct (is_nil (g_lns g)) eqn:En.
    + apply is_nil_true in En. unfold acquire in H.
      destruct (j_port j =? 0).
      * destruct (j_pick j =? 0); [destruct (j_os j && free_exists s); inversion H; auto|].
        destruct (allowed s (j_pick j) && negb (rmem [j_pick j] (s_used s))) eqn:Ea; [|inversion H; auto].
        destruct (negb (j_lis j)); [inversion H; auto|]. inversion H; subst. right. right.
        exists (set_first g j (j_pick j) lid true). split; [reflexivity|]. split; [exact En|]. simpl. unfold g_res. simpl.
        apply andb_prop in Ea. destruct Ea as [_ Ea]. apply negb_true_iff in Ea. exact Ea.
      * destruct (allowed s (j_port j) && negb (rmem [j_port j] (s_used s))) eqn:Ea.
        -- destruct (j_os j); [|inversion H; auto].
           destruct (negb (j_lis j)); [inversion H; auto|]. inversion H; subst. right. right.
           exists (set_first g j (j_port j) lid true). split; [reflexivity|]. split; [exact En|]. simpl. unfold g_res. simpl.
           apply andb_prop in Ea. destruct Ea as [_ Ea]. apply negb_true_iff in Ea. exact Ea.
        -- destruct (rmem [j_port j] (s_used s)); inversion H; auto.
    + repeat match type of H with (if ?c then _ else _) = _ => destruct c end; inversion H; subst; auto.
      right. left. eexists. split; [reflexivity|]. split; reflexivity.
  - destruct (is_nil (g_funcs g)) eqn:En.
    + apply is_nil_true in En.
      destruct (rmem (res_of KHttp (j_par j) 0) (s_used s)) eqn:Ea; inversion H; subst; auto.
      right. right. exists (add_func (set_http_first g j) (j_m j)). split; [reflexivity|]. split; [exact En|]. exact Ea.
    + repeat match type of H with (if ?c then _ else _) = _ => destruct c end; inversion H; subst; auto.
      right. left. eexists. split; [reflexivity|]. split; reflexivity.
  - destruct (negb (j_mux j)); [inversion H; auto|].
    destruct (is_nil (g_lns g)) eqn:En.
    + apply is_nil_true in En.
      destruct (rmem (res_of KMux (j_par j) 0) (s_used s)) eqn:Ea; inversion H; subst; auto.
      right. right. exists (set_first g j 0 lid true). split; [reflexivity|]. split; [exact En|]. exact Ea.
    + repeat match type of H with (if ?c then _ else _) = _ => destruct c end; inversion H; subst; auto.
      right. left. eexists. split; [reflexivity|]. split; reflexivity.
Qed.

Lemma InvU_tab : forall s t, InvU s -> InvU (set_tab s t).
Proof. intros s t [A B C]. constructor; simpl; assumption. Qed.

Lemma InvU_env_take : forall s r, InvU s -> rmem r (s_used s) = false ->
  InvU (set_env (set_used s (r :: s_used s)) (r :: s_env s)).
Proof.
  intros s r [A B C] Hf. constructor; simpl.
  - intros gid g Hg He. rewrite (A _ _ Hg He). apply orb_true_r.
  - exact B.
  - intros r' Hr'. apply orb_prop in Hr'. destruct Hr' as [Hr'|Hr'].
    + apply lz_eqb_eq in Hr'. subst r'. rewrite lz_eqb_refl. split; [reflexivity|].
      intros gid g Hg He Hq. rewrite <- Hq in Hf. rewrite (A _ _ Hg He) in Hf. discriminate.
    + destruct (C r' Hr') as [C1 C2]. split; [rewrite C1; apply orb_true_r|exact C2].
Qed.

Lemma InvU_env_free : forall s r, InvU s -> rmem r (s_env s) = true ->
  InvU (set_env (set_used s (rdel r (s_used s))) (rdel r (s_env s))).
Proof.
  intros s r [A B C] Hin. destruct (C r Hin) as [_ Cr]. constructor; simpl.
  - intros gid g Hg He. rewrite rmem_rdel_other; [eauto|]. intro Hq. exact (Cr _ _ Hg He (eq_sym Hq)).
  - exact B.
  - intros r' Hr'. destruct (lz_eqb r r') eqn:E.
    + apply lz_eqb_eq in E. subst r'. rewrite rmem_rdel_same in Hr'. discriminate.
    + assert (Hne : r <> r') by (intro; subst; rewrite lz_eqb_refl in E; discriminate).
      rewrite rmem_rdel_other in Hr' by exact Hne. destruct (C r' Hr') as [C1 C2].
      split; [rewrite rmem_rdel_other by exact Hne; exact C1|exact C2].
Qed.

End Routes.

Lemma step_u : forall k reqs i c c', InvC k reqs c -> InvU k (c_s c) -> step k reqs i c = Run c' -> InvU k (c_s c').
Proof.
  intros k reqs i c c' I U Hs. pose proof I as [K V TV L E M UQ ND B]. unfold step, stepg in Hs.
  destruct (nth_error reqs i) as [[j|jt|r who|r|r]|] eqn:Er; [| | | | |inversion Hs; subst; exact U].
  - destruct (nth_error (c_t c) i) as [t|] eqn:Et; [|inversion Hs; subst; exact U].
    destruct t; try (inversion Hs; subst; exact U).
    + destruct (lookup (c_s c) (j_group j)) as [s1 gid] eqn:El.
      destruct (lookup_inv k reqs _ _ _ _ _ I El) as [I1 [Hin _]].
      pose proof (lookup_invu k _ _ _ _ U El) as U1.
      destruct (mutate k s1 gid j (lid_of k j i)) as [s2 r] eqn:Em. inversion Hs; subst. simpl.
      destruct I1 as [K1 V1 TV1 L1 E1 M1 UQ1 ND1 B1].
      destruct (TV1 _ _ Hin) as [g [Hg _]].
      destruct (mutate_res_spec k _ _ _ _ _ _ _ Hg Em) as [->|[[g' [-> [He Hr]]]|[g' [-> [Hm Hf]]]]].
      * exact U1.
      * eapply InvU_upd_same; eassumption.
      * eapply InvU_take; try eassumption. destruct (g_ep g) eqn:Ee; [|reflexivity].
        exfalso. apply (proj1 (E1 _ _ Hg)); assumption.
    + destruct (closing i (c_cl c) && negb (nmem i (c_dead c))); inversion Hs; subst; exact U.
    + destruct (closing i (c_cl c) && negb (nmem i (c_dead c))); inversion Hs; subst; exact U.
  - destruct (nth_error (c_t c) i) as [t|] eqn:Et; [|inversion Hs; subst; exact U].
    destruct t; try (inversion Hs; subst; exact U).
    + destruct (nth_error reqs jt) as [[j| | | |]|] eqn:Ej; try (inversion Hs; subst; exact U).
      destruct (nth_error (c_t c) jt) as [tj|] eqn:Etj; [|inversion Hs; subst; exact U].
      destruct tj; try (inversion Hs; subst; exact U).
      destruct (M _ _ _ _ Ej Etj) as [g [Hg [Hlid Hnm]]].
      assert (Hmne : members k g <> []) by (intro Hm; rewrite Hm in Hlid; exact Hlid).
      assert (Hep : g_ep g = true) by (apply (E _ _ Hg); exact Hmne).
      destruct k eqn:Ek; try (destruct (closing jt (c_cl c)); inversion Hs; subst; exact U).
      (* http *)
      inversion Hs; subst. simpl. clear Hs.
      pose proof (L _ _ Hg Hmne) as Hin. rewrite Hnm in Hin.
      unfold leave_http. rewrite (In_tab_get _ _ _ K Hin), Hg.
      destruct (is_nil (filter (fun x => negb (x =? j_m j)) (g_funcs g))).
      * apply InvU_tab. eapply InvU_release; try eassumption. reflexivity.
      * eapply InvU_upd_same; try eassumption; reflexivity.
    + destruct k eqn:Ek; try (inversion Hs; subst; exact U);
        (destruct (nth_error reqs jt) as [[j| | | |]|] eqn:Ej; try (inversion Hs; subst; exact U);
         destruct (nth_error (c_t c) jt) as [tj|] eqn:Etj; [|inversion Hs; subst; exact U];
         destruct tj; try (inversion Hs; subst; exact U);
         destruct (M _ _ _ _ Ej Etj) as [g [Hg [Hlid Hnm]]];
         assert (Hmne : g_lns g <> []) by (intro Hm; simpl in Hlid; rewrite Hm in Hlid; exact Hlid);
         assert (Hep : g_ep g = true) by (apply (E _ _ Hg); exact Hmne);
         unfold leave_chan in Hs; rewrite Hg in Hs;
         destruct (is_nil (remove_first (Z.of_nat jt) (g_lns g)));
         [destruct (g_closed g); [discriminate|]; inversion Hs; subst; simpl;
          apply InvU_tab;
          match goal with |- InvU ?kk _ => apply (InvU_release kk (c_s c) gid g (shut g)); try assumption; reflexivity end
         |inversion Hs; subst; simpl;
          match goal with |- InvU ?kk (set_heap _ (upd _ _ ?g')) => apply (InvU_upd_same kk (c_s c) gid g g'); try assumption; reflexivity end]).
  - destruct (nth_error (c_t c) i) as [t|] eqn:Et; [|inversion Hs; subst; exact U].
    destruct t; try (inversion Hs; subst; exact U).
    + destruct (find_ep k (c_s c) r) as [gid|]; [|inversion Hs; subst; exact U].
      destruct (nth_error (s_heap (c_s c)) gid) as [g|] eqn:Eg; [|inversion Hs; subst; exact U].
      destruct k eqn:Ek.
      * destruct (g_wk g); [destruct (existsb _ _)|]; inversion Hs; subst; exact U.
      * destruct (http_pick g) as [g' o] eqn:Ep. inversion Hs; subst. simpl.
        apply http_pick_proj in Ep. subst g'. eapply InvU_upd_same; try eassumption; reflexivity.
      * destruct (g_wk g); [destruct (existsb _ _)|]; inversion Hs; subst; exact U.
    + destruct (nth_error (s_heap (c_s c)) gid) as [g|] eqn:Eg; [|inversion Hs; subst; exact U].
      destruct (g_closed g).
      * inversion Hs; subst. simpl. destruct (gen =? g_gen g).
        -- eapply InvU_upd_same; try eassumption; reflexivity.
        -- eapply InvU_upd_same; try eassumption; reflexivity.
      * destruct (can_receive c gid who); inversion Hs; subst; exact U.
  - destruct (nth_error (c_t c) i) as [t|] eqn:Et; [|inversion Hs; subst; exact U].
    destruct t; try (inversion Hs; subst; exact U).
    destruct (rmem r (s_used (c_s c))) eqn:Em; inversion Hs; subst; [exact U|]. simpl. apply InvU_env_take; assumption.
  - destruct (nth_error (c_t c) i) as [t|] eqn:Et; [|inversion Hs; subst; exact U].
    destruct t; try (inversion Hs; subst; exact U).
    destruct (rmem r (s_env (c_s c))) eqn:Em; inversion Hs; subst; [|exact U]. simpl. apply InvU_env_free; assumption.
Qed.

Lemma run_u : forall k reqs sched c, InvC k reqs c -> InvU k (c_s c) ->
  exists c', run k reqs sched (Run c) = Run c' /\ InvC k reqs c' /\ InvU k (c_s c').
Proof.
  intros k reqs. induction sched as [|i sched IH]; intros c I U; [exists c; auto|].
  destruct (step_inv k reqs i c I) as [c1 [H1 I1]]. pose proof (step_u _ _ _ _ _ I U H1) as U1.
  destruct (IH c1 I1 U1) as [c' [H' R]]. exists c'. split; [|exact R].
  unfold run in *. simpl. fold (step k reqs i c). rewrite H1. exact H'.
Qed.

(* for all request lists and all schedules: as long as a group has members its port / route is booked,
   no two groups with members share one, and what the environment holds belongs to no group — so the
   joins, leaves and recreations of every OTHER group (and of non-group proxies) leave it intact *)
Theorem live_group_keeps_its_route : forall k reqs sched lo hi c,
  run k reqs sched (init lo hi reqs) = Run c ->
  (forall gid g, nth_error (s_heap (c_s c)) gid = Some g -> members k g <> [] ->
     rmem (g_res k g) (s_used (c_s c)) = true /\ rmem (g_res k g) (s_env (c_s c)) = false) /\
  (forall gid1 gid2 g1 g2, nth_error (s_heap (c_s c)) gid1 = Some g1 -> nth_error (s_heap (c_s c)) gid2 = Some g2 ->
     members k g1 <> [] -> members k g2 <> [] -> g_res k g1 = g_res k g2 -> gid1 = gid2).
Proof.
  intros k reqs sched lo hi c H.
  assert (U0 : InvU k (c_s (init_cfg lo hi (length reqs)))).
  { constructor; simpl; intros; try discriminate; exfalso; eapply nth_error_nil_inv; eassumption. }
  destruct (run_u k reqs sched _ (init_inv k reqs lo hi (length reqs)) U0) as [c' [H' [I [A B C]]]].
  unfold init in H. rewrite H in H'. inversion H'; subst c'. clear H'.
  destruct I as [K V TV L E M UQ ND Bk]. split.
  - intros gid g Hg Hm. assert (He : g_ep g = true) by (apply (E _ _ Hg); exact Hm).
    split; [eauto|]. destruct (rmem (g_res k g) (s_env (c_s c))) eqn:Ee; [|reflexivity].
    exfalso. destruct (C _ Ee) as [_ C2]. exact (C2 _ _ Hg He eq_refl).
  - intros gid1 gid2 g1 g2 H1 H2 M1 M2 Hq. eapply B; try eassumption; [apply (E _ _ H1)|apply (E _ _ H2)]; assumption.
Qed.

(* the leave of one group, step level: every other port / route stays exactly as it was *)
Lemma leave_touches_only_own_route : forall k s gid g lid s' r,
  nth_error (s_heap s) gid = Some g -> leave_chan k s gid lid = Some s' -> r <> g_res k g ->
  rmem r (s_used s') = rmem r (s_used s).
Proof.
  intros k s gid g lid s' r Hg H Hr. unfold leave_chan in H. rewrite Hg in H.
  destruct (is_nil (remove_first lid (g_lns g))).
  - destruct (g_closed g); [discriminate|]. inversion H; subst. simpl. apply rmem_rdel_other. congruence.
  - inversion H; subst. reflexivity.
Qed.

Lemma leave_http_touches_only_own_route : forall s n m gid g r,
  tab_get (s_tab s) n = Some gid -> nth_error (s_heap s) gid = Some g -> r <> g_res KHttp g ->
  rmem r (s_used (leave_http s n m)) = rmem r (s_used s).
Proof.
  intros s n m gid g r Ht Hg Hr. unfold leave_http. rewrite Ht, Hg.
  destruct (is_nil (filter (fun x => negb (x =? m)) (g_funcs g))); [|reflexivity].
  cbn [s_used set_tab set_used]. apply rmem_rdel_other. intro Hq. apply Hr. symmetry. exact Hq.
Qed.

Lemma http_request_current_member : forall reqs i c c' r who m,
  nth_error reqs i = Some (QConn r who) -> nth_error (c_t c) i = Some TInit ->
  step KHttp reqs i c = Run c' -> nth_error (c_t c') i = Some (TConn (CTo m)) ->
  exists gid g, find_ep KHttp (c_s c) r = Some gid /\ nth_error (s_heap (c_s c)) gid = Some g /\
                In m (g_funcs g) /\ In m (g_lns g).
Proof.
  intros reqs i c c' r who m Hr Ht Hs Hc. unfold step, stepg in Hs. rewrite Hr, Ht in Hs.
  destruct (find_ep KHttp (c_s c) r) as [gid|] eqn:Ef.
  2:{ inversion Hs; subst. simpl in Hc. rewrite nth_error_upd_same in Hc by (eapply nth_error_lt; exact Ht). discriminate. }
  destruct (nth_error (s_heap (c_s c)) gid) as [g|] eqn:Eg; [|inversion Hs; subst; congruence].
  destruct (http_pick g) as [g' o] eqn:Ep. inversion Hs; subst. simpl in Hc.
  rewrite nth_error_upd_same in Hc by (eapply nth_error_lt; exact Ht). inversion Hc; subst o.
  exists gid, g. split; [reflexivity|]. split; [exact Eg|].
  unfold http_pick in Ep. destruct (g_lns g) as [|a l] eqn:El; [inversion Ep|].
  destruct (nth_error (a :: l) _) as [name|] eqn:En; [|inversion Ep].
  destruct (zmem name (g_funcs g)) eqn:Ez; inversion Ep; subst.
  split; [apply zmem_In; exact Ez|eapply nth_error_In; exact En].
Qed.
