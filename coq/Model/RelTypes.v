(* Types of the data translator unit t10rel emits into gen/GenRelease.v (C10).  Model only: no proofs here.
   An effect digest is the body of a Go function in source order as a list of [Ef kind args]:
     store [m; k; v]   m[k] = v          delete [m; k]   delete(m, k)      assign [x; op; v]   x.f = v
     local [l; op; v]  a local variable  call [f; a...]  a call            send [ch; v]
     defer / go / func / if [cond] / else / loop [...] / select / switch / case [...] / end   structure
     ret [...]   branch [tok]   unknown [what]
   Expressions are canonical strings: $recv the receiver, $i the i-th parameter, $r<i> named results,
   $l<k> the k-th local in order of first binding.  Logging calls, gate lines and comments are dropped. *)
From FRP Require Export Model.Bytes.

Inductive ef := Ef (kind : string) (args : list string).

Fixpoint strs_eqb (a b : list string) : bool :=
  match a, b with
  | [], [] => true
  | x :: r, y :: t => String.eqb x y && strs_eqb r t
  | _, _ => false
  end.
Definition ef_eqb (a b : ef) : bool :=
  let '(Ef k x) := a in let '(Ef k' y) := b in String.eqb k k' && strs_eqb x y.
Fixpoint efs_eqb (a b : list ef) : bool :=
  match a, b with
  | [], [] => true
  | x :: r, y :: t => ef_eqb x y && efs_eqb r t
  | _, _ => false
  end.
Fixpoint rel_get (k : string) (l : list (string * list ef)) : option (list ef) :=
  match l with [] => None | (q, v) :: r => if String.eqb k q then Some v else rel_get k r end.

(* every pinned digest is found, unchanged, in the generated table *)
Definition rel_check (pinned gen : list (string * list ef)) : bool :=
  match pinned with [] => false | _ =>
  forallb (fun p : string * list ef => match rel_get (fst p) gen with Some d => efs_eqb d (snd p) | None => false end) pinned end.
