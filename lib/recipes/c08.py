from vlib import Check

PID = "C08"

MANIFEST = dict(
    text="Machine-checked theorems (Coq 8.16.1) over an executable model of the visitor listener table "
         "(visitor.Manager.Listen/NewConn/CloseListener with the InternalListener queue), the NAT-hole admission decision "
         "(nathole.Controller.ListenClient/HandleVisitor/CloseClient, both branches) and the server around them (run id -> user, "
         "default allowUsers = owner's user, proxy registration/closure, session end), for all histories: a visitor connection is "
         "queued / a hole-punching session is opened only for a request signed with the live registration's key by an allowed user; "
         "pre-checks never open a session; refusals leave the whole state unchanged and produce no owner/backend event; backend "
         "contacts are backed by admissions; closed proxies admit nobody until re-registered; byte transparency of the mirrored "
         "wrapper stacks for all 4x4 flag combinations and every chunking. Tied to the code by a differential run of the real "
         "visitor.Manager, the real nathole.Controller and an in-process frps with scripted and real frpc peers.",
    note="Trusted: Coq kernel+VM; harness transcription; util.GetAuthKey (md5), the AES-CFB and snappy layers are oracles / lawful "
         "codecs (Section variables), exercised end to end by the driver. The model is hand-written and compared with the code on "
         "every run; the 10-second hole-punching rendezvous after admission is C20's subject.",
    technique="Coq proof (refinement of the tables to a history specification, invariants by induction over histories) + "
              "differential correspondence via vm_compute + end-to-end observation",
    design="4/C08")


def q(tier, quick, thorough):
    return quick if tier == "quick" else thorough


# model branches the property names; a run that reaches none of them proves nothing about the tie
REQUIRED = ["NVM_QUEUED", "NVM_DROPPED", "NVM_CLOSED", "NVM_AUTH", "NVM_USER", "NVM_NOLISTENER", "NVM_ACCEPTED", "NNH_NOTIFIED", "NNH_PRE_OK",
            "NNH_PRE_USER", "NNH_USER", "NNH_AUTH", "NNH_NOSERVER", "NNH_UNDELIVERED"]
REQUIRED_SYS = ["NSYS_QUEUED", "NSYS_AUTH", "NSYS_USER", "NSYS_NOCONTROL", "NSYS_BACKEND", "NSYS_NOTIFIED",
                "NSYS_NH_USER", "NE2E", "NCFG_TOML", "NCFG_YAML", "NCFG_JSON", "NCFG_INI", "NCFG_FLAGS", "NCFG_DEFAULT_REFUSED",
                "NXTCP_KCP", "NXTCP_QUIC", "NXTCP_MISMATCHED", "NXTCP_KCP_SILENT_FIRST_OK", "NXTCP_QUIC_SILENT_FIRST",
                "NFIRST", "NSYS_RACE_LOSER", "NLONG", "NSYS_PLUGIN_REWRITE", "NSYS_PLUGIN_REJECT"]


def recipe(c: Check):
    c.build(["Properties/C08.vo", "Corr/C08.vo"], harness=["c08"], units=["t5v"])
    c.obligations("C08")
    st = c.run_driver("visitors", q(c.tier, 260, 4000), shards=q(c.tier, 8, 16), timeout=q(c.tier, 300, 1500))
    if st:
        cnt = c.cov.get("coq_counters", {}).get("visitors", {})
        missing = [k for k in REQUIRED + REQUIRED_SYS if cnt.get(k, 0) <= 0]
        if missing and not any(b["kind"] == "correspondence-eval" for b in c.broken):
            c.broken.append(dict(kind="coverage", name="model branches never reached: " + ",".join(missing),
                                 detail="the generator did not exercise these branches; the correspondence says nothing about them"))
    return c.finish(
        rule="driver visitors: (i) histories of Listen/NewConn/CloseListener/listener Close/Accept on the real visitor.Manager "
             "(allowed-user lists incl. nil, '*', '*'-prefixed names; users incl. '' and '*'; timestamps incl. 0, negative, max; "
             "signatures right / wrong key / wrong timestamp / empty / token-signed / upper-case / truncated; one history in ~30 "
             "overfills the 128-slot queue), observing the error class, which connection Accept yields and whether a peer holding "
             "the key with the declared flags exchanges bytes unchanged; (ii) histories of ListenClient/CloseClient/HandleVisitor on "
             "the real nathole.Controller (pre-check on/off), observing the NatHoleResp class, which owner channel received a sid, "
             "session count while the owner is notified and after return; (iii) in-process frps with scripted owner and visitor "
             "sessions (users, run ids empty/unknown/other session) and real frpc owner+visitor transparency for all flag "
             "combinations. distinct = distinct case text; non-trivial = the history contains at least one visitor request",
        assumptions=["util.GetAuthKey is an oracle: the driver tabulates the real function on every (key, timestamp) pair of a case",
                     "cipher and compressor are abstract lawful codecs in C08_visitor_stream_transparent; the real ones are exercised end to end",
                     "WithEncryption's error result is an oracle argument (never observed to fail)"])
