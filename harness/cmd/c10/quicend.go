package main

// Driver "quicend" (C10, implementation-level only): a session whose control connection is a QUIC stream
// (netpkg.wrapQuicStream) must be torn down when the SERVER ends it.  frps ends a session only through
// ctl.conn.Close() (heartbeat timeout, replacement); the teardown runs after the dispatcher's read on that
// connection has failed, so Close has to end the read side of the stream as well (CancelRead).  A scripted
// peer logs in over QUIC, registers a tcp proxy and then stays silent WITHOUT closing its side (a hung
// client: quic-go keeps the connection alive on its own); the server's heartbeat timeout (1 s) fires; the
// session must finish its teardown within 6 s and the proxy's port must be free again.

import (
	"context"
	"crypto/tls"
	"fmt"
	"net"
	"strconv"
	"time"

	quic "github.com/quic-go/quic-go"

	v1 "github.com/fatedier/frp/pkg/config/v1"
	"github.com/fatedier/frp/pkg/msg"
	netpkg "github.com/fatedier/frp/pkg/util/net"
	"github.com/fatedier/frp/pkg/util/vhost"
	"github.com/fatedier/frp/pkg/util/util"

	"verifharness/hx"
)

func init() { drivers["quicend"] = runQuicEnd }

func runQuicEnd(cfg *hx.RunCfg) error {
	hx.Quiet()
	fails := []map[string]string{}
	fail := func(key, what string) {
		fails = append(fails, map[string]string{"key": key, "what": what,
			"case": "frps quicBindPort + heartbeatTimeout 1; scripted QUIC peer: Login, NewProxy tcp, then silent with its stream open"})
	}
	trials, ok := 0, 0
	n := cfg.N
	if n <= 0 || n > 5 {
		n = 1
	}
	for t := 0; t < n; t++ {
		addr := loop(9)
		srv, err := hx.StartServer(addr, func(c *v1.ServerConfig) {
			c.QUICBindPort = hx.FreeUDPPort(addr)
			c.Transport.HeartbeatTimeout = 1
		})
		if err != nil {
			return err
		}
		trials++
		func() {
			defer srv.Close()
			ctx, cancel := context.WithTimeout(context.Background(), 3*time.Second)
			defer cancel()
			qc, err := quic.DialAddr(ctx, net.JoinHostPort(addr, strconv.Itoa(srv.Cfg.QUICBindPort)),
				&tls.Config{InsecureSkipVerify: true, NextProtos: []string{"frp"}},
				&quic.Config{MaxIdleTimeout: 30 * time.Second, KeepAlivePeriod: 2 * time.Second})
			if err != nil {
				fail("quic-dial-failed", "cannot dial the server's QUIC port: "+err.Error())
				return
			}
			defer qc.CloseWithError(0, "")
			st, err := qc.OpenStreamSync(ctx)
			if err != nil {
				fail("quic-dial-failed", "cannot open a QUIC stream: "+err.Error())
				return
			}
			ts := time.Now().Unix()
			runID := fmt.Sprintf("quic-%d-%d", cfg.Seed, t)
			lm := &msg.Login{Version: "0.61.0", Hostname: "h", Os: "linux", Arch: "amd64",
				PrivilegeKey: util.GetAuthKey(hx.DefaultToken, ts), Timestamp: ts, RunID: runID, Metas: map[string]string{}}
			if err := msg.WriteMsg(st, lm); err != nil {
				fail("quic-login-failed", err.Error())
				return
			}
			_ = st.SetReadDeadline(time.Now().Add(3 * time.Second))
			var resp msg.LoginResp
			if err := msg.ReadMsgInto(st, &resp); err != nil || resp.Error != "" {
				fail("quic-login-failed", fmt.Sprint("no LoginResp over QUIC: ", err, " ", resp.Error))
				return
			}
			rw, err := netpkg.NewCryptoReadWriter(st, []byte(hx.DefaultToken))
			if err != nil {
				fail("quic-login-failed", err.Error())
				return
			}
			port := basePort + 87
			if err := msg.WriteMsg(rw, &msg.NewProxy{ProxyName: "q-tcp", ProxyType: "tcp", RemotePort: port}); err != nil {
				fail("quic-login-failed", err.Error())
				return
			}
			var np msg.NewProxyResp
			for {
				m, err := msg.ReadMsg(rw)
				if err != nil {
					fail("quic-login-failed", "no NewProxyResp over QUIC: "+err.Error())
					return
				}
				if r, isResp := m.(*msg.NewProxyResp); isResp {
					np = *r
					break
				}
			}
			_ = st.SetReadDeadline(time.Time{})
			if np.Error != "" {
				fail("quic-login-failed", "tcp proxy refused over QUIC: "+np.Error)
				return
			}
			done := srv.Svc.VerifC10Done(resp.RunID)
			if done == nil {
				fail("quic-login-failed", "the session is not in the table")
				return
			}
			// silence: no Ping, the stream stays open on this side
			select {
			case <-done:
			case <-time.After(6 * time.Second):
				fail("quic-session-not-torn-down", "6 s after its heartbeat timeout (1 s) the session of a silent QUIC client has not been torn down: port, name and quota stay held")
				return
			}
			time.Sleep(50 * time.Millisecond)
			if hx.TCPBound(addr, port) || len(srv.Svc.VerifC10Names()) != 0 {
				fail("quic-session-resources-held", "the session of a QUIC client ended but its proxy's port or name is still held")
				return
			}
			ok++
		}()
	}
	// a refused login holds nothing, not even its connection: the server hangs up itself although the peer
	// keeps its end open (a handler that waits for the peer to go away pins a goroutine and a descriptor per
	// refused login)
	{
		addr := loop(9)
		srv, err := hx.StartServer(addr, nil)
		if err != nil {
			return err
		}
		for i := 0; i < 3; i++ {
			conn, err := srv.Dial()
			if err != nil {
				fail("refused-login-harness", err.Error())
				break
			}
			ts := time.Now().Unix()
			lm := &msg.Login{Version: "0.61.0", Hostname: "h", Os: "linux", Arch: "amd64",
				PrivilegeKey: util.GetAuthKey(hx.DefaultToken+"-wrong", ts), Timestamp: ts, Metas: map[string]string{}}
			_ = msg.WriteMsg(conn, lm)
			_ = conn.SetReadDeadline(time.Now().Add(3 * time.Second))
			var resp msg.LoginResp
			if err := msg.ReadMsgInto(conn, &resp); err != nil || resp.Error == "" {
				fail("refused-login-harness", fmt.Sprint("a login with a wrong key was not refused: ", err))
				conn.Close()
				break
			}
			trials++
			if !hx.ConnClosedWithin(conn, 2*time.Second) {
				fails = append(fails, map[string]string{"key": "refused-login-keeps-connection",
					"what": "2 s after LoginResp{Error} the server still holds the connection of a refused login whose peer does not hang up",
					"case": "Login with a wrong key; read LoginResp; keep the connection open"})
				conn.Close()
				break
			}
			ok++
			conn.Close()
		}
		srv.Close()
	}
	// a user connection WAITING in the hand-over to an https / tcpmux listener when the listener closes (its
	// owner is not in Accept at that instant: a legal schedule of the proxy's accept loop) must be closed, not
	// left blocked for ever.  Real vhost.HTTPSMuxer and Listener, nobody accepts, then Close.
	{
		addr := loop(9)
		ln, err := net.Listen("tcp", net.JoinHostPort(addr, "0"))
		if err != nil {
			return err
		}
		mux, err := vhost.NewHTTPSMuxer(ln, 5*time.Second)
		if err == nil {
			l, lerr := mux.Listen(context.Background(), &vhost.RouteConfig{Domain: "handoff.test"})
			uc, derr := net.DialTimeout("tcp", ln.Addr().String(), time.Second)
			if lerr != nil || derr != nil {
				fail("handoff-harness", fmt.Sprint("cannot set up the muxer: ", lerr, derr))
			} else {
				go func() {
					tc := tls.Client(&passConn{Conn: uc}, &tls.Config{ServerName: "handoff.test", InsecureSkipVerify: true})
					_ = tc.Handshake()
				}()
				time.Sleep(200 * time.Millisecond) // the muxer has read the hello and waits in the hand-over
				trials++
				l.Close()
				if !hx.ConnClosedWithin(uc, 2*time.Second) {
					fails = append(fails, map[string]string{"key": "user-conn-open-after-listener-close",
						"what": "a user connection that was waiting in the hand-over to an https listener when the listener closed is still open 2 s later",
						"case": "vhost.HTTPSMuxer + Listen(handoff.test); TLS ClientHello; nobody accepts; Listener.Close()"})
				} else {
					ok++
				}
				uc.Close()
			}
		}
		ln.Close()
	}
	cfg.St["cases"] = trials
	cfg.St["distinct_nontrivial"] = ok
	cfg.St["samples"] = []string{"frps quicBindPort + heartbeatTimeout 1; scripted QUIC peer logs in, registers a tcp proxy, stays silent with its stream open"}
	cfg.St["distribution"] = map[string]int{"trials": trials, "torn_down": ok}
	cfg.St["impl_failures"] = fails
	cf := &hx.CaseFile{Imports: coqImports, Typ: "case", Tail: caseTail()}
	return cf.Write(cfg.Out)
}
