package main

import (
	"os"

	"verifharness/hx"
)

var drivers = map[string]hx.DriverFn{}

func main() {
	// "serve": an frps that lives until stdin is closed (child process of driver loginx)
	if len(os.Args) >= 2 && os.Args[1] == "serve" {
		serveChild(os.Args[2:])
		return
	}
	if len(os.Args) >= 2 && os.Args[1] == "udpfwd" {
		udpfwdChild()
		return
	}
	hx.Main(drivers)
}

type runCfg = hx.RunCfg
type caseFile = hx.CaseFile

type gen struct{ *hx.Gen }

func newGen(seed int64) *gen        { return &gen{hx.NewGen(seed)} }
func (g *gen) intn(n int) int       { return g.Intn(n) }
func (g *gen) chance(p float64) bool { return g.Chance(p) }
func (g *gen) pick(xs []string) string { return g.Pick(xs) }
func (g *gen) bytes(n int) []byte   { return g.Bytes(n) }

var (
	coqHx      = hx.Hx
	coqHxS     = hx.HxS
	coqZ       = hx.Z
	coqBool    = hx.Bool
	coqList    = hx.List
	coqStr     = hx.Str
	sortedKeys = hx.SortedKeys
)
