package main

// Part (b) of driver "config": one logical client configuration, written with the documented key
// names (a table held here, NOT derived from the struct tags of the code under test) as TOML, YAML
// and JSON by three small emitters, loaded by the real config.LoadConfigure / LoadClientConfig in
// strict and non-strict mode.  Observed on the Go side only (third-party parsers): the structures
// must be identical to each other and to the configuration the document was written from;
// an unknown key at any nesting level must be rejected in strict mode by all three formats and
// ignored in non-strict mode.

import (
	"fmt"
	"os"
	"path/filepath"
	"reflect"
	"regexp"
	"sort"
	"strconv"
	"strings"

	"github.com/fatedier/frp/pkg/config"
	v1 "github.com/fatedier/frp/pkg/config/v1"
)

type kv struct {
	k string
	v any // string | int64 | bool | []string | obj | []obj
}
type obj []kv

// ---- emitters ----

func jstr(s string) string {
	var b strings.Builder
	b.WriteByte('"')
	for _, r := range s {
		switch {
		case r == '"':
			b.WriteString(`\"`)
		case r == '\\':
			b.WriteString(`\\`)
		case r == '\n':
			b.WriteString(`\n`)
		case r == '\t':
			b.WriteString(`\t`)
		case r == '\r':
			b.WriteString(`\r`)
		case r < 0x20 || r == 0x7f:
			fmt.Fprintf(&b, `\u%04x`, r)
		default:
			b.WriteRune(r)
		}
	}
	b.WriteByte('"')
	return b.String()
}

func strList(l []string) string {
	items := []string{}
	for _, s := range l {
		items = append(items, jstr(s))
	}
	return "[" + strings.Join(items, ", ") + "]"
}

func emitJSON(v any, ind string) string {
	switch x := v.(type) {
	case string:
		return jstr(x)
	case int64:
		return strconv.FormatInt(x, 10)
	case bool:
		return strconv.FormatBool(x)
	case []string:
		return strList(x)
	case obj:
		if len(x) == 0 {
			return "{}"
		}
		var b strings.Builder
		b.WriteString("{\n")
		for i, e := range x {
			b.WriteString(ind + "  " + jstr(e.k) + ": " + emitJSON(e.v, ind+"  "))
			if i != len(x)-1 {
				b.WriteString(",")
			}
			b.WriteString("\n")
		}
		b.WriteString(ind + "}")
		return b.String()
	case []obj:
		if len(x) == 0 {
			return "[]"
		}
		items := []string{}
		for _, o := range x {
			items = append(items, emitJSON(o, ind+"  "))
		}
		return "[" + strings.Join(items, ", ") + "]"
	}
	panic(fmt.Sprintf("emitJSON: %T", v))
}

func emitYAML(o obj, ind string) string {
	var b strings.Builder
	for _, e := range o {
		key := ind + jstr(e.k) + ":"
		switch x := e.v.(type) {
		case string:
			b.WriteString(key + " " + jstr(x) + "\n")
		case int64:
			b.WriteString(key + " " + strconv.FormatInt(x, 10) + "\n")
		case bool:
			b.WriteString(key + " " + strconv.FormatBool(x) + "\n")
		case []string:
			if len(x) == 0 {
				b.WriteString(key + " []\n")
			} else {
				b.WriteString(key + "\n")
				for _, s := range x {
					b.WriteString(ind + "  - " + jstr(s) + "\n")
				}
			}
		case obj:
			if len(x) == 0 {
				b.WriteString(key + " {}\n")
			} else {
				b.WriteString(key + "\n" + emitYAML(x, ind+"  "))
			}
		case []obj:
			if len(x) == 0 {
				b.WriteString(key + " []\n")
			} else {
				b.WriteString(key + "\n")
				for _, it := range x {
					if len(it) == 0 {
						b.WriteString(ind + "  - {}\n")
						continue
					}
					body := emitYAML(it, ind+"    ")
					// first line of the element carries the dash
					b.WriteString(ind + "  - " + strings.TrimPrefix(body, ind+"    "))
				}
			}
		}
	}
	return b.String()
}

var bareKey = regexp.MustCompile(`^[A-Za-z0-9_-]+$`)

func tkey(k string) string {
	if bareKey.MatchString(k) {
		return k
	}
	return jstr(k)
}

func emitTOML(o obj, path []string, b *strings.Builder) {
	for _, e := range o {
		switch x := e.v.(type) {
		case string:
			b.WriteString(tkey(e.k) + " = " + jstr(x) + "\n")
		case int64:
			b.WriteString(tkey(e.k) + " = " + strconv.FormatInt(x, 10) + "\n")
		case bool:
			b.WriteString(tkey(e.k) + " = " + strconv.FormatBool(x) + "\n")
		case []string:
			b.WriteString(tkey(e.k) + " = " + strList(x) + "\n")
		case []obj:
			if len(x) == 0 {
				b.WriteString(tkey(e.k) + " = []\n")
			}
		}
	}
	for _, e := range o {
		if x, ok := e.v.(obj); ok {
			p := append(append([]string{}, path...), tkey(e.k))
			b.WriteString("\n[" + strings.Join(p, ".") + "]\n")
			emitTOML(x, p, b)
		}
	}
	for _, e := range o {
		if x, ok := e.v.([]obj); ok {
			p := append(append([]string{}, path...), tkey(e.k))
			for _, it := range x {
				b.WriteString("\n[[" + strings.Join(p, ".") + "]]\n")
				emitTOML(it, p, b)
			}
		}
	}
}

// ---- logical configuration -> tree, with the documented key names ----

func mapObj(m map[string]string) obj {
	keys := make([]string, 0, len(m))
	for k := range m {
		keys = append(keys, k)
	}
	sort.Strings(keys)
	o := obj{}
	for _, k := range keys {
		o = append(o, kv{k, m[k]})
	}
	return o
}

// put adds key k unless the value is the zero value and the coin says "leave it out"
func (g *gen) put(o *obj, k string, v any) {
	zero := false
	switch x := v.(type) {
	case string:
		zero = x == ""
	case int64:
		zero = x == 0
	case bool:
		zero = !x
	case []string:
		zero = x == nil
	case obj:
		zero = x == nil
	case []obj:
		zero = x == nil
	}
	if zero {
		return
	}
	*o = append(*o, kv{k, v})
}

func (g *gen) proxyTree(c v1.ProxyConfigurer) obj {
	b := c.GetBaseConfig()
	o := obj{{"name", b.Name}, {"type", b.Type}}
	if b.Annotations != nil {
		g.put(&o, "annotations", mapObj(b.Annotations))
	}
	tr := obj{}
	g.put(&tr, "useEncryption", b.Transport.UseEncryption)
	g.put(&tr, "useCompression", b.Transport.UseCompression)
	g.put(&tr, "bandwidthLimit", b.Transport.BandwidthLimit.String())
	g.put(&tr, "bandwidthLimitMode", b.Transport.BandwidthLimitMode)
	g.put(&tr, "proxyProtocolVersion", b.Transport.ProxyProtocolVersion)
	if len(tr) > 0 || g.chance(0.2) {
		o = append(o, kv{"transport", tr})
	}
	if b.Metadatas != nil {
		g.put(&o, "metadatas", mapObj(b.Metadatas))
	}
	lb := obj{}
	g.put(&lb, "group", b.LoadBalancer.Group)
	g.put(&lb, "groupKey", b.LoadBalancer.GroupKey)
	if len(lb) > 0 {
		o = append(o, kv{"loadBalancer", lb})
	}
	hc := obj{}
	g.put(&hc, "type", b.HealthCheck.Type)
	g.put(&hc, "timeoutSeconds", int64(b.HealthCheck.TimeoutSeconds))
	g.put(&hc, "maxFailed", int64(b.HealthCheck.MaxFailed))
	g.put(&hc, "intervalSeconds", int64(b.HealthCheck.IntervalSeconds))
	g.put(&hc, "path", b.HealthCheck.Path)
	if b.HealthCheck.HTTPHeaders != nil {
		hs := []obj{}
		for _, h := range b.HealthCheck.HTTPHeaders {
			hs = append(hs, obj{{"name", h.Name}, {"value", h.Value}})
		}
		hc = append(hc, kv{"httpHeaders", hs})
	}
	if len(hc) > 0 {
		o = append(o, kv{"healthCheck", hc})
	}
	g.put(&o, "localIP", b.LocalIP)
	g.put(&o, "localPort", int64(b.LocalPort))
	switch p := b.Plugin.ClientPluginOptions.(type) {
	case *v1.UnixDomainSocketPluginOptions:
		po := obj{{"type", b.Plugin.Type}}
		g.put(&po, "unixPath", p.UnixPath)
		o = append(o, kv{"plugin", po})
	case *v1.HTTPProxyPluginOptions:
		po := obj{{"type", b.Plugin.Type}}
		g.put(&po, "httpUser", p.HTTPUser)
		g.put(&po, "httpPassword", p.HTTPPassword)
		o = append(o, kv{"plugin", po})
	}
	dom := func(d *v1.DomainConfig) {
		g.put(&o, "customDomains", d.CustomDomains)
		g.put(&o, "subdomain", d.SubDomain)
	}
	hdr := func(k string, h v1.HeaderOperations) {
		if h.Set != nil {
			o = append(o, kv{k, obj{{"set", mapObj(h.Set)}}})
		}
	}
	switch cc := c.(type) {
	case *v1.TCPProxyConfig:
		g.put(&o, "remotePort", int64(cc.RemotePort))
	case *v1.UDPProxyConfig:
		g.put(&o, "remotePort", int64(cc.RemotePort))
	case *v1.HTTPProxyConfig:
		dom(&cc.DomainConfig)
		g.put(&o, "locations", cc.Locations)
		g.put(&o, "httpUser", cc.HTTPUser)
		g.put(&o, "httpPassword", cc.HTTPPassword)
		g.put(&o, "hostHeaderRewrite", cc.HostHeaderRewrite)
		hdr("requestHeaders", cc.RequestHeaders)
		hdr("responseHeaders", cc.ResponseHeaders)
		g.put(&o, "routeByHTTPUser", cc.RouteByHTTPUser)
	case *v1.HTTPSProxyConfig:
		dom(&cc.DomainConfig)
	case *v1.TCPMuxProxyConfig:
		dom(&cc.DomainConfig)
		g.put(&o, "httpUser", cc.HTTPUser)
		g.put(&o, "httpPassword", cc.HTTPPassword)
		g.put(&o, "routeByHTTPUser", cc.RouteByHTTPUser)
		g.put(&o, "multiplexer", cc.Multiplexer)
	case *v1.STCPProxyConfig:
		g.put(&o, "secretKey", cc.Secretkey)
		g.put(&o, "allowUsers", cc.AllowUsers)
	case *v1.XTCPProxyConfig:
		g.put(&o, "secretKey", cc.Secretkey)
		g.put(&o, "allowUsers", cc.AllowUsers)
	case *v1.SUDPProxyConfig:
		g.put(&o, "secretKey", cc.Secretkey)
		g.put(&o, "allowUsers", cc.AllowUsers)
	}
	return o
}

// every object of the tree, with a label of its nesting level
func walkObjs(o *obj, label string, f func(label string, at *obj)) {
	var rec func(p *obj, label string)
	rec = func(p *obj, label string) {
		f(label, p)
		for i := range *p {
			switch x := (*p)[i].v.(type) {
			case obj:
				// string->string maps accept any key: not a place for an unknown field
				if k := (*p)[i].k; k == "annotations" || k == "metadatas" || k == "set" || k == "additionalEndpointParams" || k == "featureGates" {
					continue
				}
				rec(&x, label+"."+(*p)[i].k)
				(*p)[i].v = x
			case []obj:
				for j := range x {
					rec(&x[j], label+"."+(*p)[i].k+"[]")
				}
			}
		}
	}
	rec(o, label)
}

func deepCopy(o obj) obj {
	r := make(obj, len(o))
	for i, e := range o {
		switch x := e.v.(type) {
		case obj:
			r[i] = kv{e.k, deepCopy(x)}
		case []obj:
			l := make([]obj, len(x))
			for j := range x {
				l[j] = deepCopy(x[j])
			}
			r[i] = kv{e.k, l}
		case []string:
			r[i] = kv{e.k, append([]string{}, x...)}
		default:
			r[i] = e
		}
	}
	return r
}

func render(o obj) map[string][]byte {
	var tb strings.Builder
	emitTOML(o, nil, &tb)
	return map[string][]byte{
		"toml": []byte(tb.String()),
		"yaml": []byte(emitYAML(o, "")),
		"json": []byte(emitJSON(o, "") + "\n"),
	}
}

var formatNames = []string{"toml", "yaml", "json"}

// one document kind (client / server): how to load it and what must come out
type docKind struct {
	name     string
	load     func(doc []byte, strict bool) (string, error) // LoadConfigure into the section's struct, dumped
	loadFile func(path string) (string, error)             // the file entry point (template + Complete), dumped
}

func dumpClient(all *v1.ClientConfig) string {
	items := []string{coqOfAny(&all.ClientCommonConfig)}
	for _, p := range all.Proxies {
		items = append(items, dumpProxy(p.ProxyConfigurer))
	}
	for _, v := range all.Visitors {
		items = append(items, coqVisitor(v.VisitorConfigurer))
	}
	return strings.Join(items, "\n")
}

func coqVisitor(v v1.VisitorConfigurer) string {
	d := ""
	if o := v.GetBaseConfig().Plugin.VisitorPluginOptions; o != nil {
		d = fmt.Sprintf(" plugin=%+v", reflect.ValueOf(o).Elem().Interface())
	}
	return "(" + reflect.TypeOf(v).Elem().Name() + " " + coqOfAny(v) + d + ")"
}

// coqCfg plus the content of the plugin options (opaque in the Coq term)
func dumpProxy(c v1.ProxyConfigurer) string {
	d := ""
	if o := c.GetBaseConfig().Plugin.ClientPluginOptions; o != nil {
		d = fmt.Sprintf(" plugin=%+v", reflect.ValueOf(o).Elem().Interface())
	}
	return coqCfg(c) + d
}

var clientKind = docKind{
	name: "client",
	load: func(doc []byte, strict bool) (string, error) {
		var all v1.ClientConfig
		if err := config.LoadConfigure(doc, &all, strict); err != nil {
			return "", err
		}
		return dumpClient(&all), nil
	},
	loadFile: func(path string) (string, error) {
		cc, pcs, vcs, legacy, err := config.LoadClientConfig(path, true)
		if err != nil {
			return "", err
		}
		if legacy {
			return "", fmt.Errorf("taken for the legacy ini format")
		}
		items := []string{coqOfAny(cc)}
		for _, p := range pcs {
			items = append(items, dumpProxy(p))
		}
		for _, v := range vcs {
			items = append(items, coqVisitor(v))
		}
		return strings.Join(items, "\n"), nil
	},
}

var serverKind = docKind{
	name: "server",
	load: func(doc []byte, strict bool) (string, error) {
		var c v1.ServerConfig
		if err := config.LoadConfigure(doc, &c, strict); err != nil {
			return "", err
		}
		return coqOfAny(&c), nil
	},
	loadFile: func(path string) (string, error) {
		c, legacy, err := config.LoadServerConfig(path, true)
		if err != nil {
			return "", err
		}
		if legacy {
			return "", fmt.Errorf("taken for the legacy ini format")
		}
		return coqOfAny(c), nil
	},
}

func firstLineDiff(a, b string) string {
	la, lb := strings.Split(a, "\n"), strings.Split(b, "\n")
	for i := range la {
		if i >= len(lb) || la[i] != lb[i] {
			x := ""
			if i < len(lb) {
				x = lb[i]
			}
			// common prefix length, to point at the differing field
			k := 0
			for k < len(la[i]) && k < len(x) && la[i][k] == x[k] {
				k++
			}
			lo := k - 200
			if lo < 0 {
				lo = 0
			}
			hi := func(s string) int {
				if k+200 < len(s) {
					return k + 200
				}
				return len(s)
			}
			return fmt.Sprintf("item %d: want ...%s got ...%s", i, la[i][lo:hi(la[i])], x[lo:hi(x)])
		}
	}
	return "lengths differ"
}

// checkDoc runs one logical document through the three formats, both strict modes, the file entry
// point, and the unknown-field injection.
func (d *drv) checkDoc(g *gen, k docKind, tree obj, want, wantCompleted string, viaFile bool, st, levels map[string]int, dir string) {
	docs := render(tree)
	st["documents"]++
	st["documents_"+k.name]++
	for _, strict := range []bool{false, true} {
		for _, f := range formatNames {
			got, err := k.load(docs[f], strict)
			if err != nil {
				d.fail("format-load:"+k.name+":"+f, fmt.Sprintf("a valid %s document is rejected (strict=%v): %v", f, strict, err), string(docs[f]))
				continue
			}
			st["loads"]++
			if got != want {
				d.fail("format-structure:"+k.name+":"+f, "the structure loaded from "+f+" differs from the logical configuration it was written from",
					firstLineDiff(want, got)+"\n"+string(docs[f]))
			}
		}
	}
	if viaFile {
		for _, f := range formatNames {
			p := filepath.Join(dir, "doc."+f)
			if f == "toml" && g.chance(0.5) {
				p = filepath.Join(dir, "doc.conf") // the extension must not matter
			}
			_ = os.WriteFile(p, docs[f], 0o644)
			got, err := k.loadFile(p)
			_ = os.Remove(p)
			if err != nil {
				d.fail("format-file-load:"+k.name+":"+f, fmt.Sprintf("the file entry point rejects a valid %s file: %v", f, err), string(docs[f]))
				continue
			}
			st["file_loads"]++
			if got != wantCompleted {
				d.fail("format-defaults:"+k.name+":"+f, "the completed structure loaded from a "+f+" file differs from the logical configuration with defaults applied",
					firstLineDiff(wantCompleted, got)+"\n"+string(docs[f]))
			}
		}
	}
	// an unknown key at one nesting level
	var spots []string
	probe := deepCopy(tree)
	walkObjs(&probe, "top", func(label string, at *obj) { spots = append(spots, label) })
	target := g.intn(len(spots))
	bad := deepCopy(tree)
	idx := 0
	label := ""
	walkObjs(&bad, "top", func(l string, at *obj) {
		if idx == target {
			label = l
			pos := g.intn(len(*at) + 1)
			nk := kv{g.pick([]string{"unknownField", "remotePorts", "Name2", "x-y"}), g.pick([]string{"v", ""})}
			*at = append((*at)[:pos], append(obj{nk}, (*at)[pos:]...)...)
		}
		idx++
	})
	levels[k.name+":"+label]++
	// and, systematically, at every plugin table of the document (typed levels of their own)
	{
		n := 0
		probe2 := deepCopy(tree)
		walkObjs(&probe2, "top", func(l string, at *obj) {
			if strings.HasSuffix(l, ".plugin") {
				n++
			}
		})
		for pi := 0; pi < n; pi++ {
			b2 := deepCopy(tree)
			seen, lab := 0, ""
			walkObjs(&b2, "top", func(l string, at *obj) {
				if strings.HasSuffix(l, ".plugin") {
					if seen == pi {
						lab = l
						*at = append(*at, kv{"unknownPluginField", "v"})
					}
					seen++
				}
			})
			levels[k.name+":"+lab+"(sweep)"]++
			for f, doc := range render(b2) {
				if _, err := k.load(doc, true); err == nil {
					d.fail("strict-accepts-unknown:"+k.name+":"+f+":"+lab, "strict mode accepts a document with an unknown field at "+lab+" ("+f+")", string(doc))
				} else {
					st["strict_unknown_rejected_plugin_level"]++
				}
				if _, err := k.load(doc, false); err != nil {
					d.fail("nonstrict-rejects-unknown:"+k.name+":"+f+":"+lab, "non-strict mode rejects an unknown field at "+lab+": "+err.Error(), string(doc))
				}
			}
		}
	}
	bdocs := render(bad)
	for _, f := range formatNames {
		if _, err := k.load(bdocs[f], true); err == nil {
			d.fail("strict-accepts-unknown:"+k.name+":"+f+":"+label, "strict mode accepts a document with an unknown field at "+label+" ("+f+")", string(bdocs[f]))
		} else {
			st["strict_unknown_rejected"]++
		}
		got, err := k.load(bdocs[f], false)
		if err != nil {
			d.fail("nonstrict-rejects-unknown:"+k.name+":"+f+":"+label, "non-strict mode rejects a document with an unknown field at "+label+" ("+f+"): "+err.Error(), string(bdocs[f]))
		} else {
			st["nonstrict_unknown_ignored"]++
			if got != want {
				d.fail("nonstrict-unknown-changes-structure:"+k.name+":"+f, "an ignored unknown field changes the loaded structure", string(bdocs[f]))
			}
		}
	}
}

func cloneProxy(c v1.ProxyConfigurer) v1.ProxyConfigurer {
	cp := reflect.New(reflect.TypeOf(c).Elem())
	cp.Elem().Set(reflect.ValueOf(c).Elem())
	return cp.Interface().(v1.ProxyConfigurer)
}

func cloneVisitor(c v1.VisitorConfigurer) v1.VisitorConfigurer {
	cp := reflect.New(reflect.TypeOf(c).Elem())
	cp.Elem().Set(reflect.ValueOf(c).Elem())
	return cp.Interface().(v1.VisitorConfigurer)
}

func (d *drv) runFormats(g *gen, n int) map[string]any {
	st := map[string]int{}
	levels := map[string]int{}
	dir := filepath.Join(filepath.Dir(d.cfg.Out), "fmt")
	if d.cfg.Out == "" {
		dir = filepath.Join(os.TempDir(), "c18fmt")
	}
	_ = os.MkdirAll(dir, 0o755)
	for i := 0; i < n; i++ {
		// ---- client document: common section, proxies, visitors
		cc, tree := g.clientCommon()
		want := []string{coqOfAny(&cc)}
		ccDone := cc
		ccDone.Complete()
		d.checkPreserved("client", &cc, &ccDone, "")
		d.checkDocDefaultsClient(&cc, &ccDone)
		wantDone := []string{coqOfAny(&ccDone)}
		plist := []obj{}
		for k := 0; k < 1+g.intn(3); k++ {
			c := g.proxyCfg(g.pick(proxyTypes))
			plist = append(plist, g.proxyTree(c))
			want = append(want, dumpProxy(c))
			e := cloneProxy(c)
			e.Complete(cc.User)
			d.checkPreserved("proxy", c, e, "")
			wantDone = append(wantDone, dumpProxy(e))
		}
		tree = append(tree, kv{"proxies", plist})
		if g.chance(0.7) {
			vlist := []obj{}
			for k := 0; k < 1+g.intn(2); k++ {
				vc, vo := g.visitorCfg(g.pick(visitorTypeNames))
				vlist = append(vlist, vo)
				want = append(want, coqVisitor(vc))
				e := cloneVisitor(vc)
				e.Complete(&ccDone)
				d.checkPreserved("visitor", vc, e, "")
				wantDone = append(wantDone, coqVisitor(e))
			}
			tree = append(tree, kv{"visitors", vlist})
		}
		d.checkDoc(g, clientKind, tree, strings.Join(want, "\n"), strings.Join(wantDone, "\n"), i%2 == 0, st, levels, dir)

		// ---- server document
		if i%2 == 1 {
			sc, stree := g.serverCfgDoc()
			scDone := sc
			scDone.Complete()
			d.checkPreserved("server", &sc, &scDone, string(render(stree)["toml"]))
			d.checkDocDefaultsServer(&sc, &scDone, string(render(stree)["toml"]))
			d.checkDoc(g, serverKind, stree, coqOfAny(&sc), coqOfAny(&scDone), i%4 == 1, st, levels, dir)
		}
	}
	ini := d.runIni(g, n/4+10, dir)
	lc := d.runLegacyCommon(g, dir)
	fl := d.runFlags(g, n/2+6, dir)
	tp := d.runTemplates(g, n/2+6)
	out := map[string]any{}
	for k, v := range st {
		out[k] = v
	}
	out["unknown_field_levels"] = levels
	out["flags"] = fl
	out["ini"] = ini
	out["legacy_common"] = lc
	out["templates"] = tp
	return out
}
