(* C18 — what the server rebuilds from a NewProxy message.  Model only: no proofs here.

   The record types, the nine MarshalToMsg / UnmarshalFromMsg pairs, ProxyBaseConfig.Complete,
   the sum type [proxy_cfg] of the registered proxy types and its dispatch are GENERATED from
   pkg/config/v1/*.go and pkg/msg/msg.go (gen/GenCfgMsg.v, translator unit T3).  Hand-written
   here, through the generated getters / setters only (so that a new field does not change
   this file but does change what the theorems say):

     v1.NewProxyConfigurerByType                   -> cm_new_by_type
     config.NewProxyConfigurerFromMsg, up to and including Complete("")
                                                   -> cm_from_msg
     the interpretation "fields the server acts on" = every field except the golden client-only ones
                                                   -> cm_erase_client_only / cm_client_only_paths *)
From FRP Require Export Model.Literals gen.GenCfgMsg.
Open Scope Z_scope.

Definition cm_tcp : bytes := type_name_TCPProxyConfig.

(* v1.NewProxyConfigurerByType: zero value of the registered struct, then
   `pc.GetBaseConfig().Type = string(proxyType)` *)
Definition cm_new_by_type (t : bytes) : option proxy_cfg :=
  match cfg_zero_by_type t with
  | Some pc => Some (cfg_set_base (set_ProxyBaseConfig_Type t (cfg_base pc)) pc)
  | None => None
  end.

(* config.NewProxyConfigurerFromMsg before validation.  The message itself is updated
   (`m.ProxyType = util.EmptyOr(m.ProxyType, "tcp")`), which the caller observes. *)
Definition cm_from_msg (float_bytes : bytes -> Z -> option Z) (m0 : NewProxy) : NewProxy * option proxy_cfg :=
  let m := set_NewProxy_ProxyType (empty_or_bytes (NewProxy_ProxyType m0) cm_tcp) m0 in
  match cm_new_by_type (NewProxy_ProxyType m) with
  | None => (m, None)
  | Some pc => (m, Some (cfg_complete [] (cfg_unmarshal float_bytes pc m)))
  end.

(* client side: `var newProxyMsg msg.NewProxy; cfg.MarshalToMsg(&newProxyMsg)` *)
Definition cm_to_msg (pc : proxy_cfg) : NewProxy := cfg_marshal pc zero_NewProxy.

(* ---- interpretation: the client-only fields (golden list) ----
   Everything else is "a field the server acts on" and has to survive the trip.  These are the
   fields frps has no use for: the local backend (address, port, plugin), the health check the
   client runs, and the PROXY-protocol version the client speaks to its backend. *)
Definition cm_erase_client_only (b : ProxyBaseConfig) : ProxyBaseConfig :=
  let b := set_ProxyBaseConfig_HealthCheck zero_HealthCheckConfig b in
  let b := set_ProxyBaseConfig_ProxyBackend zero_ProxyBackend b in
  set_ProxyBaseConfig_Transport
    (set_ProxyTransport_ProxyProtocolVersion [] (ProxyBaseConfig_Transport b)) b.

Definition cm_erase (pc : proxy_cfg) : proxy_cfg :=
  cfg_set_base (cm_erase_client_only (cfg_base pc)) pc.

(* the same list as dotted leaf-path prefixes below every registered type, for the table check *)
Definition cm_client_only_paths : list string :=
  [ "ProxyBaseConfig.HealthCheck"; "ProxyBaseConfig.ProxyBackend";
    "ProxyBaseConfig.Transport.ProxyProtocolVersion" ]%string.

(* what the server must hold after reconstruction: the client's configuration without the
   client-only fields, with the server's own Complete("") applied to it *)
Definition cm_server_view (pc : proxy_cfg) : proxy_cfg := cfg_complete [] (cm_erase pc).

(* ---- the generated tables, flattened (for the reflective field check) ---- *)
Fixpoint cm_assoc {A} (n : string) (l : list (string * A)) : option A :=
  match l with [] => None | (k, v) :: r => if String.eqb n k then Some v else cm_assoc n r end.

Definition cm_is_struct_code (code : string) : option string :=
  match code with
  | String "s" (String "t" (String "r" (String "u" (String "c" (String "t" (String ":" n)))))) => Some n
  | _ => None
  end.

Definition cm_is_opaque_code (code : string) : bool :=
  match code with
  | String "o" (String "p" (String "a" (String "q" (String "u" (String "e" (String ":" _)))))) => true
  | _ => false
  end.

Definition cm_dot (p f : string) : string :=
  match p with EmptyString => f | _ => (p ++ "." ++ f)%string end.

(* leaves (dotted path, kind code) of a struct; nesting depth bounded by [fuel] — a struct nested
   deeper than the bound is reported as a leaf of kind "struct:…", which no assignment matches *)
Fixpoint cm_leaves (fuel : nat) (tbl : list (string * list (string * string * string * bool)))
         (prefix sname : string) : list (string * string) :=
  match fuel with
  | O => [(prefix, ("struct:" ++ sname)%string)]
  | S k =>
      match cm_assoc sname tbl with
      | None => [(prefix, ("missing:" ++ sname)%string)]
      | Some fs =>
          flat_map (fun f : string * string * string * bool =>
                      let '(fname, code, _, _) := f in
                      match cm_is_struct_code code with
                      | Some n => cm_leaves k tbl (cm_dot prefix fname) n
                      | None => [(cm_dot prefix fname, code)]
                      end) fs
      end
  end.

Fixpoint cm_str_prefix (p s : string) : bool :=
  match p, s with
  | EmptyString, _ => true
  | String a p', String b s' => Ascii.eqb a b && cm_str_prefix p' s'
  | _, _ => false
  end.

Definition cm_client_only (path : string) : bool :=
  existsb (fun p => String.eqb p path || cm_str_prefix (p ++ ".")%string path) cm_client_only_paths.

(* destinations (resp. sources) of a method table entry, with calls of an embedded struct's
   method expanded one level (all that occurs: the type-specific methods call the base one) *)
Definition cm_targets (which : string * string * string -> string)
           (tbl : list (string * list (string * string * string))) (recv : string) : list string :=
  match cm_assoc recv tbl with
  | None => []
  | Some asg =>
      flat_map (fun a : string * string * string =>
                  let '(d, s, _) := a in
                  if String.eqb d "@call" then
                    (* s = "Struct@path.of.embedded" *)
                    let i := match String.index 0 "@" s with Some i => i | None => 0%nat end in
                    let callee := String.substring 0 i s in
                    let via := String.substring (S i) (String.length s - S i) s in
                    match cm_assoc callee tbl with
                    | Some inner => map (fun b => cm_dot via (which b)) inner
                    | None => []
                    end
                  else [which a]) asg
  end.

Definition cm_dest (a : string * string * string) : string := let '(d, _, _) := a in d.
(* marshal sources look like "c:Path"; strip the variable *)
Definition cm_src (a : string * string * string) : string :=
  let '(_, s, _) := a in
  match String.index 0 ":" s with
  | Some i => String.substring (S i) (String.length s - S i) s
  | None => s
  end.

Definition cm_unmarshal_dests (recv : string) : list string := cm_targets cm_dest unmarshal_assigns recv.
Definition cm_marshal_srcs (recv : string) : list string := cm_targets cm_src marshal_assigns recv.

Definition cm_acted_leaves (recv : string) : list (string * string) :=
  filter (fun l => negb (cm_client_only (fst l))) (cm_leaves 6 cfg_structs "" recv).

Definition cm_registered_structs : list string := map (fun e : string * string * string => snd e) proxy_type_map.

Definition cm_fields_covered : bool :=
  forallb (fun recv =>
             forallb (fun l : string * string =>
                        negb (cm_is_opaque_code (snd l)) &&
                        match cm_is_struct_code (snd l) with Some _ => false | None => true end &&
                        existsb (String.eqb (fst l)) (cm_unmarshal_dests recv) &&
                        existsb (String.eqb (fst l)) (cm_marshal_srcs recv))
                     (cm_acted_leaves recv))
          cm_registered_structs
  && match t3_unknown with [] => true | _ => false end.
