from vlib import Check

PID = "C13"

MANIFEST = dict(
    text="Machine-checked theorems (Coq 8.16.1) over one executable model of the three load-balancing group controllers "
         "(server/group tcp.go, http.go, tcpmux.go) at lock / channel-operation granularity: a join is two atomic steps (lookup-or-create "
         "under the controller lock; first-member or later-member branch under the group lock), a leave closes the hand-off channel, the "
         "real listener, releases the port/route and removes the group by name; close of a closed channel is an explicit Crashed state. "
         "Proved for all request lists and all schedules: key/parameter checks with the code's specific errors, refused joins change "
         "nothing, hand-off only to current members, http round-robin fairness, and — under the executable hypothesis 'no join is "
         "between its two steps when a last leave runs' — no crash, endpoint iff the controller knows a group with members, recreation "
         "after the last leave. Without that hypothesis the three clauses are REFUTED by concrete schedules (theorems ..._refuted), and "
         "the same schedules are replayed on the real controllers through verifhook gates in child processes (finding F-C13).",
    note="Trusted: Coq kernel+VM; harness transcription; gates at the two model-step boundaries. ports.Manager and vhost.Routers are "
         "modelled only as far as the groups use them (used set, allowed range, oracle for the port-0 choice, OS probe and net.Listen). "
         "The select between closeCh and acceptCh in TCPGroupListener.Accept is modelled as 'a closed listener never receives' (residue). "
         "Exercised through the exported controllers, not through a whole frps.",
    technique="Coq proof (inductive invariant over schedules; vm_compute witnesses for refutations) + gate-driven differential correspondence",
    design="4/C13")


def q(tier, quick, thorough):
    return quick if tier == "quick" else thorough


def recipe(c: Check):
    c.build(["Properties/C13.vo", "Corr/C13.vo"], harness=["c13"])
    c.obligations("C13")
    st = c.run_driver("groups", q(c.tier, 240, 3000), shards=q(c.tier, 4, 16), timeout=1500)
    ctr = c.cov.get("coq_counters", {}).get("groups", {})
    if st and ctr:
        # branches the property names must have been reached
        for name in ("NDELIVERED", "NREFUSEDJOIN", "NOVERLAP", "NSHELL"):
            if ctr.get(name, 0) <= 0:
                c.broken.append(dict(kind="coverage", name="counter %s is 0: a branch the property names was never reached" % name,
                                     detail=str(ctr)))
        # the partial theorems say these cannot happen; seeing one means model and proofs have drifted apart
        for name in ("NCRASHNOOVERLAP", "NBADNOOVERLAP"):
            if ctr.get(name, 0) != 0:
                c.failures.append(dict(key="C13:monitor:%s" % name.lower(), driver="groups",
                                       what="a crash / orphan endpoint / lost connection on a schedule in which no join overlaps a last leave",
                                       case=str(ctr)))
    return c.finish(
        rule="groups driver: for each of tcp/http/tcpmux, real exported controllers (group.NewTCPGroupCtl with a real ports.Manager on "
             "127.0.13.1:21300-21349, group.NewHTTPGroupController with real vhost.Routers + HTTPReverseProxy route configs, "
             "group.NewTCPMuxGroupCtl with a real tcpmux.HTTPConnectTCPMuxer) driven by (a) sequential histories of joins (right/wrong "
             "key, same/different port, address, route parameters, repeated name, port 0, not-allowed / foreign-bound ports, unknown "
             "multiplexer), leaves, connections/requests (which member's Accept() returns it / which CreateConnFn is called), environment "
             "take/free of the port or route; (b) rotation histories; (c) gate-driven schedules (after_lookup, before_handoff) incl. the "
             "F-C13 shapes; each case replayed by Model.Group.run on the same request list and schedule; compared: per-thread outcome "
             "(join result + error kind + real port, receiver of each connection, refused/stranded), crash, controller table (name, "
             "member count), used ports/routes, open endpoints, listeners whose Accept died. distinct = distinct case text; non-trivial "
             "= at least 2 requests",
        assumptions=["oracles (operation arguments): port chosen for remotePort=0, OS probe result, net.Listen result, receiver among blocked Accept calls",
                     "select{closeCh, acceptCh} race in TCPGroupListener.Accept not modelled (a closed listener never receives)",
                     "ports.Manager reserved-port bookkeeping and vhost prefix/wildcard matching are outside this model (C09, C06)"])
