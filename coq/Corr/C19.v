(* C19 correspondence: observed behaviour of the real health.Monitor, proxy.Manager (with its
   wrappers) and visitor.Manager against Model/Health.v, Model/Wrapper.v, Model/Reconcile.v. *)
From FRP Require Export Corr.Common Model.Health Model.Wrapper Model.Reconcile.
Open Scope Z_scope.

(* ---------- health ---------- *)
(* probe outcomes as the harness writes them: 0 accept | 1 refuse | 2 timeout | 1000+code *)
Definition c19_probe (z : Z) : hm_probe :=
  if z =? 0 then HPAccept else if z =? 1 then HPRefuse else if z =? 2 then HPTimeout else HPStatus (z - 1000).
Definition c19_kind (z : Z) : hm_kind := if z =? 0 then HKTcp else if z =? 1 then HKHttp else HKOther.
Definition c19_ev (e : hm_event) : Z := match e with HMNormal => 0 | HMFailed => 1 end.

Fixpoint c19_zlist_eqb (a b : list Z) : bool :=
  match a, b with
  | [], [] => true
  | x :: a', y :: b' => (x =? y) && c19_zlist_eqb a' b'
  | _, _ => false
  end.
Fixpoint c19_zll_eqb (a b : list (list Z)) : bool :=
  match a, b with
  | [], [] => true
  | x :: a', y :: b' => c19_zlist_eqb x y && c19_zll_eqb a' b'
  | _, _ => false
  end.

(* the property as a monitor on an observed trace, written against the specification
   (hm_spec_ok), not against the model's step function *)
Fixpoint c19_health_expected (max : Z) (seen : list bool) (errs : list bool) : list (list Z) :=
  match errs with
  | [] => []
  | e :: r =>
      let before := hm_spec_ok max seen in
      let after := hm_spec_ok max (seen ++ [e]) in
      (if negb before && after then [0] else if before && negb after then [1] else [])
        :: c19_health_expected max (seen ++ [e]) r
  end.

Definition c19_health_holds (kind max : Z) (probes : list Z) (events : list (list Z)) : bool :=
  let errs := map (fun p => hm_probe_err (c19_kind kind) (c19_probe p)) probes in
  c19_zll_eqb events (c19_health_expected (hm_norm_max max) [] errs).

Inductive c19_case :=
| CHealth (kind maxFailed : Z) (hasN hasF : bool) (probes : list Z) (events : list (list Z)).

Definition c19_health_model (kind maxFailed : Z) (hasN hasF : bool) (probes : list Z) : list (list Z) :=
  let c := {| hm_max := hm_norm_max maxFailed; hm_hasN := hasN; hm_hasF := hasF |} in
  map (map c19_ev) (snd (hm_run (c19_kind kind) c (map c19_probe probes))).

Definition c19_check_case (c : c19_case) : Z :=
  match c with
  | CHealth kind maxFailed hasN hasF probes events =>
      if negb (c19_zll_eqb events (c19_health_model kind maxFailed hasN hasF probes)) then 1
      else if hasN && hasF && negb (c19_health_holds kind maxFailed probes events) then 2
      else 0
  end.

(* coverage counters: how many cases made the model withdraw / register again / survive a
   failure run that a success had interrupted *)
Definition c19_flat (l : list (list Z)) : list Z := List.concat l.
Definition c19_case_withdraws (c : c19_case) : bool :=
  match c with
  | CHealth k m n f p _ => existsb (Z.eqb 1) (c19_flat (c19_health_model k m n f p))
  end.
Definition c19_case_reregisters (c : c19_case) : bool :=
  match c with
  | CHealth k m n f p _ => 2 <=? count_if (Z.eqb 0) (c19_flat (c19_health_model k m n f p))
  end.
(* a failed probe, later a success, later a failed probe that does not withdraw although the
   failures before and after the success add up to maxFailed or more *)
Fixpoint c19_total_fails (errs : list bool) : Z :=
  match errs with [] => 0 | e :: r => (if e then 1 else 0) + c19_total_fails r end.
Definition c19_case_restarts_count (c : c19_case) : bool :=
  match c with
  | CHealth k m n f p _ =>
      let errs := map (fun x => hm_probe_err (c19_kind k) (c19_probe x)) p in
      let fired := count_if (Z.eqb 1) (c19_flat (c19_health_model k m n f p)) in
      (fired =? 0) && (hm_norm_max m <=? c19_total_fails errs) && hm_has_success errs
  end.
