(* C06 — virtual-host routing always picks the most specific matching route.
   Only statements here; proofs live in Proofs/Router*.v, Proofs/Route*.v, Proofs/HttpPoolProofs.v.
   Model/Router.v mirrors pkg/util/vhost/router.go (Routers.Add/Del/Get), the walk of
   http.go:getVhost == vhost.go:getListener and pkg/util/http.CanonicalHost; Model/RouteSpec.v is the
   mechanism-free specification; Model/HttpPool.v the HTTP layer with its backend connection pool.
   [P] is the payload type (what a route leads to: a *RouteConfig, a *Listener). *)
From FRP Require Import Model.Router Model.RouteSpec Model.HttpPool
  Proofs.RouterProofs Proofs.RouteSpecProofs Proofs.RouteClauses Proofs.HttpPoolProofs
  Corr.C06 Proofs.C06MonitorProofs Model.RouterSched Proofs.RouterSchedProofs gen.GenC06Route.
Open Scope Z_scope.

(* router_inv: after every history every per-(domain,user) slice is strictly descending by location
   (hence duplicate-free), keys are lower-cased, map keys unique *)
Theorem C06_router_inv : forall (P : Type) (hist : list (rt_op P)), rp_wf (rt_run hist).
Proof. exact (@rp_run_wf). Qed.
Print Assumptions C06_router_inv.

(* in a strictly descending slice the first location that is a prefix of the path is the longest one *)
Theorem C06_first_prefix_is_longest : forall (P : Type) (l : list (route P)) path r,
  rp_desc l -> find (fun r => is_prefix (rt_loc r) path) l = Some r ->
  In r l /\ is_prefix (rt_loc r) path = true /\
  forall r', In r' l -> is_prefix (rt_loc r') path = true -> r' = r \/ (length (rt_loc r') < length (rt_loc r))%nat.
Proof. exact (@rp_first_prefix_is_longest). Qed.
Print Assumptions C06_first_prefix_is_longest.

(* THE refinement: for every history of Add/Del and every request, the route walk over the sorted
   slices returns exactly the most specific matching route of the specification *)
Theorem C06_get_vhost_refines_best_match : forall (P : Type) (hist : list (rt_op P)) host path user,
  rt_get_vhost (rt_run hist) host path user = rs_best_match (rt_abs (rt_run hist)) host path user.
Proof. exact (@rq_get_vhost_refines_best_match). Qed.
Print Assumptions C06_get_vhost_refines_best_match.

(* the mechanism's table and the specification's plain route set evolve alike: same routes, same
   refusals, hence same selections, when both are driven by the same history *)
Theorem C06_table_refines_route_set : forall (P : Type) (hist : list (rt_op P)),
  (forall r, In r (rt_abs (rt_run hist)) <-> In r (rs_run hist)) /\
  (forall d l u pay, (rt_add (rt_run hist) d l u pay = None <-> rs_add (rs_run hist) d l u pay = None)) /\
  (forall host path user, rt_get_vhost (rt_run hist) host path user = rs_best_match (rs_run hist) host path user).
Proof. exact (@rc_table_refines_route_set). Qed.
Print Assumptions C06_table_refines_route_set.

(* Reflective, over today's source (translator unit c06route -> gen/GenC06Route.v): the wildcard walk as
   HTTPReverseProxy.getVhost and Muxer.getListener perform it -- with the split call (strings.Split, i.e.
   ALL labels of the host, not SplitN with a bound), the loop bound and the statement shape read from the
   source -- returns the most specific matching route, for every history and every host with ANY number
   of labels.  The statement type-checks only if every site has the modelled shape. *)
Theorem C06_source_walk_refines_best_match :
  forall (P : Type) site w, rt_site_lookup site c06_walk_sites = Some w ->
  forall (hist : list (rt_op P)) host path user,
    rt_get_vhost_g w (rt_run hist) host path user = rs_best_match (rt_abs (rt_run hist)) host path user.
Proof.
  intro P. exact (rs_source_walk_refines c06_walk_sites
    (eq_refl true <: forallb (fun nw : string * rt_walk_src => rt_walk_src_std (snd nw)) c06_walk_sites = true)).
Qed.
Print Assumptions C06_source_walk_refines_best_match.

Theorem C06_source_walk_sites_present :
  rt_site_lookup "HTTPReverseProxy.getVhost" c06_walk_sites <> None /\
  rt_site_lookup "Muxer.getListener" c06_walk_sites <> None.
Proof. split; discriminate. Qed.
Print Assumptions C06_source_walk_sites_present.

(* ---------- concurrent registrations (all schedules) ---------- *)
(* the lock sections of Routers.Add / Routers.Del as the translator reads them from today's router.go *)
Definition c06_src_prog (name : string) : ra_prog :=
  match rt_site_lookup name c06_router_locks with
  | Some toks => match ra_sections toks with Some p => p | None => [] end
  | None => []
  end.

(* Reflective: in today's source the existence check and the insertion of Routers.Add are inside ONE
   write-lock section (and Del is one write-lock section); therefore, for every set of goroutines
   calling Add / Del and EVERY schedule of their lock sections, the answers and the table are those of
   the calls executed one after the other in the order in which they finished: a registration is
   refused exactly when its triple is registered at that moment, under every schedule *)
Theorem C06_concurrent_registrations_linearizable :
  forall (P : Type) (s : rstate P) (ops : list (rt_op P)) (sched : list nat),
    let c := ra_run sched (ra_init (c06_src_prog "Routers.Add") (c06_src_prog "Routers.Del") s ops) in
    ra_replay s (cf_log c) = Some (cf_tab c).
Proof.
  intro P. exact (rs_atomic_linearizable (c06_src_prog "Routers.Add") (c06_src_prog "Routers.Del")
    (eq_refl true <: ra_add_atomic (c06_src_prog "Routers.Add") = true)
    (eq_refl true <: ra_del_atomic (c06_src_prog "Routers.Del") = true)).
Qed.
Print Assumptions C06_concurrent_registrations_linearizable.

(* what a successful replay says: triples stay unique under every schedule ... *)
Theorem C06_replay_keeps_invariant : forall (P : Type) (log : list (ra_event P)) s s',
  rp_wf s -> ra_replay s log = Some s' -> rp_wf s'.
Proof. exact (@rs_replay_wf). Qed.
Print Assumptions C06_replay_keeps_invariant.

(* ... and a registration is refused only for, and always for, a duplicate triple *)
Theorem C06_refused_iff_duplicate_under_every_schedule :
  forall (P : Type) (l1 : list (ra_event P)) e l2 s s1 s' d l u p,
  rp_wf s -> ra_replay s (l1 ++ e :: l2) = Some s' -> ra_replay s l1 = Some s1 -> ev_op e = RAdd d l u p ->
  (ev_ok e = false <-> exists r, In r (rt_abs s1) /\ rt_dom r = lower d /\ rt_loc r = l /\ rt_user r = u).
Proof. exact (@rs_replay_refused_iff_duplicate). Qed.
Print Assumptions C06_refused_iff_duplicate_under_every_schedule.

(* named regression witness: with the check and the insertion in two lock sections there is a
   schedule under which two registrations of one triple are both accepted, the table holds the triple
   twice, no sequential order explains the answers, and one Del removes both routes *)
Theorem C06_check_then_insert_not_linearizable :
  let c := ra_run [0; 1; 0; 1]%nat (ra_init rs_split_prog ra_del_prog_std rt_empty rs_split_ops) in
  map (@ev_ok Z) (cf_log c) = [true; true] /\
  length (rt_abs (cf_tab c)) = 2%nat /\
  ra_replay rt_empty (cf_log c) = None /\
  rt_abs (rt_del (cf_tab c) (hx "682e74657374") [] []) = [].
Proof. exact rs_check_then_insert_not_linearizable. Qed.
Print Assumptions C06_check_then_insert_not_linearizable.

(* Reflective, over today's vhost.go: Muxer.handle looks the route up ONCE and hands the connection to
   that listener or to nobody.  Whatever happens to the table between look-up and hand-over (the routed
   listener closing, other routes covering the host), a muxed connection is delivered only to the most
   specific route registered when it was routed -- the one its credentials were checked against *)
Theorem C06_muxer_delivers_only_to_routed_listener :
  forall (P : Type) (same : P -> P -> bool) (hist : list (rt_op P)) (s' : rstate P) h p u x,
  mx_deliver same (mx_relookup c06_mux_handle) (rt_run hist) s' h p u = Some x ->
  exists r, rs_best_match (rt_abs (rt_run hist)) h p u = Some r /\ x = rt_pay r.
Proof.
  intros P same. exact (rs_mx_delivers_best_match same c06_mux_handle (eq_refl false <: mx_relookup c06_mux_handle = false)).
Qed.
Print Assumptions C06_muxer_delivers_only_to_routed_listener.

Theorem C06_muxer_relookup_hands_to_other_route_witness :
  let s := rt_run [RAdd (hx "612e6578616d706c652e636f6d") [] [] 1; RAdd (hx "2a2e6578616d706c652e636f6d") [] [] 2] in
  let s' := rt_del s (hx "612e6578616d706c652e636f6d") [] [] in
  mx_deliver Z.eqb true s s' (hx "612e6578616d706c652e636f6d") [] [] = Some 2 /\
  mx_deliver Z.eqb false s s' (hx "612e6578616d706c652e636f6d") [] [] = None.
Proof. exact rs_mx_relookup_hands_to_other_route. Qed.
Print Assumptions C06_muxer_relookup_hands_to_other_route_witness.

(* Reflective, over today's server/proxy/https.go: HTTPSProxy.Run tracks a listener only after Listen
   succeeded.  A Run that is refused (one of its hosts is owned by another proxy) leaves the route set
   exactly as it was, for every history and every list of custom domains: the owner keeps its route,
   the refused proxy leaves nothing behind (so a retry is refused again) *)
Theorem C06_refused_https_run_leaves_routes_unchanged :
  forall (P : Type) (pay : P) (hist : list (rt_op P)) doms s',
  px_run (px_track_first c06_https_run) (rt_run hist) doms pay [] = (s', false) ->
  rp_wf s' /\ forall r, In r (rt_abs s') <-> In r (rt_abs (rt_run hist)).
Proof.
  intros P pay. exact (rs_px_run_refused_unchanged pay c06_https_run (eq_refl false <: px_track_first c06_https_run = false)).
Qed.
Print Assumptions C06_refused_https_run_leaves_routes_unchanged.

Theorem C06_track_before_error_check_deletes_owner_route_witness :
  let s := rt_run [RAdd (hx "612e6578616d706c652e636f6d") [] [] 1] in
  rt_abs (fst (px_run true s [hx "412e6578616d706c652e636f6d"] 2 [])) = [] /\
  rt_abs (fst (px_run false s [hx "412e6578616d706c652e636f6d"] 2 [])) = rt_abs s.
Proof. exact rs_px_track_first_deletes_owner_route. Qed.
Print Assumptions C06_track_before_error_check_deletes_owner_route_witness.

(* "most specific" spelled out: the selected route matches, and every other matching registered
   route is strictly less specific in the order (domain, user, location) *)
Theorem C06_most_specific : forall (P : Type) (hist : list (rt_op P)) h p u r,
  rt_get_vhost (rt_run hist) h p u = Some r ->
  In r (rt_abs (rt_run hist)) /\ rs_matches r h p u = true /\
  forall r', In r' (rt_abs (rt_run hist)) -> rs_matches r' h p u = true ->
             r' = r \/ rs_lt3 (rs_score r' h p u) (rs_score r h p u) = true.
Proof. intros P hist h p u r H. exact (rc_best hist h p u r H). Qed.
Print Assumptions C06_most_specific.

(* never a route that does not match *)
Theorem C06_never_nonmatching_route : forall (P : Type) (hist : list (rt_op P)) h p u r,
  rt_get_vhost (rt_run hist) h p u = Some r ->
  In r (rt_abs (rt_run hist)) /\ rs_matches r h p u = true.
Proof. exact (@rc_never_nonmatching). Qed.
Print Assumptions C06_never_nonmatching_route.

(* refused exactly when no registered route matches *)
Theorem C06_unmatched_is_none : forall (P : Type) (hist : list (rt_op P)) h p u,
  rt_get_vhost (rt_run hist) h p u = None <->
  forall r, In r (rt_abs (rt_run hist)) -> rs_matches r h p u = false.
Proof. exact (@rc_unmatched_is_none). Qed.
Print Assumptions C06_unmatched_is_none.

(* exact host before wildcard *)
Theorem C06_exact_before_wildcard : forall (P : Type) (hist : list (rt_op P)) h p u r r',
  rt_get_vhost (rt_run hist) h p u = Some r ->
  In r' (rt_abs (rt_run hist)) -> rs_matches r' h p u = true -> rt_dom r' = lower h -> rt_dom r = lower h.
Proof. exact (@rc_exact_before_wildcard). Qed.
Print Assumptions C06_exact_before_wildcard.

(* longer wildcard suffix before shorter (patterns that match one host are ordered by length) *)
Theorem C06_longer_wildcard_first : forall (P : Type) (hist : list (rt_op P)) h p u r r',
  rt_get_vhost (rt_run hist) h p u = Some r ->
  In r' (rt_abs (rt_run hist)) -> rs_matches r' h p u = true -> rt_dom r <> lower h ->
  rt_dom r' <> lower h /\ blen (rt_dom r') <= blen (rt_dom r).
Proof. exact (@rc_longer_wildcard_first). Qed.
Print Assumptions C06_longer_wildcard_first.

(* the catch-all last: it is selected only if every matching route is a catch-all route *)
Theorem C06_catch_all_last : forall (P : Type) (hist : list (rt_op P)) h p u r r',
  rt_get_vhost (rt_run hist) h p u = Some r -> rt_dom r = rt_star -> lower h <> rt_star ->
  In r' (rt_abs (rt_run hist)) -> rs_matches r' h p u = true -> rt_dom r' = rt_star.
Proof. exact (@rc_catch_all_last). Qed.
Print Assumptions C06_catch_all_last.

(* within a host: routes restricted to the request's user before unrestricted ones *)
Theorem C06_user_specific_first : forall (P : Type) (hist : list (rt_op P)) h p u r r',
  rt_get_vhost (rt_run hist) h p u = Some r ->
  In r' (rt_abs (rt_run hist)) -> rs_matches r' h p u = true -> rt_dom r' = rt_dom r -> rt_user r' = u ->
  rt_user r = u.
Proof. exact (@rc_user_specific_first). Qed.
Print Assumptions C06_user_specific_first.

(* within those: the longest location prefix *)
Theorem C06_longest_location_prefix : forall (P : Type) (hist : list (rt_op P)) h p u r r',
  rt_get_vhost (rt_run hist) h p u = Some r ->
  In r' (rt_abs (rt_run hist)) -> rs_matches r' h p u = true -> rt_dom r' = rt_dom r -> rt_user r' = rt_user r ->
  r' = r \/ blen (rt_loc r') < blen (rt_loc r).
Proof. exact (@rc_longest_location). Qed.
Print Assumptions C06_longest_location_prefix.

(* a wildcard needs at least two fixed labels: "*.tld" is selected only for the literal host "*.tld" *)
Theorem C06_wildcard_needs_two_fixed_labels : forall (P : Type) (hist : list (rt_op P)) h p u r T,
  rt_get_vhost (rt_run hist) h p u = Some r ->
  rt_dom r = "*"%byte :: rt_dot :: T -> rt_has rt_dot T = false -> lower h = rt_dom r.
Proof. exact (@rc_wildcard_needs_two_fixed_labels). Qed.
Print Assumptions C06_wildcard_needs_two_fixed_labels.

(* host comparison ignores letter case: of the request host ... *)
Theorem C06_host_case_insensitive : forall (P : Type) (s : rstate P) h1 h2 p u,
  lower h1 = lower h2 -> rt_get_vhost s h1 p u = rt_get_vhost s h2 p u.
Proof. exact (@rc_host_case_insensitive). Qed.
Print Assumptions C06_host_case_insensitive.

(* ... and of the registered domain *)
Theorem C06_domain_case_insensitive : forall (P : Type) (s : rstate P) d1 d2 l u pay,
  lower d1 = lower d2 ->
  rt_add s d1 l u pay = rt_add s d2 l u pay /\ rt_del s d1 l u = rt_del s d2 l u.
Proof. intros P s d1 d2 l u pay H. split; [exact (rc_add_case_insensitive s d1 d2 l u pay H)|exact (rc_del_case_insensitive s d1 d2 l u H)]. Qed.
Print Assumptions C06_domain_case_insensitive.

(* for HTTP and CONNECT the host goes through CanonicalHost: a port suffix is ignored ... *)
Theorem C06_port_ignored : forall h port,
  rt_has rt_colon h = false -> rt_has rt_lbr h = false -> rt_has rt_rbr h = false ->
  rt_has rt_colon port = false -> rt_has rt_lbr port = false -> rt_has rt_rbr port = false ->
  rt_canonical_host (h ++ rt_colon :: port) = rt_canonical_host h.
Proof. exact rc_port_ignored. Qed.
Print Assumptions C06_port_ignored.

(* ... and so is one trailing dot, and letter case *)
Theorem C06_trailing_dot_ignored : forall h,
  rt_has rt_colon h = false -> (forall t, h <> t ++ [rt_dot]) ->
  rt_canonical_host (h ++ [rt_dot]) = rt_canonical_host h /\ rt_canonical_host h = Some (lower h).
Proof. exact rc_trailing_dot_ignored. Qed.
Print Assumptions C06_trailing_dot_ignored.

Theorem C06_canonical_case_insensitive : forall h, rt_canonical_host (lower h) = rt_canonical_host h.
Proof. exact rc_canonical_case. Qed.
Print Assumptions C06_canonical_case_insensitive.

(* registering a duplicate (host, location, user) triple is refused and the table is unchanged ... *)
Theorem C06_add_duplicate_refused_unchanged : forall (P : Type) (hist : list (rt_op P)) d l u pay,
  (exists r, In r (rt_abs (rt_run hist)) /\ rt_dom r = lower d /\ rt_loc r = l /\ rt_user r = u) ->
  rt_add (rt_run hist) d l u pay = None /\ rt_run (hist ++ [RAdd d l u pay]) = rt_run hist.
Proof. exact (@rc_add_duplicate_refused_unchanged). Qed.
Print Assumptions C06_add_duplicate_refused_unchanged.

(* ... and only a duplicate is refused: a fresh triple is accepted and nothing else changes *)
Theorem C06_add_fresh_accepted : forall (P : Type) (hist : list (rt_op P)) d l u pay,
  (forall r, In r (rt_abs (rt_run hist)) -> ~ (rt_dom r = lower d /\ rt_loc r = l /\ rt_user r = u)) ->
  exists s', rt_add (rt_run hist) d l u pay = Some s' /\ rt_run (hist ++ [RAdd d l u pay]) = s' /\
    forall r, In r (rt_abs s') <-> (r = mkRoute (lower d) l u pay \/ In r (rt_abs (rt_run hist))).
Proof. exact (@rc_add_fresh_accepted). Qed.
Print Assumptions C06_add_fresh_accepted.

Theorem C06_triples_unique : forall (P : Type) (hist : list (rt_op P)) a b,
  In a (rt_abs (rt_run hist)) -> In b (rt_abs (rt_run hist)) ->
  rt_dom a = rt_dom b -> rt_loc a = rt_loc b -> rt_user a = rt_user b -> a = b.
Proof. exact (@rc_triple_unique). Qed.
Print Assumptions C06_triples_unique.

(* removing a route affects only that triple ... *)
Theorem C06_del_removes_exactly_one_triple : forall (P : Type) (hist : list (rt_op P)) d l u r,
  In r (rt_abs (rt_run (hist ++ [RDel d l u]))) <->
  (In r (rt_abs (rt_run hist)) /\ ~ (rt_dom r = lower d /\ rt_loc r = l /\ rt_user r = u)).
Proof. exact (@rc_del_removes_exactly_one_triple). Qed.
Print Assumptions C06_del_removes_exactly_one_triple.

(* ... and takes effect from the next look-up on *)
Theorem C06_del_then_get_never_old : forall (P : Type) (hist : list (rt_op P)) d l u h p u' r,
  rt_get_vhost (rt_run (hist ++ [RDel d l u])) h p u' = Some r ->
  ~ (rt_dom r = lower d /\ rt_loc r = l /\ rt_user r = u).
Proof. exact (@rc_del_then_get_never_old). Qed.
Print Assumptions C06_del_then_get_never_old.

(* once re-registered by another proxy, the triple leads to the new owner *)
Theorem C06_readd_gets_new_owner : forall (P : Type) (hist : list (rt_op P)) d l u p2 h p u' r,
  rt_get_vhost (rt_run ((hist ++ [RDel d l u]) ++ [RAdd d l u p2])) h p u' = Some r ->
  rt_dom r = lower d -> rt_loc r = l -> rt_user r = u -> rt_pay r = p2.
Proof. exact (@rc_readd_gets_new_owner). Qed.
Print Assumptions C06_readd_gets_new_owner.

(* the monitor of Corr/C06.v (specification only) accepts every observation trace the model produces,
   whatever the script of Add/Del/Get/getVhost operations; so an implementation trace the monitor
   rejects is necessarily a correspondence mismatch, and a concrete input on which the property fails *)
Theorem C06_model_satisfies_monitor : forall script,
  C06_holds_router [] (mq_trace rt_empty script) = true.
Proof. exact mq_model_satisfies_monitor. Qed.
Print Assumptions C06_model_satisfies_monitor.

(* the same for the HTTP layer: traces the model produces from any script of Register / UnRegister /
   request begin / end (any Transport choices) pass the specification-only monitor C06_holds_http *)
Theorem C06_model_satisfies_monitor_http : forall script, Forall hq_plain_op script ->
  C06_holds_http [] (mq_trace_http hp_init script) = true.
Proof. exact mq_model_satisfies_monitor_http. Qed.
Print Assumptions C06_model_satisfies_monitor_http.

(* ---------- the HTTP layer: routing decisions survive backend-connection reuse ---------- *)

(* every request of every register/unregister/request history, whatever the Transport chose to
   reuse and however requests in flight overlap route changes, reaches exactly the owner of the most
   specific route registered at that moment — or gets the not-found answer and reaches no backend *)
Theorem C06_request_reaches_current_best_match_partial : forall ops st rid cc proto host path user dialed st' out,
  Forall hq_plain_op ops -> hp_run ops = Some st ->
  hp_step st (HBegin rid cc proto host path user dialed) = Some (st', out) ->
  out = hp_spec_out rc_owner (rt_abs (hp_routes st)) host path user.
Proof. exact hq_request_reaches_current_best_match. Qed.
Print Assumptions C06_request_reaches_current_best_match_partial.

(* an HTTP CONNECT at the vhost HTTP port is routed the same way (empty path, Proxy-Authorization user)
   and pools nothing *)
Theorem C06_connect_reaches_current_best_match : forall ops st host user st' out,
  Forall hq_plain_op ops -> hp_run ops = Some st ->
  hp_step st (HConnect host user) = Some (st', out) ->
  out = hp_spec_out rc_owner (rt_abs (hp_routes st)) host [] user /\ st' = st.
Proof. exact hq_connect_reaches_current_best_match. Qed.
Print Assumptions C06_connect_reaches_current_best_match.

(* once a route has been closed and re-registered by another proxy, no new request selected by that
   triple reaches the former owner's backend: it reaches the new owner, also over reused connections *)
Theorem C06_reregistered_route_never_reaches_old_owner :
  forall ops d l u newowner reqs st rid cc proto host path user dialed st' b r,
  Forall hq_plain_op ops -> Forall hq_is_traffic reqs ->
  hp_run (ops ++ [HUnRegister d l u; HRegister d l u newowner] ++ reqs) = Some st ->
  hp_step st (HBegin rid cc proto host path user dialed) = Some (st', HReached b) ->
  rs_best_match (rt_abs (hp_routes st)) (rt_canon_or_empty host) path user = Some r ->
  rt_dom r = lower d -> rt_loc r = l -> rt_user r = u ->
  b = newowner.
Proof. exact hq_reregistered_route_never_reaches_old_owner. Qed.
Print Assumptions C06_reregistered_route_never_reaches_old_owner.

(* a removed route is not reached any more, even though connections to its backend may still be
   in flight or idle: the backend reached always owns a currently registered, matching route *)
Theorem C06_unregistered_owner_not_reached : forall ops st rid cc proto host path user dialed st' b,
  Forall hq_plain_op ops -> hp_run ops = Some st ->
  hp_step st (HBegin rid cc proto host path user dialed) = Some (st', HReached b) ->
  exists r, In r (rt_abs (hp_routes st)) /\ rs_matches r (rt_canon_or_empty host) path user = true /\
            rc_owner (rt_pay r) = b.
Proof. exact hq_unregistered_owner_not_reached. Qed.
Print Assumptions C06_unregistered_owner_not_reached.

(* REFUTED for routes that server/group/http.go registers (load-balancing groups): such a route gets
   no registration number and leaving the group closes no idle connection, so after the member left
   and a proxy of the same name joined again for another owner, a request reaches the FORMER owner's
   backend over the reused connection.  Witness replayed on the real code by driver `group`.
   [hq_plain_op] above excludes exactly these two operations. *)
Theorem C06_group_reregistered_route_reaches_old_owner_refuted :
  exists st st',
    hp_run hq_group_witness = Some st /\
    hp_step st (HBegin 2 0 0 (hx "682e74657374") (hx "2f") [] false) = Some (st', HReached 1) /\
    hp_spec_out rc_owner (rt_abs (hp_routes st)) (hx "682e74657374") (hx "2f") [] = HReached 2.
Proof. exact hq_group_route_reaches_former_owner. Qed.
Print Assumptions C06_group_reregistered_route_reaches_old_owner_refuted.

(* a request overtaken by a Register / UnRegister between its routing decision and its round trip
   (HBeginRaced) reaches the owner of the route chosen when it was ROUTED -- the connection is dialled
   by that route config, never by a second look-up (repair 4027c37 of F-C06d) ... *)
Theorem C06_overtaken_request_reaches_routed_owner :
  forall ops st rid cc proto host path user dialed btw st' out,
  Forall hq_plain_op ops -> hp_run ops = Some st ->
  hp_step st (HBeginRaced rid cc proto host path user dialed btw) = Some (st', out) ->
  out = hp_spec_out rc_owner (rt_abs (hp_routes st)) host path user.
Proof. exact hq_overtaken_request_reaches_routed_owner. Qed.
Print Assumptions C06_overtaken_request_reaches_routed_owner.

(* ... so a request that matched no route when it was routed is refused and pools nothing, even if a
   route for its host is registered before its round trip (formerly refuted: it got a connection that was
   pooled under the bare host and served later unrouted requests) ... *)
Theorem C06_unrouted_request_never_dialled :
  forall ops st rid cc proto host path user dialed btw st' out,
  Forall hq_plain_op ops -> hp_run ops = Some st ->
  rs_best_match (rt_abs (hp_routes st)) (rt_canon_or_empty host) path user = None ->
  hp_step st (HBeginRaced rid cc proto host path user dialed btw) = Some (st', out) ->
  out = HNotFound /\ st' = hp_reg_step st btw.
Proof. exact hq_unrouted_request_never_dialled. Qed.
Print Assumptions C06_unrouted_request_never_dialled.

(* ... and an overtaken request never cross-wires the pool: every later request of every later history
   still reaches exactly the owner of its own most specific route (formerly refuted: GET /public was
   served by the backend of a route registered for /admin) *)
Theorem C06_no_cross_wiring_after_overtaken_request :
  forall ops rid0 cc0 proto0 host0 path0 user0 dialed0 btw later st rid cc proto host path user dialed st' out,
  Forall hq_plain_op ops -> Forall hq_plain_op later ->
  hp_run (ops ++ [HBeginRaced rid0 cc0 proto0 host0 path0 user0 dialed0 btw] ++ later) = Some st ->
  hp_step st (HBegin rid cc proto host path user dialed) = Some (st', out) ->
  out = hp_spec_out rc_owner (rt_abs (hp_routes st)) host path user.
Proof. exact hq_no_cross_wiring_after_overtaken_request. Qed.
Print Assumptions C06_no_cross_wiring_after_overtaken_request.

(* every stream of a cleartext HTTP/2 connection is routed on its own: the outcome of a request does
   not depend on the client connection or stream it arrives on *)
Theorem C06_h2c_streams_routed_individually : forall st rid cc proto cc' proto' host path user dialed,
  option_map snd (hp_step st (HBegin rid cc proto host path user dialed)) =
  option_map snd (hp_step st (HBegin rid cc' proto' host path user dialed)).
Proof. exact hq_h2c_streams_routed_individually. Qed.
Print Assumptions C06_h2c_streams_routed_individually.

(* ---------- non-vacuity ---------- *)
Definition ex_hist : list (rt_op Z) :=
  [RAdd (hx "2a2e6578616d706c652e636f6d") [] [] 1;            (* *.example.com            -> 1 *)
   RAdd (hx "412e4578616d706c652e434f4d") (hx "2f61") [] 2;   (* A.Example.COM  /a        -> 2 *)
   RAdd (hx "612e6578616d706c652e636f6d") (hx "2f6162") [] 3; (* a.example.com  /ab       -> 3 *)
   RAdd (hx "612e6578616d706c652e636f6d") (hx "2f61") (hx "7531") 4; (* a.example.com /a u1 -> 4 *)
   RAdd (hx "2a") [] [] 5;                                    (* *                        -> 5 *)
   RAdd (hx "612e6578616d706c652e636f6d") (hx "2f61") [] 6;   (* duplicate of 2: refused *)
   RAdd (hx "2a2e636f6d") [] [] 7].                           (* *.com: never selected for x.com *)

Example C06_example_selection :
  option_map rt_pay (rt_get_vhost (rt_run ex_hist) (hx "412e6578616d706c652e636f6d") (hx "2f6162") []) = Some 3 /\
  option_map rt_pay (rt_get_vhost (rt_run ex_hist) (hx "612e6578616d706c652e636f6d") (hx "2f6162") (hx "7531")) = Some 4 /\
  option_map rt_pay (rt_get_vhost (rt_run ex_hist) (hx "612e6578616d706c652e636f6d") (hx "2f78") []) = Some 1 /\
  option_map rt_pay (rt_get_vhost (rt_run ex_hist) (hx "782e636f6d") (hx "2f") []) = Some 5 /\
  option_map rt_pay (rt_get_vhost (rt_run (ex_hist ++ [RDel (hx "2a") [] []])) (hx "782e636f6d") (hx "2f") []) = None /\
  length (rt_abs (rt_run ex_hist)) = 6%nat /\
  rt_canonical_host (hx "4578616d706c652e434f4d2e3a38303830") = Some (hx "6578616d706c652e636f6d") /\
  rt_canonical_host (hx "5b3a3a315d3a3830") = Some (hx "3a3a31") /\
  rt_canonical_host (hx "613a623a63") = Some (hx "613a623a63") /\
  rt_canonical_host (hx "5b613a3830") = None.
Proof. vm_compute. repeat split. Qed.

(* the witness history of the repaired defect: register A, request (connection stays idle), a second
   request still in flight while A is unregistered and B registered on the same triple; the next
   requests reach B although the Transport is willing to reuse ([dialed = false] is refused by the
   model, i.e. no idle connection is eligible) *)
Example C06_example_reregistration :
  let h := hx "682e74657374" in
  let ops := [HRegister h [] [] 100; HBegin 1 0 0 h (hx "2f") [] true; HEnd 1; HBegin 2 0 0 h (hx "2f") [] false;
              HUnRegister h [] []; HRegister h [] [] 200; HEnd 2] in
  match hp_run ops with
  | Some st => option_map snd (hp_step st (HBegin 3 0 0 h (hx "2f") [] true)) = Some (HReached 200) /\
               hp_step st (HBegin 3 0 0 h (hx "2f") [] false) = None /\
               length (hp_idle st) = 1%nat
  | None => False
  end.
Proof. vm_compute. repeat split. Qed.

(* the former witnesses of F-C06d on the repaired model: GET /admin/x overtaken by Register /admin is
   served by the routed config (backend 1), the connection it leaves idle serves GET /public from
   backend 1; an unrouted request overtaken by a registration is refused and leaves nothing behind *)
Example C06_example_overtaken_requests :
  let h := hx "682e74657374" in
  (match hp_run hq_crosswire_history with
   | Some st => hp_step st (HBegin 2 0 0 h (hx "2f7075626c6963") [] false) =
                  Some (mkHp (hp_routes st) (hp_seq st) [] [(2, mkConn (KRoute h [] [] [] 1) 1)], HReached 1)
   | None => False
   end) /\
  (match hp_run hq_window_history with
   | Some st => hp_idle st = [] /\ hp_busy st = [] /\
                option_map snd (hp_step st (HBegin 2 0 0 h (hx "2f") [] false)) = Some HNotFound /\
                option_map snd (hp_step st (HBegin 2 0 0 h (hx "2f") [] true)) = Some HNotFound
   | None => False
   end).
Proof. vm_compute. repeat split. Qed.
