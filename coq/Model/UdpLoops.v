(* C03: two small models around the work connection of a udp / sudp tunnel.  Model only: no proofs here.

   (1) The reply goroutine of udp.ForwardUserConn as a thread: `for udpMsg := range readCh { GetContent;
       WriteToUDP }`.  It is the only consumer of readCh.  [rl_exits] = does a failed WriteToUDP leave the
       loop (the translator reports the kinds of loop-leaving statements in the body; today: none).
   (2) The message alphabet of the work connection.  server -> client: what the server-side sender writes;
       the client reader (client/proxy/udp.go, sudp.go) decodes with ReadMsgInto, which ignores the type
       byte: ANY message becomes a UDPPacket (a Ping or Pong, JSON {}, becomes the zero packet).
       client -> server: UDPPacket and Ping; the server reader switches on the type. *)
From FRP Require Export Model.Udp.

(** * (1) the reply loop *)

Inductive rl_out :=
| RLDelivered (a : Z)     (* WriteToUDP succeeded *)
| RLFailed (a : Z)        (* WriteToUDP failed for this destination; the reply is lost *)
| RLStuck (a : Z).        (* nobody consumes readCh any more: the reply is never delivered *)

(* replies in readCh order: (user, result the OS gives to WriteToUDP for that user's address) *)
Fixpoint rl_run (rl_exits : bool) (alive : bool) (l : list (Z * bool)) : list rl_out :=
  match l with
  | [] => []
  | (a, ok) :: r =>
      if alive then
        if ok then RLDelivered a :: rl_run rl_exits true r
        else RLFailed a :: rl_run rl_exits (negb rl_exits) r
      else RLStuck a :: rl_run rl_exits false r
  end.

(** * (2) the alphabet of the work connection *)

Inductive wmsg := WPacket (p : upacket) | WPing | WPong | WOther (t : byte).

Definition zero_packet : upacket := {| up_content := []; up_laddr := None; up_raddr := None |}.

(* client workConnReaderFn: msg.ReadMsgInto(conn, &udpMsg); readCh <- &udpMsg *)
Definition cli_blind_read (m : wmsg) : upacket :=
  match m with WPacket p => p | _ => zero_packet end.
(* a typed reader (msg.ReadMsg + type switch) would drop everything but packets *)
Definition cli_typed_read (m : wmsg) : option upacket :=
  match m with WPacket p => Some p | _ => None end.
(* server / visitor workConnReaderFn: msg.ReadMsg; switch: Ping -> continue, UDPPacket -> readCh, no default *)
Definition srv_read (m : wmsg) : option upacket :=
  match m with WPacket p => Some p | _ => None end.

Definition is_wpacket (m : wmsg) : bool := match m with WPacket _ => true | _ => false end.

(* the expressions the server-side code passes to msg.WriteMsg on the work connection are variables
   received from a `chan *msg.UDPPacket` *)
Definition writes_only_packets (args : list string) (elem : string) : bool :=
  forallb (fun a => String.eqb a "udpMsg" || String.eqb a "firstPacket") args && String.eqb elem "*msg.UDPPacket".
