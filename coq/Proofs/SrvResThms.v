(* C10 — the property-level theorems about Model/SrvRes.v, derived from the invariant of Proofs/SrvResProofs.v. *)
From Coq Require Import Lia ZifyBool ZifyNat.
From FRP Require Import Model.SrvRes Proofs.PortsProofs Proofs.SrvResBase Proofs.SrvResProofs.
Open Scope Z_scope.

Local Notation rget_ := (al_get slot_eqb).

(* reachable by a history without load-balancing groups, any oracle values *)
Definition reach (ranges : list prange) (maxp maxpool : Z) (s : sr) : Prop :=
  exists ops, Forall group_free_op ops /\ sr_run maxp maxpool ops (sr_new ranges) = Some s.

Lemma reach_wf : forall ranges maxp maxpool s, reach ranges maxp maxpool s -> WF (pm_allowed ranges) s.
Proof. intros ranges maxp maxpool s [ops [G R]]. eapply reachable_wf; eauto. Qed.

Lemma sr_run_fold : forall maxp maxpool ops s, sr_run maxp maxpool ops s = sr_fold maxp maxpool ops s.
Proof.
  intros maxp maxpool ops. unfold sr_fold. induction ops as [|o t IH]; intros s; simpl; [reflexivity|].
  destruct (sr_step maxp maxpool s o) as [[s1 out]|]; [apply IH|].
  clear. induction t as [|o' t IH]; simpl; [reflexivity|exact IH].
Qed.

(* --- no entry of any table without a live holder, on every history --- *)
Theorem every_entry_has_a_live_holder : forall ranges maxp maxpool s k ow,
  reach ranges maxp maxpool s -> In (k, ow) (sr_res s) ->
  exists n c ct o, ow = OPxy n /\ nm_get n (sr_names s) = Some c /\ ss_get c (sr_sess s) = Some ct /\
                   nm_get n (ss_pxys ct) = Some o /\ In k (po_slots o).
Proof.
  intros ranges maxp maxpool s k ow R H. pose proof (reach_wf _ _ _ _ R) as W.
  destruct (wf_held _ _ W _ _ H) as [n [o [E [[c [ct [S P]]] I]]]].
  exists n, c, ct, o. csplit; auto. apply (wf_n1 _ _ W _ _ _ _ S P).
Qed.

Theorem every_used_port_has_a_live_holder : forall ranges maxp maxpool s proto p n,
  reach ranges maxp maxpool s -> (proto = 0 \/ proto = 1) -> uget p (pm_used (get_pm proto s)) = Some n ->
  exists c ct o, nm_get n (sr_names s) = Some c /\ ss_get c (sr_sess s) = Some ct /\ nm_get n (ss_pxys ct) = Some o /\
                 In (SSock proto p) (po_slots o) /\ rget_ (SSock proto p) (sr_res s) = Some (OPxy n).
Proof.
  intros ranges maxp maxpool s proto p n R Hp U. pose proof (reach_wf _ _ _ _ R) as W.
  destruct (wf_port_holder _ _ _ _ _ W Hp U) as [o [[c [ct [S P]]] I]].
  exists c, ct, o. csplit; auto; [apply (wf_n1 _ _ W _ _ _ _ S P)|apply (wf_ptag _ _ W _ _ _ Hp U)].
Qed.

(* --- stop by CloseProxy --- *)
Theorem close_releases_footprint : forall ranges maxp maxpool s c n s' ct,
  reach ranges maxp maxpool s -> ss_get c (sr_sess s) = Some ct -> nm_get n (ss_pxys ct) <> None ->
  y_close maxp s c n = Some s' -> fp s' n = [].
Proof.
  intros ranges maxp maxpool s c n s' ct R SC PC H. pose proof (reach_wf _ _ _ _ R) as W.
  pose proof (y_close_wf _ _ _ _ _ _ W H) as W'.
  apply (fp_empty_of_unregistered _ _ _ W').
  unfold y_close in H. rewrite SC in H. destruct (nm_get n (ss_pxys ct)) as [o|] eqn:P; [|congruence].
  injection H as <-. unsr.
  assert (L : live s n o) by (exists c, ct; auto). destruct (wf_obj _ _ W _ _ L) as [-> _].
  apply nm_get_del_eq.
Qed.

(* --- stop by the end of the session (drop, replacement, heartbeat timeout) --- *)
Theorem session_end_releases_all : forall ranges maxp maxpool s c s' k ct,
  reach ranges maxp maxpool s -> ss_get c (sr_sess s) = Some ct -> y_end s c = Some (s', k) ->
  ss_get c (sr_sess s') = None /\ k = ss_pool ct /\
  (forall n, nm_get n (ss_pxys ct) <> None -> nm_get n (sr_names s') = None /\ fp s' n = []).
Proof.
  intros ranges maxp maxpool s c s' k ct R SC H. pose proof (reach_wf _ _ _ _ R) as W.
  pose proof (y_end_wf _ _ _ _ _ W H) as W'.
  unfold y_end in H. rewrite SC in H. injection H as <- <-.
  assert (AG : agree s s) by (unfold agree; csplit; reflexivity).
  destruct (close_all_spec _ c (ss_pxys ct) s s ct W AG SC eq_refl) as [s2 [ct2 [W2 [S2 [P2 [PO [AG2 [D2 SS]]]]]]]].
  split; [unsr; apply (al_get_del_eq Z.eqb_spec)|]. split; [reflexivity|].
  intros n PN.
  assert (NN : nm_get n (sr_names (set_sess (ss_del c (sr_sess (close_all s (ss_pxys ct)))) (close_all s (ss_pxys ct)))) = None).
  { destruct (nm_get n (sr_names (set_sess (ss_del c (sr_sess (close_all s (ss_pxys ct)))) (close_all s (ss_pxys ct))))) as [c'|] eqn:E; [|reflexivity].
    exfalso. destruct (wf_n2 _ _ W' _ _ E) as [ct' [o' [S' P']]]. unsr. rewrite SS in S'.
    destruct (Z.eq_dec c' c) as [->|Nc].
    - unfold ss_get, ss_del in S'. rewrite (al_get_del_eq Z.eqb_spec) in S'. discriminate.
    - unfold ss_get, ss_del in S'. rewrite (al_get_del_neq Z.eqb_spec) in S' by assumption.
      pose proof (wf_n1 _ _ W _ _ _ _ S' P') as N1.
      destruct (nm_get n (ss_pxys ct)) as [o|] eqn:P; [|congruence].
      pose proof (wf_n1 _ _ W _ _ _ _ SC P) as N2. congruence. }
  split; [exact NN|]. apply (fp_empty_of_unregistered _ _ _ W' NN).
Qed.

(* --- a registration that fails, at whatever step --- *)
Lemma sess_with_id : forall ct, sess_with ct (ss_pxys ct) (ss_used ct) = ct.
Proof. intros []; reflexivity. Qed.

Theorem failed_registration_restores : forall ranges maxp maxpool s c q s' e,
  reach ranges maxp maxpool s -> group_free_req q -> y_register maxp s c q = Some (s', RErr e) ->
  sr_res s' = sr_res s /\ sr_grp s' = sr_grp s /\ sr_names s' = sr_names s /\ sr_squat s' = sr_squat s /\
  pm_eqv (sr_tcp s) (sr_tcp s') /\ pm_eqv (sr_udp s) (sr_udp s') /\
  (forall c0, ss_get c0 (sr_sess s') = ss_get c0 (sr_sess s)).
Proof.
  intros ranges maxp maxpool s c q s' e R G H. pose proof (reach_wf _ _ _ _ R) as W.
  unfold y_register in H.
  destruct (ss_get c (sr_sess s)) as [ct|] eqn:SC; [|discriminate].
  assert (BK : (if 0 <? maxp then (if 0 <? maxp then ss_used ct + weight (q_type q) else ss_used ct) - weight (q_type q)
                else (if 0 <? maxp then ss_used ct + weight (q_type q) else ss_used ct)) = ss_used ct).
  { destruct (0 <? maxp); lia. }
  assert (SS : forall l c0, @ss_get sess c l = Some ct -> ss_get c0 (ss_set c ct l) = ss_get c0 l).
  { intros l c0 E. destruct (Z.eq_dec c0 c) as [->|N]; [rewrite ss_get_set_eq; auto|apply ss_get_set_neq; assumption]. }
  destruct ((0 <? maxp) && (maxp <? ss_used ct + weight (q_type q))).
  { injection H as <- _. csplit; auto; apply pm_eqv_refl. }
  destruct (nm_get (q_name q) (sr_names s)) as [c0|] eqn:NN.
  { injection H as <- _. unsr. rewrite BK, sess_with_id. csplit; auto; try apply pm_eqv_refl; try (intros; apply SS; assumption). }
  destruct (px_run s q) as [[s1 [o|e1]]|] eqn:PR; [| |discriminate].
  - destruct (px_run_spec _ s q s1 _ G (wf_tcp _ _ W) (wf_udp _ _ W) (allowed_no0 ranges) PR)
      as [[S1 [S2 [S3 S4]]] [Pt [Pu [OK [OT [ND [AB [ER [PE _]]]]]]]]].
    destruct (q_addok q); [discriminate|]. injection H as <- _.
    destruct (px_close_spec s1 (q_name q) o OK) as [CR [[C1 [C2 [C3 C4]]] [CT CU]]].
    unsr. rewrite BK, sess_with_id.
    assert (RR : sr_res (px_close s1 o) = sr_res s).
    { rewrite CR, ER. apply res_del_all_claim.
      + intros k Hk. apply AB. apply in_rev. assumption.
      + apply NoDup_rev. assumption.
      + intros k Hk. left. apply -> in_rev. assumption.
      + intros k Hk. apply in_rev. assumption. }
    csplit; try congruence.
    + rewrite CT. unfold pm_effect in PE. destruct (po_type o); cbn [is_tcp];
        try (destruct PE as [E1 E2]; rewrite E1; apply pm_eqv_refl);
        try (destruct PE as [E1 [E2 [E3 E4]]]; rewrite ?E3; try apply pm_eqv_refl).
      rewrite E1. apply (take_release_eqv (pm_allowed ranges)); [apply (wf_tcp _ _ W)|assumption].
    + rewrite CU. unfold pm_effect in PE. destruct (po_type o); cbn [is_udp];
        try (destruct PE as [E1 E2]; rewrite E2; apply pm_eqv_refl);
        try (destruct PE as [E1 [E2 [E3 E4]]]; rewrite ?E3; try apply pm_eqv_refl).
      rewrite E1. apply (take_release_eqv (pm_allowed ranges)); [apply (wf_udp _ _ W)|assumption].
    + intros c0. rewrite C4, S4. apply SS. assumption.
  - destruct (px_run_spec _ s q s1 _ G (wf_tcp _ _ W) (wf_udp _ _ W) (allowed_no0 ranges) PR)
      as [[S1 [S2 [S3 S4]]] [Pt [Pu [ER [Et Eu]]]]].
    injection H as <- _. unsr. rewrite BK, sess_with_id. csplit; auto.
    intros c0. rewrite S4. apply SS. assumption.
Qed.

Theorem failed_registration_releases_footprint : forall ranges maxp maxpool s c q s' e,
  reach ranges maxp maxpool s -> group_free_req q -> y_register maxp s c q = Some (s', RErr e) ->
  nm_get (q_name q) (sr_names s) = None -> fp s' (q_name q) = [].
Proof.
  intros ranges maxp maxpool s c q s' e R G H NN. pose proof (reach_wf _ _ _ _ R) as W.
  pose proof (y_register_wf _ _ _ _ _ _ _ W (allowed_no0 ranges) G H) as W'.
  apply (fp_empty_of_unregistered _ _ _ W').
  destruct (failed_registration_restores _ _ _ _ _ _ _ _ R G H) as [_ [_ [E _]]]. rewrite E. assumption.
Qed.

(* --- when nothing is registered, every table is empty: cycles cannot accumulate anything --- *)
Theorem quiescent_state_is_empty : forall ranges maxp maxpool s,
  reach ranges maxp maxpool s -> sr_names s = [] ->
  sr_res s = [] /\ pm_used (sr_tcp s) = [] /\ pm_used (sr_udp s) = [] /\ sr_grp s = [] /\
  (forall c ct, ss_get c (sr_sess s) = Some ct -> ss_pxys ct = []).
Proof.
  intros ranges maxp maxpool s R NN. pose proof (reach_wf _ _ _ _ R) as W.
  assert (NL : forall n o, ~ live s n o).
  { intros n o [c [ct [S P]]]. pose proof (wf_n1 _ _ W _ _ _ _ S P) as E. rewrite NN in E. discriminate. }
  assert (RE : sr_res s = []).
  { destruct (sr_res s) as [|[k ow] r] eqn:E; [reflexivity|]. exfalso.
    destruct (wf_held _ _ W k ow) as [n [o [_ [L _]]]]; [rewrite E; simpl; auto|]. apply (NL _ _ L). }
  assert (PU : forall proto, (proto = 0 \/ proto = 1) -> pm_used (get_pm proto s) = []).
  { intros proto Hp. destruct (pm_used (get_pm proto s)) as [|[p n] r] eqn:E; [reflexivity|]. exfalso.
    assert (U : uget p (pm_used (get_pm proto s)) = Some n) by (rewrite E; simpl; rewrite Z.eqb_refl; reflexivity).
    pose proof (wf_ptag _ _ W _ _ _ Hp U) as X. rewrite RE in X. discriminate. }
  csplit; auto.
  - apply (PU 0). auto.
  - apply (PU 1). auto.
  - apply (wf_nogrp _ _ W).
  - intros c ct S. destruct (ss_pxys ct) as [|[n o] r] eqn:E; [reflexivity|]. exfalso.
    apply (NL n o). exists c, ct. split; [assumption|]. rewrite E. unfold nm_get. simpl. rewrite String.eqb_refl. reflexivity.
Qed.

Theorem quiescent_sizes : forall ranges maxp maxpool s,
  reach ranges maxp maxpool s -> sr_names s = [] ->
  firstn 13 (sizes s) = [0; 0; 0; 0; 0; 0; 0; 0; 0; 0; 0; 0; 0].
Proof.
  intros ranges maxp maxpool s R NN.
  destruct (quiescent_state_is_empty _ _ _ _ R NN) as [E1 [E2 [E3 [E4 E5]]]].
  unfold sizes. rewrite E1, E2, E3, E4, NN. reflexivity.
Qed.

(* --- register, then CloseProxy: every table is what it was before the registration --- *)
Lemma nm_del_set_absent : forall V n (v : V) l, nm_get n l = None -> nm_del n (nm_set n v l) = l.
Proof.
  intros V n v l H. unfold nm_del, nm_set, al_set. simpl. rewrite String.eqb_refl.
  rewrite (al_del_absent String.eqb_spec); apply (al_del_absent String.eqb_spec) || idtac; try assumption.
  rewrite (al_del_absent String.eqb_spec) by assumption. assumption.
Qed.

Theorem register_then_close_restores : forall ranges maxp maxpool s c q s1 real s2,
  reach ranges maxp maxpool s -> group_free_req q ->
  y_register maxp s c q = Some (s1, ROk real) -> y_close maxp s1 c (q_name q) = Some s2 ->
  sr_res s2 = sr_res s /\ sr_grp s2 = sr_grp s /\ sr_names s2 = sr_names s /\ sr_squat s2 = sr_squat s /\
  pm_eqv (sr_tcp s) (sr_tcp s2) /\ pm_eqv (sr_udp s) (sr_udp s2) /\
  (forall c0, ss_get c0 (sr_sess s2) = ss_get c0 (sr_sess s)) /\ fp s2 (q_name q) = [].
Proof.
  intros ranges maxp maxpool s c q s1 real s2 R G H1 H2. pose proof (reach_wf _ _ _ _ R) as W.
  pose proof (y_register_wf _ _ _ _ _ _ _ W (allowed_no0 ranges) G H1) as W1.
  pose proof (y_close_wf _ _ _ _ _ _ W1 H2) as W2.
  unfold y_register in H1.
  destruct (ss_get c (sr_sess s)) as [ct|] eqn:SC; [|discriminate].
  destruct ((0 <? maxp) && (maxp <? ss_used ct + weight (q_type q))); [discriminate|].
  destruct (nm_get (q_name q) (sr_names s)) as [c0|] eqn:NN; [discriminate|].
  destruct (px_run s q) as [[s1' [o|e1]]|] eqn:PR; [| |discriminate]; [|discriminate].
  destruct (px_run_spec _ s q s1' _ G (wf_tcp _ _ W) (wf_udp _ _ W) (allowed_no0 ranges) PR)
    as [[S1 [S2 [S3 S4]]] [Pt [Pu [OK [OT [ND [AB [ER [PE _]]]]]]]]].
  destruct (q_addok q); [|discriminate]. injection H1 as <- _.
  pose proof OK as [ON [OG [OW SK]]].
  assert (PN : nm_get (q_name q) (ss_pxys ct) = None).
  { destruct (nm_get (q_name q) (ss_pxys ct)) as [o'|] eqn:P; [|reflexivity].
    pose proof (wf_n1 _ _ W _ _ _ _ SC P). congruence. }
  unfold y_close in H2. unsr. rewrite ss_get_set_eq in H2. cbn [ss_pxys sess_with] in H2.
  rewrite nm_get_set_eq in H2. injection H2 as <-.
  match goal with |- context [px_close ?st o] => set (sx := st) end.
  destruct (px_close_spec sx (q_name q) o OK) as [CR [[C1 [C2 [C3 C4]]] [CT CU]]].
  assert (RR : sr_res (px_close sx o) = sr_res s).
  { rewrite CR. unfold sx. unsr. rewrite ER. apply res_del_all_claim.
    + intros k Hk. apply AB. apply in_rev. assumption.
    + apply NoDup_rev. assumption.
    + intros k Hk. left. apply -> in_rev. assumption.
    + intros k Hk. apply in_rev. assumption. }
  unsr. csplit.
  - exact RR.
  - rewrite C2. unfold sx. unsr. assumption.
  - rewrite C3, ON. unfold sx. unsr. rewrite S3. apply nm_del_set_absent. assumption.
  - rewrite C1. unfold sx. unsr. assumption.
  - rewrite CT. unfold sx. unsr. unfold pm_effect in PE. destruct (po_type o); cbn [is_tcp];
      try (destruct PE as [E1 E2]; rewrite E1; apply pm_eqv_refl);
      try (destruct PE as [E1 [E2 [E3 E4]]]; rewrite ?E3; try apply pm_eqv_refl).
    rewrite E1. apply (take_release_eqv (pm_allowed ranges)); [apply (wf_tcp _ _ W)|assumption].
  - rewrite CU. unfold sx. unsr. unfold pm_effect in PE. destruct (po_type o); cbn [is_udp];
      try (destruct PE as [E1 E2]; rewrite E2; apply pm_eqv_refl);
      try (destruct PE as [E1 [E2 [E3 E4]]]; rewrite ?E3; try apply pm_eqv_refl).
    rewrite E1. apply (take_release_eqv (pm_allowed ranges)); [apply (wf_udp _ _ W)|assumption].
  - intros c1. rewrite C4. unfold sx. unsr. rewrite S4.
    assert (DD : nm_del (q_name q) (ss_pxys ct) = ss_pxys ct) by (apply (al_del_absent String.eqb_spec); exact PN).
    rewrite String.eqb_refl. change (al_del String.eqb (q_name q) (ss_pxys ct)) with (nm_del (q_name q) (ss_pxys ct)). rewrite DD, DD.
    assert (EU : (if 0 <? maxp then (if 0 <? maxp then ss_used ct + weight (q_type q) else ss_used ct) - po_w o
                  else (if 0 <? maxp then ss_used ct + weight (q_type q) else ss_used ct)) = ss_used ct).
    { rewrite OW, OT. destruct (0 <? maxp); lia. }
    cbn [ss_used sess_with]. rewrite EU.
    destruct (Z.eq_dec c1 c) as [->|N].
    + rewrite ss_get_set_eq. rewrite SC. f_equal. destruct ct; reflexivity.
    + rewrite ss_get_set_neq by assumption. rewrite ss_get_set_neq by assumption. reflexivity.
  - apply (fp_empty_of_unregistered _ _ _ W2). cbn [sr_names]. rewrite ON. apply nm_get_del_eq.
Qed.

(* --- others untouched --- *)
(* in every reachable state a registered proxy still has every resource its object recorded, under its name *)
Theorem live_proxy_keeps_its_resources : forall ranges maxp maxpool s c ct m o k,
  reach ranges maxp maxpool s -> ss_get c (sr_sess s) = Some ct -> nm_get m (ss_pxys ct) = Some o -> In k (po_slots o) ->
  rget_ k (sr_res s) = Some (OPxy m) /\ nm_get m (sr_names s) = Some c.
Proof.
  intros ranges maxp maxpool s c ct m o k R S P I. pose proof (reach_wf _ _ _ _ R) as W.
  split; [apply (wf_pres _ _ W m o k); [exists c, ct; auto|assumption]|apply (wf_n1 _ _ W _ _ _ _ S P)].
Qed.

(* stopping p (CloseProxy), ending another session, or a registration (whatever its outcome) leaves every
   other registered proxy registered with the same object, hence (previous theorem) with all its resources *)
Theorem others_untouched_by_close : forall ranges maxp maxpool s c n s' c' ct' m o,
  reach ranges maxp maxpool s -> y_close maxp s c n = Some s' -> m <> n ->
  ss_get c' (sr_sess s) = Some ct' -> nm_get m (ss_pxys ct') = Some o ->
  (exists ct2, ss_get c' (sr_sess s') = Some ct2 /\ nm_get m (ss_pxys ct2) = Some o) /\
  (forall k, In k (po_slots o) -> rget_ k (sr_res s') = Some (OPxy m)).
Proof.
  intros ranges maxp maxpool s c n s' c' ct' m o R H N S P. pose proof (reach_wf _ _ _ _ R) as W.
  pose proof (y_close_wf _ _ _ _ _ _ W H) as W'.
  assert (L : exists ct2, ss_get c' (sr_sess s') = Some ct2 /\ nm_get m (ss_pxys ct2) = Some o).
  { unfold y_close in H. destruct (ss_get c (sr_sess s)) as [ct|] eqn:SC; [|discriminate].
    destruct (nm_get n (ss_pxys ct)) as [o0|] eqn:PC; [|injection H as <-; eauto].
    injection H as <-. unsr.
    assert (OK : obj_ok n o0) by (apply (wf_obj _ _ W); exists c, ct; auto).
    destruct (px_close_spec s n o0 OK) as [_ [[_ [_ [_ S4]]] _]]. rewrite S4.
    destruct (Z.eq_dec c' c) as [->|Nc].
    - assert (ct' = ct) by congruence. subst ct'. eexists. rewrite ss_get_set_eq. split; [reflexivity|].
      cbn [ss_pxys sess_with]. rewrite nm_get_del_neq by assumption. assumption.
    - exists ct'. rewrite ss_get_set_neq by assumption. auto. }
  split; [exact L|]. destruct L as [ct2 [S2 P2]]. intros k I. apply (wf_pres _ _ W' m o k); [exists c', ct2; auto|assumption].
Qed.

Theorem others_untouched_by_session_end : forall ranges maxp maxpool s c s' k0 c' ct' m o,
  reach ranges maxp maxpool s -> y_end s c = Some (s', k0) -> c' <> c ->
  ss_get c' (sr_sess s) = Some ct' -> nm_get m (ss_pxys ct') = Some o ->
  ss_get c' (sr_sess s') = Some ct' /\ (forall k, In k (po_slots o) -> rget_ k (sr_res s') = Some (OPxy m)).
Proof.
  intros ranges maxp maxpool s c s' k0 c' ct' m o R H N S P. pose proof (reach_wf _ _ _ _ R) as W.
  pose proof (y_end_wf _ _ _ _ _ W H) as W'.
  assert (L : ss_get c' (sr_sess s') = Some ct').
  { unfold y_end in H. destruct (ss_get c (sr_sess s)) as [ct|] eqn:SC; [|discriminate]. injection H as <- _.
    assert (AG : agree s s) by (unfold agree; csplit; reflexivity).
    destruct (close_all_spec _ c (ss_pxys ct) s s ct W AG SC eq_refl) as [s2 [ct2 [_ [_ [_ [_ [_ [_ SS]]]]]]]].
    unsr. rewrite SS. unfold ss_get, ss_del. rewrite (al_get_del_neq Z.eqb_spec) by assumption. exact S. }
  split; [exact L|]. intros k I. apply (wf_pres _ _ W' m o k); [exists c', ct'; auto|assumption].
Qed.

Theorem others_untouched_by_registration : forall ranges maxp maxpool s c q s' r c' ct' m o,
  reach ranges maxp maxpool s -> group_free_req q -> y_register maxp s c q = Some (s', r) ->
  ss_get c' (sr_sess s) = Some ct' -> nm_get m (ss_pxys ct') = Some o ->
  (exists ct2, ss_get c' (sr_sess s') = Some ct2 /\ nm_get m (ss_pxys ct2) = Some o) /\
  (forall k, In k (po_slots o) -> rget_ k (sr_res s') = Some (OPxy m)).
Proof.
  intros ranges maxp maxpool s c q s' r c' ct' m o R G H S P. pose proof (reach_wf _ _ _ _ R) as W.
  pose proof (y_register_wf _ _ _ _ _ _ _ W (allowed_no0 ranges) G H) as W'.
  assert (L : exists ct2, ss_get c' (sr_sess s') = Some ct2 /\ nm_get m (ss_pxys ct2) = Some o).
  { destruct r as [real|e].
    - (* success: the new name was free, so it is not m *)
      unfold y_register in H. destruct (ss_get c (sr_sess s)) as [ct|] eqn:SC; [|discriminate].
      destruct ((0 <? maxp) && (maxp <? ss_used ct + weight (q_type q))); [discriminate|].
      destruct (nm_get (q_name q) (sr_names s)) as [c0|] eqn:NN; [discriminate|].
      destruct (px_run s q) as [[s1 [o1|e1]]|] eqn:PR; [| |discriminate]; [|discriminate].
      destruct (px_run_spec _ s q s1 _ G (wf_tcp _ _ W) (wf_udp _ _ W) (allowed_no0 ranges) PR) as [[_ [_ [_ S4]]] _].
      destruct (q_addok q); [|discriminate]. injection H as <- _. unsr. rewrite S4.
      assert (Nm : m <> q_name q). { intros ->. pose proof (wf_n1 _ _ W _ _ _ _ S P). congruence. }
      destruct (Z.eq_dec c' c) as [->|Nc].
      + assert (ct' = ct) by congruence. subst ct'. eexists. rewrite ss_get_set_eq. split; [reflexivity|].
        cbn [ss_pxys sess_with]. rewrite nm_get_set_neq by assumption. assumption.
      + exists ct'. rewrite ss_get_set_neq by assumption. auto.
    - destruct (failed_registration_restores _ _ _ _ _ _ _ _ R G H) as [_ [_ [_ [_ [_ [_ E]]]]]].
      exists ct'. rewrite E. auto. }
  split; [exact L|]. destruct L as [ct2 [S2 P2]]. intros k I. apply (wf_pres _ _ W' m o k); [exists c', ct2; auto|assumption].
Qed.

(* --- the identical registration after the stop succeeds --- *)
Definition core_eqv (a b : sr) : Prop :=
  sr_res a = sr_res b /\ sr_grp a = sr_grp b /\ sr_names a = sr_names b /\ sr_squat a = sr_squat b /\
  pm_eqv (sr_tcp a) (sr_tcp b) /\ pm_eqv (sr_udp a) (sr_udp b) /\
  (forall c0, ss_get c0 (sr_sess a) = ss_get c0 (sr_sess b)).

Lemma routes_run_same : forall t q, q_group q = ""%string -> forall ks done a b sa all,
  sr_res a = sr_res b -> routes_run t q ks done a = (sa, inl all) -> exists sb, routes_run t q ks done b = (sb, inl all).
Proof.
  intros t q G ks. induction ks as [|rk ks IH]; intros done a b sa all E H.
  - simpl in *. injection H as _ <-. eauto.
  - cbn [routes_run] in *. rewrite G in *. cbn [String.eqb] in *. unfold res_add in *. rewrite <- E.
    destruct (res_get (SRoute (rkind_of t) rk) (sr_res a)); [discriminate|].
    eapply IH; [|exact H]. unsr. rewrite E. reflexivity.
Qed.

Lemma acquire_listen_same : forall proto a b n port ch o sa rp,
  (proto = 0 \/ proto = 1) -> port <> 0 -> sr_res a = sr_res b -> sr_squat a = sr_squat b ->
  pm_eqv (get_pm proto a) (get_pm proto b) ->
  acquire_listen proto a n port ch true o = Some (sa, inl rp) ->
  exists sb, acquire_listen proto b n port ch true o = Some (sb, inl rp).
Proof.
  intros proto a b n port ch o sa rp Hp Np ER EQ [EU EF] H. unfold acquire_listen in *.
  assert (PR : sr_probe b proto = sr_probe a proto) by (unfold sr_probe; rewrite ER, EQ; reflexivity).
  rewrite PR. unfold pm_acquire in *. destruct (Z.eqb_spec port 0) as [|_]; [contradiction|].
  destruct (zmem port (pm_free (get_pm proto a))) eqn:ZA.
  - assert (ZB : zmem port (pm_free (get_pm proto b)) = true) by (apply zmem_In; apply EF; apply zmem_In; assumption).
    rewrite ZB. destruct (sr_probe a proto port) eqn:PP; [|discriminate].
    unfold res_add in *.
    assert (RA : res_get (SSock proto port) (sr_res (set_pm proto (pm_take (get_pm proto a) n port) a)) = res_get (SSock proto port) (sr_res a))
      by (destruct Hp as [-> | ->]; reflexivity).
    assert (RB : res_get (SSock proto port) (sr_res (set_pm proto (pm_take (get_pm proto b) n port) b)) = res_get (SSock proto port) (sr_res a))
      by (rewrite ER; destruct Hp as [-> | ->]; reflexivity).
    rewrite RA in H. rewrite RB. destruct (res_get (SSock proto port) (sr_res a)); [discriminate|].
    injection H as _ <-. eauto.
  - destruct (uget port (pm_used (get_pm proto a))); discriminate.
Qed.

Lemma px_run_same : forall a b q sa o,
  q_group q = ""%string -> (weight (q_type q) = 1 -> q_port q <> 0 /\ q_lok q = true) -> core_eqv a b ->
  px_run a q = Some (sa, inl o) -> exists sb o', px_run b q = Some (sb, inl o').
Proof.
  intros a b q sa o G HP [ER [EG [EN [EQ [ET [EU ES]]]]]] H. unfold px_run in *.
  destruct (q_type q) eqn:T; cbn [weight] in HP.
  - destruct (HP eq_refl) as [Np LK]. rewrite G in *. cbn [String.eqb] in *. rewrite LK in *.
    destruct (acquire_listen 0 a (q_name q) (q_port q) (q_choice q) true (OPxy (q_name q))) as [[s' [rp|e]]|] eqn:E; try discriminate.
    destruct (acquire_listen_same 0 a b _ _ _ _ _ _ (or_introl eq_refl) Np ER EQ ET E) as [sb E']. rewrite E'. eauto.
  - destruct (HP eq_refl) as [Np LK]. rewrite LK in *.
    destruct (acquire_listen 1 a (q_name q) (q_port q) (q_choice q) true (OPxy (q_name q))) as [[s' [rp|e]]|] eqn:E; try discriminate.
    destruct (acquire_listen_same 1 a b _ _ _ _ _ _ (or_intror eq_refl) Np ER EQ EU E) as [sb E']. rewrite E'. eauto.
  - destruct (routes_run THttp q (http_rkeys q) [] a) as [s' [all|e]] eqn:E; [|discriminate].
    destruct (routes_run_same THttp q G _ _ a b _ _ ER E) as [sb E']. rewrite E'. eauto.
  - match type of H with context [routes_run THttps ?q' _ _ _] => set (qq := q') in * end.
    destruct (routes_run THttps qq (https_rkeys q) [] a) as [s' [all|e]] eqn:E; [|discriminate].
    destruct (routes_run_same THttps qq eq_refl _ _ a b _ _ ER E) as [sb E']. rewrite E'. eauto.
  - destruct (routes_run TTcpmux q (mux_rkeys q) [] a) as [s' [all|e]] eqn:E; [|discriminate].
    destruct (routes_run_same TTcpmux q G _ _ a b _ _ ER E) as [sb E']. rewrite E'. eauto.
  - unfold res_add in *. rewrite <- ER. destruct (res_get (SVis (q_name q)) (sr_res a)); [discriminate|eauto].
  - unfold res_add in *. rewrite <- ER. destruct (res_get (SVis (q_name q)) (sr_res a)); [discriminate|eauto].
  - unfold res_add in *. rewrite <- ER. destruct (res_get (SNat (q_name q)) (sr_res a)); [discriminate|eauto].
Qed.

Lemma y_register_same : forall maxp a b c q sa real,
  q_group q = ""%string -> (weight (q_type q) = 1 -> q_port q <> 0 /\ q_lok q = true) -> core_eqv a b ->
  y_register maxp a c q = Some (sa, ROk real) -> exists sb real', y_register maxp b c q = Some (sb, ROk real').
Proof.
  intros maxp a b c q sa real G HP CE H. pose proof CE as [ER [EG [EN [EQ [ET [EU ES]]]]]].
  unfold y_register in *. rewrite <- ES, <- EN.
  destruct (ss_get c (sr_sess a)) as [ct|]; [|discriminate].
  destruct ((0 <? maxp) && (maxp <? ss_used ct + weight (q_type q))); [discriminate|].
  destruct (nm_get (q_name q) (sr_names a)); [discriminate|].
  destruct (px_run a q) as [[s1 [o|e]]|] eqn:PR; try discriminate.
  destruct (px_run_same a b q s1 o G HP CE PR) as [sb [o' PR']]. rewrite PR'.
  destruct (q_addok q); [eauto|discriminate].
Qed.

Lemma core_eqv_sym : forall a b, core_eqv a b -> core_eqv b a.
Proof.
  intros a b [E1 [E2 [E3 [E4 [E5 [E6 E7]]]]]]. unfold core_eqv. csplit; auto using pm_eqv_sym.
Qed.

(* register p, stop it by CloseProxy, submit the identical request again on the same session: it succeeds
   (explicit remote port or a port-less type; the oracles of the request — Listen succeeds, nobody races
   for the name — are the ones of the first registration) *)
Theorem reregister_after_close_succeeds : forall ranges maxp maxpool s c q s1 real s2,
  reach ranges maxp maxpool s -> group_free_req q -> (weight (q_type q) = 1 -> q_port q <> 0) ->
  y_register maxp s c q = Some (s1, ROk real) -> y_close maxp s1 c (q_name q) = Some s2 ->
  exists s3 real', y_register maxp s2 c q = Some (s3, ROk real').
Proof.
  intros ranges maxp maxpool s c q s1 real s2 R G HP H1 H2.
  destruct (register_then_close_restores _ _ _ _ _ _ _ _ _ R G H1 H2) as [E1 [E2 [E3 [E4 [E5 [E6 [E7 _]]]]]]].
  assert (CE : core_eqv s s2) by (unfold core_eqv; csplit; auto).
  assert (LK : weight (q_type q) = 1 -> q_port q <> 0 /\ q_lok q = true).
  { intros Wt. split; [auto|]. pose proof (reach_wf _ _ _ _ R) as W.
    unfold y_register in H1. destruct (ss_get c (sr_sess s)); [|discriminate].
    destruct ((0 <? maxp) && _); [discriminate|]. destruct (nm_get (q_name q) (sr_names s)); [discriminate|].
    destruct (px_run s q) as [[s1' [o|e1]]|] eqn:PR; try discriminate.
    destruct (px_run_spec _ s q s1' _ G (wf_tcp _ _ W) (wf_udp _ _ W) (allowed_no0 ranges) PR) as [_ [_ [_ [_ [_ [_ [_ [_ [_ [[L|L] _]]]]]]]]]]; [assumption|lia]. }
  eapply y_register_same; eauto.
Qed.

(* the same on a NEW session after the old one ended: the failed-or-not history does not matter, only that
   the name is free again and the state is reachable; here: the session ends, a fresh session logs in *)
Theorem failed_registration_can_be_retried : forall ranges maxp maxpool s c q s' e sa real,
  reach ranges maxp maxpool s -> group_free_req q -> (weight (q_type q) = 1 -> q_port q <> 0 /\ q_lok q = true) ->
  y_register maxp s c q = Some (s', RErr e) ->
  (* whatever made it fail is an oracle or a conflict; if the same request would have succeeded from s
     (e.g. with the oracle q_addok flipped), it succeeds from s' as well: the failure left nothing behind *)
  forall q', q_group q' = ""%string -> (weight (q_type q') = 1 -> q_port q' <> 0 /\ q_lok q' = true) ->
  y_register maxp s c q' = Some (sa, ROk real) -> exists sb real', y_register maxp s' c q' = Some (sb, ROk real').
Proof.
  intros ranges maxp maxpool s c q s' e sa real R G HP H q' G' HP' H'.
  destruct (failed_registration_restores _ _ _ _ _ _ _ _ R G H) as [E1 [E2 [E3 [E4 [E5 [E6 E7]]]]]].
  assert (CE : core_eqv s s') by (unfold core_eqv; csplit; auto).
  eapply y_register_same; eauto.
Qed.

(* --- quota: the counter of a session equals the weight of the proxies it holds, on every history --- *)
Definition wsum (l : list (string * pobj)) : Z := fold_right (fun e acc => po_w (snd e) + acc) 0 l.

Lemma wsum_del : forall n o l, NoDup (map fst l) -> nm_get n l = Some o -> wsum (nm_del n l) = wsum l - po_w o.
Proof.
  induction l as [|[m x] r IH]; simpl; intros ND H; [discriminate|].
  unfold nm_get, nm_del in *. simpl in *. inversion ND as [|? ? Hn Hr]; subst.
  destruct (String.eqb_spec n m) as [->|N].
  - injection H as ->. rewrite (al_del_absent String.eqb_spec); [lia|]. apply (al_notin_get_none String.eqb_spec). assumption.
  - simpl. rewrite IH by assumption. lia.
Qed.

Lemma wsum_set : forall n o l, nm_get n l = None -> wsum (nm_set n o l) = po_w o + wsum l.
Proof.
  intros n o l H. unfold nm_set, al_set. simpl. change (al_del String.eqb n l) with (nm_del n l).
  unfold nm_del. rewrite (al_del_absent String.eqb_spec) by assumption. reflexivity.
Qed.

Definition QI (maxp : Z) (s : sr) : Prop :=
  0 < maxp -> forall c ct, ss_get c (sr_sess s) = Some ct -> ss_used ct = wsum (ss_pxys ct).

Lemma qi_step : forall A maxp maxpool s o s' out,
  WF A s -> ~ In 0 A -> group_free_op o -> QI maxp s -> sr_step maxp maxpool s o = Some (s', out) -> QI maxp s'.
Proof.
  intros A maxp maxpool s o s' out W H0 G Q H MP.
  assert (LT : (0 <? maxp) = true) by lia.
  destruct o as [c pool|c q|c n|c why|c|proto port|proto port]; cbn [sr_step] in H.
  - destruct (ss_get c (sr_sess s)) eqn:SC; [discriminate|]. injection H as <- _. unsr. intros c0 ct0 S0.
    destruct (Z.eq_dec c0 c) as [->|N]; [rewrite ss_get_set_eq in S0; injection S0 as <-; reflexivity|].
    rewrite ss_get_set_neq in S0 by assumption. apply (Q MP _ _ S0).
  - destruct (y_register maxp s c q) as [[s1 r]|] eqn:R; [|discriminate]. injection H as <- _.
    destruct r as [real|e].
    + unfold y_register in R. destruct (ss_get c (sr_sess s)) as [ct|] eqn:SC; [|discriminate].
      destruct ((0 <? maxp) && (maxp <? ss_used ct + weight (q_type q))); [discriminate|].
      destruct (nm_get (q_name q) (sr_names s)) as [c0|] eqn:NN; [discriminate|].
      destruct (px_run s q) as [[s1' [o|e1]]|] eqn:PR; [| |discriminate]; [|discriminate].
      destruct (px_run_spec _ s q s1' _ G (wf_tcp _ _ W) (wf_udp _ _ W) H0 PR) as [[_ [_ [_ S4]]] [_ [_ [[_ [_ [OW _]]] [OT _]]]]].
      destruct (q_addok q); [|discriminate]. injection R as <- _. unsr. rewrite S4, LT.
      assert (PN : nm_get (q_name q) (ss_pxys ct) = None).
      { destruct (nm_get (q_name q) (ss_pxys ct)) as [o'|] eqn:P; [|reflexivity]. pose proof (wf_n1 _ _ W _ _ _ _ SC P). congruence. }
      intros c1 ct1 S1. destruct (Z.eq_dec c1 c) as [->|N].
      * rewrite ss_get_set_eq in S1. injection S1 as <-. cbn [ss_used ss_pxys sess_with].
        rewrite wsum_set by assumption. rewrite OW, OT, (Q MP _ _ SC). lia.
      * rewrite ss_get_set_neq in S1 by assumption. apply (Q MP _ _ S1).
    + (* a failure gives every session entry back *)
      unfold y_register in R. destruct (ss_get c (sr_sess s)) as [ct|] eqn:SC; [|discriminate].
      assert (BK : (if 0 <? maxp then (if 0 <? maxp then ss_used ct + weight (q_type q) else ss_used ct) - weight (q_type q)
                    else (if 0 <? maxp then ss_used ct + weight (q_type q) else ss_used ct)) = ss_used ct) by (rewrite LT; lia).
      assert (KEEP : forall l, l = sr_sess s -> forall c1 ct1,
                ss_get c1 (ss_set c (sess_with ct (ss_pxys ct) (ss_used ct)) l) = Some ct1 -> ss_used ct1 = wsum (ss_pxys ct1)).
      { intros l -> c1 ct1 S1. destruct (Z.eq_dec c1 c) as [->|N].
        - rewrite ss_get_set_eq in S1. injection S1 as <-. cbn [ss_used ss_pxys sess_with]. apply (Q MP _ _ SC).
        - rewrite ss_get_set_neq in S1 by assumption. apply (Q MP _ _ S1). }
      destruct ((0 <? maxp) && (maxp <? ss_used ct + weight (q_type q))); [injection R as <- _; exact (Q MP)|].
      destruct (nm_get (q_name q) (sr_names s)) as [c0|] eqn:NN.
      { injection R as <- _. unsr. rewrite BK. apply KEEP. reflexivity. }
      destruct (px_run s q) as [[s1' [o|e1]]|] eqn:PR; [| |discriminate].
      * destruct (px_run_spec _ s q s1' _ G (wf_tcp _ _ W) (wf_udp _ _ W) H0 PR) as [[_ [_ [_ S4]]] [_ [_ [OK _]]]].
        destruct (q_addok q); [discriminate|]. injection R as <- _. unsr. rewrite BK.
        destruct (px_close_spec s1' (q_name q) o OK) as [_ [[_ [_ [_ C4]]] _]].
        apply KEEP. rewrite C4, S4. reflexivity.
      * destruct (px_run_spec _ s q s1' _ G (wf_tcp _ _ W) (wf_udp _ _ W) H0 PR) as [[_ [_ [_ S4]]] _].
        injection R as <- _. unsr. rewrite BK. apply KEEP. rewrite S4. reflexivity.
  - destruct (y_close maxp s c n) as [s1|] eqn:R; [|discriminate]. injection H as <- _.
    unfold y_close in R. destruct (ss_get c (sr_sess s)) as [ct|] eqn:SC; [|discriminate].
    destruct (nm_get n (ss_pxys ct)) as [o|] eqn:PC; [|injection R as <-; exact (Q MP)].
    injection R as <-. unsr. rewrite LT.
    assert (OK : obj_ok n o) by (apply (wf_obj _ _ W); exists c, ct; auto).
    destruct (px_close_spec s n o OK) as [_ [[_ [_ [_ C4]]] _]]. rewrite C4.
    intros c1 ct1 S1. destruct (Z.eq_dec c1 c) as [->|N].
    + rewrite ss_get_set_eq in S1. injection S1 as <-. cbn [ss_used ss_pxys sess_with].
      rewrite (wsum_del n o) by (auto; apply (wf_pk _ _ W _ _ SC)). rewrite (Q MP _ _ SC). reflexivity.
    + rewrite ss_get_set_neq in S1 by assumption. apply (Q MP _ _ S1).
  - destruct (y_end s c) as [[s1 k]|] eqn:R; [|discriminate]. injection H as <- _.
    unfold y_end in R. destruct (ss_get c (sr_sess s)) as [ct|] eqn:SC; [|discriminate]. injection R as <- _.
    assert (AG : agree s s) by (unfold agree; csplit; reflexivity).
    destruct (close_all_spec _ c (ss_pxys ct) s s ct W AG SC eq_refl) as [s2 [ct2 [_ [_ [_ [_ [_ [_ SS]]]]]]]].
    unsr. rewrite SS. intros c1 ct1 S1. destruct (Z.eq_dec c1 c) as [->|N].
    + unfold ss_get, ss_del in S1. rewrite (al_get_del_eq Z.eqb_spec) in S1. discriminate.
    + unfold ss_get, ss_del in S1. rewrite (al_get_del_neq Z.eqb_spec) in S1 by assumption. apply (Q MP _ _ S1).
  - destruct (ss_get c (sr_sess s)) as [ct|] eqn:SC; [|discriminate].
    destruct (ss_pool ct <? ss_cap ct); injection H as <- _; [|exact (Q MP)].
    unsr. intros c1 ct1 S1. destruct (Z.eq_dec c1 c) as [->|N].
    + rewrite ss_get_set_eq in S1. injection S1 as <-. cbn [ss_used ss_pxys]. apply (Q MP _ _ SC).
    + rewrite ss_get_set_neq in S1 by assumption. apply (Q MP _ _ S1).
  - destruct ((1 <=? port) && sr_probe s proto port); [|discriminate]. injection H as <- _. exact (Q MP).
  - injection H as <- _. exact (Q MP).
Qed.

Theorem quota_equals_live_weight : forall ranges maxp maxpool s c ct,
  reach ranges maxp maxpool s -> 0 < maxp -> ss_get c (sr_sess s) = Some ct -> ss_used ct = wsum (ss_pxys ct).
Proof.
  intros ranges maxp maxpool s c ct [ops [G R]] MP.
  assert (X : forall ops s0 s1, WF (pm_allowed ranges) s0 -> QI maxp s0 -> Forall group_free_op ops ->
              sr_run maxp maxpool ops s0 = Some s1 -> QI maxp s1).
  { clear. induction ops as [|o t IH]; intros s0 s1 W Q G H; simpl in H.
    - injection H as <-. assumption.
    - destruct (sr_step maxp maxpool s0 o) as [[s' out]|] eqn:E; [|discriminate]. inversion G; subst.
      eapply IH; [| | |exact H]; auto.
      + eapply sr_step_wf; eauto. apply allowed_no0.
      + eapply qi_step; eauto. apply allowed_no0. }
  assert (Q0 : QI maxp (sr_new ranges)) by (intros _ c0 ct0 H; discriminate H).
  intros SC. exact (X ops _ _ (wf_new ranges) Q0 G R MP c ct SC).
Qed.

(* --- the full resource vector across a stop: held by nobody it should not be, nothing of anybody else released --- *)
Definition after_stop_of (n : string) (e : option owner) : option owner :=
  match e with
  | Some (OPxy m) => if String.eqb m n then None else e
  | _ => e
  end.

Theorem close_changes_exactly_own_entries : forall ranges maxp maxpool s c n s' ct o,
  reach ranges maxp maxpool s -> ss_get c (sr_sess s) = Some ct -> nm_get n (ss_pxys ct) = Some o ->
  y_close maxp s c n = Some s' ->
  (forall k, rget_ k (sr_res s') = after_stop_of n (rget_ k (sr_res s))) /\
  (forall m, m <> n -> nm_get m (sr_names s') = nm_get m (sr_names s)) /\ nm_get n (sr_names s') = None /\
  sr_grp s' = sr_grp s /\ sr_squat s' = sr_squat s.
Proof.
  intros ranges maxp maxpool s c n s' ct o R SC PC H. pose proof (reach_wf _ _ _ _ R) as W.
  assert (L0 : live s n o) by (exists c, ct; auto).
  pose proof (wf_obj _ _ W _ _ L0) as OK. pose proof OK as [ON _].
  unfold y_close in H. rewrite SC, PC in H. injection H as <-.
  destruct (px_close_spec s n o OK) as [CR [[C1 [C2 [C3 C4]]] _]]. unsr. rewrite ON, C3.
  csplit; auto.
  - intros k. rewrite CR. fold (rdel_all (po_slots o) (sr_res s)).
    destruct (in_dec (fun a b => match slot_eqb_spec a b with ReflectT _ e => left e | ReflectF _ e => right e end) k (po_slots o)) as [I|NI].
    + rewrite rdel_all_get_in by assumption. rewrite (wf_pres _ _ W _ _ _ L0 I). unfold after_stop_of. rewrite String.eqb_refl. reflexivity.
    + rewrite rdel_all_get by assumption. unfold after_stop_of.
      destruct (rget_ k (sr_res s)) as [[m|g]|] eqn:E; try reflexivity.
      destruct (String.eqb_spec m n) as [->|]; [|reflexivity]. exfalso.
      apply (al_get_in slot_eqb_spec) in E. destruct (wf_held _ _ W _ _ E) as [n' [o' [E' [L' I']]]].
      injection E' as <-. rewrite (live_fun _ _ _ _ _ W L' L0) in I'. contradiction.
  - intros m N. apply nm_get_del_neq. assumption.
  - apply nm_get_del_eq.
Qed.
