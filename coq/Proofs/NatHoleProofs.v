(* C20: proofs about Model/NatHole (scores, recommendations, roles, ranges, classification). *)
From FRP Require Import Model.NatHole.
From Coq Require Import Lia ZifyBool.
Open Scope Z_scope.

(* ------------------------------------------------------------------ *)
(* byte strings                                                        *)

Lemma nh_bytes_eqb_eq a : forall b, bytes_eqb a b = true <-> a = b.
Proof.
  induction a as [|x a IH]; intros [|y b]; cbn; split; try congruence; try discriminate.
  - rewrite andb_true_iff. intros [H1 H2]. apply Byte.byte_dec_bl in H1. apply IH in H2. congruence.
  - intros [= -> ->]. rewrite andb_true_iff. split; [apply Byte.byte_dec_lb; reflexivity|now apply IH].
Qed.
Lemma nh_bytes_eqb_refl a : bytes_eqb a a = true.
Proof. now apply nh_bytes_eqb_eq. Qed.

Lemma nh_rec_get_set k k' l a :
  nh_rec_get k (nh_rec_set k' l a) = if bytes_eqb k k' then Some l else nh_rec_get k a.
Proof.
  induction a as [|[k2 l2] r IH]; cbn.
  - destruct (bytes_eqb k k'); reflexivity.
  - destruct (bytes_eqb k' k2) eqn:E; cbn.
    + apply nh_bytes_eqb_eq in E. subst k2. destruct (bytes_eqb k k'); reflexivity.
    + destruct (bytes_eqb k k2) eqn:E2.
      * apply nh_bytes_eqb_eq in E2. subst k2.
        destruct (bytes_eqb k k') eqn:E3; [|reflexivity].
        apply nh_bytes_eqb_eq in E3. subst k'. rewrite nh_bytes_eqb_refl in E. discriminate.
      * exact IH.
Qed.

(* ------------------------------------------------------------------ *)
(* A. the list of (mode, index) entries of a score list never changes     *)

Definition nh_entries (l : list nh_score) : list (Z * Z) := map nh_entry l.

Lemma nh_update_at_entries f k : forall l x l',
  nh_update_at f k l = Some (x, l') -> nh_entries l' = nh_entries l /\ In x l.
Proof.
  induction k as [|k IH]; intros [|s r] x l' H; cbn in H; try discriminate.
  - injection H as <- <-. split; [reflexivity|now left].
  - destruct (nh_update_at f k r) as [[y r']|] eqn:E; [|discriminate].
    injection H as <- <-. destruct (IH _ _ _ E) as [H1 H2]. split; [cbn; unfold nh_entries in H1; now rewrite H1|now right].
Qed.

Lemma nh_update_at_some f : forall k l, (k < length l)%nat -> exists x l', nh_update_at f k l = Some (x, l').
Proof.
  induction k as [|k IH]; intros [|s r] H; cbn in H; try lia; cbn.
  - eauto.
  - destruct (IH r ltac:(lia)) as [x [l' E]]. rewrite E. eauto.
Qed.

Lemma nh_argmax_from_bound : forall l best bs i, (best < i)%nat -> (nh_argmax_from best bs i l < i + length l)%nat.
Proof.
  induction l as [|s r IH]; intros best bs i H; cbn.
  - lia.
  - destruct (ns_score s >? bs).
    + specialize (IH i (ns_score s) (S i) ltac:(lia)). lia.
    + specialize (IH best bs (S i) ltac:(lia)). lia.
Qed.

Lemma nh_recommend_total l : exists e l', nh_recommend l = Some (e, l').
Proof.
  destruct l as [|s0 r]; cbn; [eauto|].
  pose proof (nh_argmax_from_bound r 0%nat (ns_score s0) 1%nat ltac:(lia)) as B.
  destruct (nh_update_at_some (fun x => x - 1) (nh_argmax_from 0 (ns_score s0) 1 r) (s0 :: r) ltac:(cbn; lia)) as [x [l' E]].
  cbn in E. rewrite E. eauto.
Qed.

Lemma nh_recommend_entries l e l' :
  nh_recommend l = Some (e, l') ->
  nh_entries l' = nh_entries l /\ ((l = [] /\ e = (0, 0)) \/ In e (nh_entries l)).
Proof.
  destruct l as [|s0 r]; cbn.
  - intros [= <- <-]. split; [reflexivity|left; split; reflexivity].
  - destruct (nh_update_at _ _ (s0 :: r)) as [[x l'']|] eqn:E; [|discriminate].
    intros [= <- <-]. apply nh_update_at_entries in E. destruct E as [H1 H2].
    split; [exact H1|right]. exact (in_map nh_entry _ _ H2).
Qed.

Lemma nh_report_success_entries m i l : nh_entries (nh_report_success m i l) = nh_entries l.
Proof.
  induction l as [|s r IH]; cbn; [reflexivity|].
  destruct ((ns_mode s =? m) && (ns_index s =? i)); cbn; [reflexivity|]. unfold nh_entries in IH. now rewrite IH.
Qed.

(* scores stay within the documented band as long as they start within it: +2 capped at 10 *)
Lemma nh_report_success_cap m i l :
  Forall (fun s => ns_score s <= 10) l -> Forall (fun s => ns_score s <= 10) (nh_report_success m i l).
Proof.
  induction 1 as [|s r H1 H2 IH]; cbn; [constructor|].
  destruct ((ns_mode s =? m) && (ns_index s =? i)); constructor; cbn; try assumption; lia.
Qed.

(* Recommand picks a maximal score (the first one) *)
Lemma nh_argmax_from_max : forall l best bs i pre,
  length pre = i -> (best < i)%nat ->
  nth_error pre best = Some bs ->
  (forall j s, nth_error pre j = Some s -> s <= bs) ->
  forall full, full = pre ++ map ns_score l ->
  exists m, nth_error full (nh_argmax_from best bs i l) = Some m /\ forall j s, nth_error full j = Some s -> s <= m.
Proof.
  induction l as [|s r IH]; intros best bs i pre Hlen Hb Hnth Hmax full ->; cbn.
  - rewrite app_nil_r. eauto.
  - destruct (ns_score s >? bs) eqn:E.
    + apply (IH i (ns_score s) (S i) (pre ++ [ns_score s])).
      * rewrite app_length. cbn. lia.
      * lia.
      * rewrite nth_error_app2 by lia. replace (i - length pre)%nat with 0%nat by lia. reflexivity.
      * intros j x Hj. destruct (Nat.ltb j (length pre)) eqn:Ej.
        -- apply Nat.ltb_lt in Ej. rewrite nth_error_app1 in Hj by lia. specialize (Hmax _ _ Hj). lia.
        -- apply Nat.ltb_ge in Ej. rewrite nth_error_app2 in Hj by lia.
           destruct (j - length pre)%nat as [|n]; cbn in Hj; [injection Hj as <-; lia|destruct n; discriminate].
      * rewrite <- app_assoc. reflexivity.
    + apply (IH best bs (S i) (pre ++ [ns_score s])).
      * rewrite app_length. cbn. lia.
      * lia.
      * rewrite nth_error_app1 by lia. exact Hnth.
      * intros j x Hj. destruct (Nat.ltb j (length pre)) eqn:Ej.
        -- apply Nat.ltb_lt in Ej. rewrite nth_error_app1 in Hj by lia. eauto.
        -- apply Nat.ltb_ge in Ej. rewrite nth_error_app2 in Hj by lia.
           destruct (j - length pre)%nat as [|n]; cbn in Hj; [injection Hj as <-; lia|destruct n; discriminate].
      * rewrite <- app_assoc. reflexivity.
Qed.

(* ------------------------------------------------------------------ *)
(* B. validity of entries, complementary roles: reflective checker        *)

Definition nh_compl (a b : nh_beh) : bool :=
  (nh_role_eqb (nb_role a) NhSender && nh_role_eqb (nb_role b) NhReceiver) ||
  (nh_role_eqb (nb_role a) NhReceiver && nh_role_eqb (nb_role b) NhSender).

(* "the receiver is still listening when the sender starts": the receiver's ReadTimeoutMs covers the server's stagger
   before the sender's response, the sender's SendDelayMs and a margin; the sender itself waits at least the margin *)
Definition nh_margin : Z := 3000.
Definition nh_timing_pair (D : nh_data) (cb vb : nh_beh) : bool :=
  match nh_read_timeouts (nd_timing D) cb vb with
  | Some (vrt, crt) =>
      (if nh_role_eqb (nb_role cb) NhSender
       then (vrt >=? nb_delay cb + tm_stagger_c (nd_timing D) + nh_margin) && (crt >=? nh_margin) else true) &&
      (if nh_role_eqb (nb_role vb) NhSender
       then (crt >=? nb_delay vb + tm_stagger_v (nd_timing D) + nh_margin) && (vrt >=? nh_margin) else true)
  | None => false
  end.

Definition nh_valid_entry (D : nh_data) (e : Z * Z) : bool :=
  let '(m, i) := e in
  (0 <=? i) && (i <? nh_len (nh_table D m)) &&
  match nh_beh_by_mode_index D m i with Some (a, b) => nh_compl a b && nh_timing_pair D a b && nh_timing_pair D b a | None => false end.

(* the part of a feature that NewMakeHoleRecords and the swap guards look at *)
Definition nh_norm (f : nh_feature) : nh_feature :=
  {| nf_nat := nf_nat f; nf_behav := NhNoChange; nf_diff := 0; nf_regular := nf_regular f; nf_public := nf_public f |}.

Definition nh_small_features : list nh_feature :=
  flat_map (fun n => flat_map (fun r => map (fun p =>
    {| nf_nat := n; nf_behav := NhNoChange; nf_diff := 0; nf_regular := r; nf_public := p |}) [false; true]) [false; true]) [NhEasy; NhHard].

Lemma nh_norm_in f : In (nh_norm f) nh_small_features.
Proof. destruct f as [[] ? ? [] []]; cbn; tauto. Qed.

Lemma nh_init_scores_norm D c v : nh_init_scores D c v = nh_init_scores D (nh_norm c) (nh_norm v).
Proof. destruct c, v; reflexivity. Qed.

Lemma nh_eval_guard_norm g c v : nh_eval_guard g c v = nh_eval_guard g (nh_norm c) (nh_norm v).
Proof. induction g as [[] n|[]|g IH]; cbn; try reflexivity. now rewrite IH. Qed.

Lemma nh_behaviors_norm D m i c v : nh_behaviors D m i c v = nh_behaviors D m i (nh_norm c) (nh_norm v).
Proof.
  unfold nh_behaviors, nh_apply_swap. destruct (nh_beh_by_mode_index D m i); [|reflexivity].
  destruct (nh_zassoc m (nd_swaps D)); [|reflexivity]. now rewrite nh_eval_guard_norm.
Qed.

Definition nh_is_hard (f : nh_feature) : bool := nh_nat_eqb (nf_nat f) NhHard.
Definition nh_sends (r : nh_role) : bool := nh_role_eqb r NhSender.
Definition nh_receives (r : nh_role) : bool := nh_role_eqb r NhReceiver.

(* the role rule of a mode, on the roles handed to c and v: if the pair has a hard NAT, the hard NAT sends in
   mode 1 and listens in mode 2; if it has a side with regular port changes, that side sends in mode 4 *)
Definition nh_rule_roles (mode : Z) (c v : nh_feature) (cr vr : nh_role) : bool :=
  if mode =? 1 then implb (nh_is_hard c || nh_is_hard v) ((nh_sends cr && nh_is_hard c) || (nh_sends vr && nh_is_hard v))
  else if mode =? 2 then implb (nh_is_hard c || nh_is_hard v) ((nh_receives cr && nh_is_hard c) || (nh_receives vr && nh_is_hard v))
  else if mode =? 4 then implb (nf_regular c || nf_regular v) ((nh_sends cr && nf_regular c) || (nh_sends vr && nf_regular v))
  else true.
Definition nh_rule_holds (mode : Z) (c v : nh_feature) (cb vb : nh_beh) : bool :=
  nh_rule_roles mode c v (nb_role cb) (nb_role vb).

Definition nh_indices (D : nh_data) (m : Z) : list Z := map Z.of_nat (seq 0 (length (nh_table D m))).

Lemma nh_indices_in D m i : 0 <= i < nh_len (nh_table D m) -> In i (nh_indices D m).
Proof.
  unfold nh_len, nh_indices. intros H. replace i with (Z.of_nat (Z.to_nat i)) by lia.
  apply in_map. apply in_seq. lia.
Qed.

(* which modes a fresh record may contain: 1 and 2 need a hard side, 4 a hard side with regular port changes *)
Definition nh_mode_fits (c v : nh_feature) (e : Z * Z) : bool :=
  let m := fst e in
  (if (m =? 1) || (m =? 2) then nh_is_hard c || nh_is_hard v else true) &&
  (if m =? 4 then (nh_is_hard c && nf_regular c) || (nh_is_hard v && nf_regular v) else true).

Definition nh_is_empty_scores (l : list nh_score) : bool := match l with [] => true | _ => false end.

Definition nh_data_ok (D : nh_data) : bool :=
  nh_valid_entry D (0, 0) &&
  forallb (fun c => forallb (fun v =>
    forallb (fun e => nh_valid_entry D e && nh_mode_fits c v e) (nh_entries (nh_init_scores D c v)) &&
    negb (nh_is_empty_scores (nh_init_scores D c v)))
    nh_small_features) nh_small_features &&
  forallb (fun m => forallb (fun i => forallb (fun c => forallb (fun v =>
    match nh_behaviors D m i c v with
    | Some (cb, vb) => nh_rule_holds m c v cb vb
    | None => false
    end) nh_small_features) nh_small_features) (nh_indices D m)) [1; 2; 4].

Lemma nh_mode_fits_norm c v e : nh_mode_fits c v e = nh_mode_fits (nh_norm c) (nh_norm v) e.
Proof. destruct c, v; reflexivity. Qed.
Lemma nh_rule_holds_norm m c v cb vb : nh_rule_holds m c v cb vb = nh_rule_holds m (nh_norm c) (nh_norm v) cb vb.
Proof. destruct c, v; reflexivity. Qed.

Lemma nh_compl_swap a b : nh_compl b a = nh_compl a b.
Proof. unfold nh_compl. destruct (nb_role a), (nb_role b); reflexivity. Qed.

Section CheckerSound.
  Variable D : nh_data.
  Hypothesis OK : nh_data_ok D = true.

  Lemma nh_ok_zero : nh_valid_entry D (0, 0) = true.
  Proof. unfold nh_data_ok in OK. rewrite !andb_true_iff in OK. tauto. Qed.

  Lemma nh_ok_init c v :
    nh_init_scores D c v <> [] /\
    forall e, In e (nh_entries (nh_init_scores D c v)) -> nh_valid_entry D e = true /\ nh_mode_fits c v e = true.
  Proof.
    unfold nh_data_ok in OK. rewrite !andb_true_iff in OK. destruct OK as [[_ H] _].
    rewrite forallb_forall in H. specialize (H _ (nh_norm_in c)).
    rewrite forallb_forall in H. specialize (H _ (nh_norm_in v)).
    rewrite andb_true_iff in H. destruct H as [H1 H2].
    rewrite <- nh_init_scores_norm in H1, H2. split.
    - intros E. rewrite E in H2. discriminate.
    - intros e He. rewrite forallb_forall in H1. specialize (H1 _ He).
      rewrite andb_true_iff in H1. rewrite nh_mode_fits_norm. exact H1.
  Qed.

  Lemma nh_ok_rule m i c v :
    In m [1; 2; 4] -> 0 <= i < nh_len (nh_table D m) ->
    exists cb vb, nh_behaviors D m i c v = Some (cb, vb) /\ nh_rule_holds m c v cb vb = true.
  Proof.
    intros Hm Hi. unfold nh_data_ok in OK. rewrite !andb_true_iff in OK. destruct OK as [_ H].
    rewrite forallb_forall in H. specialize (H _ Hm).
    rewrite forallb_forall in H. specialize (H _ (nh_indices_in D m i Hi)).
    rewrite forallb_forall in H. specialize (H _ (nh_norm_in c)).
    rewrite forallb_forall in H. specialize (H _ (nh_norm_in v)).
    rewrite <- nh_behaviors_norm in H. destruct (nh_behaviors D m i c v) as [[cb vb]|]; [|discriminate].
    exists cb, vb. split; [reflexivity|]. now rewrite nh_rule_holds_norm.
  Qed.

  (* every record of the analyzer has the entry list of SOME freshly initialised record *)
  Definition nh_inv (a : nh_analyzer) : Prop :=
    forall k l, nh_rec_get k a = Some l -> exists c v, nh_entries l = nh_entries (nh_init_scores D c v).

  Lemma nh_inv_nil : nh_inv [].
  Proof. intros k l H. discriminate. Qed.

  Lemma nh_inv_set a k l c v :
    nh_inv a -> nh_entries l = nh_entries (nh_init_scores D c v) -> nh_inv (nh_rec_set k l a).
  Proof.
    intros Ha Hl k2 l2. rewrite nh_rec_get_set. destruct (bytes_eqb k2 k).
    - intros [= <-]. eauto.
    - apply Ha.
  Qed.

  Lemma nh_report_inv a k m i : nh_inv a -> nh_inv (nh_report a k m i).
  Proof.
    intros Ha. unfold nh_report. destruct (nh_rec_get k a) as [l|] eqn:E; [|exact Ha].
    destruct (Ha _ _ E) as [c [v H]]. apply (nh_inv_set a k _ c v Ha). now rewrite nh_report_success_entries.
  Qed.

  (* what holds of every recommendation *)
  Definition nh_reco_ok (c v : nh_feature) (r : nh_reco) : Prop :=
    nh_compl (rc_cbeh r) (rc_vbeh r) = true /\
    0 <= rc_index r < nh_len (nh_table D (rc_mode r)) /\
    nh_rule_holds (rc_mode r) c v (rc_cbeh r) (rc_vbeh r) = true /\
    nh_timing_pair D (rc_cbeh r) (rc_vbeh r) = true /\
    exists c0 v0, In (rc_mode r, rc_index r) (nh_entries (nh_init_scores D c0 v0)).

  Lemma nh_rule_other m c v cb vb : ~ In m [1; 2; 4] -> nh_rule_holds m c v cb vb = true.
  Proof.
    intros H. unfold nh_rule_holds, nh_rule_roles.
    destruct (m =? 1) eqn:E1; [exfalso; apply H; cbn; lia|].
    destruct (m =? 2) eqn:E2; [exfalso; apply H; cbn; lia|].
    destruct (m =? 4) eqn:E4; [exfalso; apply H; cbn; lia|]. reflexivity.
  Qed.

  Lemma nh_valid_entry_behaviors m i c v :
    nh_valid_entry D (m, i) = true ->
    exists cb vb, nh_behaviors D m i c v = Some (cb, vb) /\ nh_compl cb vb = true /\
                  0 <= i < nh_len (nh_table D m) /\ nh_rule_holds m c v cb vb = true /\ nh_timing_pair D cb vb = true.
  Proof.
    intros H. unfold nh_valid_entry in H. rewrite !andb_true_iff in H. destruct H as [[H1 H2] H3].
    assert (Hi : 0 <= i < nh_len (nh_table D m)) by lia.
    assert (Hrule : forall cb vb, nh_behaviors D m i c v = Some (cb, vb) -> nh_rule_holds m c v cb vb = true).
    { intros cb vb E. destruct (in_dec Z.eq_dec m [1; 2; 4]) as [Hm|Hm]; [|now apply nh_rule_other].
      destruct (nh_ok_rule m i c v Hm Hi) as [cb' [vb' [E' R]]]. congruence. }
    revert Hrule. unfold nh_behaviors. destruct (nh_beh_by_mode_index D m i) as [[a b]|]; [|discriminate].
    rewrite !andb_true_iff in H3. destruct H3 as [[Hc Hab] Hba]. unfold nh_apply_swap.
    destruct (nh_zassoc m (nd_swaps D)) as [g|]; [destruct (nh_eval_guard g c v)|]; cbn; intros Hrule;
      eexists _, _; (split; [reflexivity|]); repeat split; try lia; try (apply Hrule; reflexivity); try assumption.
    now rewrite nh_compl_swap.
  Qed.

  Lemma nh_get_recommand_ok a k c v :
    nh_inv a -> exists a' r, nh_get_recommand D a k c v = Some (a', r) /\ nh_inv a' /\ nh_reco_ok c v r.
  Proof.
    intros Ha. unfold nh_get_recommand.
    set (l := match nh_rec_get k a with Some l => l | None => nh_init_scores D c v end).
    assert (Hl : exists c0 v0, nh_entries l = nh_entries (nh_init_scores D c0 v0)).
    { unfold l. destruct (nh_rec_get k a) as [l0|] eqn:E; [exact (Ha _ _ E)|eauto]. }
    destruct Hl as [c0 [v0 Hl]].
    destruct (nh_recommend_total l) as [[m i] [l' E]]. rewrite E.
    destruct (nh_recommend_entries _ _ _ E) as [H1 H2].
    assert (Hin : In (m, i) (nh_entries (nh_init_scores D c0 v0))).
    { destruct H2 as [[Hnil _]|H2]; [|now rewrite <- Hl].
      exfalso. destruct (nh_ok_init c0 v0) as [Hne _]. subst l. rewrite Hnil in Hl.
      destruct (nh_init_scores D c0 v0); [now apply Hne|discriminate]. }
    destruct (nh_ok_init c0 v0) as [_ Hv]. destruct (Hv _ Hin) as [Hvalid _].
    destruct (nh_valid_entry_behaviors m i c v Hvalid) as [cb [vb [Eb [Hc [Hi [Hr Htm]]]]]].
    rewrite Eb. eexists _, _. split; [reflexivity|]. split.
    - apply (nh_inv_set a k l' c0 v0 Ha). now rewrite H1.
    - unfold nh_reco_ok; cbn. repeat split; try assumption; try lia. eauto.
  Qed.

  (* all histories on the exported Analyzer: never a panic, every output fine *)
  Lemma nh_run_analyzer_ok ops : forall a,
    nh_inv a -> exists a' outs, nh_run_analyzer D a ops = Some (a', outs) /\ nh_inv a' /\
                                Forall (fun r => nh_compl (rc_cbeh r) (rc_vbeh r) = true /\
                                                 0 <= rc_index r < nh_len (nh_table D (rc_mode r))) outs.
  Proof.
    induction ops as [|[k c v|k m i] ops IH]; intros a Ha; cbn.
    - eauto.
    - destruct (nh_get_recommand_ok a k c v Ha) as [a1 [r [E [Ha1 Hr]]]]. rewrite E.
      destruct (IH a1 Ha1) as [a2 [outs [E2 [Ha2 Ho]]]]. rewrite E2.
      eexists _, _. split; [reflexivity|]. split; [assumption|]. constructor; [|assumption].
      unfold nh_reco_ok in Hr. tauto.
    - apply IH. now apply nh_report_inv.
  Qed.

  Definition nh_reachable (a : nh_analyzer) : Prop := exists ops outs, nh_run_analyzer D [] ops = Some (a, outs).

  Lemma nh_reachable_inv a : nh_reachable a -> nh_inv a.
  Proof.
    intros [ops [outs E]]. destruct (nh_run_analyzer_ok ops [] nh_inv_nil) as [a' [outs' [E' [H _]]]].
    rewrite E in E'. injection E' as <- _. exact H.
  Qed.
End CheckerSound.

(* ------------------------------------------------------------------ *)
(* C. classification: accepted exactly when every address is well formed with a port in 1..65535 *)

Definition nh_addr_ok (a : bytes) : bool :=
  match nh_split_host_port a with
  | Some (_, p) => match nh_atoi p with Some n => (1 <=? n) && (n <=? 65535) | None => false end
  | None => false
  end.

Lemma nh_classify_step_inl locals st a st' :
  nh_classify_step locals st a = inl st' ->
  nh_addr_ok a = true /\ (cs_min st <= cs_max st -> cs_min st' <= cs_max st').
Proof.
  unfold nh_classify_step, nh_addr_ok, nh_port_rejected.
  destruct (nh_split_host_port a) as [[ip port]|]; [|discriminate].
  destruct (nh_atoi port) as [n|]; [|discriminate].
  destruct ((n <=? 0) || (n >? 65535)) eqn:E; [discriminate|].
  destruct (nh_is_empty (cs_baseip st)); intros [= <-]; cbn; (split; [lia|]); intros H;
    try destruct (n >? cs_max st) eqn:E1; try destruct (n <? cs_min st) eqn:E2; lia.
Qed.

Lemma nh_classify_step_total locals st a :
  nh_addr_ok a = true -> exists st', nh_classify_step locals st a = inl st'.
Proof.
  unfold nh_classify_step, nh_addr_ok, nh_port_rejected.
  destruct (nh_split_host_port a) as [[ip port]|]; [|discriminate].
  destruct (nh_atoi port) as [n|]; [|discriminate]. intros H.
  destruct ((n <=? 0) || (n >? 65535)) eqn:E; [lia|].
  destruct (nh_is_empty (cs_baseip st)); eauto.
Qed.

Lemma nh_classify_loop_inl locals : forall addrs st st',
  nh_classify_loop locals st addrs = inl st' ->
  Forall (fun a => nh_addr_ok a = true) addrs /\ (cs_min st <= cs_max st -> cs_min st' <= cs_max st').
Proof.
  induction addrs as [|a r IH]; intros st st' H; cbn in H.
  - injection H as <-. split; [constructor|tauto].
  - destruct (nh_classify_step locals st a) as [st1|e] eqn:E; [|discriminate].
    apply nh_classify_step_inl in E. destruct E as [E1 E2]. destruct (IH _ _ H) as [H1 H2].
    split; [constructor; assumption|tauto].
Qed.

Lemma nh_classify_loop_total locals : forall addrs st,
  Forall (fun a => nh_addr_ok a = true) addrs -> exists st', nh_classify_loop locals st addrs = inl st'.
Proof.
  induction addrs as [|a r IH]; intros st H; cbn; [eauto|].
  inversion H as [|? ? Ha Hr]; subst. destruct (nh_classify_step_total locals st a Ha) as [st1 E]. rewrite E. now apply IH.
Qed.

Lemma nh_classify_inl addrs locals f :
  nh_classify addrs locals = inl f ->
  (2 <= length addrs)%nat /\ Forall (fun a => nh_addr_ok a = true) addrs /\ 0 <= nf_diff f /\
  (nf_regular f = true -> nf_nat f = NhHard /\ 1 <= nf_diff f <= 5) /\
  (nf_nat f = NhEasy <-> nf_behav f = NhNoChange).
Proof.
  unfold nh_classify, nh_len. destruct (Z.of_nat (length addrs) <=? 1) eqn:E; [discriminate|].
  destruct (nh_classify_loop locals nh_cstate0 addrs) as [st|e] eqn:EL; [|discriminate].
  apply nh_classify_loop_inl in EL. destruct EL as [H1 H2]. cbn in H2. specialize (H2 ltac:(lia)).
  destruct (cs_ipch st), (cs_portch st); cbn; intros [= <-]; cbn; repeat split; try lia; try assumption;
    try discriminate; try (intros; lia).
Qed.

Lemma nh_classify_total addrs locals :
  (2 <= length addrs)%nat -> Forall (fun a => nh_addr_ok a = true) addrs -> exists f, nh_classify addrs locals = inl f.
Proof.
  intros H1 H2. unfold nh_classify, nh_len. destruct (Z.of_nat (length addrs) <=? 1) eqn:E; [lia|].
  destruct (nh_classify_loop_total locals addrs nh_cstate0 H2) as [st ->].
  destruct (cs_ipch st), (cs_portch st); cbn; eauto.
Qed.

(* a list with a malformed or out-of-range address, or fewer than two addresses, is always refused *)
Lemma nh_classify_refuses addrs locals :
  (length addrs <= 1)%nat \/ (exists x, In x addrs /\ nh_addr_ok x = false) -> exists e, nh_classify addrs locals = inr e.
Proof.
  intros H. destruct (nh_classify addrs locals) as [f|e] eqn:E; [|eauto]. exfalso.
  apply nh_classify_inl in E. destruct E as [E1 [E2 _]]. destruct H as [H|[x [Hx Hb]]]; [lia|].
  rewrite Forall_forall in E2. specialize (E2 _ Hx). congruence.
Qed.

(* ------------------------------------------------------------------ *)
(* D. candidate port ranges                                             *)

Definition nh_range_ok (p : Z * Z) : Prop := 1 <= fst p /\ fst p <= snd p /\ snd p <= 65535.

Lemma nh_last_in {A} (l : list A) x : nh_last l = Some x -> In x l.
Proof.
  induction l as [|a r IH]; cbn; [discriminate|]. destruct r as [|b r'].
  - intros [= ->]. now left.
  - intros H. right. apply IH. exact H.
Qed.

Definition nh_addr_ok_or_unsplit (a : bytes) : Prop := nh_addr_ok a = true \/ nh_split_host_port a = None.

Lemma nh_range_ports_ok addrs diff maxn :
  Forall nh_addr_ok_or_unsplit addrs -> 0 <= diff -> Forall nh_range_ok (nh_range_ports addrs diff maxn).
Proof.
  intros Ha Hd. unfold nh_range_ports. destruct (maxn <=? 0) eqn:Em; [constructor|].
  destruct (nh_last addrs) as [a|] eqn:El; [|constructor].
  apply nh_last_in in El. rewrite Forall_forall in Ha. specialize (Ha _ El). unfold nh_addr_ok_or_unsplit, nh_addr_ok in Ha.
  destruct (nh_split_host_port a) as [[ip p]|]; [|constructor].
  destruct Ha as [Ha|Ha]; [|discriminate Ha].
  destruct (nh_atoi p) as [n|]; [|constructor].
  constructor; [|constructor]. unfold nh_range_ok, nh_range_from_of, nh_range_to_of. cbn. lia.
Qed.

Lemma nh_compact_forall (P : bytes -> Prop) l : Forall P l -> Forall P (nh_compact l).
Proof.
  induction l as [|x r IH]; intros H; [constructor|]. inversion H as [|? ? Hx Hr]; subst. cbn.
  destruct r as [|y r']; [constructor; [assumption|constructor]|].
  destruct (bytes_eqb x y); [apply IH; assumption|constructor; [assumption|apply IH; assumption]].
Qed.

Lemma nh_after_compact_ok l :
  Forall (fun a => nh_addr_ok a = true) l -> Forall nh_addr_ok_or_unsplit (nh_after_compact l).
Proof.
  intros H. unfold nh_after_compact. apply Forall_app. split.
  - apply nh_compact_forall. eapply Forall_impl; [|exact H]. intros a Ha. now left.
  - apply Forall_forall. intros a Ha. apply repeat_spec in Ha. subst a. right. reflexivity.
Qed.

(* ------------------------------------------------------------------ *)
(* E. Controller.analysis: the pair of responses                         *)

Definition nh_instruction_pair (sid : bytes) (vm : nh_vmsg) (cm : nh_cmsg) (rv rc : nh_resp) : Prop :=
  r_err rv = NeNone /\ r_err rc = NeNone /\
  r_sid rv = sid /\ r_sid rc = sid /\ r_mode rv = r_mode rc /\
  r_tid rv = vm_tid vm /\ r_tid rc = cm_tid cm /\
  r_protocol rv = vm_protocol vm /\ r_protocol rc = vm_protocol vm /\
  r_cands rv = nh_compact (cm_mapped cm) /\ r_assisted rv = nh_compact (cm_assisted cm) /\
  r_cands rc = nh_compact (vm_mapped vm) /\ r_assisted rc = nh_compact (vm_assisted vm) /\
  ((r_role rv = NhSender /\ r_role rc = NhReceiver) \/ (r_role rv = NhReceiver /\ r_role rc = NhSender)) /\
  Forall nh_range_ok (r_ranges rv) /\ Forall nh_range_ok (r_ranges rc) /\
  Forall (fun a => nh_addr_ok a = true) (cm_mapped cm ++ vm_mapped vm) /\
  (2 <= length (cm_mapped cm))%nat /\ (2 <= length (vm_mapped vm))%nat /\
  exists cf vf, nh_classify (cm_mapped cm) (nh_parse_ips (cm_assisted cm)) = inl cf /\
                nh_classify (vm_mapped vm) (nh_parse_ips (vm_assisted vm)) = inl vf /\
                nh_rule_roles (r_mode rv) cf vf (r_role rc) (r_role rv) = true.

(* the receiver is still listening when the sender starts *)
Definition nh_resp_timing (D : nh_data) (rv rc : nh_resp) : Prop :=
  (r_role rc = NhSender -> r_read_timeout rv >= r_delay rc + tm_stagger_c (nd_timing D) + nh_margin /\ r_read_timeout rc >= nh_margin) /\
  (r_role rv = NhSender -> r_read_timeout rc >= r_delay rv + tm_stagger_v (nd_timing D) + nh_margin /\ r_read_timeout rv >= nh_margin).

Definition nh_error_pair (vm : nh_vmsg) (cm : nh_cmsg) (rv rc : nh_resp) : Prop :=
  exists e, e <> NeNone /\ rv = nh_err_resp (vm_tid vm) e /\ rc = nh_err_resp (cm_tid cm) e.

Lemma nh_compl_roles a b :
  nh_compl a b = true ->
  (nb_role b = NhSender /\ nb_role a = NhReceiver) \/ (nb_role b = NhReceiver /\ nb_role a = NhSender).
Proof. unfold nh_compl. destruct (nb_role a), (nb_role b); cbn; intros; try discriminate; tauto. Qed.

Section Analysis.
  Variable D : nh_data.
  Hypothesis OK : nh_data_ok D = true.

  Lemma nh_responses_ok a sid vm cm :
    nh_inv D a ->
    exists a' rv rc, nh_responses D a sid vm cm = Some (a', rv, rc) /\ nh_inv D a' /\
                     ((nh_instruction_pair sid vm cm rv rc /\ nh_resp_timing D rv rc) \/ (nh_error_pair vm cm rv rc /\ a' = a)).
  Proof.
    intros Ha. unfold nh_responses, nh_analysis.
    destruct (nh_classify (cm_mapped cm) _) as [cf|e] eqn:Ec.
    2:{ eexists _, _, _. split; [reflexivity|]. split; [assumption|]. right. split; [|reflexivity].
        exists (NeClassifyClient e). repeat split. discriminate. }
    destruct (nh_classify (vm_mapped vm) _) as [vf|e] eqn:Ev.
    2:{ eexists _, _, _. split; [reflexivity|]. split; [assumption|]. right. split; [|reflexivity].
        exists (NeClassifyVisitor e). repeat split. discriminate. }
    destruct (nh_get_recommand_ok D OK a (nh_analysis_key vm vf cm cf) cf vf Ha) as [a' [r [E [Ha' Hr]]]].
    rewrite E. destruct Hr as [Hc [_ [Hrule [Htm _]]]].
    pose proof Htm as Htm'. unfold nh_timing_pair in Htm'.
    destruct (nh_read_timeouts (nd_timing D) (rc_cbeh r) (rc_vbeh r)) as [[vrt crt]|]; [|discriminate].
    eexists _, _, _. split; [reflexivity|]. split; [assumption|]. left. split.
    2:{ unfold nh_resp_timing; cbn. rewrite andb_true_iff in Htm'. destruct Htm' as [T1 T2]. split; intros Hs; rewrite Hs in *; cbn in *; lia. }
    pose proof (nh_classify_inl _ _ _ Ec) as [Lc [Fc [Dc _]]].
    pose proof (nh_classify_inl _ _ _ Ev) as [Lv [Fv [Dv _]]].
    unfold nh_instruction_pair; cbn. repeat split; try reflexivity; try assumption.
    - apply nh_compl_roles. exact Hc.
    - apply nh_range_ports_ok; [now apply nh_after_compact_ok|assumption].
    - apply nh_range_ports_ok; [now apply nh_after_compact_ok|assumption].
    - apply Forall_app. split; assumption.
    - exists cf, vf. split; [exact Ec|]. split; [exact Ev|]. exact Hrule.
  Qed.

  (* malformed or out-of-range mapped addresses (or fewer than two): the same error to both, state unchanged *)
  Lemma nh_responses_malformed a sid vm cm :
    (length (cm_mapped cm) <= 1)%nat \/ (length (vm_mapped vm) <= 1)%nat \/
    (exists x, In x (cm_mapped cm ++ vm_mapped vm) /\ nh_addr_ok x = false) ->
    exists e, e <> NeNone /\
              nh_responses D a sid vm cm = Some (a, nh_err_resp (vm_tid vm) e, nh_err_resp (cm_tid cm) e).
  Proof.
    intros H. unfold nh_responses, nh_analysis.
    destruct (nh_classify (cm_mapped cm) _) as [cf|e] eqn:Ec.
    2:{ exists (NeClassifyClient e). split; [discriminate|reflexivity]. }
    destruct (nh_classify (vm_mapped vm) _) as [vf|e] eqn:Ev.
    2:{ exists (NeClassifyVisitor e). split; [discriminate|reflexivity]. }
    exfalso. apply nh_classify_inl in Ec, Ev. destruct Ec as [Lc [Fc _]], Ev as [Lv [Fv _]].
    destruct H as [H|[H|[x [Hx Hb]]]]; try lia.
    apply in_app_or in Hx. rewrite Forall_forall in Fc, Fv.
    destruct Hx as [Hx|Hx]; [specialize (Fc _ Hx)|specialize (Fv _ Hx)]; congruence.
  Qed.
End Analysis.
