// Package hx: shared scaffolding for the correspondence drivers.  Every property has its
// own binary under harness/cmd/<id>/ whose main() calls hx.Main(drivers).  A driver runs
// the real frp code on generated inputs and writes (a) a Coq case file holding the inputs
// together with the implementation's projected observations and (b) a JSON stats file.
//
//	h_<id> <driver> -seed N -n N -out cases.v -stats stats.json [-tier quick|thorough] [-extra s]
package hx

import (
	"encoding/json"
	"flag"
	"fmt"
	"os"
	"sort"
)

type DriverFn func(cfg *RunCfg) error

type RunCfg struct {
	Seed   int64
	N      int
	Out    string
	Stats  string
	Tier   string
	Replay string
	Extra  string
	St     map[string]any
}

func Main(drivers map[string]DriverFn) {
	if len(os.Args) < 2 {
		names := []string{}
		for k := range drivers {
			names = append(names, k)
		}
		sort.Strings(names)
		fmt.Fprintln(os.Stderr, "usage: <driver> [flags]; drivers:", names)
		os.Exit(2)
	}
	name := os.Args[1]
	fn, ok := drivers[name]
	if !ok {
		fmt.Fprintln(os.Stderr, "unknown driver", name)
		os.Exit(2)
	}
	fs := flag.NewFlagSet(name, flag.ExitOnError)
	cfg := &RunCfg{St: map[string]any{}}
	fs.Int64Var(&cfg.Seed, "seed", 1, "PRNG seed")
	fs.IntVar(&cfg.N, "n", 100, "number of cases")
	fs.StringVar(&cfg.Out, "out", "", "Coq case file to write")
	fs.StringVar(&cfg.Stats, "stats", "", "stats JSON file to write")
	fs.StringVar(&cfg.Tier, "tier", "quick", "quick|thorough")
	fs.StringVar(&cfg.Replay, "replay", "", "replay file")
	fs.StringVar(&cfg.Extra, "extra", "", "driver-specific argument")
	_ = fs.Parse(os.Args[2:])
	if err := fn(cfg); err != nil {
		fmt.Fprintln(os.Stderr, "harness:", err)
		os.Exit(3)
	}
	if cfg.Stats != "" {
		b, _ := json.MarshalIndent(cfg.St, "", " ")
		if err := os.WriteFile(cfg.Stats, b, 0o644); err != nil {
			fmt.Fprintln(os.Stderr, "harness:", err)
			os.Exit(3)
		}
	}
}
