(* C01: proofs about Model/Bridge.v. *)
From FRP Require Import Model.Bridge.
From Coq Require Import Lia.
Open Scope Z_scope.

(* ---------- 1. naming and dispatch ---------- *)

Lemma get_work_conn_spec : forall tries pname src dst pool closed c m pool' closed',
  br_get_work_conn tries pname src dst pool closed = (Some (c, m), pool', closed') ->
  sw_name m = pname /\ sw_src m = src /\ sw_dst m = dst /\ In (c, true) pool /\
  (forall x, In x closed' -> In x closed \/ In (x, false) pool).
Proof.
  induction tries as [|k IH]; intros pname src dst pool closed c m pool' closed' H; cbn in H; [discriminate|].
  destruct pool as [|[c0 ok] rest]; [discriminate|].
  destruct ok.
  - injection H as <- <- <- <-. cbn. repeat split; auto.
  - apply IH in H. destruct H as (H1 & H2 & H3 & H4 & H5). repeat split; auto.
    + right. exact H4.
    + intros x Hx. destruct (H5 x Hx) as [[<-|Hc]|Hp]; [right; left; reflexivity|left; exact Hc|right; right; exact Hp].
Qed.

(* no_cross_wiring: whenever a user connection to public endpoint e ends up joined to a backend, that
   backend is the one the client has configured under the NAME of the server proxy owning e, the work
   connection was announced with exactly that name (and with the user's addresses), it came from the
   session's pool, and it was handed to this user only (it left the pool). *)
Theorem no_cross_wiring : forall listeners tbl pc pool e ur ul wr wl c backend m,
  br_bridge listeners tbl pc pool e ur ul wr wl = Some (c, backend, m) ->
  exists p, br_listener e listeners = Some p /\ sw_name m = p /\ br_assoc p tbl = Some backend /\
            sw_src m = Some ur /\ sw_dst m = Some ul /\ In (c, true) pool.
Proof.
  intros listeners tbl pc pool e ur ul wr wl c backend m H. unfold br_bridge in H.
  destruct (br_listener e listeners) as [p|]; [|discriminate]. exists p.
  destruct (br_get_work_conn (S pc) p (Some ur) (Some ul) pool []) as [[[[c' m']|] pool'] closed'] eqn:E; [|discriminate].
  apply get_work_conn_spec in E. destruct E as (H1 & H2 & H3 & H4 & _).
  unfold br_client_dispatch in H. destruct (br_assoc (sw_name m') tbl) as [b|] eqn:Eb; [|discriminate].
  injection H as <- <- <-. rewrite H1 in Eb. auto 10.
Qed.

(* two proxies with different names and different backends are never confused *)
Corollary no_cross_wiring_distinct : forall listeners tbl pc pool e ur ul wr wl c backend m p q bq,
  br_bridge listeners tbl pc pool e ur ul wr wl = Some (c, backend, m) ->
  br_listener e listeners = Some p -> br_assoc q tbl = Some bq -> br_assoc p tbl <> Some bq -> backend <> bq.
Proof.
  intros until bq. intros H Hp Hq Hne Heq. apply no_cross_wiring in H.
  destruct H as (p' & Hp' & _ & Hb & _). rewrite Hp in Hp'. injection Hp' as <-. subst. contradiction.
Qed.

(* ---------- 2. proxy-protocol header ---------- *)

Lemma Z_of_byte_of_Z_mod z : Z_of_byte (byte_of_Z z) = z mod 256.
Proof.
  unfold byte_of_Z, Z_of_byte. pose proof (Z.mod_pos_bound z 256 ltac:(lia)).
  destruct (Byte.of_N (Z.to_N (z mod 256))) eqn:E.
  - apply Byte.to_of_N in E. rewrite E. lia.
  - apply Byte.of_N_None_iff in E. lia.
Qed.

Lemma be2 z : be 2 z = [byte_of_Z (z / 256); byte_of_Z z].
Proof. cbn [be]. change (256 ^ Z.of_nat 1) with 256. change (256 ^ Z.of_nat 0) with 1. rewrite Z.div_1_r. reflexivity. Qed.

Lemma rdu2 z : 0 <= z < 65536 -> rdu [byte_of_Z (z / 256); byte_of_Z z] 0 = z.
Proof.
  intros H. cbn [rdu]. rewrite !Z_of_byte_of_Z_mod.
  rewrite (Z.mod_small (z / 256)) by (split; [apply Z.div_pos; lia|apply Z.div_lt_upper_bound; lia]).
  pose proof (Z.div_mod z 256 ltac:(lia)). lia.
Qed.

Theorem pp2_roundtrip : forall src dst rest, addr_ok src = true -> addr_ok dst = true ->
  pp2_parse (pp_v2 src dst ++ rest) = Some (src, dst, rest).
Proof.
  intros [sip sport] [dip dport] rest Hs Hd. unfold addr_ok in *. cbn [a_ip a_port] in *.
  repeat (apply andb_prop in Hs; destruct Hs as [Hs ?]). repeat (apply andb_prop in Hd; destruct Hd as [Hd ?]).
  destruct sip as [|s1 [|s2 [|s3 [|s4 [|]]]]]; try discriminate.
  destruct dip as [|d1 [|d2 [|d3 [|d4 [|]]]]]; try discriminate.
  cbn [forallb] in *.
  repeat match goal with H : _ && _ = true |- _ => apply andb_prop in H; destruct H end.
  repeat match goal with H : (_ <=? _) = true |- _ => apply Z.leb_le in H | H : (_ <? _) = true |- _ => apply Z.ltb_lt in H end.
  unfold pp_v2, pp2_parse, ip_bytes. cbn [a_ip a_port map].
  rewrite !be2.
  let v := eval vm_compute in pp2_sig in change pp2_sig with v.
  cbn [app firstn skipn bytes_eqb Byte.eqb].
  change (Z_of_byte (byte_of_Z 33) =? 33) with true. change (Z_of_byte (byte_of_Z 17) =? 17) with true.
  change (rdu [byte_of_Z (12 / 256); byte_of_Z 12] 0 =? 12) with true.
  cbn [andb map].
  rewrite !rdu2 by lia. rewrite !Z_of_byte_of_Z_mod. rewrite !Z.mod_small by lia. reflexivity.
Qed.

(* proxy_protocol_header_is_true_source: the header the backend receives is the function of the USER's
   remote and local address that go-proxyproto defines - whatever the work connection's own addresses -
   and (version 2) determines them: parsing it gives the user's true source address back *)
Theorem pp_header_true_source : forall listeners tbl pc pool e ur ul wr wl c backend m,
  br_bridge listeners tbl pc pool e ur ul wr wl = Some (c, backend, m) -> a_port ur <> 0 ->
  br_client_header "" m = PPNone /\
  br_client_header "v1" m = PPHeader (pp_v1 ur ul) /\
  br_client_header "v2" m = PPHeader (pp_v2 ur ul) /\
  (addr_ok ur = true -> addr_ok ul = true -> forall rest, pp2_parse (pp_v2 ur ul ++ rest) = Some (ur, ul, rest)).
Proof.
  intros until m. intros H Hport. apply no_cross_wiring in H.
  destruct H as (p & _ & _ & _ & Hs & Hd & _).
  unfold br_client_header. rewrite Hs, Hd. cbn [String.eqb Ascii.eqb Bool.eqb].
  destruct (a_port ur =? 0) eqn:E; [apply Z.eqb_eq in E; contradiction|].
  repeat split. intros. apply pp2_roundtrip; assumption.
Qed.

(* ---------- 3. sniff and replay ---------- *)

Lemma take_drop n (s : bytes) : take n s ++ drop n s = s.
Proof. apply firstn_skipn. Qed.

Lemma sniff_inv : forall reads st b, sc_buf st = Some b ->
  exists b', sc_buf (sc_sniff st reads) = Some b' /\ b' ++ sc_conn (sc_sniff st reads) = b ++ sc_conn st.
Proof.
  induction reads as [|[p o] r IH]; intros st b Hb; cbn [sc_sniff]; [eauto|].
  unfold sc_tee_read. cbn [snd]. rewrite Hb.
  destruct (IH {| sc_buf := Some (b ++ take (Z.min p o) (sc_conn st)); sc_conn := drop (Z.min p o) (sc_conn st) |}
               (b ++ take (Z.min p o) (sc_conn st)) eq_refl) as (b' & H1 & H2).
  exists b'. split; [exact H1|]. rewrite H2. cbn [sc_conn]. rewrite <- app_assoc, take_drop. reflexivity.
Qed.

Lemma sc_read_inv st p o :
  fst (sc_read st p o) ++ sc_pending (snd (sc_read st p o)) ++ sc_conn (snd (sc_read st p o)) = sc_pending st ++ sc_conn st.
Proof.
  unfold sc_read, sc_pending. destruct (sc_buf st) as [b|].
  - destruct ((blen b =? 0) && (0 <? p)) eqn:E.
    + apply andb_prop in E. destruct E as [E _]. apply Z.eqb_eq in E.
      destruct b; [|unfold blen in E; cbn in E; lia]. cbn. apply take_drop.
    + cbn. rewrite app_assoc, take_drop. reflexivity.
  - cbn. apply take_drop.
Qed.

Lemma sc_reads_inv : forall reads st,
  List.concat (fst (sc_reads st reads)) ++ sc_pending (snd (sc_reads st reads)) ++ sc_conn (snd (sc_reads st reads))
  = sc_pending st ++ sc_conn st.
Proof.
  induction reads as [|[p o] r IH]; intros st; cbn [sc_reads]; [reflexivity|].
  pose proof (sc_read_inv st p o) as H1. destruct (sc_read st p o) as [d st'] eqn:E. cbn [fst snd] in H1.
  specialize (IH st'). destruct (sc_reads st' r) as [ds st'']. cbn [fst snd List.concat] in *.
  rewrite <- app_assoc, IH. exact H1.
Qed.

(* sniffed_prefix_replayed: whatever arrives on the connection, however the sniffer reads (any number
   of reads, any sizes, any segmentation) and however the proxy reads afterwards, the proxy's reads
   return the stream from its very first byte: the bytes consumed by the sniffer come first, nothing is
   lost, duplicated or reordered *)
Theorem sniffed_prefix_replayed : forall incoming sniff reads,
  let r := sc_reads (sc_handover true (sc_sniff (sc_new incoming) sniff)) reads in
  List.concat (fst r) ++ sc_pending (snd r) ++ sc_conn (snd r) = incoming.
Proof.
  intros incoming sniff reads. cbn zeta. unfold sc_handover. rewrite sc_reads_inv.
  destruct (sniff_inv sniff (sc_new incoming) [] eq_refl) as (b' & H1 & H2).
  unfold sc_pending. rewrite H1. exact H2.
Qed.

(* without sharing (tcpmux, passthrough off) exactly the sniffed bytes are dropped, the rest is intact *)
Theorem unshared_drops_only_sniffed : forall incoming sniff reads,
  let s := sc_sniff (sc_new incoming) sniff in
  let r := sc_reads (sc_handover false s) reads in
  sc_pending s ++ List.concat (fst r) ++ sc_pending (snd r) ++ sc_conn (snd r) = incoming.
Proof.
  intros incoming sniff reads. cbn zeta. unfold sc_handover. rewrite sc_reads_inv. cbn [sc_pending sc_buf sc_conn app].
  destruct (sniff_inv sniff (sc_new incoming) [] eq_refl) as (b' & H1 & H2).
  unfold sc_pending. rewrite H1. exact H2.
Qed.

(* ---------- 4. Join and close propagation ---------- *)

Lemma all_inner_cons c W : all_inner (c :: W) = true -> c = CtInner /\ all_inner W = true.
Proof. unfold all_inner. cbn. intros H. apply andb_prop in H. destruct H as [H1 H2]. destruct c; try discriminate. auto. Qed.

Lemma cs_open : forall W, all_inner W = true ->
  close_stack W (repeat false (length W)) (repeat 0 (length W)) = (repeat true (length W), repeat 1 (length W), true).
Proof.
  induction W as [|c W IH]; intros H; [reflexivity|].
  apply all_inner_cons in H. destruct H as [-> H]. cbn. rewrite (IH H). reflexivity.
Qed.

Definition I1 (W : list sk_close) (fl : list bool) (cl : list Z) (bb : Z) : Prop :=
  (fl = repeat false (length W) /\ cl = repeat 0 (length W) /\ bb = 0) \/
  (fl = repeat true (length W) /\ cl = repeat 1 (length W) /\ 1 <= bb /\ (W <> [] -> bb = 1)).

Lemma cs_cases W fl cl bb : all_inner W = true -> I1 W fl cl bb ->
  exists r, close_stack W fl cl = (repeat true (length W), repeat 1 (length W), r) /\
            1 <= bb + (if r then 1 else 0) /\ (W <> [] -> bb + (if r then 1 else 0) = 1).
Proof.
  intros Hall [(-> & -> & ->)|(-> & -> & H1 & H2)].
  - exists true. rewrite (cs_open W Hall). split; [reflexivity|]. lia.
  - destruct W as [|c W].
    + exists true. cbn. split; [reflexivity|]. split; [lia|]. intros H; contradiction.
    + exists false. cbn. split; [reflexivity|]. assert (bb = 1) by (apply H2; discriminate). lia.
Qed.

Definition jinv (W : list sk_close) (st : jstate) : Prop :=
  0 <= j_baseA st /\ I1 W (j_flags st) (j_calls st) (j_baseB st) /\
  match j_x st with JCloseTo => 1 <= j_baseA st | JDone => 1 <= j_baseA st /\ 1 <= j_baseB st | _ => True end /\
  match j_y st with JCloseTo => 1 <= j_baseB st | JDone => 1 <= j_baseA st /\ 1 <= j_baseB st | _ => True end.

Lemma I1_baseB W fl cl bb : I1 W fl cl bb -> 0 <= bb.
Proof. intros [(_ & _ & ->)|(_ & _ & H & _)]; lia. Qed.

Lemma closeB_spec W st : all_inner W = true -> I1 W (j_flags st) (j_calls st) (j_baseB st) ->
  let st' := close_B W st in
  I1 W (j_flags st') (j_calls st') (j_baseB st') /\ 1 <= j_baseB st' /\ j_baseB st <= j_baseB st' /\
  j_baseA st' = j_baseA st /\ j_x st' = j_x st /\ j_y st' = j_y st /\ j_peerA st' = j_peerA st /\ j_peerB st' = j_peerB st.
Proof.
  intros Hall HI. pose proof (I1_baseB _ _ _ _ HI) as Hnn.
  destruct (cs_cases W _ _ _ Hall HI) as (r & Hcs & H1 & H2).
  unfold close_B. rewrite Hcs. cbn. repeat split; try lia; try (destruct r; lia).
  right. auto.
Qed.

Lemma jinv_init W : jinv W (j_init W).
Proof. unfold jinv, j_init. cbn. repeat split; try lia. left. auto. Qed.

Lemma jinv_step W st e : all_inner W = true -> jinv W st -> jinv W (j_step W st e).
Proof.
  intros Hall (HA & HI & HX & HY). pose proof (closeB_spec W st Hall HI) as HB. cbn zeta in HB.
  destruct HB as (B1 & B2 & B3 & B4 & B5 & B6 & B7 & B8).
  pose proof (I1_baseB _ _ _ _ HI) as Hnn.
  destruct e; unfold j_step.
  - unfold jinv. cbn. auto.
  - unfold jinv. cbn. auto.
  - destruct (x_enabled st); [|unfold jinv; auto].
    destruct (j_x st) eqn:Ex; unfold jinv; cbn.
    + repeat split; auto.
    + repeat split; try lia; auto. destruct (j_y st); try lia; auto.
    + rewrite B4, B6. repeat split; try lia; auto. destruct (j_y st); try lia; auto.
    + rewrite Ex. auto.
  - destruct (y_enabled st); [|unfold jinv; auto].
    destruct (j_y st) eqn:Ey; unfold jinv; cbn.
    + repeat split; auto.
    + rewrite B4, B5. repeat split; try lia; auto. destruct (j_x st); try lia; auto.
    + repeat split; try lia; auto. destruct (j_x st); try lia; auto.
    + rewrite Ey. auto.
Qed.

Lemma jinv_run W : all_inner W = true -> forall sched st, jinv W st -> jinv W (j_run W sched st).
Proof.
  intros Hall sched. induction sched as [|e r IH]; intros st H; cbn; [exact H|].
  apply IH, jinv_step; assumption.
Qed.

(* one step of a copy goroutine *)
Definition x_step_post (st st' : jstate) : Prop :=
  match j_x st with
  | JCopy => if x_enabled st then j_x st' = JCloseFrom else st' = st
  | JCloseFrom => j_x st' = JCloseTo
  | JCloseTo => j_x st' = JDone
  | JDone => st' = st
  end.
Definition y_step_post (st st' : jstate) : Prop :=
  match j_y st with
  | JCopy => if y_enabled st then j_y st' = JCloseFrom else st' = st
  | JCloseFrom => j_y st' = JCloseTo
  | JCloseTo => j_y st' = JDone
  | JDone => st' = st
  end.

Lemma x_step_spec W st : all_inner W = true -> jinv W st ->
  let st' := j_step W st EvX in
  jinv W st' /\ j_y st' = j_y st /\ j_peerA st' = j_peerA st /\ j_peerB st' = j_peerB st /\
  j_baseA st <= j_baseA st' /\ j_baseB st <= j_baseB st' /\ x_step_post st st'.
Proof.
  intros Hall Hinv. cbn zeta. split; [apply jinv_step; assumption|].
  destruct Hinv as (HA & HI & HX & HY).
  pose proof (closeB_spec W st Hall HI) as HB. cbn zeta in HB.
  destruct HB as (B1 & B2 & B3 & B4 & B5 & B6 & B7 & B8).
  unfold x_step_post, j_step, x_enabled.
  destruct (j_x st) eqn:Ex.
  - destruct (j_peerA st || (0 <? j_baseA st)); cbn; repeat split; auto; lia.
  - cbn. repeat split; auto; lia.
  - cbn. rewrite B6, B7, B8, B4. repeat split; auto; lia.
  - repeat split; auto; lia.
Qed.

Lemma y_step_spec W st : all_inner W = true -> jinv W st ->
  let st' := j_step W st EvY in
  jinv W st' /\ j_x st' = j_x st /\ j_peerA st' = j_peerA st /\ j_peerB st' = j_peerB st /\
  j_baseA st <= j_baseA st' /\ j_baseB st <= j_baseB st' /\ y_step_post st st'.
Proof.
  intros Hall Hinv. cbn zeta. split; [apply jinv_step; assumption|].
  destruct Hinv as (HA & HI & HX & HY).
  pose proof (closeB_spec W st Hall HI) as HB. cbn zeta in HB.
  destruct HB as (B1 & B2 & B3 & B4 & B5 & B6 & B7 & B8).
  unfold y_step_post, j_step, y_enabled.
  destruct (j_y st) eqn:Ey.
  - destruct (j_peerB st || (0 <? j_baseB st)); cbn; repeat split; auto; lia.
  - cbn. rewrite B5, B7, B8, B4. repeat split; auto; lia.
  - cbn. repeat split; auto; lia.
  - repeat split; auto; lia.
Qed.

(* burst of one thread: three steps finish it if it can move at all *)
Lemma x_burst W st : all_inner W = true -> jinv W st ->
  let st' := j_run W [EvX; EvX; EvX] st in
  jinv W st' /\ j_y st' = j_y st /\ j_peerA st' = j_peerA st /\ j_peerB st' = j_peerB st /\
  j_baseA st <= j_baseA st' /\ j_baseB st <= j_baseB st' /\
  (j_x st = JDone -> j_x st' = JDone) /\
  (j_x st <> JCopy \/ x_enabled st = true -> j_x st' = JDone).
Proof.
  intros Hall Hinv. cbn zeta. unfold j_run. cbn [fold_left].
  set (s1 := j_step W st EvX). set (s2 := j_step W s1 EvX). set (s3 := j_step W s2 EvX).
  destruct (x_step_spec W st Hall Hinv) as (I1' & Y1 & PA1 & PB1 & A1 & B1 & P1). fold s1 in I1', Y1, PA1, PB1, A1, B1, P1.
  destruct (x_step_spec W s1 Hall I1') as (I2' & Y2 & PA2 & PB2 & A2 & B2 & P2). fold s2 in I2', Y2, PA2, PB2, A2, B2, P2.
  destruct (x_step_spec W s2 Hall I2') as (I3' & Y3 & PA3 & PB3 & A3 & B3 & P3). fold s3 in I3', Y3, PA3, PB3, A3, B3, P3.
  split; [exact I3'|]. split; [congruence|]. split; [congruence|]. split; [congruence|].
  split; [lia|]. split; [lia|].
  unfold x_step_post in *.
  destruct (j_x st) eqn:E0.
  - destruct (x_enabled st) eqn:En.
    + rewrite P1 in P2. rewrite P2 in P3. split; [discriminate|auto].
    + rewrite P1 in *. rewrite E0, En in P2. rewrite P2 in *. rewrite E0, En in P3.
      split; [discriminate|]. intros [H|H]; congruence.
  - rewrite P1 in P2. rewrite P2 in P3. rewrite P3. rewrite P2. auto.
  - rewrite P1 in P2. rewrite P2 in *. rewrite P1 in P3. rewrite P3. auto.
  - rewrite P1 in *. rewrite E0 in P2. rewrite P2 in *. rewrite E0 in P3. rewrite P3. auto.
Qed.

Lemma y_burst W st : all_inner W = true -> jinv W st ->
  let st' := j_run W [EvY; EvY; EvY] st in
  jinv W st' /\ j_x st' = j_x st /\ j_peerA st' = j_peerA st /\ j_peerB st' = j_peerB st /\
  j_baseA st <= j_baseA st' /\ j_baseB st <= j_baseB st' /\
  (j_y st = JDone -> j_y st' = JDone) /\
  (j_y st <> JCopy \/ y_enabled st = true -> j_y st' = JDone).
Proof.
  intros Hall Hinv. cbn zeta. unfold j_run. cbn [fold_left].
  set (s1 := j_step W st EvY). set (s2 := j_step W s1 EvY). set (s3 := j_step W s2 EvY).
  destruct (y_step_spec W st Hall Hinv) as (I1' & Y1 & PA1 & PB1 & A1 & B1 & P1). fold s1 in I1', Y1, PA1, PB1, A1, B1, P1.
  destruct (y_step_spec W s1 Hall I1') as (I2' & Y2 & PA2 & PB2 & A2 & B2 & P2). fold s2 in I2', Y2, PA2, PB2, A2, B2, P2.
  destruct (y_step_spec W s2 Hall I2') as (I3' & Y3 & PA3 & PB3 & A3 & B3 & P3). fold s3 in I3', Y3, PA3, PB3, A3, B3, P3.
  split; [exact I3'|]. split; [congruence|]. split; [congruence|]. split; [congruence|].
  split; [lia|]. split; [lia|].
  unfold y_step_post in *.
  destruct (j_y st) eqn:E0.
  - destruct (y_enabled st) eqn:En.
    + rewrite P1 in P2. rewrite P2 in P3. split; [discriminate|auto].
    + rewrite P1 in *. rewrite E0, En in P2. rewrite P2 in *. rewrite E0, En in P3.
      split; [discriminate|]. intros [H|H]; congruence.
  - rewrite P1 in P2. rewrite P2 in P3. rewrite P3. rewrite P2. auto.
  - rewrite P1 in P2. rewrite P2 in *. rewrite P1 in P3. rewrite P3. auto.
  - rewrite P1 in *. rewrite E0 in P2. rewrite P2 in *. rewrite E0 in P3. rewrite P3. auto.
Qed.

Section Close.
  Variable W : list sk_close.
  Hypothesis Hall : all_inner W = true.

  Definition reachable (st : jstate) : Prop := exists sched, st = j_run W sched (j_init W).

  Lemma reachable_inv st : reachable st -> jinv W st.
  Proof. intros [sched ->]. apply jinv_run; [exact Hall|apply jinv_init]. Qed.

  (* each wrapper's close function runs at most once, and all of them have run exactly once (the limiter's
     among them: the inner connection is closed through it exactly once) as soon as B is closed *)
  Theorem close_once : forall st, reachable st ->
    Forall (fun n => 0 <= n <= 1) (j_calls st) /\
    (1 <= j_baseB st -> j_calls st = repeat 1 (length W) /\ (W <> [] -> j_baseB st = 1)) /\
    (j_baseB st = 0 -> j_calls st = repeat 0 (length W)).
  Proof.
    intros st Hr. destruct (reachable_inv st Hr) as (_ & HI & _).
    destruct HI as [(_ & -> & ->)|(_ & -> & H1 & H2)].
    - split; [apply Forall_forall; intros x Hx; apply repeat_spec in Hx; lia|]. split; [lia|auto].
    - split; [apply Forall_forall; intros x Hx; apply repeat_spec in Hx; lia|]. split; [auto|lia].
  Qed.

  (* once both copy goroutines are done both underlying connections have been closed *)
  Theorem done_closed : forall st, reachable st -> j_all_done st = true -> 1 <= j_baseA st /\ 1 <= j_baseB st.
  Proof.
    intros st Hr Hd. destruct (reachable_inv st Hr) as (_ & _ & HX & _).
    unfold j_all_done in Hd. destruct (j_x st); try discriminate. exact HX.
  Qed.

  (* no stuck state: after either direction has ended (or either remote peer has closed), as long as Join
     has not returned some goroutine can take its next step ... *)
  Theorem close_not_stuck : forall st, reachable st -> j_triggered st = true -> j_all_done st = false ->
    x_enabled st = true \/ y_enabled st = true.
  Proof.
    intros st Hr Ht Hd. destruct (reachable_inv st Hr) as (HA & HI & HX & HY).
    unfold j_triggered, j_all_done, x_enabled, y_enabled in *.
    destruct (j_x st) eqn:Ex, (j_y st) eqn:Ey; try discriminate; auto.
    - destruct (j_peerA st), (j_peerB st); cbn in *; auto; discriminate.
    - left. destruct HY as [HY _]. assert (E : (0 <? j_baseA st) = true) by (apply Z.ltb_lt; lia).
      rewrite E. apply orb_true_r.
    - right. destruct HX as [_ HX]. assert (E : (0 <? j_baseB st) = true) by (apply Z.ltb_lt; lia).
      rewrite E. apply orb_true_r.
  Qed.

  (* ... every step of an enabled goroutine strictly decreases a measure bounded by 6 ... *)
  Theorem close_progress : forall st, reachable st ->
    (x_enabled st = true -> j_remaining (j_step W st EvX) = j_remaining st - 1) /\
    (y_enabled st = true -> j_remaining (j_step W st EvY) = j_remaining st - 1) /\
    0 <= j_remaining st <= 6 /\ (j_remaining st = 0 <-> j_all_done st = true).
  Proof.
    intros st Hr. pose proof (reachable_inv st Hr) as Hinv.
    destruct (x_step_spec W st Hall Hinv) as (_ & Y1 & _ & _ & _ & _ & P1).
    destruct (y_step_spec W st Hall Hinv) as (_ & X1 & _ & _ & _ & _ & P2).
    unfold x_step_post, y_step_post, j_remaining, j_all_done in *.
    split; [|split; [|split]].
    - intros En. rewrite Y1. rewrite En in P1. unfold x_enabled in En. generalize (j_rank (j_y st)); intros ry.
      destruct (j_x st); try discriminate; rewrite P1; cbn [j_rank]; lia.
    - intros En. rewrite X1. rewrite En in P2. unfold y_enabled in En. generalize (j_rank (j_x st)); intros rx.
      destruct (j_y st); try discriminate; rewrite P2; cbn [j_rank]; lia.
    - destruct (j_x st), (j_y st); cbn [j_rank]; lia.
    - destruct (j_x st), (j_y st); cbn [j_rank]; split; intros; try lia; try discriminate; reflexivity.
  Qed.

  (* ... and concretely: from ANY reachable state in which a direction has ended, nine goroutine steps
     (whatever happened before, whichever side ended first) bring Join to its end with both underlying
     connections closed *)
  Theorem close_propagates_bounded : forall st, reachable st -> j_triggered st = true ->
    let st' := j_run W j_drain st in
    j_all_done st' = true /\ 1 <= j_baseA st' /\ 1 <= j_baseB st'.
  Proof.
    intros st Hr Ht. cbn zeta.
    assert (Hsplit : j_run W j_drain st = j_run W [EvX; EvX; EvX] (j_run W [EvY; EvY; EvY] (j_run W [EvX; EvX; EvX] st))).
    { unfold j_run, j_drain.
      change [EvX; EvX; EvX; EvY; EvY; EvY; EvX; EvX; EvX] with ([EvX; EvX; EvX] ++ [EvY; EvY; EvY] ++ [EvX; EvX; EvX]).
      rewrite !fold_left_app. reflexivity. }
    rewrite Hsplit. clear Hsplit.
    pose proof (reachable_inv st Hr) as Hinv.
    destruct (x_burst W st Hall Hinv) as (I1' & Y1 & PA1 & PB1 & A1 & B1 & D1 & G1). cbn zeta in *.
    set (s1 := j_run W [EvX; EvX; EvX] st) in *.
    destruct (y_burst W s1 Hall I1') as (I2' & X2 & PA2 & PB2 & A2 & B2 & D2 & G2). cbn zeta in *.
    set (s2 := j_run W [EvY; EvY; EvY] s1) in *.
    destruct (x_burst W s2 Hall I2') as (I3' & Y3 & PA3 & PB3 & A3 & B3 & D3 & G3). cbn zeta in *.
    set (s3 := j_run W [EvX; EvX; EvX] s2) in *.
    assert (Hdone : j_x s3 = JDone /\ j_y s3 = JDone).
    { rewrite Y3.
      destruct Hinv as (HA & HI & HX & HY).
      assert (Hx_can : j_x st <> JCopy \/ x_enabled st = true -> j_x s3 = JDone /\ j_y s2 = JDone).
      { intros Hc. specialize (G1 Hc).
        assert (j_x s2 = JDone) by congruence. split; [apply D3; assumption|].
        (* x done in s1: base B closed, so y can move *)
        destruct I1' as (_ & _ & HX1 & _). rewrite G1 in HX1.
        apply G2. destruct (j_y s1) eqn:Ey1; [right|left; discriminate|left; discriminate|left; discriminate].
        unfold y_enabled. rewrite Ey1.
        assert (E : (0 <? j_baseB s1) = true) by (apply Z.ltb_lt; lia). rewrite E. apply orb_true_r. }
      destruct (j_x st) eqn:Ex.
      - destruct (x_enabled st) eqn:En; [apply Hx_can; auto|].
        (* x cannot move yet: the trigger is on y's side *)
        unfold x_enabled in En. rewrite Ex in En. apply orb_false_elim in En. destruct En as [EpA EbA].
        assert (Hy_can : j_y s1 <> JCopy \/ y_enabled s1 = true).
        { unfold j_triggered in Ht. rewrite Ex, EpA in Ht. cbn in Ht.
          destruct (j_y st) eqn:Ey.
          - right. unfold y_enabled. rewrite Y1, PB1. destruct (j_peerB st); cbn in Ht |- *; [reflexivity|discriminate].
          - left. rewrite Y1. discriminate.
          - left. rewrite Y1. discriminate.
          - left. rewrite Y1. discriminate. }
        specialize (G2 Hy_can). split; [|exact G2].
        apply G3. destruct (j_x s2) eqn:Ex2; [right|left; discriminate|left; discriminate|left; discriminate].
        destruct I2' as (_ & _ & _ & HY2). rewrite G2 in HY2.
        unfold x_enabled. rewrite Ex2.
        assert (E : (0 <? j_baseA s2) = true) by (apply Z.ltb_lt; lia). rewrite E. apply orb_true_r.
      - apply Hx_can. left. discriminate.
      - apply Hx_can. left. discriminate.
      - apply Hx_can. left. discriminate. }
    destruct Hdone as [Dx Dy].
    split; [unfold j_all_done; rewrite Dx, Dy; reflexivity|].
    destruct I3' as (_ & _ & HX3 & _). rewrite Dx in HX3. exact HX3.
  Qed.
End Close.

Theorem close_propagates_all : forall W, all_inner W = true -> forall st, reachable W st ->
  (Forall (fun n => 0 <= n <= 1) (j_calls st) /\
   (1 <= j_baseB st -> j_calls st = repeat 1 (length W) /\ (W <> [] -> j_baseB st = 1)) /\
   (j_baseB st = 0 -> j_calls st = repeat 0 (length W))) /\
  (j_all_done st = true -> 1 <= j_baseA st /\ 1 <= j_baseB st) /\
  (j_triggered st = true -> j_all_done st = false -> x_enabled st = true \/ y_enabled st = true) /\
  ((x_enabled st = true -> j_remaining (j_step W st EvX) = j_remaining st - 1) /\
   (y_enabled st = true -> j_remaining (j_step W st EvY) = j_remaining st - 1) /\
   0 <= j_remaining st <= 6 /\ (j_remaining st = 0 <-> j_all_done st = true)) /\
  (j_triggered st = true ->
   j_all_done (j_run W j_drain st) = true /\ 1 <= j_baseA (j_run W j_drain st) /\ 1 <= j_baseB (j_run W j_drain st)).
Proof.
  intros W Hall st Hr.
  pose proof (close_once W Hall st Hr) as H1. pose proof (done_closed W Hall st Hr) as H2.
  pose proof (close_not_stuck W Hall st Hr) as H3. pose proof (close_progress W Hall st Hr) as H4.
  pose proof (close_propagates_bounded W Hall st Hr) as H5. cbv zeta in H5.
  split; [exact H1|]. split; [exact H2|]. split; [exact H3|]. split; [exact H4|exact H5].
Qed.

(* ---------- 5. end to end: two Joins linked by the transport ---------- *)

Lemma closeB_keeps W st :
  j_peerA (close_B W st) = j_peerA st /\ j_peerB (close_B W st) = j_peerB st /\
  j_x (close_B W st) = j_x st /\ j_y (close_B W st) = j_y st.
Proof. unfold close_B. destruct (close_stack W (j_flags st) (j_calls st)) as [[? ?] ?]. cbn. auto. Qed.

Lemma trig_x st : j_x st <> JCopy -> j_triggered st = true.
Proof. unfold j_triggered. destruct (j_x st); [congruence| | |]; intros _; destruct (j_peerA st), (j_peerB st); reflexivity. Qed.
Lemma trig_y st : j_y st <> JCopy -> j_triggered st = true.
Proof.
  unfold j_triggered. destruct (j_y st); [congruence| | |]; intros _;
    destruct (j_peerA st), (j_peerB st), (j_x st); reflexivity.
Qed.
Lemma trig_peerB st : j_peerB st = true -> j_triggered st = true.
Proof. unfold j_triggered. intros ->. destruct (j_peerA st); reflexivity. Qed.

Lemma triggered_step W st e : j_triggered st = true -> j_triggered (j_step W st e) = true.
Proof.
  intros H. destruct (closeB_keeps W st) as (K1 & K2 & K3 & K4).
  destruct e; unfold j_step.
  - unfold j_triggered. reflexivity.
  - apply trig_peerB. reflexivity.
  - destruct (x_enabled st); [|exact H].
    destruct (j_x st) eqn:Ex; try (apply trig_x; cbn; discriminate). exact H.
  - destruct (y_enabled st); [|exact H].
    destruct (j_y st) eqn:Ey; try (apply trig_y; cbn; discriminate). exact H.
Qed.

Lemma triggered_run W : forall l st, j_triggered st = true -> j_triggered (j_run W l st) = true.
Proof. induction l as [|e l IH]; intros st H; cbn; [exact H|]. apply IH, triggered_step, H. Qed.

Lemma done_step W st e : j_all_done st = true ->
  j_all_done (j_step W st e) = true /\ j_baseA (j_step W st e) = j_baseA st /\ j_baseB (j_step W st e) = j_baseB st.
Proof.
  unfold j_all_done. destruct (j_x st) eqn:Ex; try discriminate. destruct (j_y st) eqn:Ey; try discriminate. intros _.
  destruct e; unfold j_step, x_enabled, y_enabled; rewrite ?Ex, ?Ey; cbn; rewrite ?Ex, ?Ey; auto.
Qed.

Lemma done_run W : forall l st, j_all_done st = true ->
  j_all_done (j_run W l st) = true /\ j_baseA (j_run W l st) = j_baseA st /\ j_baseB (j_run W l st) = j_baseB st.
Proof.
  induction l as [|e l IH]; intros st H; cbn; [auto|].
  destruct (done_step W st e H) as (H1 & H2 & H3). destruct (IH _ H1) as (G1 & G2 & G3).
  unfold j_run in *. rewrite G2, G3. auto.
Qed.

Lemma reachable_step W st e : reachable W st -> reachable W (j_step W st e).
Proof. intros [s ->]. exists (s ++ [e]). unfold j_run. rewrite fold_left_app. reflexivity. Qed.

Lemma reachable_run W : forall l st, reachable W st -> reachable W (j_run W l st).
Proof. induction l as [|e l IH]; intros st H; cbn; [exact H|]. apply IH, reachable_step, H. Qed.

Definition e2e_reach (Ws Wc : list sk_close) (st : e2e) : Prop := reachable Ws (e_srv st) /\ reachable Wc (e_cli st).

Lemma e2e_reach_step sig Ws Wc st e : e2e_reach Ws Wc st -> e2e_reach Ws Wc (e2e_step sig Ws Wc st e).
Proof.
  intros [Hs Hc]. destruct e; unfold e2e_step, e2e_reach; cbn [e_srv e_cli];
    try (split; [try apply reachable_step; assumption|try apply reachable_step; assumption]).
  destruct sig; [|split; assumption]. cbn [e_srv e_cli]. split.
  - destruct (0 <? j_baseB (e_cli st)); [apply reachable_step|]; assumption.
  - destruct (0 <? j_baseB (e_srv st)); [apply reachable_step|]; assumption.
Qed.

Lemma e2e_reach_run sig Ws Wc : forall l st, e2e_reach Ws Wc st -> e2e_reach Ws Wc (e2e_run sig Ws Wc l st).
Proof. induction l as [|e l IH]; intros st H; cbn; [exact H|]. apply IH, e2e_reach_step, H. Qed.

Lemma e2e_reach_init Ws Wc : e2e_reach Ws Wc (e2e_init Ws Wc).
Proof. split; exists []; reflexivity. Qed.

Lemma run_srv_drain sig Ws Wc st :
  e2e_run sig Ws Wc srv_drain st = {| e_srv := j_run Ws j_drain (e_srv st); e_cli := e_cli st |}.
Proof. unfold e2e_run, srv_drain, j_run, j_drain. cbn [fold_left e2e_step e_srv e_cli]. reflexivity. Qed.
Lemma run_cli_drain sig Ws Wc st :
  e2e_run sig Ws Wc cli_drain st = {| e_srv := e_srv st; e_cli := j_run Wc j_drain (e_cli st) |}.
Proof. unfold e2e_run, cli_drain, j_run, j_drain. cbn [fold_left e2e_step e_srv e_cli]. reflexivity. Qed.

Definition e2e_closed (st : e2e) : Prop :=
  j_all_done (e_srv st) = true /\ j_all_done (e_cli st) = true /\
  1 <= j_baseA (e_srv st) /\ 1 <= j_baseB (e_srv st) /\ 1 <= j_baseA (e_cli st) /\ 1 <= j_baseB (e_cli st).

(* close propagation end to end, PARTIAL: over a transport with close signalling, from any reachable
   state of the two Joins in which a direction has ended on either side (user closed, backend closed,
   ...), a bounded number of steps closes the user connection, both ends of the work connection and the
   backend connection, and ends both Joins *)
Theorem e2e_close_partial : forall Ws Wc, all_inner Ws = true -> all_inner Wc = true ->
  forall sched, let st := e2e_run true Ws Wc sched (e2e_init Ws Wc) in
  j_triggered (e_srv st) = true \/ j_triggered (e_cli st) = true ->
  e2e_closed (e2e_run true Ws Wc e2e_drain st).
Proof.
  intros Ws Wc Hs Hc sched st Ht.
  assert (Hreach : e2e_reach Ws Wc st) by (apply e2e_reach_run, e2e_reach_init).
  clearbody st. destruct Hreach as [Rs Rc].
  unfold e2e_drain, e2e_run. rewrite !fold_left_app.
  fold (e2e_run true Ws Wc srv_drain st). rewrite run_srv_drain.
  set (srv1 := j_run Ws j_drain (e_srv st)).
  assert (R1 : reachable Ws srv1) by (apply reachable_run, Rs).
  cbn [fold_left e2e_step e_srv e_cli].
  set (srv2 := if 0 <? j_baseB (e_cli st) then j_step Ws srv1 EvPeerB else srv1).
  set (cli2 := if 0 <? j_baseB srv1 then j_step Wc (e_cli st) EvPeerB else e_cli st).
  assert (R2s : reachable Ws srv2) by (unfold srv2; destruct (0 <? j_baseB (e_cli st)); [apply reachable_step|]; exact R1).
  assert (R2c : reachable Wc cli2) by (unfold cli2; destruct (0 <? j_baseB srv1); [apply reachable_step|]; exact Rc).
  assert (T2 : j_triggered cli2 = true).
  { destruct Ht as [Ht|Ht].
    - destruct (close_propagates_bounded Ws Hs (e_srv st) Rs Ht) as (_ & _ & Hb). fold srv1 in Hb.
      unfold cli2. assert (E : (0 <? j_baseB srv1) = true) by (apply Z.ltb_lt; lia). rewrite E.
      apply trig_peerB. reflexivity.
    - unfold cli2. destruct (0 <? j_baseB srv1); [apply triggered_step|]; exact Ht. }
  fold (e2e_run true Ws Wc cli_drain {| e_srv := srv2; e_cli := cli2 |}). rewrite run_cli_drain. cbn [e_srv e_cli].
  set (cli3 := j_run Wc j_drain cli2).
  destruct (close_propagates_bounded Wc Hc cli2 R2c T2) as (D3 & A3 & B3). fold cli3 in D3, A3, B3.
  cbn [fold_left e2e_step e_srv e_cli].
  assert (E3 : (0 <? j_baseB cli3) = true) by (apply Z.ltb_lt; lia). rewrite E3.
  set (srv4 := j_step Ws srv2 EvPeerB).
  set (cli4 := if 0 <? j_baseB srv2 then j_step Wc cli3 EvPeerB else cli3).
  assert (R4 : reachable Ws srv4) by (apply reachable_step, R2s).
  assert (T4 : j_triggered srv4 = true) by (apply trig_peerB; reflexivity).
  assert (D4 : j_all_done cli4 = true /\ j_baseA cli4 = j_baseA cli3 /\ j_baseB cli4 = j_baseB cli3).
  { unfold cli4. destruct (0 <? j_baseB srv2); [apply done_step, D3|auto]. }
  fold (e2e_run true Ws Wc srv_drain {| e_srv := srv4; e_cli := cli4 |}). rewrite run_srv_drain. cbn [e_srv e_cli].
  destruct (close_propagates_bounded Ws Hs srv4 R4 T4) as (D5 & A5 & B5).
  destruct D4 as (D4 & A4 & B4).
  unfold e2e_closed. cbn [e_srv e_cli]. repeat split; try assumption; lia.
Qed.

(* ... and REFUTED without close signalling (kcp without tcpMux): whatever happens on the user's side and
   in frps, for every schedule in which the backend itself does not close, frpc's Join stays in its
   initial state: the backend connection is never closed *)
Theorem e2e_close_nosignal_refuted_cli : forall Ws Wc sched, forallb not_backend_close sched = true ->
  e_cli (e2e_run false Ws Wc sched (e2e_init Ws Wc)) = j_init Wc.
Proof.
  intros Ws Wc sched. unfold e2e_run.
  assert (G : forall st, e_cli st = j_init Wc -> forallb not_backend_close sched = true ->
              e_cli (fold_left (e2e_step false Ws Wc) sched st) = j_init Wc).
  { induction sched as [|e l IH]; intros st H Hf; cbn [fold_left]; [exact H|].
    cbn [forallb] in Hf. apply andb_prop in Hf. destruct Hf as [He Hl].
    apply IH; [|exact Hl].
    destruct e; cbn [e2e_step e_cli]; try exact H; try discriminate; rewrite H; reflexivity. }
  intros Hf. apply G; [reflexivity|exact Hf].
Qed.

(* symmetric: if the backend closes, the user connection is never closed by frps *)
Theorem e2e_close_nosignal_refuted_srv : forall Ws Wc sched, forallb not_user_close sched = true ->
  e_srv (e2e_run false Ws Wc sched (e2e_init Ws Wc)) = j_init Ws.
Proof.
  intros Ws Wc sched. unfold e2e_run.
  assert (G : forall st, e_srv st = j_init Ws -> forallb not_user_close sched = true ->
              e_srv (fold_left (e2e_step false Ws Wc) sched st) = j_init Ws).
  { induction sched as [|e l IH]; intros st H Hf; cbn [fold_left]; [exact H|].
    cbn [forallb] in Hf. apply andb_prop in Hf. destruct Hf as [He Hl].
    apply IH; [|exact Hl].
    destruct e; cbn [e2e_step e_srv]; try exact H; try discriminate; rewrite H; reflexivity. }
  intros Hf. apply G; [reflexivity|exact Hf].
Qed.

(* ---------- 6. muxer: response before hand-off ---------- *)

Lemma resp_bytes_nil R p : existsb is_resp p = false -> resp_bytes R p = [].
Proof.
  induction p as [|o p IH]; cbn; [reflexivity|]. destruct o; cbn; try discriminate; exact IH.
Qed.

Definition mh_inv (R : bytes) (p0 : list mux_op) (bs : list bytes) (st : mh_state) : Prop :=
  (mh_handed st = false /\ mh_chunks st = bs /\ mh_out st ++ resp_bytes R (mh_prog st) = resp_bytes R p0 /\
   resp_before_handoff (mh_prog st) = true) \/
  (mh_handed st = true /\ existsb is_resp (mh_prog st) = false /\
   mh_out st ++ List.concat (mh_chunks st) = resp_bytes R p0 ++ List.concat bs).

Lemma mh_inv_step R p0 bs st t : mh_inv R p0 bs st -> mh_inv R p0 bs (mh_step R st t).
Proof.
  intros [(Hh & Hc & Ho & Hr)|(Hh & Hr & Ho)]; destruct t; unfold mh_step.
  - destruct (mh_prog st) as [|o r] eqn:Ep; [left; rewrite Ep; auto|].
    destruct o; cbn [resp_before_handoff resp_bytes] in *.
    + left. cbn. repeat split; auto. rewrite <- app_assoc. exact Ho.
    + right. cbn. apply Bool.negb_true_iff in Hr. split; [reflexivity|]. split; [exact Hr|].
      rewrite (resp_bytes_nil R r Hr), app_nil_r in Ho. rewrite Ho, Hc. reflexivity.
    + left. cbn. auto.
  - rewrite Hh. left. auto.
  - destruct (mh_prog st) as [|o r] eqn:Ep; [right; rewrite Ep; auto|].
    cbn [existsb] in Hr. apply Bool.orb_false_iff in Hr. destruct Hr as [Ho' Hr].
    destruct o; cbn in Ho'; try discriminate; right; cbn; auto.
  - rewrite Hh. destruct (mh_chunks st) as [|c r] eqn:Ec; [right; rewrite Ec; auto|].
    right. cbn. split; [reflexivity|]. split; [exact Hr|].
    cbn [List.concat] in Ho. rewrite <- app_assoc. exact Ho.
Qed.

(* tcpmux_response_precedes_payload: if the muxer's program writes its answer only before the hand-off then,
   for ALL schedules of the muxer goroutine and the proxy goroutine and all backend chunks, what the user has
   received at any moment is a prefix of  answer ++ backend bytes: nothing reordered, nothing injected *)
Theorem mux_response_precedes_payload : forall R p bs sched,
  resp_before_handoff p = true ->
  exists rest, resp_bytes R p ++ List.concat bs = mh_out (mh_run R sched (mh_init p bs)) ++ rest.
Proof.
  intros R p bs sched Hp.
  assert (G : forall st, mh_inv R p bs st -> mh_inv R p bs (mh_run R sched st)).
  { unfold mh_run. induction sched as [|t l IH]; intros st H; cbn; [exact H|]. apply IH, mh_inv_step, H. }
  assert (H0 : mh_inv R p bs (mh_init p bs)) by (left; cbn; auto).
  destruct (G _ H0) as [(_ & _ & Ho & _)|(_ & _ & Ho)].
  - eexists. rewrite <- Ho, <- app_assoc. reflexivity.
  - eexists. symmetry. exact Ho.
Qed.

(* ---------- 7. yamux close drain ---------- *)

Theorem close_drain_complete : forall timeout_ms rate window inflight,
  0 < rate -> 0 <= inflight <= window -> window * 1000 <= rate * timeout_ms ->
  drain_delivered timeout_ms rate inflight = inflight.
Proof.
  intros T r W n Hr Hn HW. unfold drain_delivered, drain_ms.
  assert (H : (n * 1000 + r - 1) / r <= T).
  { apply Z.lt_succ_r. apply Z.div_lt_upper_bound; [exact Hr|]. nia. }
  apply Z.leb_le in H. rewrite H. reflexivity.
Qed.

Theorem close_drain_truncated : forall timeout_ms rate inflight,
  0 < rate -> 0 <= timeout_ms -> timeout_ms < drain_ms inflight rate ->
  drain_delivered timeout_ms rate inflight < inflight.
Proof.
  intros T r n Hr HT H. unfold drain_delivered. destruct (drain_ms n r <=? T) eqn:E; [apply Z.leb_le in E; lia|].
  unfold drain_ms in H.
  assert (H1 : (T + 1) * r <= n * 1000 + r - 1).
  { assert (T + 1 <= (n * 1000 + r - 1) / r) by lia.
    pose proof (Z.mul_div_le (n * 1000 + r - 1) r Hr). nia. }
  apply Z.div_lt_upper_bound; [lia|]. nia.
Qed.

Lemma default_close_drain : forall rate inflight, 20972 <= rate -> 0 <= inflight <= 6291456 ->
  drain_delivered 300000 rate inflight = inflight.
Proof. intros rate inflight Hr Hi. apply (close_drain_complete 300000 rate 6291456 inflight); lia. Qed.
