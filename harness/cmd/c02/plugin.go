package main

// driver plugin: the four client plugins created through the real constructors
// (plugin.Create), fed with accepted TCP connections the way client/proxy/proxy.go feeds them
// (ConnectionInfo), a raw-socket user in front (TLS for https2*), raw echoing backends behind
// (TLS for *2https).

import (
	"context"
	"crypto/tls"
	"fmt"
	"net"
	"strings"
	"time"

	libio "github.com/fatedier/golib/io"

	v1 "github.com/fatedier/frp/pkg/config/v1"
	"github.com/fatedier/frp/pkg/util/vhost"
	plugin "github.com/fatedier/frp/pkg/plugin/client"
	"github.com/fatedier/frp/pkg/transport"
	"verifharness/hx"
)

// addTLS starts a TLS backend (route id 0).
func (b *backends) addTLS(addr string, cfg *tls.Config) (string, error) {
	ln, err := net.Listen("tcp", net.JoinHostPort(addr, "0"))
	if err != nil {
		return "", err
	}
	b.lns = append(b.lns, ln)
	go func() {
		for {
			c, err := ln.Accept()
			if err != nil {
				return
			}
			b.mu.Lock()
			b.nconn++
			id := b.nconn
			b.mu.Unlock()
			go func() {
				tc := tls.Server(c, cfg)
				_ = tc.SetDeadline(time.Now().Add(5 * time.Second))
				if tc.Handshake() != nil {
					c.Close()
					return
				}
				_ = tc.SetDeadline(time.Time{})
				b.serveRW(tc, c, 0, id)
			}()
		}
	}()
	return ln.Addr().String(), nil
}

type pluginRig struct {
	kind    string // v1.PluginHTTP2HTTP ...
	coqName string
	p       plugin.Plugin
	ln      net.Listener
	opts    pluginOpts
	tlsIn   bool
	srcAddr *net.TCPAddr // handed over as ConnectionInfo.SrcAddr (https2* use it as the remote address)
}

type pluginOpts struct {
	localAddr   string
	rewriteHost string
	headers     map[string]string
}

func newPluginRig(kind string, o pluginOpts, srcAddr *net.TCPAddr) (*pluginRig, error) {
	r := &pluginRig{kind: kind, opts: o, srcAddr: srcAddr}
	var po v1.ClientPluginOptions
	hs := v1.HeaderOperations{Set: o.headers}
	switch kind {
	case v1.PluginHTTP2HTTP:
		r.coqName = "HrH2H"
		po = &v1.HTTP2HTTPPluginOptions{Type: kind, LocalAddr: o.localAddr, HostHeaderRewrite: o.rewriteHost, RequestHeaders: hs}
	case v1.PluginHTTP2HTTPS:
		r.coqName = "HrH2HS"
		po = &v1.HTTP2HTTPSPluginOptions{Type: kind, LocalAddr: o.localAddr, HostHeaderRewrite: o.rewriteHost, RequestHeaders: hs}
	case v1.PluginHTTPS2HTTP:
		r.coqName, r.tlsIn = "HrHS2H", true
		po = &v1.HTTPS2HTTPPluginOptions{Type: kind, LocalAddr: o.localAddr, HostHeaderRewrite: o.rewriteHost, RequestHeaders: hs}
	case v1.PluginHTTPS2HTTPS:
		r.coqName, r.tlsIn = "HrHS2HS", true
		po = &v1.HTTPS2HTTPSPluginOptions{Type: kind, LocalAddr: o.localAddr, HostHeaderRewrite: o.rewriteHost, RequestHeaders: hs}
	}
	p, err := plugin.Create(kind, plugin.PluginContext{Name: "c02-" + kind}, po)
	if err != nil {
		return nil, err
	}
	r.p = p
	ln, err := net.Listen("tcp", net.JoinHostPort(c02Addr, "0"))
	if err != nil {
		return nil, err
	}
	r.ln = ln
	go func() {
		for {
			c, err := ln.Accept()
			if err != nil {
				return
			}
			// as client/proxy/proxy.go HandleTCPWorkConnection hands a work connection to the plugin
			ci := &plugin.ConnectionInfo{Conn: c, UnderlyingConn: c}
			if r.srcAddr != nil {
				ci.SrcAddr = r.srcAddr
			}
			go r.p.Handle(context.Background(), ci)
		}
	}()
	return r, nil
}

func (r *pluginRig) close() {
	r.ln.Close()
	r.p.Close()
}

func (r *pluginRig) dial(localIP, serverName string) (*userConn, error) {
	u, err := dialUser(r.ln.Addr().String(), localIP)
	if err != nil || !r.tlsIn {
		return u, err
	}
	tc := tls.Client(u.c, &tls.Config{InsecureSkipVerify: true, ServerName: serverName, NextProtos: []string{"http/1.1"}})
	_ = tc.SetDeadline(time.Now().Add(5 * time.Second))
	if err := tc.Handshake(); err != nil {
		u.c.Close()
		return nil, err
	}
	_ = tc.SetDeadline(time.Time{})
	return newUserConn(tc), nil
}

func coqPopts(o pluginOpts, hs []hdr) string {
	return fmt.Sprintf("{| hp_local_addr := %s; hp_rewrite_host := %s; hp_headers := %s |}", S(o.localAddr), S(o.rewriteHost), coqPairs(hs))
}

func drivePlugin(cfg *hx.RunCfg) error {
	hx.Quiet()
	g := hx.NewGen(cfg.Seed + 1000)
	st := newFwdStats()
	be := newBackends()
	defer be.close()
	plainAddr, err := be.add(c02Addr, 0)
	if err != nil {
		return err
	}
	tcfg, err := transport.NewServerTLSConfig("", "", "")
	if err != nil {
		return err
	}
	tlsAddr, err := be.addTLS(c02Addr, tcfg)
	if err != nil {
		return err
	}
	kinds := []string{v1.PluginHTTP2HTTP, v1.PluginHTTP2HTTPS, v1.PluginHTTPS2HTTP, v1.PluginHTTPS2HTTPS}
	var cases []string
	per := cfg.N / (2 * len(kinds))
	if per < 2 {
		per = 2
	}
	rt := &routeSpec{domain: "p.c02.test", location: "/"}
	for variant := 0; variant < 2; variant++ {
		for _, kind := range kinds {
			o := pluginOpts{localAddr: plainAddr, headers: genHeaderMap(g, cfgReqKeys, false)}
			if strings.HasSuffix(kind, "https") {
				o.localAddr = tlsAddr
			}
			if variant == 1 || g.Chance(0.3) {
				o.rewriteHost = g.Pick([]string{"inner.local", "svc.internal:8443"})
			}
			if variant == 1 {
				o.headers["x-from-plugin"] = kind
			}
			var src *net.TCPAddr
			if variant == 1 {
				src = &net.TCPAddr{IP: net.IPv4(198, 51, 100, byte(1+g.Intn(200))), Port: 1024 + g.Intn(60000)}
			}
			pr, err := newPluginRig(kind, o, src)
			if err != nil {
				return err
			}
			done := 0
			for done < per {
				localIP := fmt.Sprintf("127.0.2.%d", 2+g.Intn(250))
				u, err := pr.dial(localIP, rt.domain)
				if err != nil {
					pr.close()
					return fmt.Errorf("dial plugin %s: %v", kind, err)
				}
				seq := 1 + g.Intn(4)
				for k := 0; k < seq && done < per; k++ {
					rg := genRequest(g, rt, cfg.Tier, false)
					for rg.absform {
						rg = genRequest(g, rt, cfg.Tier, false)
					}
					resp := genResponse(g, rg.req.method, cfg.Tier, false)
					be.script(resp)
					be.drain()
					got, err := u.do(rg.req, 20*time.Second)
					if err != nil {
						// no answer at all: once more on a fresh connection, reported when it fails again
						// (seen only under heavy machine load; up to two repetitions, each on a fresh connection)
						for attempt := 0; attempt < 2 && err != nil; attempt++ {
							st.dist["exchange-retried"]++
							u.close()
							time.Sleep(time.Duration(100*(attempt+1)) * time.Millisecond)
							be.drain()
							var derr error
							if u, derr = pr.dial(localIP, rt.domain); derr != nil {
								pr.close()
								return fmt.Errorf("dial plugin %s: %v", kind, derr)
							}
							got, err = u.do(rg.req, 20*time.Second)
						}
					}
					if err != nil {
						st.fail("impl:plugin-exchange-failed", fmt.Sprintf("%s: %v (%s %s)", kind, err, rg.req.method, rg.req.target), rg.req.target)
						break
					}
					seen := be.waitSeen(5 * time.Second)
					if seen == nil {
						st.fail("impl:plugin-backend-saw-nothing", fmt.Sprintf("%s: %s %s -> %d", kind, rg.req.method, rg.req.target, got.status), rg.req.target)
						break
					}
					hs := mapOrder(o.headers, func(c string) (string, bool) {
						for _, kv := range seen.hdrs {
							if canonGo(kv[0]) == c {
								return kv[1], true
							}
						}
						return "", false
					}, canonGo)
					// the address the plugin's HTTP server reports as the remote one
					ip := ""
					if pr.tlsIn {
						ip, _, _ = net.SplitHostPort(u.c.LocalAddr().String())
						if src != nil {
							ip = src.IP.String()
						}
					} else {
						ip, _, _ = net.SplitHostPort(u.c.LocalAddr().String())
					}
					beginCase()
					cs := endCase(fmt.Sprintf("CPlug %s (%s) (%s) %s (%s) (%s) (%s)", pr.coqName, coqPopts(o, hs), coqReq(rg, ip, pr.tlsIn),
						S(reencQuery(rg.query)), coqSeen(seen), coqScripted(resp, rg.req.method), coqGotFor(got, resp)))
					cases = append(cases, cs)
					done++
					st.dist["plugin:"+kind]++
					st.dist["method:"+rg.req.method]++
					st.distinct[kind+rg.req.method+rg.req.target+fmt.Sprint(len(rg.req.hdrs), resp.status)] = true
					if len(st.samples) < 2 && len(cs) < 2500 {
						st.samples = append(st.samples, cs)
					}
					// model-free monitor of C02_plugin_http2http_keeps_forwarded_for
					if kind == v1.PluginHTTP2HTTP {
						sentXFF := false
						for _, kv := range rg.req.hdrs {
							if strings.EqualFold(kv[0], "X-Forwarded-For") {
								sentXFF = true
							}
						}
						gotXFF := false
						for _, kv := range seen.hdrs {
							if strings.EqualFold(kv[0], "X-Forwarded-For") {
								gotXFF = true
							}
						}
						if sentXFF && !gotXFF {
							// repaired in /repo by a4afe3b; a regression is a failure
							st.fail("impl:http2http-drops-x-forwarded-for", "http2http plugin: the backend received no X-Forwarded-For although the request carried one", cs[:min(len(cs), 600)])
						}
					}
				}
				u.close()
			}
			// protocol upgrade (WebSocket style) through the plugin, then bytes both ways
			if uu, err := pr.dial(fmt.Sprintf("127.0.2.%d", 2+g.Intn(250)), rt.domain); err == nil {
				up, down := g.Bytes(60000+g.Intn(60000)), g.Bytes(60000+g.Intn(60000))
				be.mu.Lock()
				be.tunDown, be.tunUpLen = down, len(up)
				be.mu.Unlock()
				be.drain()
				for len(be.tunGot) > 0 {
					<-be.tunGot
				}
				head := "GET /chat HTTP/1.1\r\nHost: " + rt.domain + "\r\nConnection: Upgrade\r\nUpgrade: websocket\r\nSec-WebSocket-Key: dGhlIHNhbXBsZSBub25jZQ==\r\nSec-WebSocket-Version: 13\r\n\r\n"
				accepted, upRecv, downRecv := tunnelExchange(uu, be, head, up, down, false)
				uu.close()
				cases = append(cases, fmt.Sprintf("CTunnel 3 %s %s %s %s %s", hx.Bool(accepted), hx.HxS(bodyID(up)), hx.HxS(bodyID(upRecv)), hx.HxS(bodyID(down)), hx.HxS(bodyID(downRecv))))
				st.dist["plugin-upgrade:"+kind]++
				if !accepted || bodyID(up) != bodyID(upRecv) || bodyID(down) != bodyID(downRecv) {
					st.fail("impl:tunnel-not-transparent:plugin-upgrade", fmt.Sprintf("upgrade through plugin %s: accepted=%v up %s/%s down %s/%s", kind, accepted,
						bodyID(up), bodyID(upRecv), bodyID(down), bodyID(downRecv)), kind)
				}
			}
			pr.close()
		}
	}
	acases, err := agedCases(g, st, be, plainAddr)
	if err != nil {
		return err
	}
	cases = append(cases, acases...)
	cf := &hx.CaseFile{
		Imports: "From FRP Require Import Corr.C02.\nOpen Scope Z_scope.\n",
		Typ:     "case",
		Cases:   cases,
		Tail: "Definition M := Eval vm_compute in mismatches check_case cases.\nPrint M.\n" + counter("NAGED", "is_aged") +
			counter("NH2H", "(is_plug HrH2H)") + counter("NH2HS", "(is_plug HrH2HS)") + counter("NHS2H", "(is_plug HrHS2H)") + counter("NHS2HS", "(is_plug HrHS2HS)") + counter("NPLUGUPGRADE", "(is_tunnel 3)"),
	}
	if err := cf.Write(cfg.Out); err != nil {
		return err
	}
	cfg.St["cases"] = len(cases)
	cfg.St["distinct_nontrivial"] = len(st.distinct)
	cfg.St["samples"] = append([]string{}, st.samples...)
	cfg.St["distribution"] = sortedCounts(st.dist)
	cfg.St["impl_failures"] = append([]map[string]string{}, st.impl...)
	return nil
}

// agedCases: the data path of an https proxy with a shortened sniffing timeout.  The real vhost HTTPS
// muxer (frps passes a 30 s constant, here 300 ms) routes a TLS connection by SNI; the routed connection is
// joined (libio.Join, as server/proxy/proxy.go handleUserTCPConnection does) with a connection that ends in the
// real https2http plugin.  The backend streams its answer slowly, so that most of it is written when the user
// connection is older than the timeout; then a second request is sent on the same, by now old, connection.
func agedCases(g *hx.Gen, st *fwdStats, be *backends, plainAddr string) ([]string, error) {
	const timeout = 300 * time.Millisecond
	ln, err := net.Listen("tcp", net.JoinHostPort(c02Addr, "0"))
	if err != nil {
		return nil, err
	}
	defer ln.Close()
	mux, err := vhost.NewHTTPSMuxer(ln, timeout)
	if err != nil {
		return nil, err
	}
	rl, err := mux.Listen(context.Background(), &vhost.RouteConfig{Domain: "m.c02.test"})
	if err != nil {
		return nil, err
	}
	pr, err := newPluginRig(v1.PluginHTTPS2HTTP, pluginOpts{localAddr: plainAddr, headers: map[string]string{}}, nil)
	if err != nil {
		return nil, err
	}
	defer pr.close()
	go func() {
		for {
			uc, err := rl.Accept()
			if err != nil {
				return
			}
			wc, err := net.Dial("tcp", pr.ln.Addr().String())
			if err != nil {
				uc.Close()
				continue
			}
			go libio.Join(wc, uc)
		}
	}()
	var cases []string
	for rep := 0; rep < 2; rep++ {
		body := g.Bytes(5 * 24)
		resp := &scripted{status: 200, framing: "chunked", body: body, chunks: []int{24}, slowFirstMs: 550, slowMs: 120,
			hdrs: []hdr{{"Content-Type", "application/octet-stream"}}}
		be.script(resp)
		be.drain()
		be.mu.Lock()
		be.chunkTimes = nil
		be.mu.Unlock()
		t0 := time.Now()
		u, err := dialUser(ln.Addr().String(), fmt.Sprintf("127.0.2.%d", 2+g.Intn(250)))
		if err != nil {
			return nil, err
		}
		tc := tls.Client(u.c, &tls.Config{InsecureSkipVerify: true, ServerName: "m.c02.test", NextProtos: []string{"http/1.1"}})
		_ = tc.SetDeadline(time.Now().Add(3 * time.Second))
		if err := tc.Handshake(); err != nil {
			u.close()
			st.fail("impl:muxed-tls-handshake", err.Error(), "m.c02.test")
			continue
		}
		_ = tc.SetDeadline(time.Time{})
		tu := newUserConn(tc)
		var reqAges []int64
		answered := 0
		reqAges = append(reqAges, time.Since(t0).Milliseconds())
		got, err1 := tu.do(simpleGet("m.c02.test", "/slow-download"), 5*time.Second)
		var gotBody []byte
		if got != nil {
			gotBody = got.body
		}
		if err1 == nil && got.status == 200 {
			answered++
		}
		// second request on the same connection, which is now older than the timeout
		be.script(&scripted{status: 200, framing: "cl", body: []byte("second"), hdrs: []hdr{{"Content-Type", "text/plain"}}})
		reqAges = append(reqAges, time.Since(t0).Milliseconds())
		got2, err2 := tu.do(&userReq{method: "POST", target: "/second", host: "m.c02.test", framing: "cl", body: []byte("abc")}, 3*time.Second)
		if err2 == nil && got2.status == 200 && string(got2.body) == "second" {
			answered++
		}
		tu.close()
		be.mu.Lock()
		times := append([]time.Time{}, be.chunkTimes...)
		be.mu.Unlock()
		var chunks []string
		for i, ct := range times {
			lo, hi := i*24, min((i+1)*24, len(body))
			if lo >= len(body) {
				break
			}
			chunks = append(chunks, fmt.Sprintf("(%d, %s)", ct.Sub(t0).Milliseconds(), hx.Hx(body[lo:hi])))
		}
		ages := make([]string, len(reqAges))
		for i, a := range reqAges {
			ages[i] = fmt.Sprint(a)
		}
		cs := fmt.Sprintf("CAged %d %s %s %s %d", timeout.Milliseconds(), hx.List(chunks), hx.Hx(gotBody), hx.List(ages), answered)
		cases = append(cases, cs)
		st.dist["aged:https-muxed-connection"]++
		if err1 != nil || string(gotBody) != string(body) || answered != 2 {
			st.fail("impl:muxed-connection-cut-after-vhost-timeout",
				fmt.Sprintf("https data path (vhost HTTPS muxer with a %d ms timeout -> Join -> https2http plugin): a %d-byte answer streamed over %d ms arrived as %d bytes (%v); second request on the aged connection answered: %v (%v)",
					timeout.Milliseconds(), len(body), time.Since(t0).Milliseconds(), len(gotBody), err1, err2 == nil, err2), cs)
		}
	}
	return cases, nil
}
