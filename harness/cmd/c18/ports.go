package main

// Port sweep: EVERY int field whose name ends in "Port" of the server section, the client common section,
// every proxy type and every visitor type (found by reflection over the real structs, so a new field is
// swept without touching this file) is set to boundary values on an otherwise valid, completed
// configuration and run through the real validators.  Fields the validation layer range-checks must be
// accepted exactly for 0..65535; the fields it does not range-check are pinned (what they accept is
// recorded in the evidence); a port field on neither list is an alarm.

import (
	"fmt"
	"reflect"
	"strings"

	v1 "github.com/fatedier/frp/pkg/config/v1"
	"github.com/fatedier/frp/pkg/config/v1/validation"

	"verifharness/hx"
)

var portValues2 = []int64{-65536, -8080, -1, 0, 1, 7500, 65535, 65536, 70000}

// range-checked by validation (documented range 0..65535)
var checkedPorts = map[string]bool{
	"ServerConfig.BindPort": true, "ServerConfig.KCPBindPort": true, "ServerConfig.QUICBindPort": true,
	"ServerConfig.VhostHTTPPort": true, "ServerConfig.VhostHTTPSPort": true, "ServerConfig.TCPMuxHTTPConnectPort": true,
	"ServerConfig.WebServer.Port": true, "ClientCommonConfig.WebServer.Port": true,
	"proxy.ProxyBaseConfig.ProxyBackend.LocalPort": true,
	// since the repair 8be3cd7 (remotePort: client-side validation of tcp and udp proxies)
	"ServerConfig.SSHTunnelGateway.BindPort": true, "ClientCommonConfig.ServerPort": true, "proxy.RemotePort": true,
}

// not range-checked by the validation layer at the pinned commit (design/C18.md): what is accepted is recorded
var uncheckedPorts = map[string]bool{
	// a visitor's bindPort only has to be non-zero: a negative value is the documented "do not listen"
	"visitor.VisitorBaseConfig.BindPort": true,
}

type portField struct {
	path  string
	index []int
}

func portFields(t reflect.Type, prefix string, idx []int, out *[]portField) {
	for i := 0; i < t.NumField(); i++ {
		f := t.Field(i)
		p := prefix + "." + f.Name
		ix := append(append([]int{}, idx...), i)
		switch {
		case f.Type.Kind() == reflect.Struct && f.Type != bwqType:
			portFields(f.Type, p, ix, out)
		case (f.Type.Kind() == reflect.Int || f.Type.Kind() == reflect.Int64) && strings.HasSuffix(f.Name, "Port"):
			*out = append(*out, portField{p, ix})
		}
	}
}

func inRange(v int64) bool { return v >= 0 && v <= 65535 }

func (d *drv) portSweep(g *gen) ([]caseOut, map[string]any) {
	var cases []caseOut
	accepted := map[string][]int64{} // unchecked field -> out-of-range values validation accepts
	swept := 0
	judge := func(class, field string, v int64, ok bool, replay string) {
		swept++
		switch {
		case checkedPorts[class]:
			if ok != inRange(v) {
				what := "validation ACCEPTS a configuration whose " + field + " = " + fmt.Sprint(v) + " is outside 0..65535"
				if !ok {
					what = "validation rejects a configuration whose " + field + " = " + fmt.Sprint(v) + " is inside 0..65535"
				}
				d.fail(fmt.Sprintf("validated-port-out-of-range:%s:%d", field, v), what, replay)
			}
		case uncheckedPorts[class]:
			if ok && !inRange(v) {
				accepted[field] = append(accepted[field], v)
			}
		default:
			d.fail("port-field-unclassified:"+field, "a port-typed field that is on neither the range-checked nor the recorded-unchecked list", field)
		}
	}

	// server
	var fs []portField
	portFields(reflect.TypeOf(v1.ServerConfig{}), "ServerConfig", nil, &fs)
	for _, f := range fs {
		for _, v := range portValues2 {
			c := &v1.ServerConfig{}
			c.Complete()
			reflect.ValueOf(c).Elem().FieldByIndex(f.index).SetInt(v)
			_, err := validation.ValidateServerConfig(c)
			judge(f.path, f.path, v, err == nil, fmt.Sprintf("ServerConfig completed from the empty document, then %s = %d: err = %v", f.path, v, err))
			cases = append(cases, caseOut{fmt.Sprintf("CValServerCfg %s %s", coqOfAny(c), hx.Bool(err == nil)), "valserver-port"})
		}
	}
	// client common
	fs = nil
	portFields(reflect.TypeOf(v1.ClientCommonConfig{}), "ClientCommonConfig", nil, &fs)
	for _, f := range fs {
		for _, v := range portValues2 {
			c := &v1.ClientCommonConfig{}
			c.Complete()
			reflect.ValueOf(c).Elem().FieldByIndex(f.index).SetInt(v)
			_, err := validation.ValidateClientCommonConfig(c)
			judge(f.path, f.path, v, err == nil, fmt.Sprintf("ClientCommonConfig completed from the empty document, then %s = %d: err = %v", f.path, v, err))
			cases = append(cases, caseOut{fmt.Sprintf("CValClientCommon %s %s", coqOfAny(c), hx.Bool(err == nil)), "valclientcommon-port"})
		}
	}
	// visitors
	cc := &v1.ClientCommonConfig{}
	cc.Complete()
	for _, vt := range visitorTypeNames {
		proto := v1.NewVisitorConfigurerByType(v1.VisitorType(vt))
		fs = nil
		portFields(reflect.TypeOf(proto).Elem(), "", nil, &fs)
		for _, f := range fs {
			for _, v := range portValues2 {
				vc := v1.NewVisitorConfigurerByType(v1.VisitorType(vt))
				b := vc.GetBaseConfig()
				b.Name, b.ServerName, b.BindPort = "v", "s", 9000
				vc.Complete(cc)
				reflect.ValueOf(vc).Elem().FieldByIndex(f.index).SetInt(v)
				err := validation.ValidateVisitorConfigurer(vc)
				judge("visitor"+f.path, vt+" visitor"+f.path, v, err == nil, fmt.Sprintf("%s visitor, %s = %d: err = %v", vt, f.path, v, err))
				xp := "None"
				if x, ok := vc.(*v1.XTCPVisitorConfig); ok {
					xp = "(Some " + hx.HxS(x.Protocol) + ")"
				}
				cases = append(cases, caseOut{fmt.Sprintf("CValVisitor %s %s %s", coqOfAny(b), xp, hx.Bool(err == nil)), "valvisitor-port"})
			}
		}
	}
	// proxies
	for _, pt := range proxyTypes {
		proto := v1.NewProxyConfigurerByType(v1.ProxyType(pt))
		fs = nil
		portFields(reflect.TypeOf(proto).Elem(), "", nil, &fs)
		for _, f := range fs {
			for _, v := range portValues2 {
				c := v1.NewProxyConfigurerByType(v1.ProxyType(pt))
				c.GetBaseConfig().Name = "p"
				c.GetBaseConfig().LocalPort = 22
				switch x := c.(type) {
				case *v1.HTTPProxyConfig:
					x.CustomDomains = []string{"a.example.org"}
				case *v1.HTTPSProxyConfig:
					x.CustomDomains = []string{"a.example.org"}
				case *v1.TCPMuxProxyConfig:
					x.CustomDomains = []string{"a.example.org"}
					x.Multiplexer = "httpconnect"
				}
				c.Complete("")
				reflect.ValueOf(c).Elem().FieldByIndex(f.index).SetInt(v)
				err := validation.ValidateProxyConfigurerForClient(c)
				judge("proxy"+f.path, pt+" proxy"+f.path, v, err == nil, fmt.Sprintf("%s proxy, %s = %d: err = %v", pt, f.path, v, err))
				vd := verdictOf(err)
				if vd == "" {
					vd = "VOk"
				}
				cases = append(cases, caseOut{fmt.Sprintf("CValClient %s true true %s", coqCfg(c), vd), "valclient-port"})
			}
		}
	}

	// whole sections: generated server / client-common configurations (valid and with one invalid setting)
	for i := 0; i < 40; i++ {
		sc, _ := g.serverCfgDoc()
		sc.Complete()
		switch g.intn(8) {
		case 0:
			sc.Log.Level = g.pick([]string{"verbose", "INFO", ""})
		case 1:
			sc.Auth.Method = v1.AuthMethod(g.pick([]string{"jwt", "", "Token"}))
		case 2:
			sc.Auth.AdditionalScopes = append(sc.Auth.AdditionalScopes, "Pings")
		case 3:
			sc.WebServer.TLS = &v1.TLSConfig{CertFile: g.pick([]string{"", "c.pem"}), KeyFile: g.pick([]string{"", "k.pem"})}
			sc.WebServer.Port = int(g.pickInt(portValues2))
		case 4:
			sc.HTTPPlugins = append(sc.HTTPPlugins, v1.HTTPPluginOptions{Name: "x", Ops: []string{"Login", "Logout"}})
		}
		_, err := validation.ValidateServerConfig(&sc)
		cases = append(cases, caseOut{fmt.Sprintf("CValServerCfg %s %s", coqOfAny(&sc), hx.Bool(err == nil)), "valserver-section"})
		c2, _ := g.clientCommon()
		c2.VirtualNet.Address = "" // feature gate: process state, kept out
		c2.Complete()
		switch g.intn(8) {
		case 0:
			c2.Log.Level = "verbose"
		case 1:
			c2.Transport.Protocol = g.pick([]string{"udp", "", "TCP"})
		case 2:
			c2.Transport.HeartbeatInterval, c2.Transport.HeartbeatTimeout = 30, 10
		case 3:
			c2.WebServer.Port = int(g.pickInt(portValues2))
		case 4:
			c2.Auth.Method = "none"
		}
		_, err = validation.ValidateClientCommonConfig(&c2)
		cases = append(cases, caseOut{fmt.Sprintf("CValClientCommon %s %s", coqOfAny(&c2), hx.Bool(err == nil)), "valclientcommon-section"})
	}
	return cases, map[string]any{"port_values_swept": swept, "unchecked_fields_accepting_out_of_range": accepted}
}
