(* C18 — soundness of the reflective flag-binding checker (Model/FlagsCheck.v) *)
From FRP Require Import Model.FlagsCheck Proofs.MsgObjProofs.
Open Scope Z_scope.

Lemma fc_nodup_NoDup l : fc_nodup l = true -> NoDup l.
Proof.
  induction l as [|x r IH]; cbn; intros H; constructor.
  - apply andb_true_iff in H. destruct H as [H _]. apply negb_true_iff in H.
    intros Hin. assert (existsb (String.eqb x) r = true); [|congruence].
    apply existsb_exists. exists x. split; [assumption|apply String.eqb_refl].
  - apply andb_true_iff in H. apply IH. tauto.
Qed.

Lemma fc_entry_eqb_eq a b : fc_entry_eqb a b = true -> a = b.
Proof.
  destruct a as [[[a1 a2] a3] a4], b as [[[b1 b2] b3] b4]. cbn. intros H.
  repeat (apply andb_true_iff in H; destruct H as [H ?]).
  repeat match goal with E : String.eqb _ _ = true |- _ => apply String.eqb_eq in E end. now subst.
Qed.

Lemma fc_incl es gs : forallb (fun e => existsb (fc_entry_eqb e) gs) es = true -> incl es gs.
Proof.
  intros H e He. rewrite forallb_forall in H. specialize (H e He).
  apply existsb_exists in H. destruct H as (g & Hg & E). apply fc_entry_eqb_eq in E. now subst.
Qed.

Lemma cm_assoc_In {A} n (l : list (string * A)) v : cm_assoc n l = Some v -> In (n, v) l.
Proof.
  induction l as [|[k w] r IH]; cbn; [discriminate|].
  destruct (String.eqb_spec n k) as [->|]; [intros [= ->]; now left|intros H; right; auto].
Qed.

Lemma fc_entries_no_unknown tbl bs es : fc_entries tbl bs = Some es ->
  Forall (fun b => fc_is_unknown (fc_kind b) = false) bs /\
  Forall2 (fun b e => fc_key tbl b = Some (fc_e_key e) /\ fc_e_flag e = fc_flag b /\ fc_e_short e = fc_short b) bs es.
Proof.
  revert es. induction bs as [|b r IH]; cbn [fc_entries]; intros es H.
  - injection H as <-. split; constructor.
  - destruct (fc_is_unknown (fc_kind b)) eqn:U; [discriminate|].
    destruct (fc_key tbl b) as [k|] eqn:K; [|discriminate].
    destruct (fc_entries tbl r) as [es'|]; [|discriminate]. injection H as <-.
    destruct (IH es' eq_refl) as [H1 H2]. split; constructor; auto.
Qed.

(* what fc_all_ok = true means *)
Theorem flag_bindings_sound tbl golden sets :
  fc_all_ok tbl golden sets = true ->
  (* every flag set of today's source ... *)
  (forall set bs, In (set, bs) sets ->
     exists es gs,
       (* ... was understood completely, each flag resolving to the file-format key of the field it writes, *)
       fc_entries tbl bs = Some es /\
       Forall (fun b => fc_is_unknown (fc_kind b) = false) bs /\
       Forall2 (fun b e => fc_key tbl b = Some (fc_e_key e) /\ fc_e_flag e = fc_flag b /\ fc_e_short e = fc_short b) bs es /\
       (* is exactly the pinned set (same flags, short names, kinds and keys; nothing added, nothing removed), *)
       In (set, gs) golden /\ incl es gs /\ incl gs es /\
       (* no flag name is bound twice, no field (key) has two flags, no short name is used twice *)
       NoDup (map fc_e_flag es) /\ NoDup (map fc_e_key es) /\
       NoDup (filter fc_nonempty (map fc_e_short es))) /\
  (* no pinned flag set has disappeared *)
  (forall set gs, In (set, gs) golden -> In set (map fst sets)) /\
  (* on a proxy sub-command (client persistent flags + the proxy's own) names and short names stay distinct *)
  (forall cl set bs, cm_assoc "client" sets = Some cl -> In (set, bs) sets -> cm_str_prefix "proxy:" set = true ->
     NoDup (map fc_flag (cl ++ bs)) /\ NoDup (filter fc_nonempty (map fc_short (cl ++ bs)))).
Proof.
  unfold fc_all_ok. intros H. apply andb_true_iff in H. destruct H as [H Hu].
  apply andb_true_iff in H. destruct H as [Hs Hg]. repeat split.
  - intros set bs Hin. rewrite forallb_forall in Hs. specialize (Hs _ Hin). unfold fc_set_ok in Hs. cbn [fst snd] in Hs.
    destruct (fc_entries tbl bs) as [es|] eqn:E; [|discriminate].
    destruct (cm_assoc set golden) as [gs|] eqn:G; [|discriminate].
    repeat (apply andb_true_iff in Hs; destruct Hs as [Hs ?]).
    destruct (fc_entries_no_unknown tbl bs es E) as [U F].
    exists es, gs. repeat split; auto using cm_assoc_In, fc_incl, fc_nodup_NoDup.
  - intros set gs Hin. rewrite forallb_forall in Hg. specialize (Hg _ Hin). cbn [fst] in Hg.
    apply existsb_exists in Hg. destruct Hg as (x & Hx & E). apply String.eqb_eq in E. now subst.
  - unfold fc_union_ok in Hu. rewrite H in Hu. rewrite forallb_forall in Hu. specialize (Hu _ H0). cbn [fst snd] in Hu.
    rewrite H1 in Hu. apply andb_true_iff in Hu. apply fc_nodup_NoDup. tauto.
  - unfold fc_union_ok in Hu. rewrite H in Hu. rewrite forallb_forall in Hu. specialize (Hu _ H0). cbn [fst snd] in Hu.
    rewrite H1 in Hu. apply andb_true_iff in Hu. apply fc_nodup_NoDup. tauto.
Qed.

(* ---- BoolFuncFlag / dashboard TLS ---- *)
Lemma existsb_bytes_In s l : existsb (bytes_eqb s) l = true <-> In s l.
Proof.
  rewrite existsb_exists. split.
  - intros (x & Hx & E). apply bytes_eqb_eq in E. now subst.
  - intros H. exists s. split; [exact H|apply bytes_eqb_refl].
Qed.

Lemma bff_parse_bool_true s : bff_parse_bool s = Some true <-> In s bff_trues.
Proof.
  unfold bff_parse_bool. rewrite <- existsb_bytes_In.
  destruct (existsb (bytes_eqb s) bff_trues); [tauto|].
  destruct (existsb (bytes_eqb s) bff_falses); split; discriminate.
Qed.

Lemma bff_parse_bool_false s : bff_parse_bool s = Some false <-> In s bff_falses.
Proof.
  unfold bff_parse_bool. split.
  - destruct (existsb (bytes_eqb s) bff_trues); [discriminate|].
    destruct (existsb (bytes_eqb s) bff_falses) eqn:E; [|discriminate]. intros _. now apply existsb_bytes_In.
  - intros H. assert (Ht : existsb (bytes_eqb s) bff_trues = false).
    { cbn in H. repeat (destruct H as [<-|H]; [vm_compute; reflexivity|]). contradiction. }
    rewrite Ht. apply existsb_bytes_In in H. now rewrite H.
Qed.

(* the dashboard TLS setting given through the flags equals the setting given through the file *)
Theorem dashboard_tls_flag_matches_file mode cert key :
  (bff_parse_bool mode = Some true -> flags_web_tls mode cert key = Some (file_web_tls (Some (cert, key)))) /\
  (bff_parse_bool mode = Some false -> flags_web_tls mode cert key = Some (file_web_tls None)) /\
  (bff_parse_bool mode = None -> flags_web_tls mode cert key = None).
Proof.
  unfold flags_web_tls, bff_enables_tls, bff_set.
  repeat split; intros H; rewrite H; reflexivity.
Qed.
