(* C19 — the client keeps exactly the configured-and-healthy proxies registered.
   Only statements here; proofs live in Proofs/HealthProofs.v, Proofs/WrapperProofs.v,
   Proofs/ReconcileProofs.v.  Every theorem is followed by Print Assumptions.

   Models: Model/Health.v (health.Monitor.checkWorker), Model/Wrapper.v (proxy.Wrapper),
   Model/Reconcile.v (proxy.Manager / visitor.Manager UpdateAll and the manager operations).
   Histories are operation lists; every statement quantifies over all of them. *)
From Coq Require Import List ZArith Bool.
From FRP Require Import Model.Health Model.Wrapper Model.Reconcile Model.HealthGate Model.ClientServer Model.ClientSvc Model.HttpRoutes
  Proofs.HealthProofs Proofs.WrapperProofs Proofs.ReconcileProofs Proofs.ReconcileInv
  Proofs.VisitorMgrProofs Proofs.HealthGateProofs Proofs.ClientSvcProofs Proofs.C19ReloadCheck Proofs.HttpRoutesProofs gen.GenC19Routes.
Import ListNotations.
Open Scope Z_scope.

(* ================= health gating ================= *)

(* After every history of probe outcomes the monitor's verdict is: some probe succeeded and
   fewer than maxFailed probes failed since the last success. *)
Theorem C19_health_verdict : forall k max h, 1 <= max ->
  hm_ok (fst (hm_run k (hm_full max) h)) = hm_spec_ok max (hm_errs k h).
Proof. exact health_verdict. Qed.
Print Assumptions C19_health_verdict.

(* statusFailedFn is called while processing probe p, after history h, exactly when the history
   h ++ [p] ends with a success followed by maxFailed failed probes and nothing else: never
   after fewer, never later, whatever happened before that success. *)
Theorem C19_withdrawn_after_exactly_n_consecutive_failures : forall k max h p, 1 <= max ->
  In HMFailed (snd (hm_step k (hm_full max) (fst (hm_run k (hm_full max) h)) p)) <->
  exists pre fs, hm_errs k (h ++ [p]) = pre ++ false :: fs /\
                 Forall (fun e => e = true) fs /\ Z.of_nat (length fs) = max.
Proof. exact withdrawn_exactly. Qed.
Print Assumptions C19_withdrawn_after_exactly_n_consecutive_failures.

(* a success restarts the count: after any history h and a success s, fewer than maxFailed failed
   probes call nothing, the verdict stays healthy and the counter equals their number *)
Theorem C19_success_restarts_count : forall k max h s fs, 1 <= max ->
  hm_probe_err k s = false ->
  Forall (fun p => hm_probe_err k p = true) fs ->
  Z.of_nat (length fs) < max ->
  let r := hm_run k (hm_full max) (h ++ s :: fs) in
  hm_ok (fst r) = true /\ hm_failed (fst r) = Z.of_nat (length fs) /\
  skipn (S (length h)) (snd r) = repeat [] (length fs).
Proof. exact success_restarts. Qed.
Print Assumptions C19_success_restarts_count.

(* no callback, verdict unhealthy, as long as no probe has succeeded *)
Theorem C19_not_registered_before_first_success : forall k max h, 1 <= max ->
  Forall (fun p => hm_probe_err k p = true) h ->
  let r := hm_run k (hm_full max) h in
  hm_ok (fst r) = false /\ Forall (fun ev => ev = []) (snd r).
Proof. exact not_before_first_success. Qed.
Print Assumptions C19_not_registered_before_first_success.

(* whenever the verdict is unhealthy (initially, or after a withdrawal) the next success calls
   statusNormalFn at once *)
Theorem C19_registered_again_after_next_success : forall k max h p, 1 <= max ->
  hm_ok (fst (hm_run k (hm_full max) h)) = false ->
  hm_probe_err k p = false ->
  let r := hm_step k (hm_full max) (fst (hm_run k (hm_full max) h)) p in
  snd r = [HMNormal] /\ hm_ok (fst r) = true /\ hm_failed (fst r) = 0.
Proof. exact registered_again. Qed.
Print Assumptions C19_registered_again_after_next_success.

(* a probe exceeding its timeout, a refusal and, for http, exactly the non-2xx answers count as failed *)
Theorem C19_timeout_and_non2xx_count_as_failed :
  (forall k, hm_probe_err k HPTimeout = true) /\
  (forall k, hm_probe_err k HPRefuse = true) /\
  (forall c, hm_probe_err HKHttp (HPStatus c) = false <-> 200 <= c <= 299) /\
  hm_probe_err HKTcp HPAccept = false.
Proof. exact failed_outcomes. Qed.
Print Assumptions C19_timeout_and_non2xx_count_as_failed.

(* the wrapper side of the gate: while the health flag says failed no operation sends NewProxy *)
Theorem C19_unhealthy_wrapper_never_registers : forall t s o,
  pw_health s <> 0 -> (forall h, o <> PWHealth h) ->
  pw_emits PWONew (snd (pw_step t s o)) = false /\ pw_health (fst (pw_step t s o)) = pw_health s.
Proof. exact pw_unhealthy_never_sends. Qed.
Print Assumptions C19_unhealthy_wrapper_never_registers.

(* ================= wrapper phase machine ================= *)

(* over every history of ticks, health changes, server replies, stops and work connections the
   reported phase changes only along the legal transitions *)
Theorem C19_legal_transitions_only : forall t ops s,
  Forall (fun r => pr_after r = pr_before r \/ pw_legal (pr_before r) (pr_after r) = true)
         (snd (pw_run t s ops)).
Proof. exact pw_legal_history. Qed.
Print Assumptions C19_legal_transitions_only.

(* after a Stop at any point of any history the wrapper stays closed and sends no NewProxy, no
   CloseProxy, accepts no work connection and no start reply *)
Theorem C19_closed_is_absorbing_and_silent : forall t ops1 ops2 s,
  let r := pw_run t s (ops1 ++ PWStop :: ops2) in
  pw_ph (fst r) = PWClosed /\ Forall pw_silent (skipn (S (length ops1)) (snd r)).
Proof. exact pw_after_stop. Qed.
Print Assumptions C19_closed_is_absorbing_and_silent.

(* a work connection is handed to the proxy exactly when the phase is running; in every other
   phase it is closed *)
Theorem C19_workconn_only_while_running : forall t ops s,
  Forall (fun r => pr_op r = PWWork ->
                   (pr_before r = PWRunning /\ pr_out r = [PWOAccept]) \/
                   (pr_before r <> PWRunning /\ pr_out r = [PWOReject]))
         (snd (pw_run t s ops)) /\
  Forall (fun r => pw_emits PWOAccept (pr_out r) = true -> pr_op r = PWWork /\ pr_before r = PWRunning)
         (snd (pw_run t s ops)).
Proof. exact pw_work_history. Qed.
Print Assumptions C19_workconn_only_while_running.

(* the phase always agrees with what the wrapper has told the server and heard back: running iff
   the last exchange was NewProxy + success reply with no CloseProxy since, wait start iff a
   NewProxy is outstanding, anything else iff nothing is registered *)
Theorem C19_phase_matches_server_view : forall t ops b,
  pw_view_ok (fst (pw_run t (pw_init b) ops)) (pw_srv_trace SrvAbsent (snd (pw_run t (pw_init b) ops))).
Proof. intros t ops b. exact (pw_view_history t ops (pw_init b) SrvAbsent (pw_view_init b)). Qed.
Print Assumptions C19_phase_matches_server_view.

(* start error: a tick later than lastStartErr + startErrTimeout re-sends NewProxy, an earlier one
   does nothing; and the state is not abandoned: every history of early ticks, replies and work
   connections leaves the wrapper in start error with the same deadline, without a NewProxy *)
Theorem C19_start_error_retried_after_backoff : forall t s,
  pw_ph s = PWStartErr -> pw_health s = 0 ->
  (forall now, now > pw_lastErr s + pw_errto t ->
     snd (pw_step t s (PWTick now)) = [PWONew] /\ pw_ph (fst (pw_step t s (PWTick now))) = PWWait) /\
  (forall now, now <= pw_lastErr s + pw_errto t -> pw_step t s (PWTick now) = (s, [])) /\
  (forall ops, Forall (pw_early t (pw_lastErr s + pw_errto t)) ops ->
     let s' := fst (pw_run t s ops) in
     pw_ph s' = PWStartErr /\ pw_health s' = 0 /\ pw_lastErr s' = pw_lastErr s /\
     Forall (fun r => pw_emits PWONew (pr_out r) = false) (snd (pw_run t s ops))).
Proof.
  intros t s Hp Hh. split; [|split].
  - intros now. exact (proj1 (pw_starterr_tick t s now Hp Hh)).
  - intros now. exact (proj2 (pw_starterr_tick t s now Hp Hh)).
  - intros ops. exact (pw_starterr_persists t ops s Hp Hh).
Qed.
Print Assumptions C19_start_error_retried_after_backoff.

(* ================= reload: UpdateAll ================= *)

(* From every well-formed manager state (pm_wf: unique names, live wrappers not closed, ids below
   the allocation counter — it holds initially and UpdateAll preserves it), after UpdateAll cfgs:
   the wrapper table has exactly the names of cfgs, each with the FIRST entry of that name;
   an entry whose configuration is deep-equal to that first entry keeps its wrapper (same id, same
   state) and nothing is sent or recorded for it; every other old entry was stopped — CloseProxy sent,
   Stop recorded, the wrapper moved to the closed ones — and if the name is still configured the
   table holds a fresh wrapper (new id, phase new); UpdateAll itself sends nothing but CloseProxy. *)
Theorem C19_converges_to_last_config : forall t s cfgs, pm_wf s ->
  let '(s', outs, evs) := pm_update t s cfgs in
  pm_wf s' /\
  (forall n, rc_get (pm_map s') n = None <-> rc_first cfgs n = None) /\
  (forall n e', rc_get (pm_map s') n = Some e' -> rc_first cfgs n = Some (pe_cfg e')) /\
  (forall n e, rc_get (pm_map s) n = Some e -> rc_first cfgs n = Some (pe_cfg e) ->
     rc_get (pm_map s') n = Some e /\ ~ In (PMCloseProxy n) outs /\
     (forall id, ~ In (PMStop id n) evs) /\ (forall id, ~ In (PMStart id n) evs)) /\
  (forall n e, rc_get (pm_map s) n = Some e -> rc_first cfgs n <> Some (pe_cfg e) ->
     In (PMCloseProxy n) outs /\ In (PMStop (pe_id e) n) evs /\ In (pm_stopped e) (pm_dead s') /\
     (forall e', rc_get (pm_map s') n = Some e' ->
        pm_next s <= pe_id e' /\ pe_w e' = pw_init (rc_hc (pe_cfg e')))) /\
  (forall o, In o outs -> exists n, o = PMCloseProxy n).
Proof. exact pm_update_converges. Qed.
Print Assumptions C19_converges_to_last_config.

(* loading a set and loading the identical set again — with or without duplicate names, in any
   order of entries — stops nothing, starts nothing, sends nothing and leaves the state as it is *)
Theorem C19_duplicate_names_stable : forall t s cfgs, pm_wf s ->
  let '(s1, _, _) := pm_update t s cfgs in
  pm_update t s1 cfgs = (s1, [], []).
Proof. exact pm_update_identical. Qed.
Print Assumptions C19_duplicate_names_stable.

(* For every history of manager operations (reloads, per-wrapper ticks in any interleaving — also of
   wrappers that were already stopped —, health callbacks, start replies, work connections, Close)
   from the initial manager: the state stays well-formed, and at every step (pm_out_ok) no wrapper
   is stopped a second time, a NewProxy names a proxy that is in the table with the configuration it
   was loaded with and whose health flag is healthy, and a work connection is handed over only to a
   running wrapper of the table.  Hence: a stopped proxy sends no further registration and accepts no
   further work connection, at the level of the whole client. *)
Theorem C19_manager_invariant_all_histories : forall t ops,
  pm_wf (fst (pm_run t pm_init ops)) /\ pm_outs_ok t pm_init ops.
Proof. intros t ops. exact (pm_history_inv t ops pm_init pm_wf_init). Qed.
Print Assumptions C19_manager_invariant_all_histories.

(* The wrapper never writes into the configuration it was given.  In the model the wrapper step
   (pm_wstep) has the entry's configuration only as a read-only component, and over every history
   the configuration value held for a name is exactly a value UpdateAll was given for that name
   (first entry of the name in some loaded set).  This is what makes "deep-equal to a freshly loaded
   copy" in C19_converges_to_last_config / C19_duplicate_names_stable mean "unchanged in the file";
   the reconcile driver checks the corresponding observable on the real code: after NewWrapper and
   at every later step the object the wrapper holds deep-equals a pristine rebuild of the loaded
   configuration (also for health checks that leave intervalSeconds / timeoutSeconds / maxFailed unset). *)
Theorem C19_wrapper_never_mutates_config :
  (forall t e o, pe_cfg (fst (pm_wstep t e o)) = pe_cfg e /\ pe_id (fst (pm_wstep t e o)) = pe_id e) /\
  (forall t s o, pm_wf s -> forall n e', rc_get (pm_map (fst (pm_step t s o))) n = Some e' ->
     (exists e, rc_get (pm_map s) n = Some e /\ pe_cfg e' = pe_cfg e /\ pe_id e' = pe_id e) \/
     (exists cfgs, o = PMUpdate cfgs /\ rc_first cfgs n = Some (pe_cfg e'))) /\
  (forall t ops n e, rc_get (pm_map (fst (pm_run t pm_init ops))) n = Some e ->
     exists cfgs, In (PMUpdate cfgs) ops /\ rc_first cfgs n = Some (pe_cfg e)).
Proof. split; [exact pm_wstep_keeps_cfg|]. split; [exact pm_step_keeps_cfg|exact pm_stored_cfg_history]. Qed.
Print Assumptions C19_wrapper_never_mutates_config.

(* ================= monitor composed with wrapper ================= *)

(* One statement from probe outcomes to NewProxy / CloseProxy.  A health-checked wrapper and its
   monitor (callbacks wired as in NewWrapper) run any interleaving of probes (with any outcomes),
   worker iterations, start replies, work connections and a Stop.  At every step, with
   healthy := "some probe so far succeeded and fewer than maxFailed probes failed since the last
   success" (hm_spec_ok over the probe outcomes processed so far):
   NewProxy is sent only if healthy; a worker iteration while not healthy sends CloseProxy for a
   registered or registering proxy; a worker iteration while healthy sends NewProxy for a proxy that
   is new or was withdrawn; probes themselves send nothing. *)
Theorem C19_probe_outcomes_decide_registration : forall k max t ops, 1 <= max ->
  Forall (hg_step_ok max t) (snd (hg_run k (hm_full max) t hg_init ops)).
Proof. intros k max t ops Hm. exact (proj2 (hg_history k max t ops hg_init Hm (hg_inv_init max))). Qed.
Print Assumptions C19_probe_outcomes_decide_registration.

(* ================= the reload path in every session state ================= *)

(* Service + Control around the two managers (Model/ClientSvc.v).  A reload is enabled in every
   session state: before the first login, on a live session, and while the client is retrying after a
   connection loss (the dead Control is still in place).  For EVERY history of reloads (any old and new
   sets, empty ones included, any duplicates), connection losses and logins, and any visitor.Run()
   results: whenever a session is live, its proxy table is exactly first-entry-per-name of the proxy
   set of the LAST reload, its visitor table exactly that of the visitor set of the last reload, and no
   visitor runs under a name that set does not configure.  In particular a reload to the empty set
   leaves no proxy and no visitor, and a session established after a reload-while-disconnected registers
   the reloaded sets, not the ones from before the outage. *)
Theorem C19_live_session_holds_last_loaded_sets : forall t p0 v0 ops,
  let s := sv_run t (sv_init p0 v0) ops in
  match sv_ctl s with
  | SvLive c => sv_tables_are c (fst (sv_last_cfgs p0 v0 ops)) (snd (sv_last_cfgs p0 v0 ops))
  | _ => True
  end.
Proof.
  intros t p0 v0 ops. cbv zeta.
  pose proof (sv_history_inv t ops (sv_init p0 v0) (sv_inv_init p0 v0)) as H.
  pose proof (sv_cfgs_last t ops (sv_init p0 v0)) as Hc. simpl in Hc. unfold sv_inv in H.
  destruct (sv_ctl (sv_run t (sv_init p0 v0) ops)); auto.
  destruct H as [_ H]. rewrite <- Hc. exact H.
Qed.
Print Assumptions C19_live_session_holds_last_loaded_sets.

(* one reload on a live session, all pairs of old/new sets: afterwards exactly the new sets *)
Theorem C19_reload_all_pairs : forall t c p v ok, sv_ctl_wf c ->
  sv_ctl_wf (sv_ctl_reload t c p v ok) /\ sv_tables_are (sv_ctl_reload t c p v ok) p v.
Proof. exact sv_ctl_reload_tables. Qed.
Print Assumptions C19_reload_all_pairs.

(* the structural facts of client/control.go and client/service.go the model relies on, as read
   from today's source by the translator (gen/GenC19Reload.v): Control.Run and
   Control.UpdateAllConfigurer call pm.UpdateAll and vm.UpdateAll unconditionally with their own
   parameters; Service.UpdateAllConfigurer stores both sets and forwards both to the current Control;
   the login closure reads the configured sets after svr.login() and runs the session with them *)
Theorem C19_reload_path_structure : c19_reload_facts_ok = true.
Proof. vm_compute. reflexivity. Qed.
Print Assumptions C19_reload_path_structure.

Example C19_ex_reload_while_disconnected :
  let t := {| pw_wait := 20000; pw_errto := 30000 |} in
  let a := {| rc_name := 1; rc_val := 0; rc_hc := false |} in
  let b := {| rc_name := 2; rc_val := 0; rc_hc := false |} in
  let v := {| rc_name := 5; rc_val := 0; rc_hc := false |} in
  let ok := fun _ : Z => true in
  match sv_ctl (sv_run t (sv_init [a] [v]) [SVLogin ok; SVLost; SVReload [b] [] ok; SVLogin ok]) with
  | SvLive c => rc_keys (pm_map (sc_pm c)) = [2] /\ vm_cfgs (sc_vm c) = [] /\ vm_vis (sc_vm c) = []
  | _ => False
  end.
Proof. repeat split. Qed.

(* ================= closed at the server: http routes ================= *)

(* "entries that changed are stopped and closed at the server ... new entries are started ... registered
   again after the next success", for http proxies with any number of custom domains, an optional
   subdomain and any number of locations: Run on a route table that holds none of the proxy's routes
   succeeds and adds exactly domains x locations; Close gives back exactly the old table; so the next
   registration of the same or of a changed entry (any configuration whose routes are free in the old
   table) succeeds again.  Holds for close functions that unregister the route of their own iteration
   (per-iteration copy) — the reflective theorem below checks that on today's source. *)
Theorem C19_http_close_releases_every_route : forall t c,
  NoDup (hr_expand c) -> (forall r, In r (hr_expand c) -> ~ In r t) ->
  exists t', hr_run true t c = (Some t', t') /\
    (forall x, In x t' <-> In x t \/ In x (hr_expand c)) /\
    (forall x, In x (hr_close true t' c) <-> In x t) /\
    (forall c2, NoDup (hr_expand c2) -> (forall r, In r (hr_expand c2) -> ~ In r t) ->
       exists t2, hr_run true (hr_close true t' c) c2 = (Some t2, t2)).
Proof. exact hr_run_close_restores. Qed.
Print Assumptions C19_http_close_releases_every_route.

(* server/proxy/http.go HTTPProxy.Run, as read by the translator (gen/GenC19Routes.v): there are close
   functions, and every one hands UnRegister a variable declared inside the innermost loop body *)
Theorem C19_http_close_funcs_capture_own_route :
  (C19Routes_translated && (1 <=? Z.of_nat (List.length c19_http_close_funcs)) &&
   forallb (fun f : String.string * String.string * bool => snd f) c19_http_close_funcs) = true.
Proof. vm_compute. reflexivity. Qed.
Print Assumptions C19_http_close_funcs_capture_own_route.

(* ================= asynchronous replies: convergence refuted (F-C19c) ================= *)

(* Client and server over two FIFO channels (Model/ClientServer.v); NewProxyResp carries only the
   proxy name.  Wanted: whenever both channels are empty, a configured proxy is registered at the
   server iff the client reports it running.  REFUTED: a reload that changes proxy 7 while the
   NewProxy of the replaced wrapper is still unanswered, that first NewProxy being refused by the
   server: the error reply is taken by the NEW wrapper (start error), the success reply to the new
   wrapper's own NewProxy is then ignored ("status not wait start").  Both channels are empty, the
   server has 7 registered, the client reports start error and closes every work connection for it;
   the retry after startErrTimeout is refused by the server ("already registered"), so the state is
   permanent.  Replayed on the real code by the `system` driver (held + rejected NewProxy). *)
Definition C19_late_error_witness : list cs_op :=
  let x0 := {| rc_name := 7; rc_val := 0; rc_hc := false |} in
  let x1 := {| rc_name := 7; rc_val := 1; rc_hc := false |} in
  [CSClient (PMUpdate [x0]); CSClient (PMTick 0 1);          (* NewProxy(7, old) sent *)
   CSClient (PMUpdate [x1]); CSClient (PMTick 1 2);          (* CloseProxy(7), NewProxy(7, new) sent *)
   CSServer false; CSServer true; CSServer true;             (* old refused; close; new registered *)
   CSDeliver 3; CSDeliver 4].                                (* error -> new wrapper; success ignored *)

Theorem C19_converges_with_async_replies_refuted :
  exists ops, let t := {| pw_wait := 20000; pw_errto := 30000 |} in
    let s := cs_run t cs_init ops in
    cs_quiet s = true /\ cs_agree s = false /\
    (exists e, rc_get (pm_map (cs_pm s)) 7 = Some e /\ pw_ph (pe_w e) = PWStartErr) /\ In 7 (cs_srv s) /\
    (* the retry after the back-off is refused as well: same situation again *)
    let s' := cs_run t s [CSClient (PMTick 1 40000); CSServer true; CSDeliver 40001] in
    cs_quiet s' = true /\ cs_agree s' = false.
Proof. exists C19_late_error_witness. vm_compute. repeat split; eauto. Qed.
Print Assumptions C19_converges_with_async_replies_refuted.

(* what does hold (partial): without a replacement in between — the reply is handled by the wrapper
   that sent the request while it is still waiting — a success reply makes it running and an error
   reply puts it into start error, from where it is retried (C19_start_error_retried_after_backoff);
   and for synchronous exchanges the `system` driver compares the real client/server pair with
   the model.  Excluded input class, exactly: a reload replaces or removes wrapper n while a NewProxy
   of the replaced wrapper is unanswered and a wrapper for n exists when that reply arrives. *)
Theorem C19_reply_to_waiting_sender_partial : forall t w now,
  pw_ph w = PWWait ->
  (pw_ph (fst (pw_step t w (PWResp now false true))) = PWRunning /\
   snd (pw_step t w (PWResp now false true)) = [PWORespOk]) /\
  (pw_ph (fst (pw_step t w (PWResp now true true))) = PWStartErr /\
   pw_lastErr (fst (pw_step t w (PWResp now true true))) = now /\
   snd (pw_step t w (PWResp now true true)) = [PWORespErr]).
Proof. intros t w now H. simpl. rewrite H. simpl. repeat split. Qed.
Print Assumptions C19_reply_to_waiting_sender_partial.

(* ================= visitors ================= *)

(* "its visitors converge to exactly the configured ones": from every well-formed visitor-manager
   state (vm_wf: unique names, running visitors are configured; holds initially, preserved), after
   UpdateAll cfgs with any results of visitor.Run(): the configured table is exactly the first entry
   per name of cfgs; an unchanged entry keeps its visitor object and no event mentions it; the
   running visitor of a removed or changed entry is closed; new and changed entries are started
   (running with a fresh object iff Run() succeeds); unconfigured names have no visitor. *)
Theorem C19_visitors_converge : forall s cfgs ok, vm_wf s ->
  let r := vm_update s cfgs ok in
  vm_wf (fst r) /\
  (forall n, rc_get (vm_cfgs (fst r)) n = rc_first cfgs n) /\
  (forall n c, rc_get (vm_cfgs s) n = Some c -> rc_first cfgs n = Some c ->
     rc_get (vm_vis (fst r)) n = rc_get (vm_vis s) n /\
     (forall e, In e (snd r) -> match e with VMClosed _ m | VMStarted _ m | VMStartFailed m => m <> n end)) /\
  (forall n c id, rc_get (vm_cfgs s) n = Some c -> rc_first cfgs n <> Some c ->
     rc_get (vm_vis s) n = Some id -> In (VMClosed id n) (snd r)) /\
  (forall n c', rc_first cfgs n = Some c' -> rc_get (vm_cfgs s) n <> Some c' ->
     if ok n then exists id, vm_next s <= id /\ rc_get (vm_vis (fst r)) n = Some id /\ In (VMStarted id n) (snd r)
     else rc_get (vm_vis (fst r)) n = None /\ In (VMStartFailed n) (snd r)) /\
  (forall n, rc_first cfgs n = None -> rc_get (vm_vis (fst r)) n = None).
Proof. exact vm_update_converges. Qed.
Print Assumptions C19_visitors_converge.

(* reloading the identical visitor set (duplicates or not, whatever Run() would answer) is a no-op *)
Theorem C19_visitor_duplicate_names_stable : forall s cfgs ok1 ok2, vm_wf s ->
  vm_update (fst (vm_update s cfgs ok1)) cfgs ok2 = (fst (vm_update s cfgs ok1), []).
Proof. exact vm_update_identical. Qed.
Print Assumptions C19_visitor_duplicate_names_stable.

(* one round of keepVisitorsRunning: configuration untouched, running visitors untouched, nothing
   closed, and every configured visitor whose start had failed is started again (running iff Run()
   now succeeds); if every Run() succeeds all configured visitors run afterwards *)
Theorem C19_keep_visitors_running_restarts_failed : forall s ok, vm_wf s ->
  let r := vm_keep s ok in
  (vm_wf (fst r) /\ vm_cfgs (fst r) = vm_cfgs s /\
   (forall n id, rc_get (vm_vis s) n = Some id -> rc_get (vm_vis (fst r)) n = Some id) /\
   (forall n c, rc_get (vm_cfgs s) n = Some c -> rc_get (vm_vis s) n = None ->
      if ok n then exists id, vm_next s <= id /\ rc_get (vm_vis (fst r)) n = Some id /\ In (VMStarted id n) (snd r)
      else rc_get (vm_vis (fst r)) n = None) /\
   (forall e, In e (snd r) -> match e with VMClosed _ _ => False | _ => True end)) /\
  ((forall n, ok n = true) ->
   forall n c, rc_get (vm_cfgs (fst r)) n = Some c -> rc_get (vm_vis (fst r)) n <> None).
Proof.
  intros s ok Hwf. split; [exact (vm_keep_restarts s ok Hwf)|].
  intros Hok. exact (vm_keep_all_running s ok Hwf Hok).
Qed.
Print Assumptions C19_keep_visitors_running_restarts_failed.

(* ---- the hypotheses are satisfiable / the statements are not vacuous ---- *)
Example C19_ex_vm_wf_init : vm_wf vm_init.
Proof. exact vm_wf_init. Qed.

Example C19_ex_visitor_start_failed_then_kept :
  let v := {| rc_name := 3; rc_val := 1; rc_hc := false |} in
  let '(s1, ev1) := vm_update vm_init [v] (fun _ => false) in
  ev1 = [VMStartFailed 3] /\ rc_get (vm_vis s1) 3 = None /\
  snd (vm_keep s1 (fun _ => true)) = [VMStarted 0 3].
Proof. repeat split. Qed.

Example C19_ex_gate :
  let t := {| pw_wait := 20000; pw_errto := 30000 |} in
  map (fun x => snd x)
      (snd (hg_run HKTcp (hm_full 2) t hg_init
              [HGTick 1; HGProbe HPRefuse; HGTick 2; HGProbe HPAccept; HGTick 3; HGResp 4 false true;
               HGProbe HPTimeout; HGTick 5; HGProbe HPRefuse; HGTick 6; HGProbe HPAccept; HGTick 7]))
  = [[]; []; []; []; [PWONew]; [PWORespOk]; []; []; []; [PWOClose]; []; [PWONew]].
Proof. reflexivity. Qed.

Example C19_ex_wf_init : pm_wf pm_init.
Proof. exact pm_wf_init. Qed.

Example C19_ex_duplicate_reload :
  let t := {| pw_wait := 20000; pw_errto := 30000 |} in
  let x1 := {| rc_name := 7; rc_val := 1000; rc_hc := false |} in
  let x2 := {| rc_name := 7; rc_val := 2000; rc_hc := false |} in
  let y := {| rc_name := 8; rc_val := 1; rc_hc := true |} in
  let '(s1, _, ev1) := pm_update t pm_init [x1; x2; y] in
  ev1 = [PMStart 0 7; PMStart 1 8] /\ pm_update t s1 [x1; x2; y] = (s1, [], []) /\
  snd (pm_update t s1 [x2; x1; y]) = [PMStop 0 7; PMStart 2 7].
Proof. repeat split. Qed.

Example C19_ex_withdraw_at_3 :
  map (map (fun e => match e with HMNormal => 0 | HMFailed => 1 end))
      (snd (hm_run HKHttp (hm_full 3)
              [HPStatus 200; HPRefuse; HPRefuse; HPStatus 200; HPRefuse; HPTimeout; HPStatus 500; HPStatus 204]))
  = [[0]; []; []; []; []; []; [1]; [0]].
Proof. reflexivity. Qed.

Example C19_ex_start_error_state :
  let t := {| pw_wait := 20000; pw_errto := 30000 |} in
  let s := fst (pw_run t (pw_init false) [PWTick 5; PWResp 7 true true]) in
  pw_ph s = PWStartErr /\ pw_health s = 0 /\
  snd (pw_step t s (PWTick 30007)) = [] /\ snd (pw_step t s (PWTick 30008)) = [PWONew].
Proof. repeat split. Qed.
