// T10rel (property C10): effect digests of the helpers the resource model Model/SrvRes.v mirrors.
//
// For each listed function the body is walked in source order and emitted as a list of effects
//
//	Ef kind [args]      kind in: store (m[k] = v), delete (delete(m,k)), assign (x.f = v), local (l = v), call, send,
//	                    defer / go / if / else / loop / case / end (structure), ret, branch, unknown
//
// with CANONICAL expression strings: the receiver is $recv, the i-th parameter $i, named results $r<i>, the k-th
// local in order of first binding $l<k>; comments, logging calls (xl.*, log.*, *.Infof/Warnf/Debugf/Errorf/Tracef)
// and verifhook gate lines are dropped.  Renaming locals or parameters, changing a log text or a comment leaves
// the digest unchanged; adding / removing / reordering a table write, a call, a defer, a guard changes it.
// The reflective obligation Properties/C10.v C10_helpers_are_what_the_model_mirrors compares the digests
// with the ones Proofs/RelMirror.v pins next to the model function that mirrors each helper.
package main

import (
	"bytes"
	"fmt"
	"go/ast"
	"go/parser"
	"go/token"
	"path/filepath"
	"strings"

	"veriftranslator/tx"
)

type target struct{ file, recv, name string }

var targets = []target{
	{"pkg/util/vhost/router.go", "Routers", "Add"},
	{"pkg/util/vhost/router.go", "Routers", "Del"},
	{"pkg/util/vhost/vhost.go", "Muxer", "Listen"},
	{"pkg/util/vhost/vhost.go", "Listener", "Close"},
	{"pkg/util/vhost/http.go", "HTTPReverseProxy", "Register"},
	{"pkg/util/vhost/http.go", "HTTPReverseProxy", "UnRegister"},
	{"server/visitor/visitor.go", "Manager", "Listen"},
	{"server/visitor/visitor.go", "Manager", "CloseListener"},
	{"pkg/nathole/controller.go", "Controller", "ListenClient"},
	{"pkg/nathole/controller.go", "Controller", "CloseClient"},
	{"server/proxy/proxy.go", "BaseProxy", "Close"},
	{"server/proxy/stcp.go", "STCPProxy", "Run"},
	{"server/proxy/stcp.go", "STCPProxy", "Close"},
	{"server/proxy/sudp.go", "SUDPProxy", "Run"},
	{"server/proxy/sudp.go", "SUDPProxy", "Close"},
	{"server/proxy/xtcp.go", "XTCPProxy", "Close"},
	{"server/proxy/https.go", "HTTPSProxy", "Close"},
	{"server/proxy/tcpmux.go", "TCPMuxProxy", "Close"},
	{"server/proxy/http.go", "HTTPProxy", "Close"},
	{"server/proxy/tcp.go", "TCPProxy", "Close"},
	{"server/proxy/proxy.go", "Manager", "Add"},
	{"server/proxy/proxy.go", "Manager", "Del"},
	{"pkg/config/v1/proxy.go", "ProxyBaseConfig", "UnmarshalFromMsg"},
	{"pkg/util/net/conn.go", "wrapQuicStream", "Close"},
	{"server/group/http.go", "HTTPGroupController", "Register"},
	{"server/group/http.go", "HTTPGroupController", "UnRegister"},
	{"server/group/http.go", "HTTPGroup", "Register"},
	{"server/group/http.go", "HTTPGroup", "UnRegister"},
	{"server/group/tcp.go", "TCPGroupCtl", "Listen"},
	{"server/group/tcp.go", "TCPGroup", "Listen"},
	{"server/group/tcp.go", "TCPGroup", "CloseListener"},
	{"server/group/tcpmux.go", "TCPMuxGroupCtl", "Listen"},
	{"server/group/tcpmux.go", "TCPMuxGroup", "HTTPConnectListen"},
	{"server/group/tcpmux.go", "TCPMuxGroup", "CloseListener"},
	{"server/proxy/http.go", "HTTPProxy", "Run"},
	{"pkg/ssh/server.go", "TunnelServer", "Run"},
	{"server/proxy/udp.go", "UDPProxy", "Close"},
	{"pkg/msg/handler.go", "Dispatcher", "sendLoop"},
	{"pkg/msg/handler.go", "Dispatcher", "readLoop"},
	{"pkg/msg/handler.go", "Dispatcher", "Send"},
	{"server/control.go", "Control", "registerMsgHandlers"},
	{"pkg/util/net/conn.go", "CloseNotifyConn", "Close"},
	{"pkg/util/net/conn.go", "StatsConn", "Close"},
}

func main() { tx.Main(tx.Unit{Name: "T10rel", File: "GenRelease.v", Fn: gen}) }

type ef struct {
	kind string
	args []string
}

type walker struct {
	names  map[string]string // identifier -> canonical
	locals int
	out    []ef
}

func (w *walker) emit(kind string, args ...string) { w.out = append(w.out, ef{kind, args}) }

func (w *walker) local(name string) string {
	if name == "_" {
		return "_"
	}
	if c, ok := w.names[name]; ok {
		return c
	}
	c := fmt.Sprintf("$l%d", w.locals)
	w.locals++
	w.names[name] = c
	return c
}

func isLogCall(c *ast.CallExpr) bool {
	sel, ok := c.Fun.(*ast.SelectorExpr)
	if !ok {
		return false
	}
	switch sel.Sel.Name {
	case "Infof", "Warnf", "Debugf", "Errorf", "Tracef", "Logf":
		return true
	}
	if id, ok := sel.X.(*ast.Ident); ok && (id.Name == "verifhook" || id.Name == "log" || id.Name == "xl") {
		return true
	}
	return false
}

func (w *walker) ex(e ast.Expr) string {
	switch x := e.(type) {
	case nil:
		return ""
	case *ast.Ident:
		if c, ok := w.names[x.Name]; ok {
			return c
		}
		return x.Name
	case *ast.BasicLit:
		return x.Value
	case *ast.SelectorExpr:
		return w.ex(x.X) + "." + x.Sel.Name
	case *ast.IndexExpr:
		return w.ex(x.X) + "[" + w.ex(x.Index) + "]"
	case *ast.StarExpr:
		return "*" + w.ex(x.X)
	case *ast.ParenExpr:
		return "(" + w.ex(x.X) + ")"
	case *ast.UnaryExpr:
		return x.Op.String() + w.ex(x.X)
	case *ast.BinaryExpr:
		return w.ex(x.X) + " " + x.Op.String() + " " + w.ex(x.Y)
	case *ast.CallExpr:
		a := make([]string, len(x.Args))
		for i, y := range x.Args {
			a[i] = w.ex(y)
		}
		return w.ex(x.Fun) + "(" + strings.Join(a, ", ") + ")"
	case *ast.CompositeLit:
		fs := []string{}
		for _, el := range x.Elts {
			if kv, ok := el.(*ast.KeyValueExpr); ok {
				fs = append(fs, w.ex(kv.Key)+": "+w.ex(kv.Value))
			} else {
				fs = append(fs, w.ex(el))
			}
		}
		return w.ex(x.Type) + "{" + strings.Join(fs, ", ") + "}"
	case *ast.FuncLit:
		return "func"
	case *ast.ArrayType:
		return "[]" + w.ex(x.Elt)
	case *ast.MapType:
		return "map[" + w.ex(x.Key) + "]" + w.ex(x.Value)
	case *ast.TypeAssertExpr:
		return w.ex(x.X) + ".(" + w.ex(x.Type) + ")"
	case *ast.SliceExpr:
		return w.ex(x.X) + "[" + w.ex(x.Low) + ":" + w.ex(x.High) + "]"
	case *ast.KeyValueExpr:
		return w.ex(x.Key) + ": " + w.ex(x.Value)
	case *ast.InterfaceType:
		return "interface"
	case *ast.ChanType:
		return "chan " + w.ex(x.Value)
	}
	return fmt.Sprintf("?%T", e)
}

func (w *walker) call(c *ast.CallExpr) {
	if isLogCall(c) {
		return
	}
	if id, ok := c.Fun.(*ast.Ident); ok && id.Name == "delete" && len(c.Args) == 2 {
		w.emit("delete", w.ex(c.Args[0]), w.ex(c.Args[1]))
		return
	}
	args := []string{w.ex(c.Fun)}
	for _, a := range c.Args {
		if fl, ok := a.(*ast.FuncLit); ok {
			// a function literal passed to a call (sync.Once.Do, ...): its body belongs to the digest
			w.emit("call", append(args, "func")...)
			w.emit("func")
			w.block(fl.Body)
			w.emit("end")
			return
		}
		args = append(args, w.ex(a))
	}
	w.emit("call", args...)
}

func (w *walker) assign(s *ast.AssignStmt) {
	rhs := make([]string, len(s.Rhs))
	for i, r := range s.Rhs {
		rhs[i] = w.ex(r)
	}
	r := strings.Join(rhs, ", ")
	for i, l := range s.Lhs {
		val := r
		if len(s.Lhs) == len(s.Rhs) {
			val = rhs[i]
		} else if len(s.Lhs) > 1 {
			val = fmt.Sprintf("%s#%d", r, i)
		}
		switch x := l.(type) {
		case *ast.IndexExpr:
			w.emit("store", w.ex(x.X), w.ex(x.Index), val)
		case *ast.Ident:
			var c string
			if s.Tok == token.DEFINE {
				c = w.local(x.Name)
			} else {
				c = w.ex(x)
			}
			if c != "_" {
				w.emit("local", c, s.Tok.String(), val)
			}
		default:
			w.emit("assign", w.ex(l), s.Tok.String(), val)
		}
	}
}

func (w *walker) block(b *ast.BlockStmt) {
	if b == nil {
		return
	}
	for _, s := range b.List {
		w.stmt(s)
	}
}

func (w *walker) stmt(s ast.Stmt) {
	switch x := s.(type) {
	case *ast.AssignStmt:
		w.assign(x)
	case *ast.ExprStmt:
		if c, ok := x.X.(*ast.CallExpr); ok {
			w.call(c)
		} else {
			w.emit("expr", w.ex(x.X))
		}
	case *ast.DeferStmt:
		if fl, ok := x.Call.Fun.(*ast.FuncLit); ok {
			w.emit("defer")
			w.block(fl.Body)
			w.emit("end")
		} else if !isLogCall(x.Call) {
			w.emit("defer")
			w.call(x.Call)
			w.emit("end")
		}
	case *ast.GoStmt:
		w.emit("go")
		if fl, ok := x.Call.Fun.(*ast.FuncLit); ok {
			w.block(fl.Body)
		} else {
			w.call(x.Call)
		}
		w.emit("end")
	case *ast.IfStmt:
		if x.Init != nil {
			w.stmt(x.Init)
		}
		w.emit("if", w.ex(x.Cond))
		w.block(x.Body)
		if x.Else != nil {
			w.emit("else")
			w.stmt(x.Else)
		}
		w.emit("end")
	case *ast.BlockStmt:
		w.block(x)
	case *ast.ForStmt:
		if x.Init != nil {
			w.stmt(x.Init)
		}
		w.emit("loop", w.ex(x.Cond))
		w.block(x.Body)
		if x.Post != nil {
			w.stmt(x.Post)
		}
		w.emit("end")
	case *ast.RangeStmt:
		k, v := "", ""
		if id, ok := x.Key.(*ast.Ident); ok && x.Tok == token.DEFINE {
			k = w.local(id.Name)
		} else {
			k = w.ex(x.Key)
		}
		if id, ok := x.Value.(*ast.Ident); ok && x.Tok == token.DEFINE {
			v = w.local(id.Name)
		} else {
			v = w.ex(x.Value)
		}
		w.emit("loop", "range", w.ex(x.X), k, v)
		w.block(x.Body)
		w.emit("end")
	case *ast.ReturnStmt:
		rs := []string{}
		for _, r := range x.Results {
			rs = append(rs, w.ex(r))
		}
		w.emit("ret", rs...)
	case *ast.SendStmt:
		w.emit("send", w.ex(x.Chan), w.ex(x.Value))
	case *ast.IncDecStmt:
		w.emit("assign", w.ex(x.X), x.Tok.String(), "")
	case *ast.BranchStmt:
		w.emit("branch", x.Tok.String())
	case *ast.DeclStmt:
		if gd, ok := x.Decl.(*ast.GenDecl); ok {
			for _, sp := range gd.Specs {
				if vs, ok := sp.(*ast.ValueSpec); ok {
					for i, n := range vs.Names {
						val := ""
						if i < len(vs.Values) {
							val = w.ex(vs.Values[i])
						}
						w.emit("local", w.local(n.Name), "var", val)
					}
				}
			}
		}
	case *ast.SelectStmt:
		w.emit("select")
		for _, cl := range x.Body.List {
			cc := cl.(*ast.CommClause)
			if cc.Comm == nil {
				w.emit("case", "default")
			} else {
				w.emit("case")
				w.stmt(cc.Comm)
			}
			for _, b := range cc.Body {
				w.stmt(b)
			}
		}
		w.emit("end")
	case *ast.SwitchStmt:
		if x.Init != nil {
			w.stmt(x.Init)
		}
		w.emit("switch", w.ex(x.Tag))
		for _, cl := range x.Body.List {
			cc := cl.(*ast.CaseClause)
			cs := []string{}
			for _, e := range cc.List {
				cs = append(cs, w.ex(e))
			}
			w.emit("case", cs...)
			for _, b := range cc.Body {
				w.stmt(b)
			}
		}
		w.emit("end")
	case *ast.EmptyStmt:
	case *ast.LabeledStmt:
		w.stmt(x.Stmt)
	default:
		w.emit("unknown", fmt.Sprintf("%T", s))
	}
}

func recvName(fd *ast.FuncDecl) string {
	if fd.Recv == nil || len(fd.Recv.List) == 0 {
		return ""
	}
	t := fd.Recv.List[0].Type
	if st, ok := t.(*ast.StarExpr); ok {
		t = st.X
	}
	if id, ok := t.(*ast.Ident); ok {
		return id.Name
	}
	return ""
}

func gen() ([]byte, error) {
	var b bytes.Buffer
	b.WriteString("(* GENERATED by translator unit t10rel (translator/cmd/t10rel) from the Go sources on every run.  Do not edit.\n")
	b.WriteString("   rel_funcs : (file:Type.Method, effect digest) for the helpers Model/SrvRes.v mirrors; format in the unit's header\n")
	b.WriteString("   and in Model/RelTypes.v. *)\nFrom FRP Require Import Model.RelTypes.\nOpen Scope string_scope.\n\n")
	b.WriteString("Definition T10rel_translated : bool := true.\n\nDefinition rel_funcs : list (string * list ef) := [\n")
	parsed := map[string]*ast.File{}
	fset := token.NewFileSet()
	for ti, t := range targets {
		f := parsed[t.file]
		if f == nil {
			var err error
			f, err = parser.ParseFile(fset, filepath.Join(tx.Repo, t.file), nil, 0)
			if err != nil {
				return nil, err
			}
			parsed[t.file] = f
		}
		var fn *ast.FuncDecl
		for _, d := range f.Decls {
			if fd, ok := d.(*ast.FuncDecl); ok && fd.Name.Name == t.name && recvName(fd) == t.recv {
				fn = fd
			}
		}
		key := t.file + ":" + t.recv + "." + t.name
		w := &walker{names: map[string]string{}}
		if fn == nil || fn.Body == nil {
			w.emit("unknown", "function not found")
		} else {
			if len(fn.Recv.List[0].Names) > 0 {
				w.names[fn.Recv.List[0].Names[0].Name] = "$recv"
			}
			pi := 0
			for _, fl := range fn.Type.Params.List {
				for _, n := range fl.Names {
					w.names[n.Name] = fmt.Sprintf("$%d", pi)
					pi++
				}
				if len(fl.Names) == 0 {
					pi++
				}
			}
			if fn.Type.Results != nil {
				ri := 0
				for _, fl := range fn.Type.Results.List {
					for _, n := range fl.Names {
						w.names[n.Name] = fmt.Sprintf("$r%d", ri)
						ri++
					}
				}
			}
			w.block(fn.Body)
		}
		fmt.Fprintf(&b, "  (%s, [\n", tx.CoqString(key))
		for i, e := range w.out {
			as := make([]string, len(e.args))
			for j, a := range e.args {
				as[j] = tx.CoqString(a)
			}
			sep := ";"
			if i == len(w.out)-1 {
				sep = ""
			}
			fmt.Fprintf(&b, "     Ef %s [%s]%s\n", tx.CoqString(e.kind), strings.Join(as, "; "), sep)
		}
		sep := ";"
		if ti == len(targets)-1 {
			sep = ""
		}
		fmt.Fprintf(&b, "  ])%s\n", sep)
	}
	b.WriteString("].\n")
	return b.Bytes(), nil
}
