(* C12 correspondence: an in-process frps driven by scripted peers (and, in the schedule cases, by
   verifhook gates) against Model.CtlMgr.  A case is a list of items; the model replays the actions
   and its projected state must equal what the harness observed at every IObs. *)
From FRP Require Export Corr.Common Model.CtlMgr Model.ClientLogin.
Export CM.
Open Scope N_scope.

(* proxy types the driver registers *)
Definition tcpT : ptype := mkPT 1%Z false.
Definition stcpT : ptype := mkPT 0%Z true.

Inductive item :=
| IAct (a : action)        (* the implementation performed this action: it must be enabled in the model *)
| IRun (t : tid)           (* thread t was released from its gate and ran to its next gate / blocked / ended *)
| ISettle                  (* no gate held: every thread ran until nothing was enabled *)
| IBlocked (t : tid)       (* thread t was released but made no progress: it must be disabled in the model *)
| IObs (octls : list (N * N)) (onames : list (N * N)) (obound : list N) (oouts : list out).

(* a case: serverCfg.MaxPortsPerClient of the run, then what happened *)
Definition case := (Z * list item)%type.

(* ---- gates: the pcs at which a thread of the implementation sits in verifhook.At ---- *)
Definition at_gate (st : state) (t : tid) : bool :=
  match t with
  | TLogin s => match alookup s (sessions st) with
                | Some x => match s_lpc x with LWait _ | LStart => true | _ => false end
                | None => false end
  | TLate s => match alookup s (sessions st) with
               | Some x => match s_dpc x with DDel => true | _ => false end
               | None => false end
  | TSess s => match alookup s (sessions st) with
               | Some x => match s_spc x with SRun _ _ _ _ | SAddP _ _ | TLoop _ => true | _ => false end
               | None => false end
  end.

(* canonical pick for the map range: first entry not yet visited *)
Definition pick_of (st : state) (s : N) : N :=
  match alookup s (sessions st) with
  | Some x => match s_spc x with TLoop ((n, _) :: _) => n | _ => 0 end
  | None => 0
  end.

Definition act_of (st : state) (t : tid) : action :=
  match t with TSess s => AStep t (pick_of st s) | _ => AStep t 0 end.

Fixpoint run_thread (fuel : nat) (st : state) (t : tid) (acc : list out) : option (state * list out) :=
  match fuel with
  | O => None
  | S f =>
      if at_gate st t then Some (st, acc) else
      match step st (act_of st t) with
      | Some (st', o) => run_thread f st' t (acc ++ o)
      | None => Some (st, acc)
      end
  end.

(* first enabled thread step, sessions in the order of the table *)
Fixpoint first_enabled (st : state) (l : list (N * session)) : option (state * list out) :=
  match l with
  | [] => None
  | (s, _) :: r =>
      match step st (AStep (TLogin s) 0) with
      | Some x => Some x
      | None =>
          match step st (act_of st (TSess s)) with
          | Some x => Some x
          | None =>
              match step st (AStep (TLate s) 0) with
              | Some x => Some x
              | None => first_enabled st r
              end
          end
      end
  end.

Fixpoint settle (fuel : nat) (st : state) (acc : list out) : option (state * list out) :=
  match fuel with
  | O => None
  | S f =>
      match first_enabled st (sessions st) with
      | Some (st', o) => settle f st' (acc ++ o)
      | None => Some (st, acc)
      end
  end.

(* ---- projections ---- *)
Fixpoint ins_pair (x : N * N) (l : list (N * N)) : list (N * N) :=
  match l with
  | [] => [x]
  | y :: r => if (fst x <=? fst y) then x :: l else y :: ins_pair x r
  end.
Definition sort_pairs (l : list (N * N)) := fold_right ins_pair [] l.
Fixpoint ins_n (x : N) (l : list N) : list N :=
  match l with
  | [] => [x]
  | y :: r => if (x <=? y) then x :: l else y :: ins_n x r
  end.
Definition sort_ns (l : list N) := fold_right ins_n [] l.

Definition proj_ctls (st : state) := sort_pairs (ctls st).
Definition owner_of (st : state) (pid : N) : N :=
  match alookup pid (proxies st) with Some p => p_owner p | None => 4000000 end.
Definition proj_names (st : state) :=
  sort_pairs (map (fun e : N * N => (fst e, owner_of st (snd e))) (pxys st)).
Definition p_running (p : proxy) : bool := match p_status p with PRunning => true | PClosed => false end.
Definition proj_bound (st : state) :=
  sort_ns (map (fun e : N * proxy => p_att (snd e)) (filter (fun e : N * proxy => p_running (snd e)) (proxies st))).

Definition out_sid (o : out) : N :=
  match o with OLoginResp s _ _ => s | ONewProxyResp s _ _ _ _ => s end.
Definition out_delivered (o : out) : bool :=
  match o with OLoginResp _ _ d => d | ONewProxyResp _ _ _ _ d => d end.
Fixpoint ins_out (x : out) (l : list out) : list out :=
  match l with
  | [] => [x]
  | y :: r => if (out_sid x <? out_sid y) then x :: l else y :: ins_out x r
  end.
(* stable: the per-session order is kept *)
Definition sort_outs (l : list out) := fold_left (fun acc x => ins_out x acc) l [].

Definition optN_eqb (a b : option N) : bool :=
  match a, b with Some x, Some y => x =? y | None, None => true | _, _ => false end.
Definition out_eqb (a b : out) : bool :=
  match a, b with
  | OLoginResp s r d, OLoginResp s' r' d' => (s =? s') && optN_eqb r r' && Bool.eqb d d'
  | ONewProxyResp s n a e d, ONewProxyResp s' n' a' e' d' =>
      (s =? s') && (n =? n') && (a =? a') && (e =? e') && Bool.eqb d d'
  | _, _ => false
  end.
Fixpoint list_eqb {A} (eqb : A -> A -> bool) (x y : list A) : bool :=
  match x, y with
  | [], [] => true
  | a :: x', b :: y' => eqb a b && list_eqb eqb x' y'
  | _, _ => false
  end.
Definition pair_eqb (a b : N * N) : bool := (fst a =? fst b) && (snd a =? snd b).

Definition big_fuel : nat := (100 * 100)%nat.

(* reason codes: 1 action not enabled | 2 released thread cannot step | 3 out of fuel |
   4 blocked thread is enabled in the model | 11 session table | 12 name table |
   13 set of running proxies | 14 messages delivered to the peers *)
(* NewProxyResp class 5 = refused by the per-client port quota *)
Fixpoint check_items (l : list item) (st : state) (pend : list out) : Z :=
  match l with
  | [] => 0%Z
  | IAct a :: r =>
      match step st a with
      | Some (st', o) => check_items r st' (pend ++ o)
      | None => 1%Z
      end
  | IRun t :: r =>
      match step st (act_of st t) with
      | Some (st', o) =>
          match run_thread big_fuel st' t (pend ++ o) with
          | Some (st'', o') => check_items r st'' o'
          | None => 3%Z
          end
      | None => 2%Z
      end
  | ISettle :: r =>
      match settle big_fuel st pend with
      | Some (st', o) => check_items r st' o
      | None => 3%Z
      end
  | IBlocked t :: r =>
      match step st (act_of st t) with
      | Some _ => 4%Z
      | None => check_items r st pend
      end
  | IObs oc on ob oo :: r =>
      if negb (list_eqb pair_eqb (proj_ctls st) oc) then 11%Z
      else if negb (list_eqb pair_eqb (proj_names st) on) then 12%Z
      else if negb (list_eqb N.eqb (proj_bound st) ob) then 13%Z
      else if negb (list_eqb out_eqb (sort_outs (filter out_delivered pend)) oo) then 14%Z
      else check_items r st []
  end.

Definition check_case (c : case) : Z := check_items (snd c) (init_with (fst c)) [].

(* ---- the property as a monitor on what was observed (no model involved) ----
   names are unique in every snapshot, a run id designates one session, and the proxies that
   are running are at most as many as the registered names (no orphan listener at rest). *)
Fixpoint nodup_keys (l : list (N * N)) : bool :=
  match l with
  | [] => true
  | (k, _) :: r => negb (existsb (fun e : N * N => fst e =? k) r) && nodup_keys r
  end.
Definition obs_ok (i : item) : bool :=
  match i with
  | IObs oc on ob _ => nodup_keys oc && nodup_keys on
  | _ => true
  end.
Definition C12_holds (c : case) : bool := forallb obs_ok (snd c).

(* counters for the evidence: which model branches the cases reached *)
Definition has_item (p : item -> bool) (c : case) : bool := existsb p (snd c).
Definition has_quota (c : case) : bool := (0 <? fst c)%Z.
Definition is_relogin (i : item) : bool := match i with IAct (ALogin (Some _) _) => true | _ => false end.
Definition is_gated (i : item) : bool := match i with IRun _ | IBlocked _ => true | _ => false end.
Definition is_blocked (i : item) : bool := match i with IBlocked _ => true | _ => false end.
Definition has_err (e : N) (i : item) : bool :=
  match i with
  | IObs _ _ _ oo => existsb (fun o => match o with ONewProxyResp _ _ _ e' _ => e' =? e | _ => false end) oo
  | _ => false
  end.

(* ---- the client half: a real frpc behind a relay that can cut the client side of the control
   connection and refuse a login.  A case = the attempts in order: what happened to it (outcome) and
   the run id the Login message carried; run ids are numbered, None = "" ---- *)
Inductive cobs :=
| CAttempt (o : CL.outcome) (presented : option N)
| CLost.

Definition cobs_event (c : cobs) : CL.cevent :=
  match c with CAttempt o _ => CL.ELogin o | CLost => CL.EConnLost end.
Definition cobs_presented (l : list cobs) : list (option N) :=
  flat_map (fun c => match c with CAttempt _ p => [p] | CLost => [] end) l.

(* 0 agrees | 21 an attempt carried another run id than the model's client *)
Definition check_client (l : list cobs) : Z :=
  if list_eqb optN_eqb (snd (CL.c_run CL.c_init (map cobs_event l))) (cobs_presented l) then 0%Z else 21%Z.

Definition is_refused (c : cobs) : bool := match c with CAttempt (CL.ORefused _) _ => true | _ => false end.
