(* C19 — the proxy manager (Model/Reconcile.v) composed with a minimal server over two FIFO
   channels, to state what "registered at the server" converges to when replies are asynchronous.
   Model only.  Prefix cs_.

   client -> server : NewProxy name value | CloseProxy name      (control connection, in order)
   server -> client : NewProxyResp name error?                   (in order; carries the NAME only,
                                                                  as pkg/msg.NewProxyResp does)
   server: handles one message at a time in arrival order (msg.Dispatcher.readLoop calls the
   handler synchronously); NewProxy registers the name unless it is already registered or the
   oracle [accept] refuses (port in use, plugin rejection, ...); CloseProxy unregisters.
   client: Control.handleNewProxyResp -> Manager.StartProxy(name, ...) = PMResp name. *)
From Coq Require Import List ZArith Bool.
From FRP Require Import Model.Wrapper Model.Reconcile.
Import ListNotations.
Open Scope Z_scope.

Inductive cs_msg := CSNew (n v : Z) | CSClose (n : Z).

Record cs_state := {
  cs_pm : pm_state;
  cs_srv : list Z;                 (* names registered at the server *)
  cs_up : list cs_msg;             (* client -> server, head = oldest *)
  cs_down : list (Z * bool)        (* server -> client: name, error *)
}.

Definition cs_init : cs_state := {| cs_pm := pm_init; cs_srv := []; cs_up := []; cs_down := [] |}.

Inductive cs_op :=
| CSClient (o : pm_op)             (* any manager operation except a reply *)
| CSServer (accept : bool)         (* the server handles the oldest request *)
| CSDeliver (now : Z).             (* the client handles the oldest reply *)

Definition cs_wire (o : pm_out) : list cs_msg :=
  match o with
  | PMNewProxy n v => [CSNew n v]
  | PMCloseProxy n => [CSClose n]
  | _ => []
  end.

Definition cs_step (t : pw_timing) (s : cs_state) (o : cs_op) : cs_state :=
  match o with
  | CSClient (PMResp _ _ _ _) => s
  | CSClient po =>
      let '(pm', outs) := pm_step t (cs_pm s) po in
      {| cs_pm := pm'; cs_srv := cs_srv s; cs_up := cs_up s ++ flat_map cs_wire outs; cs_down := cs_down s |}
  | CSServer accept =>
      match cs_up s with
      | [] => s
      | CSNew n _ :: r =>
          if accept && negb (existsb (Z.eqb n) (cs_srv s))
          then {| cs_pm := cs_pm s; cs_srv := n :: cs_srv s; cs_up := r; cs_down := cs_down s ++ [(n, false)] |}
          else {| cs_pm := cs_pm s; cs_srv := cs_srv s; cs_up := r; cs_down := cs_down s ++ [(n, true)] |}
      | CSClose n :: r =>
          {| cs_pm := cs_pm s; cs_srv := filter (fun x => negb (x =? n)) (cs_srv s); cs_up := r; cs_down := cs_down s |}
      end
  | CSDeliver now =>
      match cs_down s with
      | [] => s
      | (n, err) :: r =>
          let '(pm', _) := pm_step t (cs_pm s) (PMResp n now err true) in
          {| cs_pm := pm'; cs_srv := cs_srv s; cs_up := cs_up s; cs_down := r |}
      end
  end.

Definition cs_run (t : pw_timing) (s : cs_state) (ops : list cs_op) : cs_state := fold_left (cs_step t) ops s.

(* the property wanted at quiescence: a configured proxy is registered at the server iff the client
   reports it running, and nothing else is registered *)
Definition cs_quiet (s : cs_state) : bool :=
  match cs_up s, cs_down s with [], [] => true | _, _ => false end.

Definition cs_agree (s : cs_state) : bool :=
  forallb (fun ne : Z * pm_entry =>
             Bool.eqb (pw_phase_eqb (pw_ph (pe_w (snd ne))) PWRunning) (existsb (Z.eqb (fst ne)) (cs_srv s)))
          (pm_map (cs_pm s))
  && forallb (fun n => match rc_get (pm_map (cs_pm s)) n with Some _ => true | None => false end) (cs_srv s).
