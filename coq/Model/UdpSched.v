(* C03: udp.Forwarder at lock granularity, as a schedule model.  Model only: no proofs here.

   Threads: the readCh loop ("writer") and one reader goroutine (writerFn) per local socket.
   One step = what happens between two synchronisation points:
     writer : [take packet; GetContent; mu.Lock]  [lookup / DialUDP + insert]  [mu.Unlock]
              [udpConn.Write; on error Close; if the socket is new: go writerFn]
     reader : ReadFromUDP returns a datagram (tag, try-send)  |  ReadFromUDP returns the deadline
              error  |  mu.Lock  |  delete(udpConnMap, addr)  |  mu.Unlock  |  udpConn.Close
   A schedule is a list of thread ids / environment events; a step that is not enabled (lock
   taken, nothing to do) leaves the state unchanged.  Queues are not bounded here and there is
   no work-connection replacement: every loss this model exhibits happens at light load. *)
From FRP Require Export Model.Udp.

Inductive gwpc :=
| GWIdle
| GWLocked (p : upacket) (buf : bytes)                       (* holds mu, before the lookup *)
| GWHave (p : upacket) (buf : bytes) (s : N) (fresh : bool)  (* holds mu, after lookup / create *)
| GWPre (p : upacket) (buf : bytes) (s : N) (fresh : bool).  (* mu released, before Write *)

Inductive grpc :=
| GRReading | GRTimedOut | GRLocked | GRDeleted | GRUnlocked | GRDone.

Inductive gtid :=
| TWriter
| TReader (s : N)                 (* the reader of socket s takes its next exit step *)
| TDeadline (s : N)               (* environment: the 30 s read deadline of s fires *)
| TReply (s : N) (d : bytes).     (* environment: a datagram from the backend reaches socket s *)

Inductive gout :=
| GNew (s : N) (ra : option uaddr)
| GWrote (s : N) (ra : option uaddr) (d : bytes)     (* handed to the backend *)
| GWriteErr (s : N) (ra : option uaddr) (d : bytes)  (* Write on a closed socket: the datagram is lost *)
| GBadContent (p : upacket)
| GTag (s : N) (ra : option uaddr) (d : bytes)       (* reply read and offered to sendCh *)
| GLate (s : N) (d : bytes)                          (* reply for a socket nobody reads any more: lost *)
| GClosed (s : N).

Record gst := {
  g_readq : list upacket;
  g_map : list (bytes * N);
  g_readers : list (N * (option uaddr * grpc));   (* reader goroutines: socket, captured raddr, pc *)
  g_closed : list N;                               (* closed sockets *)
  g_lock : option (option N);                      (* mu: None free, Some None writer, Some (Some s) reader s *)
  g_wpc : gwpc;
  g_next : N
}.

Definition ginit (q : list upacket) : gst :=
  {| g_readq := q; g_map := []; g_readers := []; g_closed := []; g_lock := None; g_wpc := GWIdle; g_next := 0%N |}.

Fixpoint grd_get (s : N) (l : list (N * (option uaddr * grpc))) : option (option uaddr * grpc) :=
  match l with [] => None | (s', x) :: r => if N.eqb s s' then Some x else grd_get s r end.
Fixpoint grd_set (s : N) (pc : grpc) (l : list (N * (option uaddr * grpc))) : list (N * (option uaddr * grpc)) :=
  match l with
  | [] => []
  | (s', (ra, pc')) :: r => if N.eqb s s' then (s', (ra, pc)) :: r else (s', (ra, pc')) :: grd_set s pc r
  end.
Definition gis_closed (s : N) (st : gst) : bool := existsb (N.eqb s) (g_closed st).

Definition gset (st : gst) (q : list upacket) (m : list (bytes * N)) (rd : list (N * (option uaddr * grpc)))
  (cl : list N) (lk : option (option N)) (w : gwpc) (n : N) : gst :=
  {| g_readq := q; g_map := m; g_readers := rd; g_closed := cl; g_lock := lk; g_wpc := w; g_next := n |}.

Definition gstep (c : ucfg) (st : gst) (t : gtid) : gst * list gout :=
  match t with
  | TWriter =>
      match g_wpc st with
      | GWIdle =>
          match g_readq st with
          | [] => (st, [])
          | p :: q =>
              match get_content p with
              | None => (gset st q (g_map st) (g_readers st) (g_closed st) (g_lock st) GWIdle (g_next st), [GBadContent p])
              | Some buf =>
                  match g_lock st with
                  | None => (gset st q (g_map st) (g_readers st) (g_closed st) (Some None) (GWLocked p buf) (g_next st), [])
                  | Some _ => (st, [])      (* blocked on mu.Lock; the packet stays at the head *)
                  end
              end
          end
      | GWLocked p buf =>
          let k := uaddr_string (up_raddr p) in
          match umap_get k (g_map st) with
          | Some s => (gset st (g_readq st) (g_map st) (g_readers st) (g_closed st) (g_lock st) (GWHave p buf s false) (g_next st), [])
          | None =>
              let s := g_next st in
              (gset st (g_readq st) ((k, s) :: g_map st) (g_readers st) (g_closed st) (g_lock st)
                    (GWHave p buf s true) (N.succ s), [GNew s (up_raddr p)])
          end
      | GWHave p buf s fresh =>
          (gset st (g_readq st) (g_map st) (g_readers st) (g_closed st) None (GWPre p buf s fresh) (g_next st), [])
      | GWPre p buf s fresh =>
          let rd := if fresh then (s, (up_raddr p, GRReading)) :: g_readers st else g_readers st in
          if gis_closed s st
          then (gset st (g_readq st) (g_map st) rd (g_closed st) (g_lock st) GWIdle (g_next st), [GWriteErr s (up_raddr p) buf])
          else (gset st (g_readq st) (g_map st) rd (g_closed st) (g_lock st) GWIdle (g_next st), [GWrote s (up_raddr p) buf])
      end
  | TDeadline s =>
      match grd_get s (g_readers st) with
      | Some (ra, GRReading) =>
          (gset st (g_readq st) (g_map st) (grd_set s GRTimedOut (g_readers st)) (g_closed st) (g_lock st) (g_wpc st) (g_next st), [])
      | _ => (st, [])
      end
  | TReply s d =>
      match grd_get s (g_readers st) with
      | Some (ra, GRReading) => if gis_closed s st then (st, [GLate s d]) else (st, [GTag s ra (uread c d)])
      | _ => (st, [GLate s d])
      end
  | TReader s =>
      match grd_get s (g_readers st) with
      | Some (ra, GRTimedOut) =>
          match g_lock st with
          | None => (gset st (g_readq st) (g_map st) (grd_set s GRLocked (g_readers st)) (g_closed st) (Some (Some s)) (g_wpc st) (g_next st), [])
          | Some _ => (st, [])
          end
      | Some (ra, GRLocked) =>
          (gset st (g_readq st) (umap_del (uaddr_string ra) (g_map st)) (grd_set s GRDeleted (g_readers st)) (g_closed st) (g_lock st) (g_wpc st) (g_next st), [])
      | Some (ra, GRDeleted) =>
          (gset st (g_readq st) (g_map st) (grd_set s GRUnlocked (g_readers st)) (g_closed st) None (g_wpc st) (g_next st), [])
      | Some (ra, GRUnlocked) =>
          (gset st (g_readq st) (g_map st) (grd_set s GRDone (g_readers st)) (s :: g_closed st) (g_lock st) (g_wpc st) (g_next st), [GClosed s])
      | _ => (st, [])
      end
  end.

Fixpoint grun (c : ucfg) (st : gst) (sched : list gtid) : gst * list gout :=
  match sched with
  | [] => (st, [])
  | t :: r =>
      let '(st1, o1) := gstep c st t in
      let '(st2, o2) := grun c st1 r in
      (st2, o1 ++ o2)
  end.

(* the writer is between its lookup and its Write for socket s *)
Definition gw_holds (st : gst) (s : N) : bool :=
  match g_wpc st with
  | GWHave _ _ s' _ | GWPre _ _ s' _ => N.eqb s s'
  | _ => false
  end.
(* the reader of s is between its deadline error and the end of Close *)
Definition gr_exiting (st : gst) (s : N) : bool :=
  match grd_get s (g_readers st) with
  | Some (_, GRReading) | None => false
  | Some _ => true
  end.
(* the two critical sections overlap for some socket *)
Definition goverlap (st : gst) : bool :=
  match g_wpc st with
  | GWHave _ _ s _ | GWPre _ _ s _ => gr_exiting st s
  | _ => false
  end.

Definition gout_lost (o : gout) : bool := match o with GWriteErr _ _ _ => true | _ => false end.
