(* C18 — proofs about the generated marshal / unmarshal functions (gen/GenCfgMsg.v, regenerated
   from pkg/config/v1/proxy.go on every run) and about the bandwidth literal.  The round-trip
   proof is one generic script: it mentions no field and no proxy type by name. *)
From FRP Require Import Model.CfgMsg Proofs.MsgObjProofs.
From Coq Require Import Lia.
Open Scope Z_scope.

(* ---- strings.TrimSpace is idempotent ---- *)
Lemma lit_trim_left_head s :
  lit_trim_left s = [] \/ exists b r, lit_trim_left s = b :: r /\ lit_is_space b = false.
Proof.
  induction s as [|a s IH]; cbn; [now left|].
  destruct (lit_is_space a) eqn:E; [exact IH|]. right. eauto.
Qed.

Lemma lit_trim_right_idem s : lit_trim_right (lit_trim_right s) = lit_trim_right s.
Proof.
  induction s as [|a s IH]; [reflexivity|]. cbn [lit_trim_right].
  destruct (lit_trim_right s) as [|b l] eqn:E.
  - destruct (lit_is_space a) eqn:Es; cbn; [reflexivity|now rewrite Es].
  - cbn [lit_trim_right]. cbn [lit_trim_right] in IH. rewrite IH. reflexivity.
Qed.

Lemma lit_trim_right_head b r : lit_is_space b = false -> exists r', lit_trim_right (b :: r) = b :: r'.
Proof. intros H. cbn. destruct (lit_trim_right r); [rewrite H|]; eauto. Qed.

Lemma lit_trim_left_nonspace b r : lit_is_space b = false -> lit_trim_left (b :: r) = b :: r.
Proof. intros H. cbn. now rewrite H. Qed.

Lemma lit_trim_space_idem s : lit_trim_space (lit_trim_space s) = lit_trim_space s.
Proof.
  unfold lit_trim_space. destruct (lit_trim_left_head s) as [E|(b & r & E & Hb)]; rewrite E.
  - reflexivity.
  - destruct (lit_trim_right_head b r Hb) as [r' Er]. rewrite Er.
    rewrite (lit_trim_left_nonspace b r' Hb). rewrite <- Er. apply lit_trim_right_idem.
Qed.

(* ---- BandwidthQuantity ---- *)
Definition bw_canonical (fb : bytes -> Z -> option Z) (q : bwq) : Prop :=
  exists s, new_bwq fb s = (q, BwOk).

Lemma new_bwq_ok_cases fb s q : new_bwq fb s = (q, BwOk) ->
  (lit_trim_space s = [] /\ q = bwq_zero) \/
  (lit_trim_space s <> [] /\ bw_s q = lit_trim_space s).
Proof.
  unfold new_bwq, bw_unmarshal_string. destruct (lit_trim_space s) as [|b r] eqn:E.
  - intros [= <-]. now left.
  - right. split; [discriminate|].
    destruct (lit_has_suffix (b :: r) lit_MB).
    + destruct (fb _ _); inversion H; reflexivity.
    + destruct (lit_has_suffix (b :: r) lit_KB); [|discriminate].
      destruct (fb _ _); inversion H; reflexivity.
Qed.

(* String() returns the trimmed literal, and parsing that literal again gives the same quantity,
   whatever strconv.ParseFloat and the float multiplication do *)
Lemma bandwidth_text_roundtrip fb s q :
  new_bwq fb s = (q, BwOk) -> new_bwq fb (bw_string q) = (q, BwOk).
Proof.
  intros H. destruct (new_bwq_ok_cases fb s q H) as [[E ->]|[Hne Es]].
  - reflexivity.
  - unfold bw_string. rewrite Es. revert H. unfold new_bwq, bw_unmarshal_string.
    rewrite lit_trim_space_idem. auto.
Qed.

Lemma bw_string_is_trimmed fb s q :
  new_bwq fb s = (q, BwOk) -> bw_string q = lit_trim_space s.
Proof.
  intros H. destruct (new_bwq_ok_cases fb s q H) as [[E ->]|[Hne Es]]; [now rewrite E|exact Es].
Qed.

Lemma bw_canon_cases fb s i : bw_canonical fb (mk_bwq s i) ->
  (s = [] /\ i = 0) \/ (s <> [] /\ fst (new_bwq fb s) = mk_bwq s i).
Proof.
  intros [s0 H]. pose proof (bandwidth_text_roundtrip fb s0 _ H) as Hr.
  destruct (new_bwq_ok_cases fb s0 _ H) as [[E Hz]|[Hne Es]].
  - left. inversion Hz. auto.
  - right. cbn in Es. split; [congruence|]. cbn in Hr. now rewrite Hr.
Qed.

(* ---- the round trip ---- *)

(* what is assumed of the configuration the client registers: it went through the loader
   (type tag set by NewProxyConfigurerByType / UnmarshalJSON, bandwidth parsed from text) and
   through Complete (bandwidthLimitMode defaulted) *)
Definition client_loaded (fb : bytes -> Z -> option Z) (pc : proxy_cfg) : Prop :=
  ProxyBaseConfig_Type (cfg_base pc) = cfg_type_name pc /\
  ProxyTransport_BandwidthLimitMode (ProxyBaseConfig_Transport (cfg_base pc)) <> [] /\
  bw_canonical fb (ProxyTransport_BandwidthLimit (ProxyBaseConfig_Transport (cfg_base pc))).

Ltac cm_lazy_in H := lazy -[bytes_eqb new_bwq hx fst] in H.

(* server-side NewProxyConfigurerFromMsg (before validation) applied to the client's
   MarshalToMsg yields exactly the client's configuration minus the client-only fields,
   completed; and the only change to the message is the (already present) type tag *)
Theorem msg_roundtrip : forall fb pc, client_loaded fb pc ->
  cm_from_msg fb (cm_to_msg pc) =
  (set_NewProxy_ProxyType (cfg_type_name pc) (cm_to_msg pc), Some (cm_server_view pc)).
Proof.
  intros fb pc (Ht & Hm & Hbw).
  destruct pc; t3_destruct_records; cbn in Ht, Hm, Hbw;
  match type of Hbw with bw_canonical _ ?q => destruct q as [bs bi] end;
  subst;
  (destruct (bw_canon_cases fb bs bi Hbw) as [[-> ->] | [Hs Hq]];
   [| destruct bs as [|bs0 bs']; [congruence|] ];
   (match goal with |- context [cm_to_msg ?x] => remember (cm_to_msg x) as M eqn:HM end;
    cm_lazy_in HM;
    match type of HM with context [bytes_eqb ?a ?b] =>
      let E := fresh "E" in destruct (bytes_eqb a b) eqn:E;
      [ apply bytes_eqb_eq in E; subst a
      | destruct a; [congruence|] ]
    end;
    cm_lazy_in HM; subst M;
    lazy -[new_bwq fst];
    try rewrite Hq; reflexivity)).
Qed.

Lemma msg_roundtrip_snd fb pc : client_loaded fb pc ->
  snd (cm_from_msg fb (cm_to_msg pc)) = Some (cm_server_view pc).
Proof. intros H. now rewrite (msg_roundtrip fb pc H). Qed.

Lemma bandwidth_text_roundtrip_full fb s q :
  new_bwq fb s = (q, BwOk) ->
  bw_string q = lit_trim_space s /\ new_bwq fb (bw_string q) = (q, BwOk).
Proof. intros H. split; [exact (bw_string_is_trimmed fb s q H)|exact (bandwidth_text_roundtrip fb s q H)]. Qed.

(* Complete establishes the bandwidthLimitMode hypothesis and keeps the other two *)
Lemma complete_establishes_loaded fb prefix pc :
  ProxyBaseConfig_Type (cfg_base pc) = cfg_type_name pc ->
  bw_canonical fb (ProxyTransport_BandwidthLimit (ProxyBaseConfig_Transport (cfg_base pc))) ->
  client_loaded fb (cfg_complete prefix pc).
Proof.
  intros Ht Hbw. destruct pc; t3_destruct_records; cbn in Ht, Hbw |- *; subst;
  (repeat split; [ | exact Hbw];
   lazy -[hx];
   match goal with |- context [match ?m with [] => _ | _ => _ end] => destruct m end;
   vm_compute; discriminate).
Qed.

(* ---- the table view: no acted field is dropped ---- *)
Theorem fields_covered_sound :
  cm_fields_covered = true ->
  t3_unknown = [] /\
  forall recv path code,
    In recv cm_registered_structs ->
    In (path, code) (cm_leaves 6 cfg_structs "" recv) ->
    cm_client_only path = false ->
    In path (cm_unmarshal_dests recv) /\ In path (cm_marshal_srcs recv) /\
    cm_is_opaque_code code = false /\ cm_is_struct_code code = None.
Proof.
  unfold cm_fields_covered. intros H. apply andb_true_iff in H. destruct H as [H Hu].
  split; [destruct t3_unknown; [reflexivity|discriminate]|].
  intros recv path code Hr Hl Hc.
  rewrite forallb_forall in H. specialize (H recv Hr). rewrite forallb_forall in H.
  assert (Hin : In (path, code) (cm_acted_leaves recv)).
  { unfold cm_acted_leaves. apply filter_In. split; [exact Hl|]. change (negb (cm_client_only path) = true). now rewrite Hc. }
  specialize (H _ Hin). cbn [fst snd] in H.
  repeat (apply andb_true_iff in H; destruct H as [H ?]).
  repeat split.
  - match goal with Hx : existsb _ (cm_unmarshal_dests recv) = true |- _ =>
      apply existsb_exists in Hx; destruct Hx as (x & Hx & Ex); apply String.eqb_eq in Ex; now subst x end.
  - match goal with Hx : existsb _ (cm_marshal_srcs recv) = true |- _ =>
      apply existsb_exists in Hx; destruct Hx as (x & Hx & Ex); apply String.eqb_eq in Ex; now subst x end.
  - now apply negb_true_iff in H.
  - destruct (cm_is_struct_code code); [discriminate|reflexivity].
Qed.
