package main

// Driver "cfgload" (C09): the operator's allowPorts / maxPortsPerClient as WRITTEN in a configuration
// file — legacy ini (with the blanks people put into lists), toml, yaml, json — loaded through the real
// config.LoadServerConfig, an in-process frps started from the loaded values, and scripted clients
// registering ports inside and outside the configured set.  The configured set must be the enforced set.

import (
	"fmt"
	"os"
	"path/filepath"
	"sort"
	"strings"
	"time"

	"github.com/fatedier/frp/pkg/config"
	"github.com/fatedier/frp/pkg/config/types"
	v1 "github.com/fatedier/frp/pkg/config/v1"
	"github.com/fatedier/frp/pkg/msg"

	"verifharness/hx"
)

func init() { drivers["cfgload"] = runCfg }

func blanks(g *hx.Gen, always bool) string {
	if !always && g.Chance(0.4) {
		return ""
	}
	return []string{" ", "  ", "   "}[g.Intn(3)] // case files carry printable text only; tabs are covered by the theorem
}

// iniList renders the ranges the way people write lists in ini files
func iniList(g *hx.Gen, rs []types.PortsRange, style int) string {
	items := []string{}
	for i, r := range rs {
		var it string
		if r.Single > 0 {
			it = fmt.Sprint(r.Single)
		} else {
			dash := "-"
			if style == 2 {
				dash = blanks(g, false) + "-" + blanks(g, false)
			}
			it = fmt.Sprintf("%d%s%d", r.Start, dash, r.End)
		}
		switch style {
		case 0: // compact, as in the shipped example
		case 1: // one blank after every comma
			if i > 0 {
				it = " " + it
			}
		default:
			it = blanks(g, false) + it + blanks(g, false)
		}
		items = append(items, it)
	}
	return strings.Join(items, ",")
}

func structured(format string, rs []types.PortsRange, maxp int, bindPort int) string {
	var b strings.Builder
	switch format {
	case "toml":
		fmt.Fprintf(&b, "bindPort = %d\nmaxPortsPerClient = %d\nallowPorts = [\n", bindPort, maxp)
		for _, r := range rs {
			if r.Single > 0 {
				fmt.Fprintf(&b, "  { single = %d },\n", r.Single)
			} else {
				fmt.Fprintf(&b, "  { start = %d, end = %d },\n", r.Start, r.End)
			}
		}
		b.WriteString("]\n")
	case "yaml":
		fmt.Fprintf(&b, "bindPort: %d\nmaxPortsPerClient: %d\nallowPorts:\n", bindPort, maxp)
		for _, r := range rs {
			if r.Single > 0 {
				fmt.Fprintf(&b, "  - single: %d\n", r.Single)
			} else {
				fmt.Fprintf(&b, "  - start: %d\n    end: %d\n", r.Start, r.End)
			}
		}
	default: // json
		items := []string{}
		for _, r := range rs {
			if r.Single > 0 {
				items = append(items, fmt.Sprintf(`{"single": %d}`, r.Single))
			} else {
				items = append(items, fmt.Sprintf(`{"start": %d, "end": %d}`, r.Start, r.End))
			}
		}
		fmt.Fprintf(&b, `{"bindPort": %d, "maxPortsPerClient": %d, "allowPorts": [%s]}`+"\n", bindPort, maxp, strings.Join(items, ", "))
	}
	return b.String()
}

func runCfg(cfg *hx.RunCfg) error {
	hx.Quiet()
	g := hx.NewGen(cfg.Seed*86028121 + 7)
	cf := &hx.CaseFile{Imports: coqImports, Typ: "case"}
	dist := map[string]int{}
	failures := []map[string]string{}
	samples := []string{}
	seen := map[string]bool{}
	nontrivial := 0
	dir, err := os.MkdirTemp(filepath.Dir(cfg.Out), "c09cfg")
	if err != nil {
		return err
	}
	defer os.RemoveAll(dir)
	formats := []string{"ini", "ini", "ini", "toml", "yaml", "json"}
	B := basePort + 60
	for ci := 0; ci < cfg.N; ci++ {
		format := formats[ci%len(formats)]
		style := (ci / len(formats)) % 3
		// what the operator means: a range, a single, sometimes another range
		a := B + g.Intn(3)
		rs := []types.PortsRange{{Start: a, End: a + 2 + g.Intn(3)}, {Single: B + 10 + g.Intn(3)}}
		if g.Chance(0.5) {
			rs = append(rs, types.PortsRange{Start: B + 15, End: B + 16})
		}
		if g.Chance(0.3) {
			rs[0], rs[1] = rs[1], rs[0]
		}
		maxp := g.Intn(3)
		want := map[int]bool{}
		for _, r := range rs {
			if r.Single > 0 {
				want[r.Single] = true
			} else {
				for p := r.Start; p <= r.End; p++ {
					want[p] = true
				}
			}
		}
		wantList := []int{}
		for p := range want {
			wantList = append(wantList, p)
		}
		sort.Ints(wantList)
		text, fmtCode := "", 0
		var body, name string
		switch format {
		case "ini":
			text = iniList(g, rs, style)
			body = fmt.Sprintf("[common]\nbind_port = 7000\nmax_ports_per_client = %d\nallow_ports = %s\n", maxp, text)
			name = "frps.ini"
			dist[fmt.Sprintf("ini-style-%d", style)]++
		case "toml":
			fmtCode, body, name = 1, structured("toml", rs, maxp, 7000), "frps.toml"
		case "yaml":
			fmtCode, body, name = 2, structured("yaml", rs, maxp, 7000), "frps.yaml"
		default:
			fmtCode, body, name = 3, structured("json", rs, maxp, 7000), "frps.json"
		}
		dist["format:"+format]++
		path := filepath.Join(dir, fmt.Sprintf("%d_%s", ci, name))
		if err := os.WriteFile(path, []byte(body), 0o644); err != nil {
			return err
		}
		loaded, isLegacy, err := config.LoadServerConfig(path, false)
		if err != nil {
			failures = append(failures, map[string]string{"key": "cfg-load-failed", "what": "a legal configuration file is rejected by LoadServerConfig",
				"case": fmt.Sprintf("%s: %v\n%s", format, err, body)})
			continue
		}
		if isLegacy != (format == "ini") {
			failures = append(failures, map[string]string{"key": "cfg-format-detection", "what": "legacy ini detection differs from the file written", "case": body})
		}
		srv, err := hx.StartServer(loopB, func(c *v1.ServerConfig) {
			c.AllowPorts = loaded.AllowPorts
			c.MaxPortsPerClient = loaded.MaxPortsPerClient
		})
		if err != nil {
			return err
		}
		rc := srv.Svc.VerifResourceController()
		free, _, _ := rc.TCPPortManager.VerifSnapshot()
		nfree := len(free)
		capped := free
		if len(capped) > 300 {
			capped = capped[:300]
		}
		steps := []string{}
		oks := 0
		pw := &pxyWorld{rc: rc, tcpSq: newSquatter("tcp", loopB), udpSq: newSquatter("udp", loopB)}
		outside := []int{B + 30, B + 31}
		pw.allow = append(append([]int{}, wantList...), outside...)
		p, _, lerr := srv.Login(hx.LoginOpts{RunID: fmt.Sprintf("c09cfg-%d", ci)})
		if lerr != nil || p == nil {
			failures = append(failures, map[string]string{"key": "cfg-login-failed", "what": "scripted login failed", "case": fmt.Sprint(lerr)})
			srv.Close()
			continue
		}
		if nfree == len(wantList) {
			steps = append(steps, fmt.Sprintf("(SLogin 1, %s)", pw.observeOn(loopB, -100)))
		}
		reqs := []pxyReq{
			{kind: "tcp", name: "in-tcp", port: wantList[g.Intn(len(wantList))]},
			{kind: "tcp", name: "out-tcp", port: outside[0]},
			{kind: "udp", name: "out-udp", port: outside[1]},
			{kind: "udp", name: "in-udp", port: wantList[g.Intn(len(wantList))]},
			{kind: "tcp", name: "any-tcp", port: 0},
		}
		for _, q := range reqs {
			resp, err := p.NewProxy(&msg.NewProxy{ProxyName: q.name, ProxyType: q.kind, RemotePort: q.port})
			if err != nil {
				failures = append(failures, map[string]string{"key": "cfg-no-response", "what": "no NewProxyResp", "case": fmt.Sprint(err)})
				break
			}
			res := respCode(resp)
			choice := "None"
			if res > 0 {
				choice = fmt.Sprintf("(Some %d)", res)
				oks++
				if !want[res] {
					failures = append(failures, map[string]string{"key": "port-outside-configured-allowports",
						"what": "frps granted and bound a port outside the allowPorts set written in its configuration file",
						"case": fmt.Sprintf("format=%s allow_ports as written=%q intended=%v requested %s:%d granted %d (free table has %d ports)",
							format, text, wantList, q.kind, q.port, res, nfree)})
				}
			}
			dist[fmt.Sprintf("reg:%s:%d", q.name, map[bool]int{true: 0, false: res}[res >= 0])]++
			if nfree == len(wantList) {
				steps = append(steps, fmt.Sprintf("(SNew 1 %s, %s)", coqReq(q, choice, true), pw.observeOn(loopB, res)))
			}
		}
		if int(loaded.MaxPortsPerClient) != maxp {
			failures = append(failures, map[string]string{"key": "quota-not-as-configured", "what": "maxPortsPerClient after loading differs from the file",
				"case": fmt.Sprintf("format=%s written %d loaded %d", format, maxp, loaded.MaxPortsPerClient)})
		}
		p.Close()
		srv.Close()
		for i := 0; i < 200 && len(osBusy("tcp", loopB, pw.allow))+len(osBusy("udp", loopB, pw.allow)) > 0; i++ {
			time.Sleep(5 * time.Millisecond)
		}
		c := fmt.Sprintf("CCfg %d %s %s %d %d %d %s %s", fmtCode, hx.Str(text), coqRanges(rs), maxp, loaded.MaxPortsPerClient, nfree, zlist(capped), hx.List(steps))
		cf.Cases = append(cf.Cases, c)
		if !seen[c] {
			seen[c] = true
			if oks > 0 {
				nontrivial++
			}
		}
		if len(samples) < 3 {
			samples = append(samples, c)
		}
	}
	cf.Tail = coqTail(map[string]int{"NC_INI": 80, "NC_TOML": 81, "NC_YAML": 82, "NC_JSON": 83, "NC_REGISTERED": 53, "NC_REFUSED": 54, "NC_QUOTA": 51})
	cfg.St["cases"] = len(cf.Cases)
	cfg.St["distinct_nontrivial"] = nontrivial
	cfg.St["samples"] = samples
	cfg.St["distribution"] = dist
	cfg.St["impl_failures"] = failures
	return cf.Write(cfg.Out)
}
