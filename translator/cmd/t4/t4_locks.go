// T4: lock discipline of the shared tables.  For every struct type (in the packages listed
// below) that owns a sync.Mutex / sync.RWMutex field and at least one map-typed field (plus the
// explicitly listed non-map shared fields), every access site of such a field inside the methods
// of the type is reported together with whether one of the type's mutexes is held there.
//
// The analysis is syntactic and intra-procedural over go/ast:
//   - r.mu.Lock()/RLock() sets "held", r.mu.Unlock()/RUnlock() clears it, `defer r.mu.Unlock()` keeps
//     it held to the end of the function;
//   - after an if/for/switch/select the state is the conjunction of the state before and of the end
//     states of the branches that do not end in return/panic/continue/break/goto;
//   - a function literal that is called in place or passed as an argument to an ordinary call runs
//     with the current state; one started with `go`, deferred, assigned or returned starts with nothing held;
//   - one level of "callee requires lock": an access made with no lock held inside a method whose
//     every call site inside the package holds the lock of the same receiver type is reported as held
//     with how = "caller" (a method with no call site in the package stays unheld).
//
// Anything the walker does not understand about locking (a mutex passed around, Lock on another
// object's mutex field) is ignored, i.e. treated as not holding — the conservative direction.
//
// Extensions: (i) a field of pointer/struct type whose struct (same package) owns map fields is followed one
// level (serverMetrics.info.ProxyStatistics is reported as field "info.ProxyStatistics"); (ii) an access is a
// WRITE when the field is the base of an index expression on the left of an assignment / inc-dec, the first
// argument of delete(), or assigned itself; a write is "held" only under the exclusive Lock(), a read under
// Lock() or RLock(); (iii) lock_order lists the edges "A is held while B is acquired" (directly, through
// r.<field>.<mutex>.Lock(), or through a call of a method of a type reachable through the owner's fields that
// locks its receiver's mutex), and lock_rank a topological numbering of the mutexes computed here (untrusted):
// Proofs/LocksCheck.v verifies that every edge goes up in rank, hence no cyclic lock order.
//
// Output coq/gen/GenLocks.v:
//
//	lock_tables : list (string * string * list string)          (package-qualified type, field, mutex fields)
//	lock_sites  : list (string * string * string * Z * bool * string)
//	              (type, field, function, line, held, how)   how ∈ "lock" | "caller" | "none"
package main

import (
	"bytes"
	"fmt"
	"go/ast"
	"go/parser"
	"go/token"
	"os"
	"path/filepath"
	"sort"
	"strings"

	"veriftranslator/tx"
)

var lockPackages = []string{
	"server", "server/proxy", "server/group", "server/ports", "server/visitor", "server/controller",
	"pkg/util/vhost", "pkg/util/tcpmux", "pkg/nathole", "pkg/transport", "pkg/auth", "pkg/msg",
	"client", "client/proxy", "client/visitor", "pkg/proto/udp", "pkg/metrics/mem",
}

// shared fields that are not maps
var extraShared = map[string][]string{
	"pkg/auth.OidcAuthConsumer": {"subjectsFromLogin"},
	"server/group.TCPGroup":     {"lns"},
	"server/group.TCPMuxGroup":  {"lns"},
	"server/group.HTTPGroup":    {"pxyNames"},
	"server.Control":            {"portsUsedNum"},
}

const (
	mNone = 0
	mRead = 1
	mExcl = 2
)

type site struct {
	typ, field, fn string
	line           int
	write          bool
	mode           int
	how            string
}

type typeInfo struct {
	pkg      string
	name     string
	mutexes  []string
	shared   []string            // "f" or "f.g" (one level through a struct-typed field)
	nested   map[string][]string // field -> map fields of its struct type
	embedded bool
	fieldTyp map[string]string // field -> named struct type of the package it (transitively: ptr, slice, map value) refers to
}

func isMutexType(e ast.Expr) bool {
	if se, ok := e.(*ast.SelectorExpr); ok {
		if id, ok := se.X.(*ast.Ident); ok && id.Name == "sync" && (se.Sel.Name == "Mutex" || se.Sel.Name == "RWMutex") {
			return true
		}
	}
	return false
}

// namedElem: the package-local named type a field type refers to through *, [], map[..], or directly.
func namedElem(e ast.Expr) string {
	switch x := e.(type) {
	case *ast.Ident:
		return x.Name
	case *ast.StarExpr:
		return namedElem(x.X)
	case *ast.ArrayType:
		return namedElem(x.Elt)
	case *ast.MapType:
		return namedElem(x.Value)
	}
	return ""
}

func main() { tx.Main(tx.Unit{Name: "T4", File: "GenLocks.v", Fn: genLocks}) }

type edge struct{ a, b string }

func genLocks() ([]byte, error) {
	var tables []typeInfo
	var sites []site
	edges := map[edge]bool{}
	for _, pkg := range lockPackages {
		dir := filepath.Join(tx.Repo, pkg)
		if _, err := os.Stat(dir); err != nil {
			continue
		}
		fset := token.NewFileSet()
		pkgs, err := parser.ParseDir(fset, dir, func(fi os.FileInfo) bool {
			n := fi.Name()
			return !strings.HasSuffix(n, "_test.go") && !strings.HasSuffix(n, "_verif.go")
		}, 0)
		if err != nil {
			return nil, err
		}
		for _, p := range pkgs {
			ts, ss, es := analysePackage(fset, pkg, p)
			tables = append(tables, ts...)
			sites = append(sites, ss...)
			for _, e := range es {
				edges[e] = true
			}
		}
	}
	sort.Slice(tables, func(i, j int) bool { return tables[i].pkg+"."+tables[i].name < tables[j].pkg+"."+tables[j].name })
	sort.SliceStable(sites, func(i, j int) bool {
		a, b := sites[i], sites[j]
		if a.typ != b.typ {
			return a.typ < b.typ
		}
		if a.fn != b.fn {
			return a.fn < b.fn
		}
		return a.line < b.line
	})
	var b bytes.Buffer
	b.WriteString("(* generated by translator unit T4 from the Go sources; do not edit *)\nFrom FRP Require Import Model.GenTypes.\nOpen Scope Z_scope.\nOpen Scope string_scope.\n\n")
	b.WriteString("Definition T4_translated : bool := true.\n\n")
	b.WriteString("Definition lock_tables : list (string * string * list string) := [\n")
	var rows []string
	for _, t := range tables {
		if len(t.shared) == 0 {
			continue
		}
		for _, f := range t.shared {
			ms := []string{}
			for _, m := range t.mutexes {
				ms = append(ms, tx.CoqString(m))
			}
			rows = append(rows, fmt.Sprintf("  (%s, %s, [%s])", tx.CoqString(t.pkg+"."+t.name), tx.CoqString(f), strings.Join(ms, "; ")))
		}
	}
	b.WriteString(strings.Join(rows, ";\n"))
	b.WriteString("\n].\n\n")
	b.WriteString("Definition lock_sites : list (string * string * string * Z * bool * string) := [\n")
	rows = rows[:0]
	for _, s := range sites {
		need := mRead
		if s.write {
			need = mExcl
		}
		held := s.mode >= need
		how := s.how
		if s.write {
			how += "/w"
		}
		rows = append(rows, fmt.Sprintf("  (%s, %s, %s, %d, %v, %s)", tx.CoqString(s.typ), tx.CoqString(s.field), tx.CoqString(s.fn), s.line, held, tx.CoqString(how)))
	}
	b.WriteString(strings.Join(rows, ";\n"))
	b.WriteString("\n].\n\n")
	// lock order: edges and a topological rank (Kahn); nodes on a cycle keep rank 0 so that the check fails
	nodes := map[string]bool{}
	var es []edge
	for e := range edges {
		es = append(es, e)
		nodes[e.a], nodes[e.b] = true, true
	}
	sort.Slice(es, func(i, j int) bool { return es[i].a+">"+es[i].b < es[j].a+">"+es[j].b })
	rank := map[string]int{}
	indeg := map[string]int{}
	for _, e := range es {
		indeg[e.b]++
	}
	var ns []string
	for n := range nodes {
		ns = append(ns, n)
	}
	sort.Strings(ns)
	done := map[string]bool{}
	for r := 1; ; r++ {
		var layer []string
		for _, n := range ns {
			if !done[n] && indeg[n] == 0 {
				layer = append(layer, n)
			}
		}
		if len(layer) == 0 {
			break
		}
		for _, n := range layer {
			done[n] = true
			rank[n] = r
		}
		for _, e := range es {
			if done[e.a] && !done[e.b] {
				for _, n := range layer {
					if e.a == n {
						indeg[e.b]--
					}
				}
			}
		}
	}
	b.WriteString("Definition lock_order : list (string * string) := [\n")
	rows = rows[:0]
	for _, e := range es {
		rows = append(rows, fmt.Sprintf("  (%s, %s)", tx.CoqString(e.a), tx.CoqString(e.b)))
	}
	b.WriteString(strings.Join(rows, ";\n"))
	b.WriteString("\n].\n\nDefinition lock_rank : list (string * Z) := [\n")
	rows = rows[:0]
	for _, n := range ns {
		rows = append(rows, fmt.Sprintf("  (%s, %d)", tx.CoqString(n), rank[n]))
	}
	b.WriteString(strings.Join(rows, ";\n"))
	b.WriteString("\n].\n")
	return b.Bytes(), nil
}

type methodInfo struct {
	typ   string
	locks []string // own mutexes the method acquires somewhere in its body (directly)
}

type analyser struct {
	fset    *token.FileSet
	pkg     string
	info    *typeInfo
	types   map[string]*typeInfo
	methods map[string][]methodInfo // method name -> definitions in this package
	recv    string
	fn      string
	sites   []site
	calls   map[string][]int // method name -> lock mode at each call site r.method(...)
	edges   []edge
	heldSet []string // qualified mutex names currently held (for lock-order edges)
	imports map[string]bool
}

func qual(pkg, typ, mu string) string {
	if mu == "" {
		mu = "(embedded)"
	}
	return pkg + "." + typ + "." + mu
}

func analysePackage(fset *token.FileSet, pkgPath string, p *ast.Package) ([]typeInfo, []site, []edge) {
	types := map[string]*typeInfo{}
	structs := map[string]*ast.StructType{}
	for _, f := range p.Files {
		for _, d := range f.Decls {
			gd, ok := d.(*ast.GenDecl)
			if !ok || gd.Tok != token.TYPE {
				continue
			}
			for _, s := range gd.Specs {
				tsp := s.(*ast.TypeSpec)
				if st, ok := tsp.Type.(*ast.StructType); ok {
					structs[tsp.Name.Name] = st
				}
			}
		}
	}
	mapFields := func(st *ast.StructType) []string {
		var out []string
		for _, fl := range st.Fields.List {
			if _, ok := fl.Type.(*ast.MapType); ok {
				for _, n := range fl.Names {
					out = append(out, n.Name)
				}
			}
		}
		return out
	}
	for name, st := range structs {
		ti := &typeInfo{pkg: pkgPath, name: name, nested: map[string][]string{}, fieldTyp: map[string]string{}}
		extra := extraShared[pkgPath+"."+name]
		for _, fl := range st.Fields.List {
			if isMutexType(fl.Type) {
				if len(fl.Names) == 0 {
					ti.embedded = true
					ti.mutexes = append(ti.mutexes, "")
				}
				for _, n := range fl.Names {
					ti.mutexes = append(ti.mutexes, n.Name)
				}
				continue
			}
			_, isMap := fl.Type.(*ast.MapType)
			el := namedElem(fl.Type)
			for _, n := range fl.Names {
				if el != "" {
					if _, ok := structs[el]; ok {
						ti.fieldTyp[n.Name] = el
					}
				}
				if isMap {
					ti.shared = append(ti.shared, n.Name)
					continue
				}
				for _, e := range extra {
					if e == n.Name {
						ti.shared = append(ti.shared, n.Name)
					}
				}
			}
		}
		types[name] = ti
	}
	// nested map fields through a directly struct-typed (or pointer) field, only for owners of a mutex
	for name, st := range structs {
		ti := types[name]
		if len(ti.mutexes) == 0 {
			continue
		}
		for _, fl := range st.Fields.List {
			var el string
			switch x := fl.Type.(type) {
			case *ast.Ident:
				el = x.Name
			case *ast.StarExpr:
				if id, ok := x.X.(*ast.Ident); ok {
					el = id.Name
				}
			}
			if inner, ok := structs[el]; ok && len(types[el].mutexes) == 0 {
				for _, n := range fl.Names {
					for _, mf := range mapFields(inner) {
						ti.nested[n.Name] = append(ti.nested[n.Name], mf)
						ti.shared = append(ti.shared, n.Name+"."+mf)
					}
				}
			}
		}
	}
	// methods and the own mutexes they lock
	methods := map[string][]methodInfo{}
	var decls []*ast.FuncDecl
	importsOf := map[*ast.FuncDecl]map[string]bool{}
	for _, f := range p.Files {
		imps := map[string]bool{}
		for _, im := range f.Imports {
			path := strings.Trim(im.Path.Value, "\"")
			name := path[strings.LastIndex(path, "/")+1:]
			if im.Name != nil {
				name = im.Name.Name
			}
			imps[name] = true
		}
		for _, d := range f.Decls {
			fd, ok := d.(*ast.FuncDecl)
			if !ok || fd.Recv == nil || fd.Body == nil || len(fd.Recv.List) != 1 {
				continue
			}
			decls = append(decls, fd)
			importsOf[fd] = imps
		}
	}
	recvType := func(fd *ast.FuncDecl) string {
		rt := fd.Recv.List[0].Type
		if se, ok := rt.(*ast.StarExpr); ok {
			rt = se.X
		}
		if id, ok := rt.(*ast.Ident); ok {
			return id.Name
		}
		return ""
	}
	for _, fd := range decls {
		tn := recvType(fd)
		ti := types[tn]
		if ti == nil || len(ti.mutexes) == 0 || len(fd.Recv.List[0].Names) != 1 {
			continue
		}
		rv := fd.Recv.List[0].Names[0].Name
		mi := methodInfo{typ: tn}
		ast.Inspect(fd.Body, func(n ast.Node) bool {
			ce, ok := n.(*ast.CallExpr)
			if !ok {
				return true
			}
			se, ok := ce.Fun.(*ast.SelectorExpr)
			if !ok || (se.Sel.Name != "Lock" && se.Sel.Name != "RLock") {
				return true
			}
			if x, ok := se.X.(*ast.SelectorExpr); ok {
				if id, ok := x.X.(*ast.Ident); ok && id.Name == rv {
					for _, m := range ti.mutexes {
						if m == x.Sel.Name {
							mi.locks = append(mi.locks, m)
						}
					}
				}
			}
			return true
		})
		methods[fd.Name.Name] = append(methods[fd.Name.Name], mi)
	}
	var outT []typeInfo
	var outS []site
	var outE []edge
	names := make([]string, 0, len(types))
	for n, ti := range types {
		if len(ti.shared) > 0 || len(ti.mutexes) > 0 {
			names = append(names, n)
		}
	}
	sort.Strings(names)
	for _, n := range names {
		ti := types[n]
		outT = append(outT, *ti)
		a := &analyser{fset: fset, pkg: pkgPath, info: ti, types: types, methods: methods, calls: map[string][]int{}}
		var ms []*ast.FuncDecl
		for _, fd := range decls {
			if recvType(fd) == ti.name {
				ms = append(ms, fd)
			}
		}
		sort.Slice(ms, func(i, j int) bool { return ms[i].Name.Name < ms[j].Name.Name })
		for _, fd := range ms {
			a.recv = ""
			if len(fd.Recv.List[0].Names) == 1 {
				a.recv = fd.Recv.List[0].Names[0].Name
			}
			a.fn = fd.Name.Name
			a.heldSet = nil
			a.imports = importsOf[fd]
			a.block(fd.Body.List, mNone)
		}
		// one level of callee-requires-lock: the weakest mode among the call sites
		for i := range a.sites {
			s := &a.sites[i]
			need := mRead
			if s.write {
				need = mExcl
			}
			if s.mode >= need {
				continue
			}
			cs := a.calls[s.fn]
			if len(cs) == 0 {
				continue
			}
			min := mExcl
			for _, h := range cs {
				if h < min {
					min = h
				}
			}
			if min >= need {
				s.mode, s.how = min, "caller"
			}
		}
		outS = append(outS, a.sites...)
		outE = append(outE, a.edges...)
	}
	return outT, outS, outE
}

// lockCall classifies lock calls.  Returns (delta, qualified mutex name, mode): delta +1 lock, -1 unlock.
// own mutex: r.mu.Lock(); embedded: r.Lock(); another object's mutex reached through a field: r.f.mu.Lock().
func (a *analyser) lockCall(e ast.Expr) (int, string, int, bool) {
	ce, ok := e.(*ast.CallExpr)
	if !ok {
		return 0, "", 0, false
	}
	se, ok := ce.Fun.(*ast.SelectorExpr)
	if !ok {
		return 0, "", 0, false
	}
	delta, mode := 0, mExcl
	switch se.Sel.Name {
	case "Lock":
		delta = 1
	case "RLock":
		delta, mode = 1, mRead
	case "Unlock", "RUnlock":
		delta = -1
	default:
		return 0, "", 0, false
	}
	switch x := se.X.(type) {
	case *ast.SelectorExpr:
		if id, ok := x.X.(*ast.Ident); ok && id.Name == a.recv {
			for _, m := range a.info.mutexes {
				if m == x.Sel.Name {
					return delta, qual(a.pkg, a.info.name, m), mode, true
				}
			}
		}
		// r.f.mu
		if y, ok := x.X.(*ast.SelectorExpr); ok {
			if id, ok := y.X.(*ast.Ident); ok && id.Name == a.recv {
				if tn, ok := a.info.fieldTyp[y.Sel.Name]; ok {
					for _, m := range a.types[tn].mutexes {
						if m == x.Sel.Name {
							return delta, qual(a.pkg, tn, m), mode, false
						}
					}
				}
			}
		}
	case *ast.Ident:
		if x.Name == a.recv && a.info.embedded {
			return delta, qual(a.pkg, a.info.name, ""), mode, true
		}
	}
	return 0, "", 0, false
}

func (a *analyser) acquire(q string) {
	for _, h := range a.heldSet {
		if h != q {
			a.edges = append(a.edges, edge{h, q})
		}
	}
	a.heldSet = append(a.heldSet, q)
}

func (a *analyser) release(q string) {
	for i := len(a.heldSet) - 1; i >= 0; i-- {
		if a.heldSet[i] == q {
			a.heldSet = append(a.heldSet[:i], a.heldSet[i+1:]...)
			return
		}
	}
}

func terminates(list []ast.Stmt) bool {
	if len(list) == 0 {
		return false
	}
	switch s := list[len(list)-1].(type) {
	case *ast.ReturnStmt:
		return true
	case *ast.BranchStmt:
		return true
	case *ast.ExprStmt:
		if ce, ok := s.X.(*ast.CallExpr); ok {
			if id, ok := ce.Fun.(*ast.Ident); ok && id.Name == "panic" {
				return true
			}
		}
	}
	return false
}

func minMode(x, y int) int {
	if x < y {
		return x
	}
	return y
}

func (a *analyser) block(list []ast.Stmt, held int) int {
	for _, s := range list {
		held = a.stmt(s, held)
	}
	return held
}

func (a *analyser) stmt(s ast.Stmt, held int) int {
	switch st := s.(type) {
	case *ast.ExprStmt:
		if d, q, mode, own := a.lockCall(st.X); d != 0 {
			if d > 0 {
				a.acquire(q)
				if own {
					return mode
				}
				return held
			}
			a.release(q)
			if own {
				return mNone
			}
			return held
		}
		a.expr(st.X, held)
	case *ast.DeferStmt:
		if d, _, _, _ := a.lockCall(st.Call); d != 0 {
			return held // deferred unlock: held until the end
		}
		if fl, ok := st.Call.Fun.(*ast.FuncLit); ok {
			saved := a.heldSet
			a.heldSet = nil
			a.block(fl.Body.List, mNone)
			a.heldSet = saved
			for _, arg := range st.Call.Args {
				a.expr(arg, held)
			}
		} else {
			a.expr(st.Call, held)
		}
	case *ast.GoStmt:
		if fl, ok := st.Call.Fun.(*ast.FuncLit); ok {
			saved := a.heldSet
			a.heldSet = nil
			a.block(fl.Body.List, mNone)
			a.heldSet = saved
			for _, arg := range st.Call.Args {
				a.expr(arg, held)
			}
		} else {
			saved := a.heldSet
			a.heldSet = nil
			a.expr(st.Call, mNone)
			a.heldSet = saved
		}
	case *ast.AssignStmt:
		for _, e := range st.Rhs {
			a.exprAssigned(e, held)
		}
		for _, e := range st.Lhs {
			a.lhs(e, held)
		}
	case *ast.DeclStmt:
		if gd, ok := st.Decl.(*ast.GenDecl); ok {
			for _, sp := range gd.Specs {
				if vs, ok := sp.(*ast.ValueSpec); ok {
					for _, e := range vs.Values {
						a.exprAssigned(e, held)
					}
				}
			}
		}
	case *ast.ReturnStmt:
		for _, e := range st.Results {
			a.exprAssigned(e, held)
		}
	case *ast.IncDecStmt:
		a.lhs(st.X, held)
	case *ast.SendStmt:
		a.expr(st.Chan, held)
		a.expr(st.Value, held)
	case *ast.BlockStmt:
		return a.block(st.List, held)
	case *ast.LabeledStmt:
		return a.stmt(st.Stmt, held)
	case *ast.IfStmt:
		if st.Init != nil {
			held = a.stmt(st.Init, held)
		}
		a.expr(st.Cond, held)
		after := held
		saved := append([]string(nil), a.heldSet...)
		e1 := a.block(st.Body.List, held)
		if !terminates(st.Body.List) {
			after = minMode(after, e1)
		}
		a.heldSet = append([]string(nil), saved...)
		if st.Else != nil {
			switch el := st.Else.(type) {
			case *ast.BlockStmt:
				e2 := a.block(el.List, held)
				if !terminates(el.List) {
					after = minMode(after, e2)
				}
			default:
				e2 := a.stmt(el, held)
				after = minMode(after, e2)
			}
			a.heldSet = append([]string(nil), saved...)
		}
		return after
	case *ast.ForStmt:
		if st.Init != nil {
			held = a.stmt(st.Init, held)
		}
		if st.Cond != nil {
			a.expr(st.Cond, held)
		}
		if st.Post != nil {
			a.stmt(st.Post, held)
		}
		saved := append([]string(nil), a.heldSet...)
		e := a.block(st.Body.List, held)
		a.heldSet = saved
		if !terminates(st.Body.List) {
			return minMode(held, e)
		}
		return held
	case *ast.RangeStmt:
		a.expr(st.X, held)
		saved := append([]string(nil), a.heldSet...)
		e := a.block(st.Body.List, held)
		a.heldSet = saved
		if !terminates(st.Body.List) {
			return minMode(held, e)
		}
		return held
	case *ast.SwitchStmt:
		if st.Init != nil {
			held = a.stmt(st.Init, held)
		}
		if st.Tag != nil {
			a.expr(st.Tag, held)
		}
		return a.clauses(st.Body.List, held)
	case *ast.TypeSwitchStmt:
		if st.Init != nil {
			held = a.stmt(st.Init, held)
		}
		a.stmt(st.Assign, held)
		return a.clauses(st.Body.List, held)
	case *ast.SelectStmt:
		return a.clauses(st.Body.List, held)
	}
	return held
}

func (a *analyser) clauses(list []ast.Stmt, held int) int {
	after := held
	saved := append([]string(nil), a.heldSet...)
	for _, c := range list {
		var body []ast.Stmt
		switch cc := c.(type) {
		case *ast.CaseClause:
			for _, e := range cc.List {
				a.expr(e, held)
			}
			body = cc.Body
		case *ast.CommClause:
			if cc.Comm != nil {
				a.stmt(cc.Comm, held)
			}
			body = cc.Body
		}
		e := a.block(body, held)
		if !terminates(body) {
			after = minMode(after, e)
		}
		a.heldSet = append([]string(nil), saved...)
	}
	return after
}

func (a *analyser) exprAssigned(e ast.Expr, held int) {
	if fl, ok := e.(*ast.FuncLit); ok {
		saved := a.heldSet
		a.heldSet = nil
		a.block(fl.Body.List, mNone)
		a.heldSet = saved
		return
	}
	a.expr(e, held)
}

// sharedField: is e the selector r.f or r.f.g of a shared field?  Returns its name.
func (a *analyser) sharedField(e ast.Expr) (string, token.Pos, bool) {
	se, ok := e.(*ast.SelectorExpr)
	if !ok || a.recv == "" {
		return "", 0, false
	}
	if id, ok := se.X.(*ast.Ident); ok && id.Name == a.recv {
		for _, f := range a.info.shared {
			if f == se.Sel.Name {
				return f, se.Pos(), true
			}
		}
		return "", 0, false
	}
	if in, ok := se.X.(*ast.SelectorExpr); ok {
		if id, ok := in.X.(*ast.Ident); ok && id.Name == a.recv {
			for _, g := range a.info.nested[in.Sel.Name] {
				if g == se.Sel.Name {
					return in.Sel.Name + "." + g, se.Pos(), true
				}
			}
		}
	}
	return "", 0, false
}

func (a *analyser) record(f string, pos token.Pos, write bool, held int) {
	how := "none"
	switch held {
	case mExcl:
		how = "lock"
	case mRead:
		how = "rlock"
	}
	a.sites = append(a.sites, site{typ: a.info.pkg + "." + a.info.name, field: f, fn: a.fn,
		line: a.fset.Position(pos).Line, write: write, mode: held, how: how})
}

// lhs: an assignment target.  m[k] = v / m[k]++ with m shared, or the shared field itself, is a write.
func (a *analyser) lhs(e ast.Expr, held int) {
	switch x := e.(type) {
	case *ast.IndexExpr:
		if f, pos, ok := a.sharedField(x.X); ok {
			a.record(f, pos, true, held)
			a.expr(x.Index, held)
			return
		}
	case *ast.SelectorExpr:
		if f, pos, ok := a.sharedField(x); ok {
			a.record(f, pos, true, held)
			return
		}
	}
	a.expr(e, held)
}

func (a *analyser) expr(e ast.Expr, held int) {
	if e == nil {
		return
	}
	ast.Inspect(e, func(n ast.Node) bool {
		switch x := n.(type) {
		case *ast.FuncLit:
			a.block(x.Body.List, held)
			return false
		case *ast.CallExpr:
			if id, ok := x.Fun.(*ast.Ident); ok && id.Name == "delete" && len(x.Args) == 2 {
				if f, pos, ok := a.sharedField(x.Args[0]); ok {
					a.record(f, pos, true, held)
					a.expr(x.Args[1], held)
					return false
				}
			}
			if se, ok := x.Fun.(*ast.SelectorExpr); ok {
				if id, ok := se.X.(*ast.Ident); ok && id.Name == a.recv && a.recv != "" {
					a.calls[se.Sel.Name] = append(a.calls[se.Sel.Name], held)
				}
				// lock-order edges through a callee that locks its receiver's mutex
				if len(a.heldSet) > 0 {
					rt := a.resolve(se.X)
					for _, mi := range a.methods[se.Sel.Name] {
						if mi.typ == a.info.name || a.isPackage(se.X) {
							continue
						}
						if rt == "" || (rt != "?" && rt != mi.typ) || (rt == "?" && !a.reachable(mi.typ)) {
							continue
						}
						for _, m := range mi.locks {
							q := qual(a.pkg, mi.typ, m)
							for _, h := range a.heldSet {
								if h != q {
									a.edges = append(a.edges, edge{h, q})
								}
							}
						}
					}
				}
			}
		case *ast.SelectorExpr:
			if f, pos, ok := a.sharedField(x); ok {
				a.record(f, pos, false, held)
				return false
			}
		}
		return true
	})
}

// resolve: the package-local struct type of a receiver expression built from the method's receiver and
// field selections; "" when it is a field of foreign / non-struct type, "?" when unknown (a local variable).
func (a *analyser) resolve(e ast.Expr) string {
	switch x := e.(type) {
	case *ast.Ident:
		if x.Name == a.recv && a.recv != "" {
			return a.info.name
		}
		return "?"
	case *ast.SelectorExpr:
		t := a.resolve(x.X)
		if t == "?" || t == "" {
			return t
		}
		if ti, ok := a.types[t]; ok {
			return ti.fieldTyp[x.Sel.Name] // "" when the field is not of a package-local struct type
		}
		return ""
	case *ast.IndexExpr:
		return a.resolve(x.X)
	case *ast.ParenExpr:
		return a.resolve(x.X)
	}
	return "?"
}

// isPackage: a call pkg.F(...) of an imported package, not a method call
func (a *analyser) isPackage(e ast.Expr) bool {
	id, ok := e.(*ast.Ident)
	return ok && a.imports[id.Name]
}

func (a *analyser) isOwnReceiver(e ast.Expr) bool {
	id, ok := e.(*ast.Ident)
	return ok && id.Name == a.recv
}

// reachable: is type tn referred to by a field of the current owner type?
func (a *analyser) reachable(tn string) bool {
	for _, t := range a.info.fieldTyp {
		if t == tn {
			return true
		}
	}
	return false
}
