(* C17 — control-protocol codec: lossless, bounded, total, wire-stable.
   Only statements here; proofs live in Proofs/.  Every theorem is followed by
   Print Assumptions.  [registered] is computed from today's translator output
   (gen/GenMsg.v: the Type* constants joined with msgTypeMap). *)
From FRP Require Import Model.Frame Model.MsgObj Proofs.FrameProofs Proofs.MsgObjProofs
  Proofs.RegistryCheck gen.GenMsg Golden.GoldenMsg.
From FRP Require Import Model.FrameSys Proofs.FrameSysProofs Model.FrameSysLogin Proofs.FrameSysLoginProofs.
From FRP Require Import Model.MsgRec Proofs.MsgRecProofs gen.GenMsgRec gen.GenMsgRecThms.
From FRP Require Import Model.Datagram Model.DatagramTypes Proofs.DatagramProofs gen.GenDgram.
From FRP Require Import Proofs.ReadSitesCheck gen.GenReadSites.
From FRP Require Import Model.MsgSeq Proofs.MsgSeqProofs Golden.GoldenStack gen.GenVisitorStacks.
Open Scope Z_scope.

Definition today_registry := registry type_consts type_map.
Definition registered := reg_of today_registry.

(* decoding the encoding yields the same frame, whatever follows it on the stream *)
Theorem C17_frame_roundtrip : forall t body rest,
  registered t = true -> blen body <= max_len ->
  decode_frame registered (encode_frame t body ++ rest) =
  DOk {| d_type := t; d_body := body; d_rest := rest |} (9 + blen body) (blen body).
Proof. exact (frame_roundtrip registered). Qed.
Print Assumptions C17_frame_roundtrip.

(* the decoder accepts exactly the encoder's image: type byte, 8-byte big-endian length, body *)
Theorem C17_decode_sound_complete : forall s t body rest c a,
  decode_frame registered s = DOk {| d_type := t; d_body := body; d_rest := rest |} c a <->
  s = encode_frame t body ++ rest /\ registered t = true /\ blen body <= max_len /\
  c = 9 + blen body /\ a = blen body.
Proof. exact (decode_sound_complete registered). Qed.
Print Assumptions C17_decode_sound_complete.

(* total by construction (a Coq function); on every input and every path the buffer
   requested from the allocator is within the declared 10 KiB bound ... *)
Theorem C17_decode_alloc_bounded : forall s,
  0 <= out_alloc (decode_frame registered s) <= 10240.
Proof. exact (decode_alloc_bounded registered). Qed.
Print Assumptions C17_decode_alloc_bounded.

(* ... and no more than the input is consumed ... *)
Theorem C17_decode_consumed_bounded : forall s,
  0 <= out_consumed (decode_frame registered s) <= blen s.
Proof. exact (decode_consumed_bounded registered). Qed.
Print Assumptions C17_decode_consumed_bounded.

(* ... and nothing after the frame influences the result (no read past the frame) *)
Theorem C17_decode_no_overread : forall s r c a extra,
  decode_frame registered s = DOk r c a ->
  decode_frame registered (s ++ extra) =
  DOk {| d_type := d_type r; d_body := d_body r; d_rest := d_rest r ++ extra |} c a.
Proof. exact (decode_no_overread registered). Qed.
Print Assumptions C17_decode_no_overread.

Theorem C17_oversize_rejected : forall t n rest,
  registered t = true -> max_len < n < 2 ^ 63 ->
  exists c, decode_frame registered (t :: be64 n ++ rest) = DErr ErrMaxLen c 0.
Proof. exact (oversize_rejected registered). Qed.
Print Assumptions C17_oversize_rejected.

Theorem C17_negative_rejected : forall t n rest,
  registered t = true -> - 2 ^ 63 <= n < 0 ->
  exists c, decode_frame registered (t :: be64 n ++ rest) = DErr ErrLen c 0.
Proof. exact (negative_rejected registered). Qed.
Print Assumptions C17_negative_rejected.

Theorem C17_unknown_type_rejected : forall t rest,
  registered t = false -> decode_frame registered (t :: rest) = DErr ErrType 1 0.
Proof. exact (unknown_type_rejected registered). Qed.
Print Assumptions C17_unknown_type_rejected.

(* schema-level round trip: for every schema with pairwise distinct json names (at every
   nesting level) and every well-typed value vector, decoding the encoded object gives
   the value back — omitempty never loses information (nil and empty containers identified) *)
Theorem C17_obj_roundtrip : forall fs vs,
  schema_wf fs = true -> typed_fields_with typed fs vs = true ->
  dec_obj fs (enc_obj fs vs) = Some vs.
Proof. exact obj_roundtrip. Qed.
Print Assumptions C17_obj_roundtrip.

(* Reflective, over today's translator output: the registry is a bijection between type
   bytes and message types, all bytes fit one octet, every registered message has a
   well-formed schema (so C17_obj_roundtrip applies to it), nothing is mapped twice. *)
Theorem C17_registry_bijective :
  let R := today_registry in
  (forall b s s', In (b, s) R -> In (b, s') R -> s = s') /\
  (forall b b' s, In (b, s) R -> In (b', s) R -> b = b') /\
  (forall b s, In (b, s) R -> 0 <= b < 256) /\
  (forall b s, In (b, s) R -> exists fs, In (s, fs) structs /\ schema_wf fs = true) /\
  length R = length type_map /\ length type_map = length type_consts.
Proof. exact (registry_ok_sound type_consts type_map structs (eq_refl true <: registry_ok type_consts type_map structs = true)). Qed.
Print Assumptions C17_registry_bijective.

(* whole-message round trip for every registered message type of today's tree: frame
   level composed with object level.  The JSON text layer (encoding/json) is an
   oracle: any [render]/[parse] pair with parse (render o) = Some o. *)
Section Message.
  Variable render : list (bytes * jv) -> bytes.
  Variable parse : bytes -> option (list (bytes * jv)).
  Hypothesis parse_render : forall o, parse (render o) = Some o.

  Definition encode_msg (b : byte) (fs : list field) (vs : list gv) : bytes :=
    encode_frame b (render (enc_obj fs vs)).
  Definition decode_msg (fs : list field) (s : bytes) : option (byte * list gv * bytes) :=
    match decode_frame registered s with
    | DOk r _ _ =>
        match parse (d_body r) with
        | Some o => match dec_obj fs o with Some vs => Some (d_type r, vs, d_rest r) | None => None end
        | None => None
        end
    | DErr _ _ _ => None
    end.

  Theorem C17_message_roundtrip : forall b s fs vs rest,
    In (Z_of_byte b, s) today_registry -> In (s, fs) structs -> schema_wf fs = true ->
    typed_fields_with typed fs vs = true ->
    blen (render (enc_obj fs vs)) <= max_len ->
    decode_msg fs (encode_msg b fs vs ++ rest) = Some (b, vs, rest).
  Proof.
    intros b s fs vs rest Hin _ Hwf Ht Hlen. unfold decode_msg, encode_msg.
    assert (Hr : registered b = true).
    { unfold registered, reg_of. apply existsb_exists. exists (Z_of_byte b, s). split; [exact Hin|apply Z.eqb_refl]. }
    rewrite (frame_roundtrip registered b _ rest Hr Hlen). cbn [d_body d_type d_rest].
    rewrite parse_render, (obj_roundtrip fs vs Hwf Ht). reflexivity.
  Qed.
End Message.
Print Assumptions C17_message_roundtrip.

(* Reflective: today's schema extends the pinned released schema (Golden/GoldenMsg.v): every
   released (byte, message) pair is still registered under the same byte, every released
   field keeps its json name, kind and omitempty flag, any new field is omitempty. *)
Theorem C17_wire_stable :
  wire_stable_ok golden_type_consts golden_type_map golden_structs type_consts type_map structs = true.
Proof. vm_compute. reflexivity. Qed.
Print Assumptions C17_wire_stable.

(* a first message other than Login / NewWorkConn / NewVisitorConn, or any decode error,
   only closes the connection it arrived on *)
Theorem C17_first_message_confined : forall tl tw tv o,
  dispatch_first tl tw tv o <> ActClose ->
  exists r c a, o = DOk r c a /\ (d_type r = tl \/ d_type r = tw \/ d_type r = tv).
Proof. exact dispatch_confined. Qed.
Print Assumptions C17_first_message_confined.

(** * System level: first bytes of a connection (Model/FrameSys.v) *)

(* "A peer that sends an unexpected or malformed first message is disconnected without affecting
   other sessions": for EVERY server state and EVERY event that is not an expected first message
   (= the bytes, possibly inside a completed TLS / websocket handshake, start with the encoder's
   image of a registered Login / NewWorkConn / NewVisitorConn frame within the bound whose body
   encoding/json reads as a message), the state is unchanged, exactly that connection is closed
   (promptly or at the read timeout), nothing is dispatched and nothing is replied (except what a
   failing TLS / websocket handshake emits).  All parameters are universally quantified. *)
Theorem C17_bad_first_message_confined_sys : forall reg tl tw tv force need wsp st ev,
  ~ fs_expected_first reg tl tw tv force need wsp ev ->
  exists out, fs_first_step reg tl tw tv force need wsp st ev = Some (st, out) /\
              fo_closed out = [fe_conn ev] /\ fo_act out = ActClose /\ fo_close out <> KeepOpen /\
              (fo_reply out = RNone \/ fo_reply out = RTlsAny).
Proof. exact fs_bad_first_confined. Qed.
Print Assumptions C17_bad_first_message_confined_sys.

(* the converse: an expected first message always reaches its handler *)
Theorem C17_expected_first_message_dispatched : forall reg tl tw tv force need wsp st ev st' out,
  fs_expected_first reg tl tw tv force need wsp ev ->
  fs_first_step reg tl tw tv force need wsp st ev = Some (st', out) -> fo_act out <> ActClose.
Proof. exact fs_expected_first_dispatched. Qed.
Print Assumptions C17_expected_first_message_dispatched.

(* the only first messages that can change the session table are a Login its handler ACCEPTS and a
   Login whose handler crashes the process (HCrash: every session is gone) *)
Theorem C17_first_message_session_table : forall reg tl tw tv force need wsp st ev st' out,
  fs_first_step reg tl tw tv force need wsp st ev = Some (st', out) ->
  (st' = st /\ fo_close out <> ServerDown) \/
  (exists rid, fe_handler ev = HAccept rid /\ st' = fs_ins_session rid st /\ fo_act out = ActLogin /\
               fo_close out = KeepOpen) \/
  (fe_handler ev = HCrash /\ st' = [] /\ fo_act out = ActLogin /\ fo_close out = ServerDown).
Proof. exact fs_first_step_state. Qed.
Print Assumptions C17_first_message_session_table.

(* the process can only die through a crashing handler behind a Login that was dispatched; an
   unexpected or malformed first message can never do it *)
Theorem C17_server_down_only_by_crashing_login_handler : forall reg tl tw tv force need wsp st ev st' out,
  fs_first_step reg tl tw tv force need wsp st ev = Some (st', out) -> fo_close out = ServerDown ->
  fe_handler ev = HCrash /\ fo_act out = ActLogin /\ ~ ~ fs_expected_first reg tl tw tv force need wsp ev.
Proof. exact fs_down_only_by_crash. Qed.
Print Assumptions C17_server_down_only_by_crashing_login_handler.

(* ... and the handler of an authenticated Login never crashes: NewControl's make(chan, poolCount+10) is the
   only allocation sized by a peer-supplied integer, and for EVERY integer pool_count and every non-negative
   transport.maxPoolCount the clamp translated from server/control.go today (gen/GenAlloc.v, unit T8a) keeps
   the size in makechan's domain (C16's lemma chan_cap_nonneg = C16_chan_cap_never_negative) *)
Theorem C17_login_handler_never_crashes : forall pool_count max_pool_count rid,
  0 <= max_pool_count -> fs_login_oracle pool_count max_pool_count rid = HAccept rid.
Proof. exact fs_login_oracle_accepts. Qed.
Print Assumptions C17_login_handler_never_crashes.

(* hence: dispatching an accepted first message never takes the server down, and keeps every run id *)
Theorem C17_accepted_login_never_takes_server_down :
  forall reg tl tw tv force need wsp st ev st' out pool_count max_pool_count rid,
  0 <= max_pool_count -> fe_handler ev = fs_login_oracle pool_count max_pool_count rid ->
  fs_first_step reg tl tw tv force need wsp st ev = Some (st', out) ->
  fo_close out <> ServerDown /\ (forall r, In r (map fst st) -> In r (map fst st')).
Proof. exact fs_accepted_login_survives. Qed.
Print Assumptions C17_accepted_login_never_takes_server_down.

(* any number of unexpected / malformed first messages, in any order: the server state is what it was *)
Theorem C17_bad_first_messages_history : forall reg tl tw tv force need wsp jok jnull evs st,
  Forall (fun ev => ~ fs_expected_first reg tl tw tv force need wsp ev) evs ->
  fs_run reg tl tw tv force need wsp jok jnull st (map EvFirst evs) = Some st.
Proof. exact fs_run_bad_firsts. Qed.
Print Assumptions C17_bad_first_messages_history.

(** * System level: the read loop of an established session *)

(* the loop is total: the fuel it is defined with always suffices *)
Theorem C17_read_loop_total : forall reg jok s, snd (fs_read_loop reg jok s) <> EndFuel.
Proof. exact fs_read_loop_no_fuel_end. Qed.
Print Assumptions C17_read_loop_total.

(* for every byte stream: what ReadMsg hands to the dispatcher is exactly the maximal prefix of
   well-formed frames (registered type, length within the bound, body accepted by encoding/json),
   and the loop ends at the first thing that is not one — nothing after it is ever dispatched *)
Theorem C17_read_loop_maximal_prefix : forall reg jok s,
  exists ms tail,
    s = fs_enc_all ms ++ tail /\ Forall (fs_good reg jok) ms /\ ~ fs_starts_good reg jok tail /\
    fs_read_loop reg jok s = (ms, fs_end_of reg tail) /\ fs_end_of reg tail <> EndFuel.
Proof. exact fs_read_loop_maximal_prefix. Qed.
Print Assumptions C17_read_loop_maximal_prefix.

(* ... and that decomposition is the only one *)
Theorem C17_read_loop_prefix_unique : forall reg jok ms tail,
  Forall (fs_good reg jok) ms -> ~ fs_starts_good reg jok tail ->
  fs_read_loop reg jok (fs_enc_all ms ++ tail) = (ms, fs_end_of reg tail).
Proof. exact fs_read_loop_prefix. Qed.
Print Assumptions C17_read_loop_prefix_unique.

(* any decode error (or EOF) ends THAT session only: it is gone from the table, every other session
   is exactly as before, only its connection is closed *)
Theorem C17_decode_error_ends_only_that_session : forall reg jok jnull st conn rid s st' out,
  fs_stream_step reg jok jnull st conn rid s = (st', out) ->
  ~ In rid (map fst st') /\
  (forall x, In x st -> fst x <> rid -> In x st') /\
  (forall x, In x st' -> In x st) /\
  so_closed out = [conn] /\
  (so_read out, so_end out) = fs_read_loop reg jok s /\ so_end out <> EndFuel /\
  so_dispatched out = filter (fun m => negb (jnull (fst m) (snd m))) (so_read out).
Proof. exact fs_stream_step_confined. Qed.
Print Assumptions C17_decode_error_ends_only_that_session.

(* whatever arrives on other connections and other sessions, in any number and order, a session the
   events do not legitimately concern (its own channel ending; an ACCEPTED login under its run id; a handler
   crash, excluded for Login by C17_login_handler_never_crashes)
   stays in the table with its proxies *)
Theorem C17_other_sessions_untouched : forall reg tl tw tv force need wsp jok jnull es st st' x,
  fs_run reg tl tw tv force need wsp jok jnull st es = Some st' -> In x st ->
  (forall e, In e es -> ~ fs_touches (fst x) e) -> In x st'.
Proof. exact fs_run_keeps_untouched. Qed.
Print Assumptions C17_other_sessions_untouched.

(** * The NAT-hole datagram codec (pkg/nathole/utils.go): a second decoder of the same frame format, reachable
   by unauthenticated UDP datagrams.  AES-CFB is an abstract stream transform [enc]/[dec]. *)

(* what EncodeMessage writes, DecodeMessageInto reads back *)
Theorem C17_datagram_roundtrip : forall enc dec iv t body,
  (forall iv s, dec iv (enc iv s) = s) -> length iv = 16%nat -> registered t = true -> blen body <= max_len ->
  dg_decode registered dec (dg_encode enc iv t body) = DgOk t body (9 + blen body) (blen body).
Proof. intros enc dec. exact (dg_roundtrip registered dec enc). Qed.
Print Assumptions C17_datagram_roundtrip.

(* total by construction; for EVERY datagram the buffer requested stays within the declared bound, ... *)
Theorem C17_datagram_alloc_bounded : forall dec data, 0 <= dg_alloc (dg_decode registered dec data) <= 10240.
Proof. exact (dg_alloc_bounded registered). Qed.
Print Assumptions C17_datagram_alloc_bounded.

(* ... nothing is read past the end of the datagram (iv + bytes consumed <= its length), ... *)
Theorem C17_datagram_no_read_past_end : forall dec data,
  (forall iv s, length (dec iv s) = length s) ->
  0 <= dg_consumed (dg_decode registered dec data) /\
  dg_iv_len * (if blen data <? dg_iv_len then 0 else 1) + dg_consumed (dg_decode registered dec data) <= blen data.
Proof. exact (dg_no_read_past_datagram registered). Qed.
Print Assumptions C17_datagram_no_read_past_end.

(* ... a datagram shorter than the iv is refused before anything is sliced, ... *)
Theorem C17_datagram_short_rejected : forall dec data,
  blen data < dg_iv_len -> dg_decode registered dec data = DgErr DgShort 0 0.
Proof. exact (dg_short_rejected registered). Qed.
Print Assumptions C17_datagram_short_rejected.

(* ... and what is accepted decrypts to the encoder's image of a REGISTERED type within the bound *)
Theorem C17_datagram_accepts_only_frames : forall dec data t body c a,
  dg_decode registered dec data = DgOk t body c a ->
  dg_iv_len <= blen data /\
  exists rest, dec (firstn 16 data) (skipn 16 data) = encode_frame t body ++ rest /\
               registered t = true /\ blen body <= max_len /\ c = 9 + blen body /\ a = blen body.
Proof. exact (dg_accepts_only_frames registered). Qed.
Print Assumptions C17_datagram_accepts_only_frames.

(* Reflective, over today's pkg/nathole/utils.go (gen/GenDgram.v): DecodeMessageInto IS "crypto.Decode; on error
   return it; msg.ReadMsgInto(bytes.NewReader(plaintext), m)" and EncodeMessage its mirror (locals renamed,
   anything else is a difference), and EVERY slice / index expression in the two functions has constant bounds
   dominated by a len() check that covers them (today there is none to guard) *)
Theorem C17_datagram_source_guarded :
  dg_shape_eqb dg_decode_shape dg_decode_shape_expected = true /\
  dg_shape_eqb dg_encode_shape dg_encode_shape_expected = true /\
  (forall fn base lo hi guards, In (fn, base, lo, hi, guards) dg_slices ->
     0 <= lo /\ exists k, In k guards /\ lo <= k /\ (hi = -2 \/ (lo <= hi /\ hi <= k))).
Proof. exact (dg_source_ok_sound dg_decode_shape dg_encode_shape dg_slices (eq_refl true <: dg_source_ok dg_decode_shape dg_encode_shape dg_slices = true)). Qed.
Print Assumptions C17_datagram_source_guarded.

(* Reflective, over today's client/, server/, pkg/ (gen/GenReadSites.v): "decoding never reads past the frame"
   (C17_decode_no_overread) carried to the CALL SITES: no call of msg.ReadMsg / ReadMsgInto is given a
   bufio reader (it would take the bytes behind the frame out of a stream that continues on the raw
   connection); handleConnection's and readLoop's sites are in the table; and the UDP / datagram codecs
   contain no decode-into-a-caller-supplied-buffer call (base64 Decode/Encode, copy), whose size
   precondition the totality of the codec would depend on *)
Theorem C17_read_sites_unbuffered :
  (forall s, In s read_sites -> site_origin s <> "bufio"%string) /\
  (exists s, In s read_sites /\ site_file s = "server/service.go"%string /\ site_fn s = "handleConnection"%string) /\
  (exists s, In s read_sites /\ site_file s = "pkg/msg/handler.go"%string /\ site_fn s = "readLoop"%string) /\
  dst_calls = [].
Proof. exact (read_sites_ok_sound read_sites dst_calls (eq_refl true <: read_sites_ok read_sites dst_calls = true)). Qed.
Print Assumptions C17_read_sites_unbuffered.

(** * Sequences of frames read into the consumer *)

(* a reader loop that decodes every frame into a FRESH value hands the consumer exactly the messages that were
   encoded, in order, for every schema and every list of messages *)
Theorem C17_sequence_roundtrip_fresh_targets : forall fs vss,
  schema_wf fs = true -> Forall (fun vs => typed_fields_with typed fs vs = true) vss ->
  seq_decode_fresh fs (map (enc_obj fs) vss) = Some vss.
Proof. exact seq_fresh_roundtrip. Qed.
Print Assumptions C17_sequence_roundtrip_fresh_targets.

(* with ONE target for the whole connection it does not (ReadMsgInto merges): a UDPPacket with content "x"
   followed by one with empty content ("c" omitted) is handed over as content "x" twice *)
Theorem C17_sequence_shared_target_refuted :
  exists vss, Forall (fun vs => typed_fields_with typed schema_UDPPacket vs = true) vss /\
              seq_decode_shared schema_UDPPacket (map (fun f : field => zero_val (f_kind f)) schema_UDPPacket)
                                (map (enc_obj schema_UDPPacket) vss) <> Some vss.
Proof.
  exists [[VStr (bs "x"); VPtr None; VPtr None]; [VStr []; VPtr None; VPtr None]].
  split; [repeat constructor|vm_compute; discriminate].
Qed.
Print Assumptions C17_sequence_shared_target_refuted.

(* Reflective (gen/GenReadSites.v): at every msg.ReadMsgInto call site inside a loop the decode target is
   declared in the loop body (fresh per frame); no target is shared or unrecognised *)
Theorem C17_loop_decode_targets_fresh :
  forall f g k, In (f, g, k) read_targets -> k <> "shared"%string /\ k <> "unknown"%string.
Proof. exact (read_targets_ok_sound read_targets (eq_refl true <: read_targets_ok read_targets = true)). Qed.
Print Assumptions C17_loop_decode_targets_fresh.

(* Reflective: what the read-loop model (fs_stream_step) rests on: doneCh is closed by readLoop only, i.e. after
   the handler in flight returned; readLoop calls the handler directly; NewProxy / CloseProxy / Ping handlers
   are registered synchronously on the server *)
Theorem C17_dispatch_inside_read_loop :
  donech_closers = ["readLoop"%string] /\ readloop_shape = (0, 1, 1) /\
  assoc_s "&msg.NewProxy{}" server_handlers = Some "sync"%string /\
  assoc_s "&msg.CloseProxy{}" server_handlers = Some "sync"%string /\
  assoc_s "&msg.Ping{}" server_handlers = Some "sync"%string.
Proof. exact (dispatch_ok_sound _ _ _ (eq_refl true <: dispatch_ok donech_closers readloop_shape server_handlers = true)). Qed.
Print Assumptions C17_dispatch_inside_read_loop.

(* Reflective, wire stability of the LAYERING (gen/GenVisitorStacks.v, unit t5v): at every site that wraps a
   visitor / work connection the order of the wrappers is the pinned released one (encryption next to the
   connection, compression on top) *)
Definition C17_wrapper_sites : list (list (string * string * string)) :=
  [gvs_server_newconn; gvs_client_stcp; gvs_client_sudp; gvs_client_xtcp; gvs_handle_tcp; gvs_sudp_owner; gvs_server_work].
Theorem C17_wrapper_order_wire_stable :
  forall st, In st C17_wrapper_sites -> stack_kinds st = golden_wrapper_order.
Proof. exact (stacks_order_ok_sound golden_wrapper_order C17_wrapper_sites (eq_refl true <: stacks_order_ok golden_wrapper_order C17_wrapper_sites = true)). Qed.
Print Assumptions C17_wrapper_order_wire_stable.

(* Reflective (gen/GenReadSites.v): both ends install the control-channel cipher under the released condition
   (always, except internal ssh-tunnel sessions); no transport / TLS combination changes it on one end only *)
Theorem C17_control_cipher_condition_wire_stable :
  client_conn_encrypted = conn_enc_released_client /\ server_conn_encrypted = ["!internal"%string].
Proof. exact (conn_enc_ok_sound _ _ (eq_refl true <: conn_enc_ok client_conn_encrypted server_conn_encrypted = true)). Qed.
Print Assumptions C17_control_cipher_condition_wire_stable.

(** * Message level: one round-trip theorem per registered message type
   (records, conversions, type bytes and encode_T / decode_T are regenerated from pkg/msg/msg.go on
   every run: gen/GenMsgRec.v; the JSON text layer is an oracle with parse (render o) = Some o;
   the hypothesis says that the frame fits the declared bound, see C17_oversize_message_rejected) *)
Theorem C17_roundtrip_Login :
  forall render parse, (forall o, parse (render o) = Some o) ->
  forall (m : msg_Login) rest,
    blen (encode_Login render m) <= 9 + max_len ->
    decode_Login parse registered (encode_Login render m ++ rest) = Some (m, rest).
Proof. exact roundtrip_Login. Qed.
Print Assumptions C17_roundtrip_Login.

Theorem C17_roundtrip_LoginResp :
  forall render parse, (forall o, parse (render o) = Some o) ->
  forall (m : msg_LoginResp) rest,
    blen (encode_LoginResp render m) <= 9 + max_len ->
    decode_LoginResp parse registered (encode_LoginResp render m ++ rest) = Some (m, rest).
Proof. exact roundtrip_LoginResp. Qed.
Print Assumptions C17_roundtrip_LoginResp.

Theorem C17_roundtrip_NewProxy :
  forall render parse, (forall o, parse (render o) = Some o) ->
  forall (m : msg_NewProxy) rest,
    blen (encode_NewProxy render m) <= 9 + max_len ->
    decode_NewProxy parse registered (encode_NewProxy render m ++ rest) = Some (m, rest).
Proof. exact roundtrip_NewProxy. Qed.
Print Assumptions C17_roundtrip_NewProxy.

Theorem C17_roundtrip_NewProxyResp :
  forall render parse, (forall o, parse (render o) = Some o) ->
  forall (m : msg_NewProxyResp) rest,
    blen (encode_NewProxyResp render m) <= 9 + max_len ->
    decode_NewProxyResp parse registered (encode_NewProxyResp render m ++ rest) = Some (m, rest).
Proof. exact roundtrip_NewProxyResp. Qed.
Print Assumptions C17_roundtrip_NewProxyResp.

Theorem C17_roundtrip_CloseProxy :
  forall render parse, (forall o, parse (render o) = Some o) ->
  forall (m : msg_CloseProxy) rest,
    blen (encode_CloseProxy render m) <= 9 + max_len ->
    decode_CloseProxy parse registered (encode_CloseProxy render m ++ rest) = Some (m, rest).
Proof. exact roundtrip_CloseProxy. Qed.
Print Assumptions C17_roundtrip_CloseProxy.

Theorem C17_roundtrip_NewWorkConn :
  forall render parse, (forall o, parse (render o) = Some o) ->
  forall (m : msg_NewWorkConn) rest,
    blen (encode_NewWorkConn render m) <= 9 + max_len ->
    decode_NewWorkConn parse registered (encode_NewWorkConn render m ++ rest) = Some (m, rest).
Proof. exact roundtrip_NewWorkConn. Qed.
Print Assumptions C17_roundtrip_NewWorkConn.

Theorem C17_roundtrip_ReqWorkConn :
  forall render parse, (forall o, parse (render o) = Some o) ->
  forall (m : msg_ReqWorkConn) rest,
    blen (encode_ReqWorkConn render m) <= 9 + max_len ->
    decode_ReqWorkConn parse registered (encode_ReqWorkConn render m ++ rest) = Some (m, rest).
Proof. exact roundtrip_ReqWorkConn. Qed.
Print Assumptions C17_roundtrip_ReqWorkConn.

Theorem C17_roundtrip_StartWorkConn :
  forall render parse, (forall o, parse (render o) = Some o) ->
  forall (m : msg_StartWorkConn) rest,
    blen (encode_StartWorkConn render m) <= 9 + max_len ->
    decode_StartWorkConn parse registered (encode_StartWorkConn render m ++ rest) = Some (m, rest).
Proof. exact roundtrip_StartWorkConn. Qed.
Print Assumptions C17_roundtrip_StartWorkConn.

Theorem C17_roundtrip_NewVisitorConn :
  forall render parse, (forall o, parse (render o) = Some o) ->
  forall (m : msg_NewVisitorConn) rest,
    blen (encode_NewVisitorConn render m) <= 9 + max_len ->
    decode_NewVisitorConn parse registered (encode_NewVisitorConn render m ++ rest) = Some (m, rest).
Proof. exact roundtrip_NewVisitorConn. Qed.
Print Assumptions C17_roundtrip_NewVisitorConn.

Theorem C17_roundtrip_NewVisitorConnResp :
  forall render parse, (forall o, parse (render o) = Some o) ->
  forall (m : msg_NewVisitorConnResp) rest,
    blen (encode_NewVisitorConnResp render m) <= 9 + max_len ->
    decode_NewVisitorConnResp parse registered (encode_NewVisitorConnResp render m ++ rest) = Some (m, rest).
Proof. exact roundtrip_NewVisitorConnResp. Qed.
Print Assumptions C17_roundtrip_NewVisitorConnResp.

Theorem C17_roundtrip_Ping :
  forall render parse, (forall o, parse (render o) = Some o) ->
  forall (m : msg_Ping) rest,
    blen (encode_Ping render m) <= 9 + max_len ->
    decode_Ping parse registered (encode_Ping render m ++ rest) = Some (m, rest).
Proof. exact roundtrip_Ping. Qed.
Print Assumptions C17_roundtrip_Ping.

Theorem C17_roundtrip_Pong :
  forall render parse, (forall o, parse (render o) = Some o) ->
  forall (m : msg_Pong) rest,
    blen (encode_Pong render m) <= 9 + max_len ->
    decode_Pong parse registered (encode_Pong render m ++ rest) = Some (m, rest).
Proof. exact roundtrip_Pong. Qed.
Print Assumptions C17_roundtrip_Pong.

Theorem C17_roundtrip_UDPPacket :
  forall render parse, (forall o, parse (render o) = Some o) ->
  forall (m : msg_UDPPacket) rest,
    blen (encode_UDPPacket render m) <= 9 + max_len ->
    decode_UDPPacket parse registered (encode_UDPPacket render m ++ rest) = Some (m, rest).
Proof. exact roundtrip_UDPPacket. Qed.
Print Assumptions C17_roundtrip_UDPPacket.

Theorem C17_roundtrip_NatHoleVisitor :
  forall render parse, (forall o, parse (render o) = Some o) ->
  forall (m : msg_NatHoleVisitor) rest,
    blen (encode_NatHoleVisitor render m) <= 9 + max_len ->
    decode_NatHoleVisitor parse registered (encode_NatHoleVisitor render m ++ rest) = Some (m, rest).
Proof. exact roundtrip_NatHoleVisitor. Qed.
Print Assumptions C17_roundtrip_NatHoleVisitor.

Theorem C17_roundtrip_NatHoleClient :
  forall render parse, (forall o, parse (render o) = Some o) ->
  forall (m : msg_NatHoleClient) rest,
    blen (encode_NatHoleClient render m) <= 9 + max_len ->
    decode_NatHoleClient parse registered (encode_NatHoleClient render m ++ rest) = Some (m, rest).
Proof. exact roundtrip_NatHoleClient. Qed.
Print Assumptions C17_roundtrip_NatHoleClient.

Theorem C17_roundtrip_NatHoleResp :
  forall render parse, (forall o, parse (render o) = Some o) ->
  forall (m : msg_NatHoleResp) rest,
    blen (encode_NatHoleResp render m) <= 9 + max_len ->
    decode_NatHoleResp parse registered (encode_NatHoleResp render m ++ rest) = Some (m, rest).
Proof. exact roundtrip_NatHoleResp. Qed.
Print Assumptions C17_roundtrip_NatHoleResp.

Theorem C17_roundtrip_NatHoleSid :
  forall render parse, (forall o, parse (render o) = Some o) ->
  forall (m : msg_NatHoleSid) rest,
    blen (encode_NatHoleSid render m) <= 9 + max_len ->
    decode_NatHoleSid parse registered (encode_NatHoleSid render m ++ rest) = Some (m, rest).
Proof. exact roundtrip_NatHoleSid. Qed.
Print Assumptions C17_roundtrip_NatHoleSid.

Theorem C17_roundtrip_NatHoleReport :
  forall render parse, (forall o, parse (render o) = Some o) ->
  forall (m : msg_NatHoleReport) rest,
    blen (encode_NatHoleReport render m) <= 9 + max_len ->
    decode_NatHoleReport parse registered (encode_NatHoleReport render m ++ rest) = Some (m, rest).
Proof. exact roundtrip_NatHoleReport. Qed.
Print Assumptions C17_roundtrip_NatHoleReport.

(* every message type registered in today's msg.go has its corollary above *)
Definition C17_roundtrip_names : list string :=
  ["Login"; "LoginResp"; "NewProxy"; "NewProxyResp"; "CloseProxy"; "NewWorkConn"; "ReqWorkConn"; "StartWorkConn"; "NewVisitorConn"; "NewVisitorConnResp"; "Ping"; "Pong"; "UDPPacket"; "NatHoleVisitor"; "NatHoleClient"; "NatHoleResp"; "NatHoleSid"; "NatHoleReport"]%string.
Theorem C17_roundtrip_covers_registry :
  forallb (fun n => existsb (String.eqb n) C17_roundtrip_names) (map snd type_map) &&
  forallb (fun n => existsb (String.eqb n) (map snd type_map)) C17_roundtrip_names &&
  forallb (fun n => existsb (String.eqb n) msg_rec_names) C17_roundtrip_names = true.
Proof. vm_compute. reflexivity. Qed.
Print Assumptions C17_roundtrip_covers_registry.

(* the bound in the round trips is exact: WriteMsg does not check it, and an encoding that does not
   fit is refused by every decoder, so such a message cannot be delivered (generic in the message type) *)
Theorem C17_oversize_message_rejected :
  forall render parse {A} n b fs (to : A -> list gv) (of : list gv -> option A),
    reg_entry today_registry b n = true ->
    forall m rest,
      9 + max_len < blen (encode_rec render b fs to m) < 2 ^ 63 ->
      decode_rec parse registered b fs of (encode_rec render b fs to m ++ rest) = None.
Proof. intros render parse A. exact (rec_oversize_rejected render parse today_registry). Qed.
Print Assumptions C17_oversize_message_rejected.

(* *net.UDPAddr fields of UDPPacket: a nil pointer and a pointer to the zero value are different
   messages, encode differently (omitempty drops only nil) and both come back as they were; what IS
   identified, inside msg_UDPAddr, is the IP as its text form ("" for a nil or an empty IP, the 4- and
   16-byte forms of an IPv4 address) *)
Example C17_udpaddr_nil_vs_zero :
  let zero := {| UDPAddr_IP := []; UDPAddr_Port := 0; UDPAddr_Zone := [] |} in
  let p_nil := {| UDPPacket_Content := []; UDPPacket_LocalAddr := None; UDPPacket_RemoteAddr := None |} in
  let p_zero := {| UDPPacket_Content := []; UDPPacket_LocalAddr := Some zero; UDPPacket_RemoteAddr := None |} in
  enc_obj schema_UDPPacket (to_gv_UDPPacket p_nil) = [] /\
  enc_obj schema_UDPPacket (to_gv_UDPPacket p_zero) =
    [(bs "l", JObj [(bs "IP", JStr []); (bs "Port", JNum 0); (bs "Zone", JStr [])])] /\
  obind (dec_obj schema_UDPPacket (enc_obj schema_UDPPacket (to_gv_UDPPacket p_nil))) of_gv_UDPPacket = Some p_nil /\
  obind (dec_obj schema_UDPPacket (enc_obj schema_UDPPacket (to_gv_UDPPacket p_zero))) of_gv_UDPPacket = Some p_zero /\
  p_nil <> p_zero.
Proof. vm_compute. repeat split; discriminate. Qed.

(* non-vacuity: a concrete registered type and frame *)
Example C17_example_registered : registered "o"%byte = true /\ registered "z"%byte = false /\
  decode_frame registered (hx "6f00000000000000027b7d") =
  DOk {| d_type := "o"%byte; d_body := hx "7b7d"; d_rest := [] |} 11 2.
Proof. vm_compute. repeat split. Qed.

(* non-vacuity of the system-level statements: a concrete unexpected first message (a Ping frame) is
   closed without a trace, a concrete Login frame is an expected first message and is dispatched *)
Example C17_example_first_bytes :
  let tl := "o"%byte in let tw := "w"%byte in let tv := "v"%byte in
  let wsp := bs "GET /~!frp" in
  let ev b := {| fe_conn := 7; fe_bytes := b; fe_eof := false; fe_inner := None; fe_json := JMsg;
                 fe_handler := HAccept (bs "r1") |} in
  let st := [(bs "A", [bs "p"])] in
  fs_first_step registered tl tw tv false 10 wsp st (ev (hx "6800000000000000027b7d")) =
    Some (st, {| fo_close := CloseNow; fo_reply := RNone; fo_act := ActClose; fo_closed := [7] |}) /\
  fs_first_step registered tl tw tv false 10 wsp st (ev (hx "6f00000000000000027b7d")) =
    Some ([(bs "A", [bs "p"]); (bs "r1", [])],
          {| fo_close := KeepOpen; fo_reply := RLoginOk; fo_act := ActLogin; fo_closed := [] |}) /\
  fs_read_loop registered (fun _ _ => true) (hx "6800000000000000027b7d" ++ hx "6800000000000000027b7d" ++ hx "7a00") =
    ([("h"%byte, hx "7b7d"); ("h"%byte, hx "7b7d")], EndFrame ErrType).
Proof. vm_compute. repeat split. Qed.
