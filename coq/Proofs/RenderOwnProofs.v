(* C18 — with an owned render buffer every load parses its own document, whatever the schedule *)
From FRP Require Import Model.RenderOwn Proofs.StrictLoadProofs.
Open Scope Z_scope.

Definition ro_th_inv (t : ro_thread) : Prop :=
  match ro_todo t with
  | [RRender; RParse] => ro_sl t = RoNone /\ ro_parsed t = None
  | [RParse] => ro_sl t = RoOwn (ro_doc t)
  | [] => ro_parsed t = Some (ro_doc t)
  | _ => False
  end.

Definition ro_inv (s : ro_state) : Prop := forall i t, nth_error (ro_ths s) i = Some t -> ro_th_inv t.

Lemma ro_step_inv tid s : ro_inv s -> ro_inv (ro_step RoOwned tid s).
Proof.
  intros H. unfold ro_step. destruct (nth_error (ro_ths s) tid) as [t|] eqn:Et; [|exact H].
  pose proof (H tid t Et) as Ht. unfold ro_th_inv in Ht.
  destruct (ro_todo t) as [|[|] rest] eqn:E; [exact H| |].
  - (* RRender *) destruct rest as [|[|] [|? ?]]; try contradiction.
    intros i t' Hi. cbn [ro_ths] in Hi. destruct (Nat.eq_dec tid i) as [<-|Hne].
    + rewrite (nth_upd_same _ _ _ _ Et) in Hi. injection Hi as <-. reflexivity.
    + rewrite (nth_upd_other _ _ _ _ Hne) in Hi. exact (H i t' Hi).
  - (* RParse *) destruct rest; [|contradiction].
    intros i t' Hi. cbn [ro_ths] in Hi. destruct (Nat.eq_dec tid i) as [<-|Hne].
    + rewrite (nth_upd_same _ _ _ _ Et) in Hi. injection Hi as <-. unfold ro_th_inv. cbn. now rewrite Ht.
    + rewrite (nth_upd_other _ _ _ _ Hne) in Hi. exact (H i t' Hi).
Qed.

Theorem render_own_all_schedules docs sched :
  let s := ro_run RoOwned sched (ro_init docs) in
  forall i t, nth_error (ro_ths s) i = Some t -> ro_todo t = [] -> ro_parsed t = Some (ro_doc t).
Proof.
  cbv zeta. assert (Hinv : ro_inv (ro_run RoOwned sched (ro_init docs))).
  { unfold ro_run. generalize (ro_init docs) (fun i t (Hi : nth_error (ro_ths (ro_init docs)) i = Some t) =>
      (ltac:(cbn [ro_init ro_ths] in Hi; rewrite nth_error_map in Hi; destruct (nth_error docs i); [|discriminate];
             injection Hi as <-; split; reflexivity) : ro_th_inv t)).
    induction sched as [|tid r IH]; intros s Hs; [exact Hs|]. cbn. apply IH. apply ro_step_inv. exact Hs. }
  intros i t Hi Hd. specialize (Hinv i t Hi). unfold ro_th_inv in Hinv. now rewrite Hd in Hinv.
Qed.

Theorem render_own_of_events ev :
  ro_mode_of ev = RoOwned ->
  forall docs sched,
  let s := ro_run (ro_mode_of ev) sched (ro_init docs) in
  forall i t, nth_error (ro_ths s) i = Some t -> ro_todo t = [] -> ro_parsed t = Some (ro_doc t).
Proof. intros -> docs sched. apply render_own_all_schedules. Qed.

(* with a buffer that is handed around, a load can parse the other load's document *)
Lemma render_shared_refuted :
  exists sched,
    let s := ro_run RoShared sched (ro_init [1; 2]%nat) in
    exists t, nth_error (ro_ths s) 0 = Some t /\ ro_todo t = [] /\ ro_parsed t = Some 2%nat /\ ro_doc t = 1%nat.
Proof. exists [0; 1; 0]%nat. vm_compute. eexists. repeat split. Qed.
