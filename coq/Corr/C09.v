(* C09 correspondence: observed behaviour of the real ports.Manager (driver `ports`), of real
   TCPProxy/UDPProxy/TCPGroupCtl objects over real managers (driver `pxy`) and of an in-process
   frps (driver `portsys`) against Model/Ports.v and Model/PortSrv.v, plus the property monitors
   evaluated on the observed traces themselves. *)
From FRP Require Export Corr.Common Model.Ports Model.PortSrv Model.PortSched Model.PortCfg Proofs.PortCfgProofs.
Open Scope Z_scope.

(* ---------- shared comparisons (Go maps are unordered: everything is compared as a set) ---------- *)
Definition zsubset (a b : list Z) : bool := forallb (fun x => zmem x b) a.
Definition zset_eq (a b : list Z) : bool :=
  zsubset a b && zsubset b a && (Z.of_nat (length a) =? Z.of_nat (length b)).

Definition used_eq (obs model : list (Z * pname)) : bool :=
  forallb (fun e : Z * pname => match uget (fst e) model with Some n => String.eqb n (snd e) | None => false end) obs
  && (Z.of_nat (length obs) =? Z.of_nat (length model)).

Definition res_eq (obs model : list (pname * Z)) : bool :=
  forallb (fun e : pname * Z => match rget (fst e) model with Some p => p =? snd e | None => false end) obs
  && (Z.of_nat (length obs) =? Z.of_nat (length model)).

(* observed snapshot of a manager: free, used, reserved *)
Definition snap := (list Z * list (Z * pname) * list (pname * Z))%type.

Definition snap_free (o : snap) : list Z := let '(f, _, _) := o in f.

Definition snap_code (o : snap) (s : pm) : Z :=
  let '(f, u, r) := o in
  if negb (zset_eq f (pm_free s)) then 4
  else if negb (used_eq u (pm_used s)) then 5
  else if negb (res_eq r (pm_res s)) then 6
  else 0.

(* result codes of Acquire as the harness prints them: >= 0 the port, -1 ErrPortAlreadyUsed,
   -2 ErrPortNotAllowed, -3 ErrPortUnAvailable, -4 ErrNoAvailablePort *)
Definition pres_code (r : pres) : Z :=
  match r with
  | POk p => p
  | PErr EUsed => -1 | PErr ENotAllowed => -2 | PErr EUnavail => -3 | PErr ENoAvail => -4
  end.

(* ---------- driver `ports` ---------- *)
Inductive mop :=
| MAcq (name : pname) (port : Z) (busy : list Z) (res : Z) (choice : option Z)
| MRel (port : Z).

Definition mstep := (mop * snap)%type.

(* which branch of Acquire the model took (for the coverage counters):
   1 reserved path, 2 random ok, 3 random none available, 4 specified ok, 5 unavailable, 6 already used,
   7 not allowed, 8 random path picked port 0 (impossible since NewManager drops it), 9 the remembered port is
   bindable but owned by somebody else: the reserved path must fall through (regression of F-C09d), 10 release of
   a used port, 11 release of a port that is not used *)
Definition branch_of (s : pm) (o : mop) : Z :=
  match o with
  | MAcq n port busy _ ch =>
      if port =? 0 then
        match rget n (pm_res s) with
        | Some rp =>
            if zmem rp (pm_free s) && probe_of busy rp then 1
            else if probe_of busy rp && (match uget rp (pm_used s) with Some _ => true | None => false end) then 9
            else match ch with Some 0 => 8 | Some _ => 2 | None => 3 end
        | None => match ch with Some 0 => 8 | Some _ => 2 | None => 3 end
        end
      else if zmem port (pm_free s) then (if probe_of busy port then 4 else 5)
      else match uget port (pm_used s) with Some _ => 6 | None => 7 end
  | MRel p => match uget p (pm_used s) with Some _ => 10 | None => 11 end
  end.

Definition mop_run (s : pm) (o : mop) : option (pm * Z) :=
  match o with
  | MAcq n port busy _ ch =>
      match pm_acquire (probe_of busy) ch s n port with
      | Some (s', r) => Some (s', pres_code r)
      | None => None
      end
  | MRel p => Some (pm_release s p, -100)
  end.

Definition mop_obs (o : mop) : Z := match o with MAcq _ _ _ r _ => r | MRel _ => -100 end.

(* code 0 = agreement; otherwise the reason at the first disagreeing step: 2 the observed random choice is not one
   the model allows, 3 result differs, 4/5/6 free/used/reserved table differs *)
Fixpoint msteps_code (i : Z) (s : pm) (l : list mstep) : Z :=
  match l with
  | [] => 0
  | (o, ob) :: r =>
      match mop_run s o with
      | None => 2
      | Some (s', res) =>
          if negb (res =? mop_obs o) then 3
          else let c := snap_code ob s' in
               if negb (c =? 0) then c else msteps_code (i + 1) s' r
      end
  end.

Fixpoint msteps_branches (s : pm) (l : list mstep) : list Z :=
  match l with
  | [] => []
  | (o, _) :: r =>
      branch_of s o :: match mop_run s o with Some (s', _) => msteps_branches s' r | None => [] end
  end.

(* ---------- the property itself on the observed manager trace (no model involved) ---------- *)
Definition snap_partition (allowed : list Z) (o : snap) : bool :=
  let '(f, u, _) := o in
  let ud := map fst u in
  forallb (fun p => negb (zmem p ud)) f && zsubset f allowed && zsubset ud allowed &&
  forallb (fun p => zmem p f || zmem p ud) allowed &&
  (Z.of_nat (length f) + Z.of_nat (length ud) =? Z.of_nat (length allowed)).

Definition snap_same (a b : snap) : bool :=
  let '(f, u, r) := a in let '(f', u', r') := b in
  zset_eq f f' && used_eq u u' && res_eq r r'.

(* 0 = the observed trace satisfies the manager-level clauses; 20.. = which clause fails *)
Fixpoint mon_steps (allowed : list Z) (prev : snap) (l : list mstep) : Z :=
  match l with
  | [] => 0
  | (o, ob) :: r =>
      let '(pf, pu, pr) := prev in
      let '(f, u, rs) := ob in
      let c :=
        if negb (snap_partition allowed ob) then 21
        else match o with
             | MAcq n port busy res ch =>
                 if 0 <=? res then
                   (* granted: allowed, bindable, recorded for this name, and not taken from an owner
                      unless the OS itself said the port was bindable (the probe is the authority) *)
                   if zmem res (map fst pu) then 32   (* granted a port that had an owner *)
                   else if negb (zmem res allowed) then 22
                   else if negb (probe_of busy res) then 23
                   else if negb (match uget res u with Some m => String.eqb m n | None => false end) then 24
                   else if negb ((port =? 0) || (res =? port)) then 25
                   else 0
                 else if zmem 0 allowed then 0
                 else if negb (snap_same prev ob) then 27      (* a refusal disturbs nothing *)
                 else if (res =? -2) && zmem port allowed then 28
                 else if (res =? -1) && negb (zmem port (map fst pu)) then 29
                 else 0
             | MRel p =>
                 if zmem p (map fst pu) && negb (zmem p f) then 30 else
                 if zmem p (map fst u) then 31 else 0
             end in
      if negb (c =? 0) then c else mon_steps allowed ob r
  end.

(* ---------- driver `pxy`: real TCPProxy / UDPProxy / TCPGroupCtl over real managers ---------- *)
Definition xcfg := list prange.

(* CClose k closes the object created by the k-th successful Run of the history (from 0) *)
Inductive xcop := CRun (q : xreq) | CClose (k : Z) | CSquat (proto port : Z) | CUnsquat (proto port : Z).

(* observation after a step: result code, both managers' tables, the ports the OS reports bound by the
   server (bind scan minus the squatter's), the group table (name -> requested port, real port, members) *)
Record xobs := { xo_res : Z; xo_tcp : snap; xo_udp : snap; xo_btcp : list Z; xo_budp : list Z;
                 xo_groups : list (string * (Z * Z * Z)) }.
Definition xstep := (xcop * xobs)%type.

(* >= 0 the real port; -1..-4 Acquire's errors; -5 listen failed; -6 group params; -7 group port; -8 group key *)
Definition xres_code (r : xres) : Z :=
  match r with
  | XOk _ real => real
  | XErr (XAcq e) => pres_code (PErr e)
  | XErr XListen => -5 | XErr XGroupParams => -6 | XErr XGroupPort => -7 | XErr XGroupAuth => -8
  end.

Definition groups_eq (obs : list (string * (Z * Z * Z))) (model : list (string * tgrp)) : bool :=
  forallb (fun e : string * (Z * Z * Z) =>
             let '(port, real, members) := snd e in
             match sget (fst e) model with
             | Some tg => (tg_port tg =? port) && (tg_real tg =? real) && (Z.of_nat (length (tg_lns tg)) =? members)
             | None => false
             end) obs
  && (Z.of_nat (length obs) =? Z.of_nat (length model)).

Fixpoint znth {A} (k : Z) (l : list A) : option A :=
  match l with [] => None | x :: r => if k =? 0 then Some x else znth (k - 1) r end.

Definition xc_run (r : rcst) (ids : list Z) (o : xcop) : option (rcst * list Z * Z) :=
  match o with
  | CRun q =>
      match px_run r q with
      | Some (r', res) => Some (r', match res with XOk id _ => ids ++ [id] | _ => ids end, xres_code res)
      | None => None
      end
  | CClose k =>
      match znth k ids with
      | Some id => match px_close r id with Some r' => Some (r', ids, -100) | None => None end
      | None => None
      end
  | CSquat proto port => match x_step r (XSquat proto port) with Some (r', _) => Some (r', ids, -100) | None => None end
  | CUnsquat proto port => match x_step r (XUnsquat proto port) with Some (r', _) => Some (r', ids, -100) | None => None end
  end.

Definition xobs_code (ob : xobs) (r : rcst) : Z :=
  let c := snap_code (xo_tcp ob) (rc_tcp r) in
  if negb (c =? 0) then c else
  let c := snap_code (xo_udp ob) (rc_udp r) in
  if negb (c =? 0) then 10 + c else
  if negb (zset_eq (xo_btcp ob) (bound_ports 0 (rc_bound r))) then 8 else
  if negb (zset_eq (xo_budp ob) (bound_ports 1 (rc_bound r))) then 9 else
  if negb (groups_eq (xo_groups ob) (rc_groups r)) then 17 else 0.

(* reason at the first disagreeing step: 2 model refuses the step (illegal oracle value / a state the sequential server
   cannot be in), 3 result, 4-6 tcp tables, 14-16 udp tables, 8/9 os_bound tcp/udp, 17 group table *)
Fixpoint xsteps_go (i : Z) (r : rcst) (ids : list Z) (l : list xstep) : Z :=
  match l with
  | [] => 0
  | (o, ob) :: t =>
      match xc_run r ids o with
      | None => 2
      | Some (r', ids', res) =>
          if negb (res =? xo_res ob) then 3
          else let c := xobs_code ob r' in
               if negb (c =? 0) then c else xsteps_go (i + 1) r' ids' t
      end
  end.

(* branch reached by a step (coverage counters):
   21 tcp ok, 22 tcp acquire refused, 23 tcp listen failed, 24 udp ok, 25 udp acquire refused, 26 udp listen
   failed, 27 first group member ok, 28 group join ok, 29 group listen failed, 30 group acquire refused,
   31 group join refused (params/port/key), 32 close plain tcp, 33 close last group member, 34 close other
   group member, 35 close udp, 36 second close of a udp proxy, 37 squat, 38 other kinds *)
Definition xbranch (r : rcst) (ids : list Z) (o : xcop) : Z :=
  match o with
  | CRun q =>
      let grouped := negb (String.eqb (xq_group q) "") in
      match px_run r q with
      | Some (_, res) =>
          match xq_kind q, res with
          | KTcp, XOk _ _ => if grouped then (match sget (xq_group q) (rc_groups r) with
                                              | Some tg => match tg_lns tg with [] => 27 | _ => 28 end
                                              | None => 27 end) else 21
          | KTcp, XErr (XAcq _) => if grouped then 30 else 22
          | KTcp, XErr XListen => if grouped then 29 else 23
          | KTcp, XErr _ => 31
          | KUdp, XOk _ _ => 24
          | KUdp, XErr (XAcq _) => 25
          | KUdp, XErr _ => 26
          | KOther, _ => 38
          end
      | None => 0
      end
  | CClose k =>
      match znth k ids with
      | Some id =>
          match aget id (rc_objs r) with
          | Some ob =>
              match po_kind ob with
              | KTcp => if String.eqb (po_group ob) "" then 32
                        else match sget (po_group ob) (rc_groups r) with
                             | Some tg => match zrem id (tg_lns tg) with [] => 33 | _ => 34 end
                             | None => 0
                             end
              | KUdp => if po_closed ob then 36 else 35
              | KOther => 38
              end
          | None => 0
          end
      | None => 0
      end
  | CSquat _ _ => 37
  | CUnsquat _ _ => 39
  end.

Fixpoint xsteps_br (r : rcst) (ids : list Z) (l : list xstep) : list Z :=
  match l with
  | [] => []
  | (o, _) :: t =>
      xbranch r ids o :: match xc_run r ids o with Some (r', ids', _) => xsteps_br r' ids' t | None => [] end
  end.

(* the property on the observed trace itself: the accounting equals what is bound, what is bound is
   allowed, a refusal changes nothing, a reported port is a bound port *)
Definition snap_used_ports (o : snap) : list Z := let '(_, u, _) := o in map fst u.
Definition snap_res (o : snap) : list (pname * Z) := let '(_, _, r) := o in r.

Fixpoint xmon (allowed : list Z) (prev : xobs) (l : list xstep) : Z :=
  match l with
  | [] => 0
  | (o, ob) :: t =>
      let c :=
        if negb (zset_eq (snap_used_ports (xo_tcp ob)) (xo_btcp ob)) then 41
        else if negb (zset_eq (snap_used_ports (xo_udp ob)) (xo_budp ob)) then 42
        else if negb (zsubset (xo_btcp ob) allowed && zsubset (xo_budp ob) allowed) then 43
        else if negb (snap_partition allowed (xo_tcp ob) && snap_partition allowed (xo_udp ob)) then 44
        else match o with
             | CRun q =>
                 if 0 <=? xo_res ob then
                   match xq_kind q with
                   | KTcp => if zmem (xo_res ob) (xo_btcp ob) then 0 else 45
                   | KUdp => if zmem (xo_res ob) (xo_budp ob) then 0 else 46
                   | KOther => 0
                   end
                 else if zmem 0 allowed then 0
                 else if negb (zset_eq (snap_free (xo_tcp prev)) (snap_free (xo_tcp ob)) &&
                               zset_eq (snap_free (xo_udp prev)) (snap_free (xo_udp ob)) &&
                               zset_eq (xo_btcp prev) (xo_btcp ob) && zset_eq (xo_budp prev) (xo_budp ob)) then 47
                 (* ... nor anybody's remembered port, unless a port was acquired and the listen failed (-5) *)
                 else if negb (xo_res ob =? -5) &&
                         negb (res_eq (snap_res (xo_tcp prev)) (snap_res (xo_tcp ob)) &&
                               res_eq (snap_res (xo_udp prev)) (snap_res (xo_udp ob))) then 48
                 else 0
             | _ => 0
             end in
      if negb (c =? 0) then c else xmon allowed ob t
  end.

Definition xobs0 (r : rcst) : xobs :=
  {| xo_res := -100; xo_tcp := (pm_free (rc_tcp r), [], []); xo_udp := (pm_free (rc_udp r), [], []);
     xo_btcp := []; xo_budp := []; xo_groups := [] |}.

Definition xsteps_code (cfg : xcfg) (steps : list xstep) : Z :=
  let r0 := rc_new cfg in
  let m := xmon (pm_free (rc_tcp r0)) (xobs0 r0) steps in
  if negb (m =? 0) then m else xsteps_go 1 r0 [] steps.

Definition xsteps_branches (cfg : xcfg) (steps : list xstep) : list Z := xsteps_br (rc_new cfg) [] steps.

(* ---------- driver `portsys`: in-process frps with scripted clients ---------- *)
(* SLate k: the udp proxy created by the k-th successful registration (from 0) closes itself again *)
Inductive ycop :=
| SLogin (c : Z) | SNew (c : Z) (q : xreq) | SClose (c : Z) (name : pname) | SEnd (c : Z) | SLate (k : Z)
| SSquat (proto port : Z) | SUnsquat (proto port : Z).
Definition ystep := (ycop * xobs)%type.

(* NewProxyResp: >= 0 the port in RemoteAddr (0 for kinds without a port); -10 over quota; -11 name exists;
   otherwise the codes of xres_code *)
Definition yres_code (r : yres) : Z :=
  match r with
  | YOk _ real => real
  | YErrQuota => -10
  | YErrExists => -11
  | YErrRun e => xres_code (XErr e)
  end.

Definition yc_run (maxp : Z) (s : srv) (ids : list Z) (o : ycop) : option (srv * list Z * Z) :=
  let plain (op : yop) := match y_step maxp s op with Some (s', _) => Some (s', ids, -100) | None => None end in
  match o with
  | SLogin c => plain (YLogin c)
  | SNew c q =>
      match y_step maxp s (YNewProxy c q) with
      | Some (s', YoReg r) => Some (s', match r with YOk id _ => ids ++ [id] | _ => ids end, yres_code r)
      | _ => None
      end
  | SClose c n => plain (YCloseProxy c n)
  | SEnd c => plain (YSessionEnd c)
  | SLate k => match znth k ids with Some id => plain (YLateClose id) | None => None end
  | SSquat proto port => plain (YSquat proto port)
  | SUnsquat proto port => plain (YUnsquat proto port)
  end.

Fixpoint ysteps_go (maxp : Z) (s : srv) (ids : list Z) (l : list ystep) : Z :=
  match l with
  | [] => 0
  | (o, ob) :: t =>
      match yc_run maxp s ids o with
      | None => 2
      | Some (s', ids', res) =>
          if negb (res =? xo_res ob) then 3
          else let c := xobs_code ob (s_rc s') in
               if negb (c =? 0) then c else ysteps_go maxp s' ids' t
      end
  end.

(* 51 refused over quota, 52 refused name exists, 53 registered, 54 refused by Run, 55 close of an own
   proxy, 56 close of an unknown name, 57 session end, 58 late close *)
Definition ybranch (maxp : Z) (s : srv) (ids : list Z) (o : ycop) : Z :=
  match o with
  | SNew c q => match y_register maxp s c q with
                | Some (_, YOk _ _) => 53 | Some (_, YErrQuota) => 51 | Some (_, YErrExists) => 52
                | Some (_, YErrRun _) => 54 | None => 0
                end
  | SClose c n => match aget c (s_ctls s) with
                  | Some ct => match sget n (c_proxies ct) with Some _ => 55 | None => 56 end
                  | None => 0
                  end
  | SEnd _ => 57
  | SLate _ => 58
  | _ => 59
  end.

Fixpoint ysteps_br (maxp : Z) (s : srv) (ids : list Z) (l : list ystep) : list Z :=
  match l with
  | [] => []
  | (o, _) :: t =>
      ybranch maxp s ids o :: match yc_run maxp s ids o with Some (s', ids', _) => ysteps_br maxp s' ids' t | None => [] end
  end.

Definition ysteps_code (cfg : xcfg) (maxp : Z) (steps : list ystep) : Z :=
  let s0 := srv_new cfg in
  let xs := map (fun st : ystep => (match fst st with SNew _ q => CRun q | _ => CUnsquat 0 0 end, snd st)) steps in
  let m := xmon (pm_free (rc_tcp (s_rc s0))) (xobs0 (s_rc s0)) xs in
  if negb (m =? 0) then m else ysteps_go maxp s0 [] steps.

Definition ysteps_branches (cfg : xcfg) (maxp : Z) (steps : list ystep) : list Z := ysteps_br maxp (srv_new cfg) [] steps.

(* ---------- driver `sched`: interleavings replayed on the real frps through the gates ---------- *)
(* the schedule as the harness realised it: (t, n) with t >= 1 = thread t takes n atomic steps,
   (-1, p) = a squatter binds p, (-2, p) = the squatter lets go of p *)
Fixpoint sched_expand (l : list (Z * Z)) : list sched_el :=
  match l with
  | [] => []
  | (t, n) :: r =>
      (if t =? -1 then [SchSquat n] else if t =? -2 then [SchUnsquat n] else repeat (SchThread t) (Z.to_nat n))
      ++ sched_expand r
  end.

(* observed: NewProxyResp of every thread, the tcp manager's tables and the bind scan at the end *)
Record sobs := { so_res : list (Z * Z); so_snap : snap; so_bound : list Z }.

Definition th_finished (th : sthread) : bool :=
  match st_pc th with PEnd => true | PLive _ => negb (st_close th) | _ => false end.

Definition sched_code (ranges : list prange) (ths : list (Z * sthread)) (sched : list (Z * Z)) (ob : sobs) : Z :=
  (* the property on the observed end state itself: what the books call used is what is bound *)
  if negb (zset_eq (snap_used_ports (so_snap ob)) (so_bound ob)) then 41 else
  match ss_run (sched_expand sched) (ss_init ranges ths) with
  | None => 2
  | Some s =>
      if negb (forallb (fun e => th_finished (snd e)) (ss_ths s)) then 7
      else if negb (forallb (fun e : Z * Z => match aget (fst e) (ss_ths s) with
                                              | Some th => st_res th =? snd e | None => false end) (so_res ob)) then 3
      else let c := snap_code (so_snap ob) (ss_pm s) in
           if negb (c =? 0) then c
           else if negb (zset_eq (so_bound ob) (ss_bound s)) then 8 else 0
  end.

(* 61 a thread registered, 62 its listen failed after a successful Acquire, 63 refused: port already used,
   64 refused: name exists (before Run, or by Add after Run), 65 other refusals *)
Definition sched_branches (ranges : list prange) (ths : list (Z * sthread)) (sched : list (Z * Z)) : list Z :=
  match ss_run (sched_expand sched) (ss_init ranges ths) with
  | None => []
  | Some s => map (fun e : Z * sthread =>
                     let r := st_res (snd e) in
                     if 0 <=? r then 61 else if r =? -5 then 62 else if r =? -1 then 63 else if r =? -11 then 64 else 65)
                  (ss_ths s)
  end.

(* ---------- driver `cfgload`: allowPorts / maxPortsPerClient as written in a configuration file ---------- *)
(* fmt 0 = legacy ini (text = the allow_ports value as written), 1 toml, 2 yaml, 3 json (structured: text unused).
   intended = what the operator wrote, as ranges; nfree / init_free = the tcp manager's free table of the frps
   started from the loaded file (list capped at 300 entries); loaded_max = MaxPortsPerClient after loading *)
Definition cfg_code (fmt : Z) (text : string) (intended : list prange) (maxp loaded_max nfree : Z)
                    (init_free : list Z) (steps : list ystep) : Z :=
  let want := pm_free (pm_new intended) in
  (* the property: the enforced set is the configured set, the enforced quota the configured quota *)
  if negb ((nfree =? Z.of_nat (length want)) && zset_eq init_free want) then 71
  else if negb (loaded_max =? maxp) then 73
  else
    (* the loader's model (ini only): today's parser applied to the text as written *)
    let model_ok :=
      if fmt =? 0 then
        match legacy_allow_ports today_trim text with
        | [] => nfree =? 65535
        | rs => zset_eq init_free (pm_free (pm_new rs))
        end
      else true in
    if negb model_ok then 72 else ysteps_code intended maxp steps.

Inductive case :=
| CPorts (ranges : list prange) (init : snap) (steps : list mstep)
| CPxy (cfg : xcfg) (steps : list xstep)
| CSys (cfg : xcfg) (maxp : Z) (steps : list ystep)
| CSched (ranges : list prange) (ths : list (Z * sthread)) (sched : list (Z * Z)) (ob : sobs)
| CCfg (fmt : Z) (text : string) (intended : list prange) (maxp loaded_max nfree : Z) (init_free : list Z) (steps : list ystep).

Definition check_case (c : case) : Z :=
  match c with
  | CPorts ranges init steps =>
      let s0 := pm_new ranges in
      let c0 := snap_code init s0 in
      (* only bindable ports may ever be free (regression of F-C09e) *)
      if negb (forallb (fun p => (1 <=? p) && (p <=? 65535)) (snap_free init)) then 33
      else if negb (c0 =? 0) then c0
      else let m := mon_steps (pm_free s0) init steps in
           if negb (m =? 0) then m else msteps_code 1 s0 steps
  | CPxy cfg steps => xsteps_code cfg steps
  | CSys cfg maxp steps => ysteps_code cfg maxp steps
  | CSched ranges ths sched ob => sched_code ranges ths sched ob
  | CCfg fmt text intended maxp lm nfree init steps => cfg_code fmt text intended maxp lm nfree init steps
  end.

Definition case_branches (c : case) : list Z :=
  match c with
  | CPorts ranges _ steps => msteps_branches (pm_new ranges) steps
  | CPxy cfg steps => xsteps_branches cfg steps
  | CSys cfg maxp steps => ysteps_branches cfg maxp steps
  | CSched ranges ths sched _ => sched_branches ranges ths sched
  | CCfg fmt _ intended maxp _ _ _ steps => (80 + fmt) :: ysteps_branches intended maxp steps
  end.

Definition count_branch (k : Z) (cs : list case) : Z :=
  fold_right (fun c acc => count_if (fun b => b =? k) (case_branches c) + acc) 0 cs.
