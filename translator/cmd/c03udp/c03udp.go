// Translator unit c03udp (C03): syntactic facts about the udp tunnel loops that the models
// Model/UdpReplyLoop.v and Model/UdpAlphabet.v rely on, read from the source on every run:
//   - pkg/proto/udp/udp.go ForwardUserConn, the reply goroutine `for udpMsg := range readCh { ... }`:
//     the loop exists, its body calls WriteToUDP, and the kinds of statements in the body that leave the
//     loop (return / break / goto / panic / os.Exit / runtime.Goexit; `continue` does not) — expected none:
//     a failed reply to one user must not end the only consumer of readCh; and every function called in the
//     body — expected GetContent (allocating, any length) and udpConn.WriteToUDP
//   - server/proxy/udp.go: the second argument of every msg.WriteMsg call (what frps writes on a udp work
//     connection) and the element type of UDPProxy.sendCh — expected ["udpMsg"], "*msg.UDPPacket"
//   - client/visitor/sudp.go worker: the same (what the visitor writes on its connection)
//   - client/proxy/udp.go, client/proxy/sudp.go: how the work-connection reader decodes: "ReadMsgInto"
//     (type-blind: any message becomes a UDPPacket) or "ReadMsg" (typed)
//   - server/proxy/udp.go Run: which named function literals send on pxy.checkCloseCh — expected ["workConnReaderFn"]
//   - pkg/config/legacy/conversion.go: every assignment to a field UDPPacketSize — expected the plain copies
// Anything not recognised sets gen_c03_unknown, which the reflective obligations in Properties/C03.v trip over.
package main

import (
	"bytes"
	"fmt"
	"go/ast"
	"go/parser"
	"go/printer"
	"go/token"
	"path/filepath"
	"sort"
	"strings"

	"veriftranslator/tx"
)

func exitKinds(body []ast.Stmt) []string {
	var out []string
	for _, st := range body {
		ast.Inspect(st, func(n ast.Node) bool {
			switch v := n.(type) {
			case *ast.FuncLit:
				return false
			case *ast.ReturnStmt:
				out = append(out, "return")
			case *ast.BranchStmt:
				if v.Tok == token.BREAK {
					out = append(out, "break")
				}
				if v.Tok == token.GOTO {
					out = append(out, "goto")
				}
			case *ast.CallExpr:
				if id, ok := v.Fun.(*ast.Ident); ok && id.Name == "panic" {
					out = append(out, "panic")
				}
				if s, ok := v.Fun.(*ast.SelectorExpr); ok {
					if x, ok := s.X.(*ast.Ident); ok && (x.Name == "os" && s.Sel.Name == "Exit" || x.Name == "runtime" && s.Sel.Name == "Goexit") {
						out = append(out, x.Name+"."+s.Sel.Name)
					}
				}
			}
			return true
		})
	}
	return out
}

func calls(n ast.Node, pkg, fn string) []*ast.CallExpr {
	var out []*ast.CallExpr
	ast.Inspect(n, func(m ast.Node) bool {
		if c, ok := m.(*ast.CallExpr); ok {
			if s, ok := c.Fun.(*ast.SelectorExpr); ok && s.Sel.Name == fn {
				if pkg == "" {
					out = append(out, c)
				} else if x, ok := s.X.(*ast.Ident); ok && x.Name == pkg {
					out = append(out, c)
				}
			}
		}
		return true
	})
	return out
}

func show(fset *token.FileSet, e ast.Expr) string {
	var b bytes.Buffer
	_ = printer.Fprint(&b, fset, e)
	return b.String()
}

func coqList(xs []string) string {
	q := make([]string, len(xs))
	for i, x := range xs {
		q[i] = tx.CoqString(x)
	}
	return "[" + strings.Join(q, "; ") + "]"
}

func funcDecl(f *ast.File, name string) *ast.FuncDecl {
	for _, d := range f.Decls {
		if fd, ok := d.(*ast.FuncDecl); ok && fd.Name.Name == name && fd.Body != nil {
			return fd
		}
	}
	return nil
}

func run() ([]byte, error) {
	fset := token.NewFileSet()
	parse := func(rel string) (*ast.File, error) {
		return parser.ParseFile(fset, filepath.Join(tx.Repo, rel), nil, 0)
	}
	unknown := false

	// ---- the reply goroutine of ForwardUserConn
	f, err := parse("pkg/proto/udp/udp.go")
	if err != nil {
		return nil, err
	}
	loopFound, writes := false, 0
	var exits, loopCalls []string
	if fd := funcDecl(f, "ForwardUserConn"); fd != nil {
		ast.Inspect(fd.Body, func(n ast.Node) bool {
			r, ok := n.(*ast.RangeStmt)
			if !ok {
				return true
			}
			if id, ok := r.X.(*ast.Ident); ok && id.Name == "readCh" {
				if loopFound {
					unknown = true // two such loops: not the shape the model was written for
				}
				loopFound = true
				writes = len(calls(r.Body, "", "WriteToUDP"))
				exits = exitKinds(r.Body.List)
				seen := map[string]bool{}
				ast.Inspect(r.Body, func(m ast.Node) bool {
					if c, ok := m.(*ast.CallExpr); ok {
						name := show(fset, c.Fun)
						if !seen[name] {
							seen[name] = true
							loopCalls = append(loopCalls, name)
						}
					}
					return true
				})
				sort.Strings(loopCalls)
			}
			return true
		})
	}
	if !loopFound || writes != 1 {
		unknown = true
	}

	// ---- what is written on the work connection
	writeArgs := func(n ast.Node) []string {
		var out []string
		for _, c := range calls(n, "msg", "WriteMsg") {
			if len(c.Args) == 2 {
				out = append(out, show(fset, c.Args[1]))
			} else {
				out = append(out, "?")
			}
		}
		return out
	}
	g, err := parse("server/proxy/udp.go")
	if err != nil {
		return nil, err
	}
	srvWrites := writeArgs(g)
	sendChType := "?"
	ast.Inspect(g, func(n ast.Node) bool {
		ts, ok := n.(*ast.TypeSpec)
		if !ok || ts.Name.Name != "UDPProxy" {
			return true
		}
		if st, ok := ts.Type.(*ast.StructType); ok {
			for _, fl := range st.Fields.List {
				for _, nm := range fl.Names {
					if nm.Name == "sendCh" {
						if ch, ok := fl.Type.(*ast.ChanType); ok {
							sendChType = show(fset, ch.Value)
						}
					}
				}
			}
		}
		return false
	})
	v, err := parse("client/visitor/sudp.go")
	if err != nil {
		return nil, err
	}
	var visWrites []string
	if fd := funcDecl(v, "worker"); fd != nil {
		visWrites = writeArgs(fd.Body)
	} else {
		unknown = true
	}

	// ---- who may notify checkCloseCh (one failure of a work connection must produce one notification): the
	// named function literals of UDPProxy.Run that contain a send on pxy.checkCloseCh
	var notifiers []string
	if fd := funcDecl(g, "Run"); fd != nil {
		ast.Inspect(fd.Body, func(n ast.Node) bool {
			as, ok := n.(*ast.AssignStmt)
			if !ok || len(as.Lhs) != 1 || len(as.Rhs) != 1 {
				return true
			}
			id, ok1 := as.Lhs[0].(*ast.Ident)
			fl, ok2 := as.Rhs[0].(*ast.FuncLit)
			if !ok1 || !ok2 {
				return true
			}
			ast.Inspect(fl.Body, func(m ast.Node) bool {
				if s, ok := m.(*ast.SendStmt); ok {
					if sel, ok := s.Chan.(*ast.SelectorExpr); ok && sel.Sel.Name == "checkCloseCh" {
						notifiers = append(notifiers, id.Name)
					}
				}
				return true
			})
			return false
		})
		// sends outside the named literals (anonymous goroutines, Run itself)
		total := 0
		ast.Inspect(fd.Body, func(m ast.Node) bool {
			if s, ok := m.(*ast.SendStmt); ok {
				if sel, ok := s.Chan.(*ast.SelectorExpr); ok && sel.Sel.Name == "checkCloseCh" {
					total++
				}
			}
			return true
		})
		for i := len(notifiers); i < total; i++ {
			notifiers = append(notifiers, "?")
		}
	} else {
		unknown = true
	}

	// ---- the configured packet size reaches the v1 configuration unchanged from a legacy ini file
	var sizeConv []string
	if lc, err := parse("pkg/config/legacy/conversion.go"); err != nil {
		return nil, err
	} else {
		ast.Inspect(lc, func(n ast.Node) bool {
			as, ok := n.(*ast.AssignStmt)
			if !ok || len(as.Lhs) != 1 || len(as.Rhs) != 1 {
				return true
			}
			if sel, ok := as.Lhs[0].(*ast.SelectorExpr); ok && sel.Sel.Name == "UDPPacketSize" {
				sizeConv = append(sizeConv, show(fset, as.Lhs[0])+" = "+show(fset, as.Rhs[0]))
			}
			return true
		})
	}

	// ---- how the client readers decode
	reader := func(rel string) (string, error) {
		h, err := parse(rel)
		if err != nil {
			return "", err
		}
		fd := funcDecl(h, "InWorkConn")
		if fd == nil {
			return "?", nil
		}
		into, typed := len(calls(fd.Body, "msg", "ReadMsgInto")), len(calls(fd.Body, "msg", "ReadMsg"))
		switch {
		case into == 1 && typed == 0:
			return "ReadMsgInto", nil
		case into == 0 && typed == 1:
			return "ReadMsg", nil
		}
		return "?", nil
	}
	cliUDP, err := reader("client/proxy/udp.go")
	if err != nil {
		return nil, err
	}
	cliSUDP, err := reader("client/proxy/sudp.go")
	if err != nil {
		return nil, err
	}
	if cliUDP == "?" || cliSUDP == "?" || sendChType == "?" {
		unknown = true
	}

	var b bytes.Buffer
	b.WriteString("(* generated by translator unit c03udp from pkg/proto/udp/udp.go, server/proxy/udp.go, client/visitor/sudp.go,\n   client/proxy/udp.go, client/proxy/sudp.go; do not edit *)\n")
	b.WriteString("From Coq Require Import List String.\nImport ListNotations.\nLocal Open Scope string_scope.\n")
	fmt.Fprintf(&b, "Definition C03Udp_translated : bool := true.\n")
	fmt.Fprintf(&b, "Definition gen_c03_unknown : bool := %v.\n", unknown)
	fmt.Fprintf(&b, "Definition gen_c03_reply_loop_found : bool := %v.\n", loopFound)
	fmt.Fprintf(&b, "Definition gen_c03_reply_loop_exits : list string := %s.\n", coqList(exits))
	fmt.Fprintf(&b, "Definition gen_c03_reply_loop_calls : list string := %s.\n", coqList(loopCalls))
	fmt.Fprintf(&b, "Definition gen_c03_srv_udp_writes : list string := %s.\n", coqList(srvWrites))
	fmt.Fprintf(&b, "Definition gen_c03_srv_sendch_elem : string := %s.\n", tx.CoqString(sendChType))
	fmt.Fprintf(&b, "Definition gen_c03_visitor_writes : list string := %s.\n", coqList(visWrites))
	fmt.Fprintf(&b, "Definition gen_c03_checkclose_notifiers : list string := %s.\n", coqList(notifiers))
	fmt.Fprintf(&b, "Definition gen_c03_legacy_packet_size : list string := %s.\n", coqList(sizeConv))
	fmt.Fprintf(&b, "Definition gen_c03_cli_udp_reader : string := %s.\n", tx.CoqString(cliUDP))
	fmt.Fprintf(&b, "Definition gen_c03_cli_sudp_reader : string := %s.\n", tx.CoqString(cliSUDP))
	return b.Bytes(), nil
}

func main() {
	tx.Main(tx.Unit{Name: "C03Udp", File: "GenC03Udp.v", Fn: run})
}
