(* C08: secret proxies (stcp / sudp / xtcp) admit only visitors holding the key and an allowed user.

   Mirrors, function by function (see design/C08.md for the line-by-line map):
     server/visitor/visitor.go   Manager.Listen / NewConn / CloseListener         -> vm_listen / vm_new_conn / vm_close_listener
     pkg/util/net/listener.go    InternalListener.PutConn / Close / Accept        -> vq_put (inside vm_new_conn) / vm_listener_close / vm_accept
     pkg/nathole/controller.go   ListenClient / HandleVisitor / CloseClient       -> vnh_listen_client / vnh_handle_visitor / vnh_close_client
                                 (deferred delete(c.sessions, sid))               -> vnh_session_end
     server/proxy/{stcp,sudp,xtcp}.go Run / Close (default allowUsers)            -> vdefault_allow, sys_register / sys_close_proxy
     server/service.go           RegisterVisitorConn (run id -> user)             -> sys_resolve_user
     server/control.go           RegisterProxy / CloseProxy / handleNatHoleVisitor-> sys_step
     client/visitor/{stcp,sudp,xtcp}.go + visitor.go NewConn wrapper stacks       -> vstack, stack_wr / stack_rd

   External behaviour as Section variables: [hash] = util.GetAuthKey (hex md5 of key ++ decimal timestamp),
   stream cipher and compressor as lawful layer codecs (section StackModel).  No proofs in this file. *)
From FRP Require Export Model.Bytes.
Open Scope Z_scope.

(* ---------- association lists keyed by byte strings (Go maps with string keys) ---------- *)
Fixpoint vget {A} (k : bytes) (m : list (bytes * A)) : option A :=
  match m with
  | [] => None
  | (k', v) :: r => if bytes_eqb k k' then Some v else vget k r
  end.

Fixpoint vdel {A} (k : bytes) (m : list (bytes * A)) : list (bytes * A) :=
  match m with
  | [] => []
  | (k', v) :: r => if bytes_eqb k k' then vdel k r else (k', v) :: vdel k r
  end.

Definition vset {A} (k : bytes) (v : A) (m : list (bytes * A)) : list (bytes * A) := (k, v) :: vdel k m.

(* slices.Contains *)
Definition vmem (x : bytes) (l : list bytes) : bool := existsb (bytes_eqb x) l.

Definition vstar : bytes := [x2a].   (* "*" *)

(* !slices.Contains(allowUsers, visitorUser) && !slices.Contains(allowUsers, "*")  is the refusal test *)
Definition vallowed (allow : list bytes) (user : bytes) : bool := vmem user allow || vmem vstar allow.

(* stcp.go / sudp.go / xtcp.go Run: if len(allowUsers) == 0 { allowUsers = []string{owner's user} } *)
Definition vdefault_allow (cfg : list bytes) (owner_user : bytes) : list bytes :=
  match cfg with [] => [owner_user] | _ => cfg end.

(* ---------- wrapper stacks ---------- *)
(* a stack is listed in wrapping order: [LEnc k; LComp] = WithEncryption first, WithCompression on top *)
Inductive vlayer := LEnc (key : bytes) | LComp.

Definition vlayer_eqb (a b : vlayer) : bool :=
  match a, b with
  | LEnc k, LEnc k' => bytes_eqb k k'
  | LComp, LComp => true
  | _, _ => false
  end.

Fixpoint vstack_eqb (a b : list vlayer) : bool :=
  match a, b with
  | [], [] => true
  | x :: a', y :: b' => vlayer_eqb x y && vstack_eqb a' b'
  | _, _ => false
  end.

(* if useEncryption { WithEncryption(rwc, key) }; if useCompression { WithCompression(rwc) } *)
Definition vstack (use_enc use_comp : bool) (key : bytes) : list vlayer :=
  (if use_enc then [LEnc key] else []) ++ (if use_comp then [LComp] else []).

(* ---------- visitor manager (server/visitor/visitor.go) ---------- *)
Record vconn := { vc_id : Z; vc_stack : list vlayer }.

(* listenerBundle{l, sk, allowUsers}; the InternalListener l is its buffered accept channel and closed flag *)
Record vbundle := { vb_sk : bytes; vb_allow : list bytes; vb_queue : list vconn; vb_closed : bool }.

Definition vtable := list (bytes * vbundle).

Definition vq_cap : nat := 128.   (* make(chan net.Conn, 128) *)

Inductive vm_lout := VLOk | VLErrRepeated.

Inductive vm_out :=
| VOk            (* PutConn queued the wrapped connection: the owner's accept loop will get it *)
| VOkDropped     (* PutConn: channel full -> conn.Close(), nil error *)
| VErrNoListener (* "custom listener for [%s] doesn't exist" *)
| VErrAuth       (* "visitor connection of [%s] auth failed" *)
| VErrUser       (* "visitor connection of [%s] user [%s] not allowed" *)
| VErrEnc        (* "create encryption connection failed" *)
| VErrClosed.    (* "put conn error: listener is closed" *)

Definition vm_out_is_err (o : vm_out) : bool :=
  match o with VOk | VOkDropped => false | _ => true end.

Section VisitorModel.
  (* util.GetAuthKey(sk, timestamp) *)
  Variable hash : bytes -> Z -> bytes.

  Definition vm_listen (t : vtable) (name sk : bytes) (allow : list bytes) : vtable * vm_lout :=
    match vget name t with
    | Some _ => (t, VLErrRepeated)
    | None => ((name, {| vb_sk := sk; vb_allow := allow; vb_queue := []; vb_closed := false |}) :: t, VLOk)
    end.

  (* NewConn: lookup -> signature -> allowed users -> wrapper stack -> PutConn.
     [enc_ok] is the oracle for WithEncryption's error result. *)
  Definition vm_new_conn (t : vtable) (name : bytes) (cid ts : Z) (sign : bytes)
             (use_enc use_comp : bool) (user : bytes) (enc_ok : bool) : vtable * vm_out :=
    match vget name t with
    | Some b =>
        if negb (bytes_eqb (hash (vb_sk b) ts) sign) then (t, VErrAuth)
        else if negb (vmem user (vb_allow b)) && negb (vmem vstar (vb_allow b)) then (t, VErrUser)
        else if use_enc && negb enc_ok then (t, VErrEnc)
        else
          let c := {| vc_id := cid; vc_stack := vstack use_enc use_comp (vb_sk b) |} in
          if vb_closed b then (t, VErrClosed)
          else if Nat.ltb (length (vb_queue b)) vq_cap
               then (vset name {| vb_sk := vb_sk b; vb_allow := vb_allow b;
                                  vb_queue := vb_queue b ++ [c]; vb_closed := false |} t, VOk)
               else (t, VOkDropped)
    | None => (t, VErrNoListener)
    end.

  Definition vm_close_listener (t : vtable) (name : bytes) : vtable := vdel name t.

  (* InternalListener.Close (BaseProxy.Close closes its listeners before CloseListener removes the entry) *)
  Definition vm_listener_close (t : vtable) (name : bytes) : vtable :=
    match vget name t with
    | Some b => vset name {| vb_sk := vb_sk b; vb_allow := vb_allow b; vb_queue := vb_queue b; vb_closed := true |} t
    | None => t
    end.

  (* the owner's accept loop takes the head of the queue (None = nothing queued) *)
  Definition vm_accept (t : vtable) (name : bytes) : vtable * option vconn :=
    match vget name t with
    | Some b =>
        match vb_queue b with
        | c :: q => (vset name {| vb_sk := vb_sk b; vb_allow := vb_allow b; vb_queue := q; vb_closed := vb_closed b |} t, Some c)
        | [] => (t, None)
        end
    | None => (t, None)
    end.

  (* ---------- NAT-hole controller admission (pkg/nathole/controller.go) ---------- *)
  Record vnh_cfg := { nc_sk : bytes; nc_allow : list bytes }.
  (* clientCfgs: proxy name -> cfg ; sessions: sid -> proxy name of the visitor message *)
  Record vnh_state := { nh_cfgs : list (bytes * vnh_cfg); nh_sessions : list (bytes * bytes) }.

  Definition vnh_empty : vnh_state := {| nh_cfgs := []; nh_sessions := [] |}.

  Inductive vnh_out :=
  | NhPreOk                       (* pre-check passed: NatHoleResp with empty error, nothing else happens *)
  | NhErrNoServer                 (* "xtcp server for [%s] doesn't exist" *)
  | NhErrUser                     (* "xtcp visitor user [%s] not allowed for [%s]" *)
  | NhErrAuth                     (* "xtcp connection of [%s] auth failed" *)
  | NhNotified (name sid : bytes) (* session inserted, sid sent on the owner sidCh *)
  | NhUndelivered.                (* all checks passed, but nobody received on sidCh within NatHoleTimeout:
                                     the session inserted for the wait is deleted again, nothing is sent *)

  Definition vnh_out_is_err (o : vnh_out) : bool :=
    match o with NhErrNoServer | NhErrUser | NhErrAuth => true | _ => false end.

  Definition vnh_listen_client (s : vnh_state) (name sk : bytes) (allow : list bytes) : vnh_state * vm_lout :=
    match vget name (nh_cfgs s) with
    | Some _ => (s, VLErrRepeated)
    | None => ({| nh_cfgs := (name, {| nc_sk := sk; nc_allow := allow |}) :: nh_cfgs s;
                  nh_sessions := nh_sessions s |}, VLOk)
    end.

  Definition vnh_close_client (s : vnh_state) (name : bytes) : vnh_state :=
    {| nh_cfgs := vdel name (nh_cfgs s); nh_sessions := nh_sessions s |}.

  (* HandleVisitor up to and including the hand-over of the sid on sidCh.  [sid] is GenSid()'s value (oracle);
     [delivered] is the outcome of "select { case sidCh <- sid: ... case <-time.After(NatHoleTimeout) }"
     (whether the owner's goroutine was still receiving: environment, oracle). *)
  Definition vnh_handle_visitor (s : vnh_state) (name : bytes) (ts : Z) (sign : bytes) (pre : bool)
             (user sid : bytes) (delivered : bool) : vnh_state * vnh_out :=
    if pre then
      match vget name (nh_cfgs s) with
      | None => (s, NhErrNoServer)
      | Some cfg =>
          if negb (vmem user (nc_allow cfg)) && negb (vmem vstar (nc_allow cfg)) then (s, NhErrUser)
          else (s, NhPreOk)
      end
    else
      match vget name (nh_cfgs s) with
      | None => (s, NhErrNoServer)
      | Some cfg =>
          if negb (bytes_eqb sign (hash (nc_sk cfg) ts)) then (s, NhErrAuth)
          else if negb (vmem user (nc_allow cfg)) && negb (vmem vstar (nc_allow cfg)) then (s, NhErrUser)
          else if delivered
               then ({| nh_cfgs := nh_cfgs s; nh_sessions := vset sid name (nh_sessions s) |}, NhNotified name sid)
               else (s, NhUndelivered)
      end.

  (* defer delete(c.sessions, sid) when HandleVisitor returns *)
  Definition vnh_session_end (s : vnh_state) (sid : bytes) : vnh_state :=
    {| nh_cfgs := nh_cfgs s; nh_sessions := vdel sid (nh_sessions s) |}.

  (* ---------- the server as the visitor sees it ---------- *)
  Inductive pkind := KStcp | KSudp | KXtcp.
  Definition pkind_eqb (a b : pkind) : bool :=
    match a, b with KStcp, KStcp | KSudp, KSudp | KXtcp, KXtcp => true | _, _ => false end.
  Definition is_hole (k : pkind) : bool := match k with KXtcp => true | _ => false end.

  Record sys := {
    s_users : list (bytes * bytes);           (* ctlManager: run id -> login user *)
    s_pxys  : list (bytes * (bytes * pkind)); (* pxyManager + ctl.proxies: proxy name -> (owner run id, type) *)
    s_vm    : vtable;                         (* rc.VisitorManager *)
    s_nh    : vnh_state                       (* rc.NatHoleController *)
  }.

  Definition sys_init : sys := {| s_users := []; s_pxys := []; s_vm := []; s_nh := vnh_empty |}.

  (* pkg/plugin/server/manager.go Manager.Login: for each Login plugin in order: Reject -> error;
     Unchange -> the content goes on as it is; otherwise the returned content REPLACES it. The session is built from
     what comes out (Service.handleConnection: m = &retContent.Login), so "the visitor's authenticated user" is the
     user after the plugins have run. *)
  Inductive plugin_ans := PReject | PUnchanged | PRewrite (user : bytes).

  Fixpoint plugin_login (user : bytes) (answers : list plugin_ans) : option bytes :=
    match answers with
    | [] => Some user
    | PReject :: _ => None
    | PUnchanged :: r => plugin_login user r
    | PRewrite u :: r => plugin_login u r
    end.

  Inductive sop :=
  | SLogin (rid user : bytes)
  | SLogout (rid : bytes)
  | SRegister (rid : bytes) (k : pkind) (name sk : bytes) (allow : list bytes)
    (* RegisterProxy whose Exist check was answered "free" before a concurrent registration of the same name
       completed (no lock spans Exist .. Run .. Add): only Run and Add happen now *)
  | SRegisterLate (rid : bytes) (k : pkind) (name sk : bytes) (allow : list bytes)
  | SClose (rid name : bytes)
  | SVisitorConn (rid name : bytes) (ts : Z) (sign : bytes) (use_enc use_comp : bool) (cid : Z) (enc_ok : bool)
  | SNatHole (rid name : bytes) (ts : Z) (sign : bytes) (pre : bool) (sid : bytes) (delivered : bool)
  | SSessionEnd (sid : bytes)
  | SAccept (name : bytes)
    (* a login that passes through the server's Login plugins first: the client claims [claimed]; each plugin in turn
       rejects, leaves the content unchanged, or returns a content whose user replaces the current one *)
  | SLoginVia (rid claimed : bytes) (answers : list plugin_ans).

  Inductive sout :=
  | ONone
  | OReg (o : vm_lout)
  | ORegErrExists            (* "proxy [%s] already exists" *)
  | ORegErrInUse             (* pxyManager.Add: "proxy name [%s] is already in use"; the deferred pxy.Close() ran *)
  | ONoSession               (* message from a run id that has no session: cannot reach a handler *)
  | OLoginRefused            (* a Login plugin rejected the login: no session *)
  | OVis (o : vm_out)
  | OVisErrNoControl         (* "no client control found for run id [%s]" *)
  | ONh (o : vnh_out)
  | OAccepted (c : vconn)    (* the owner's handler took the connection: work connection requested, backend dialled *)
  | OAcceptNone.

  (* RegisterVisitorConn: "" when the run id is empty, error when it is unknown *)
  Definition sys_resolve_user (s : sys) (rid : bytes) : option bytes :=
    match rid with
    | [] => Some []
    | _ => vget rid (s_users s)
    end.

  Definition sys_close_one (s : sys) (name : bytes) (k : pkind) : sys :=
    if is_hole k then
      {| s_users := s_users s; s_pxys := vdel name (s_pxys s); s_vm := s_vm s;
         s_nh := vnh_close_client (s_nh s) name |}
    else
      (* BaseProxy.Close closes the internal listener, then VisitorManager.CloseListener removes it *)
      {| s_users := s_users s; s_pxys := vdel name (s_pxys s);
         s_vm := vm_close_listener (vm_listener_close (s_vm s) name) name; s_nh := s_nh s |}.

  (* session teardown closes every proxy the session owns *)
  Fixpoint sys_close_owned (s : sys) (rid : bytes) (l : list (bytes * (bytes * pkind))) : sys :=
    match l with
    | [] => s
    | (name, (o, k)) :: r =>
        if bytes_eqb o rid then sys_close_owned (sys_close_one s name k) rid r
        else sys_close_owned s rid r
    end.

  Definition sys_logout (s : sys) (rid : bytes) : sys :=
    let s1 := sys_close_owned s rid (s_pxys s) in
    {| s_users := vdel rid (s_users s1); s_pxys := s_pxys s1; s_vm := s_vm s1; s_nh := s_nh s1 |}.

  (* RegisterProxy after its Exist check: pxy.Run() (Listen / ListenClient), then pxyManager.Add, which checks the
     name again; when Add fails the deferred pxy.Close() removes by name what Run has just set up *)
  Definition sys_run_add (s : sys) (rid : bytes) (k : pkind) (name sk : bytes) (eff : list bytes) : sys * sout :=
    if is_hole k then
      let '(nh', o) := vnh_listen_client (s_nh s) name sk eff in
      match o with
      | VLErrRepeated => (s, OReg VLErrRepeated)
      | VLOk =>
          match vget name (s_pxys s) with
          | None => ({| s_users := s_users s; s_pxys := (name, (rid, k)) :: s_pxys s;
                        s_vm := s_vm s; s_nh := nh' |}, OReg VLOk)
          | Some _ => ({| s_users := s_users s; s_pxys := s_pxys s; s_vm := s_vm s;
                          s_nh := vnh_close_client nh' name |}, ORegErrInUse)
          end
      end
    else
      let '(vm', o) := vm_listen (s_vm s) name sk eff in
      match o with
      | VLErrRepeated => (s, OReg VLErrRepeated)
      | VLOk =>
          match vget name (s_pxys s) with
          | None => ({| s_users := s_users s; s_pxys := (name, (rid, k)) :: s_pxys s;
                        s_vm := vm'; s_nh := s_nh s |}, OReg VLOk)
          | Some _ => ({| s_users := s_users s; s_pxys := s_pxys s;
                          s_vm := vm_close_listener (vm_listener_close vm' name) name; s_nh := s_nh s |}, ORegErrInUse)
          end
      end.

  (* a login under a run id already in use replaces the old session, whose proxies are closed *)
  Definition sys_login (s : sys) (rid user : bytes) : sys :=
    let s1 := sys_logout s rid in
    {| s_users := (rid, user) :: s_users s1; s_pxys := s_pxys s1; s_vm := s_vm s1; s_nh := s_nh s1 |}.

  Definition sys_step (s : sys) (op : sop) : sys * sout :=
    match op with
    | SLogin rid user => (sys_login s rid user, ONone)
    | SLoginVia rid claimed answers =>
        match plugin_login claimed answers with
        | Some user => (sys_login s rid user, ONone)
        | None => (s, OLoginRefused)
        end
    | SLogout rid => (sys_logout s rid, ONone)
    | SRegister rid k name sk allow =>
        match vget rid (s_users s) with
        | None => (s, ONoSession)
        | Some owner_user =>
            match vget name (s_pxys s) with
            | Some _ => (s, ORegErrExists)
            | None => sys_run_add s rid k name sk (vdefault_allow allow owner_user)
            end
        end
    | SRegisterLate rid k name sk allow =>
        match vget rid (s_users s) with
        | None => (s, ONoSession)
        | Some owner_user => sys_run_add s rid k name sk (vdefault_allow allow owner_user)
        end
    | SClose rid name =>
        (* CloseProxy looks the name up in the session's own proxies only *)
        match vget name (s_pxys s) with
        | Some (o, k) => if bytes_eqb o rid then (sys_close_one s name k, ONone) else (s, ONone)
        | None => (s, ONone)
        end
    | SVisitorConn rid name ts sign ue uc cid enc_ok =>
        match sys_resolve_user s rid with
        | None => (s, OVisErrNoControl)
        | Some user =>
            let '(vm', o) := vm_new_conn (s_vm s) name cid ts sign ue uc user enc_ok in
            ({| s_users := s_users s; s_pxys := s_pxys s; s_vm := vm'; s_nh := s_nh s |}, OVis o)
        end
    | SNatHole rid name ts sign pre sid dl =>
        (* handleNatHoleVisitor: the user is the login user of the session the message arrived on *)
        match vget rid (s_users s) with
        | None => (s, ONoSession)
        | Some user =>
            let '(nh', o) := vnh_handle_visitor (s_nh s) name ts sign pre user sid dl in
            ({| s_users := s_users s; s_pxys := s_pxys s; s_vm := s_vm s; s_nh := nh' |}, ONh o)
        end
    | SSessionEnd sid =>
        ({| s_users := s_users s; s_pxys := s_pxys s; s_vm := s_vm s; s_nh := vnh_session_end (s_nh s) sid |}, ONone)
    | SAccept name =>
        let '(vm', oc) := vm_accept (s_vm s) name in
        ({| s_users := s_users s; s_pxys := s_pxys s; s_vm := vm'; s_nh := s_nh s |},
         match oc with Some c => OAccepted c | None => OAcceptNone end)
    end.

  (* histories: state and outputs (outputs in history order) *)
  Fixpoint sys_run_from (s : sys) (h : list sop) : sys * list sout :=
    match h with
    | [] => (s, [])
    | op :: r =>
        let '(s1, o) := sys_step s op in
        let '(s2, os) := sys_run_from s1 r in
        (s2, o :: os)
    end.

  Definition sys_state (h : list sop) : sys := fold_left (fun s op => fst (sys_step s op)) h sys_init.
  Definition sys_run (h : list sop) : sys * list sout := sys_run_from sys_init h.

  (* what the owner of a proxy and its backend can see of a step *)
  Inductive vevent :=
  | EvQueued (name : bytes) (cid : Z)        (* visitor connection handed to the owner's accept queue *)
  | EvSid (name sid : bytes)                 (* sid delivered on the owner's sidCh *)
  | EvBackend (name : bytes) (cid : Z).      (* owner side dials its backend for this connection *)

  Definition sys_events (op : sop) (o : sout) : list vevent :=
    match op, o with
    | SVisitorConn _ name _ _ _ _ cid _, OVis VOk => [EvQueued name cid]
    | SNatHole _ _ _ _ _ _ _, ONh (NhNotified name sid) => [EvSid name sid]
    | SAccept name, OAccepted c => [EvBackend name (vc_id c)]
    | _, _ => []
    end.

  (* is the answer to a visitor request an error answer? *)
  Definition sout_refused (o : sout) : bool :=
    match o with
    | OVis v => vm_out_is_err v
    | OVisErrNoControl => true
    | ONh n => vnh_out_is_err n
    | ONoSession => true
    | _ => false
    end.
End VisitorModel.

(* ---------- byte transparency of mirrored wrapper stacks ---------- *)
Section StackModel.
  (* A layer turns the chunks written into it into chunks written to the layer below ([wr]) and
     the byte stream read from below into the byte stream handed up ([rd]).  The cipher is keyed.
     Laws (hypotheses of the theorems, not of the model): rd k (concat (wr k cs)) = concat cs. *)
  Variable enc_wr : bytes -> list bytes -> list bytes.
  Variable enc_rd : bytes -> bytes -> bytes.
  Variable comp_wr : list bytes -> list bytes.
  Variable comp_rd : bytes -> bytes.

  Definition layer_wr (l : vlayer) : list bytes -> list bytes :=
    match l with LEnc k => enc_wr k | LComp => comp_wr end.
  Definition layer_rd (l : vlayer) : bytes -> bytes :=
    match l with LEnc k => enc_rd k | LComp => comp_rd end.

  (* writes enter at the outermost (last wrapped) layer *)
  Fixpoint stack_wr (st : list vlayer) (cs : list bytes) : list bytes :=
    match st with
    | [] => cs
    | l :: r => layer_wr l (stack_wr r cs)
    end.
  (* reads leave through the outermost layer *)
  Fixpoint stack_rd (st : list vlayer) (s : bytes) : bytes :=
    match st with
    | [] => s
    | l :: r => stack_rd r (layer_rd l s)
    end.

  (* visitor user -> visitor frpc stack -> wire -> frps visitor-side stack -> (re-chunked by Join) ->
     frps proxy-side stack -> wire -> owner frpc stack -> backend *)
  Definition tunnel_deliver (vis_client vis_server pxy_server pxy_client : list vlayer)
             (rechunk : bytes -> list bytes) (user_chunks : list bytes) : bytes :=
    let wire1 := List.concat (stack_wr vis_client user_chunks) in
    let mid := stack_rd vis_server wire1 in
    let wire2 := List.concat (stack_wr pxy_server (rechunk mid)) in
    stack_rd pxy_client wire2.
End StackModel.

(* ---------- the specification side: which registration is live, as a function of the history ---------- *)
(* A registration as the property text speaks of it: who owns the proxy, its kind, its secret key and
   its effective allowed-users list (the configured one, or [owner's user] when none is configured). *)
Record vreg := { vr_owner : bytes; vr_kind : pkind; vr_sk : bytes; vr_allow : list bytes }.

Record vspec := { sp_user : bytes -> option bytes;      (* run id -> login user of the session *)
                  sp_reg : bytes -> option vreg }.      (* proxy name -> live registration *)

Definition spec_init : vspec := {| sp_user := fun _ => None; sp_reg := fun _ => None |}.

Definition vupd {A} (f : bytes -> option A) (k : bytes) (v : option A) : bytes -> option A :=
  fun k' => if bytes_eqb k' k then v else f k'.

(* a session that ends takes its proxies with it *)
Definition spec_drop_owner (rid : bytes) (f : bytes -> option vreg) : bytes -> option vreg :=
  fun n => match f n with
           | Some r => if bytes_eqb (vr_owner r) rid then None else Some r
           | None => None
           end.

Definition spec_step (sp : vspec) (op : sop) : vspec :=
  match op with
  | SLogin rid user => {| sp_user := vupd (sp_user sp) rid (Some user); sp_reg := spec_drop_owner rid (sp_reg sp) |}
  | SLoginVia rid claimed answers =>
      match plugin_login claimed answers with
      | Some user => {| sp_user := vupd (sp_user sp) rid (Some user); sp_reg := spec_drop_owner rid (sp_reg sp) |}
      | None => sp
      end
  | SLogout rid => {| sp_user := vupd (sp_user sp) rid None; sp_reg := spec_drop_owner rid (sp_reg sp) |}
  | SRegister rid k name sk allow =>
      match sp_user sp rid, sp_reg sp name with
      | Some u, None =>
          {| sp_user := sp_user sp;
             sp_reg := vupd (sp_reg sp) name
                            (Some {| vr_owner := rid; vr_kind := k; vr_sk := sk; vr_allow := vdefault_allow allow u |}) |}
      | _, _ => sp
      end
  | SRegisterLate rid k name sk allow =>
      match sp_user sp rid, sp_reg sp name with
      | Some u, None =>
          {| sp_user := sp_user sp;
             sp_reg := vupd (sp_reg sp) name
                            (Some {| vr_owner := rid; vr_kind := k; vr_sk := sk; vr_allow := vdefault_allow allow u |}) |}
      | _, _ => sp
      end
  | SClose rid name =>
      match sp_reg sp name with
      | Some r => if bytes_eqb (vr_owner r) rid
                  then {| sp_user := sp_user sp; sp_reg := vupd (sp_reg sp) name None |} else sp
      | None => sp
      end
  | _ => sp
  end.

Definition spec_of (h : list sop) : vspec := fold_left spec_step h spec_init.

(* the user a visitor message speaks for *)
Definition spec_visitor_user (sp : vspec) (rid : bytes) : option bytes :=
  match rid with [] => Some [] | _ => sp_user sp rid end.

(* "signed with that proxy's secret key and the visitor's user is in the allowed-users list ('*' = anyone)" *)
Definition key_and_user (hash : bytes -> Z -> bytes) (r : vreg) (ts : Z) (sign user : bytes) : Prop :=
  sign = hash (vr_sk r) ts /\ (In user (vr_allow r) \/ In vstar (vr_allow r)).

(* the events owners and backends see over a whole history, in order *)
Definition sys_trace_step (hash : bytes -> Z -> bytes) (st : sys * list vevent) (op : sop) : sys * list vevent :=
  let '(s1, o) := sys_step hash (fst st) op in (s1, snd st ++ sys_events op o).
Definition sys_trace (hash : bytes -> Z -> bytes) (h : list sop) : list vevent :=
  snd (fold_left (sys_trace_step hash) h (sys_init, [])).
