(* C07 — from a proxy's configuration to the routes registered for it (server/proxy/http.go HTTPProxy.Run,
   server/proxy/tcpmux.go TCPMuxProxy.httpConnectRun / httpConnectListen) and the tables translator unit t7 regenerates
   about those functions (gen/GenRouteSites.v).  Model only. *)
From FRP Require Export Model.HttpAuthGroup.
Open Scope Z_scope.

(* ---- the tables ---- *)
Inductive ha_dkind := DCustom | DSubdomain | DUnknownDomain (src : string).

(* one row per RouteConfig value reaching a registration call, with the source expression each field holds there *)
Record ha_site := {
  rs_file : string;
  rs_proxy : string;          (* "http" | "tcpmux" *)
  rs_callee : string;         (* the registration call: HTTPReverseProxy.Register, HTTPGroupCtl.Register, … *)
  rs_grouped : bool;
  rs_domain : ha_dkind;       (* a customDomains element, or subdomain + "." + subDomainHost *)
  rs_user : string;           (* source of Username ("" = field not set) *)
  rs_pass : string;
  rs_byuser : string
}.
Inductive ha_site_stmt :=
| SSite (s : ha_site)
| SUnknownSite (file what : string).

(* which RouteConfig fields a group compares between its first member and a joiner before admitting it
   ("?…" = a condition the translator does not understand) *)
Definition ha_group_compared := list string.

(* ---- the model of Run ---- *)
Record ha_pxcfg := {
  px_id : Z;
  px_kind : Z;                    (* 0 http, 1 tcpmux *)
  px_domains : list bytes;        (* customDomains *)
  px_subdomain : bytes;
  px_locations : list bytes;      (* http only *)
  px_grouped : bool;              (* loadBalancer.group set (one member per group in this model; groups proper: HttpAuthGroup.v) *)
  px_by_user : bytes;
  px_user : bytes;
  px_pass : bytes
}.

Definition ha_px_hosts (sdh : bytes) (p : ha_pxcfg) : list bytes :=
  filter ha_nonempty (px_domains p) ++
  (if ha_nonempty (px_subdomain p) then [px_subdomain p ++ ha_dot :: sdh] else []).

Definition ha_px_locations (p : ha_pxcfg) : list bytes :=
  if px_kind p =? 0 then match px_locations p with [] => [[]] | l => l end else [[]].

Definition ha_px_routes (sdh : bytes) (p : ha_pxcfg) : list ha_route :=
  flat_map (fun d => map (fun loc =>
     {| rt_id := px_id p; rt_domain := d; rt_location := loc; rt_by_user := px_by_user p;
        rt_user := px_user p; rt_pass := px_pass p; rt_has_conn := true |}) (ha_px_locations p)) (ha_px_hosts sdh p).

Definition ha_sys_table (sdh : bytes) (kind : Z) (pxs : list ha_pxcfg) : list ha_route :=
  flat_map (ha_px_routes sdh) (filter (fun p => px_kind p =? kind) pxs).
