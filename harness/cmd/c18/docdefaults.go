package main

// The documented defaults and default RULES of the common sections, written out here independently of the
// code's Complete(): what a configuration must look like after the defaults are applied, in every format
// (the loaders call Complete; formats.go compares every file load with the result checked here).

import (
	"os"

	v1 "github.com/fatedier/frp/pkg/config/v1"
)

func orS(v, d string) string {
	if v == "" {
		return d
	}
	return v
}
func orI(v, d int) int {
	if v == 0 {
		return d
	}
	return v
}
func orI64(v, d int64) int64 {
	if v == 0 {
		return d
	}
	return v
}
func orB(v *bool, d bool) *bool {
	if v == nil {
		return &d
	}
	return v
}

func docLog(l *v1.LogConfig) {
	l.To, l.Level, l.MaxDays = orS(l.To, "console"), orS(l.Level, "info"), orI64(l.MaxDays, 3)
}
func docQUIC(q *v1.QUICOptions) {
	q.KeepalivePeriod, q.MaxIdleTimeout, q.MaxIncomingStreams = orI(q.KeepalivePeriod, 10), orI(q.MaxIdleTimeout, 30), orI(q.MaxIncomingStreams, 100000)
}

func docDefaultsServer(in *v1.ServerConfig) v1.ServerConfig {
	c := *in
	c.Auth.Method = v1.AuthMethod(orS(string(c.Auth.Method), "token"))
	docLog(&c.Log)
	c.Transport.TCPMux = orB(c.Transport.TCPMux, true)
	c.Transport.TCPMuxKeepaliveInterval = orI64(c.Transport.TCPMuxKeepaliveInterval, 30)
	c.Transport.TCPKeepAlive = orI64(c.Transport.TCPKeepAlive, 7200)
	c.Transport.MaxPoolCount = orI64(c.Transport.MaxPoolCount, 5)
	if *c.Transport.TCPMux {
		c.Transport.HeartbeatTimeout = orI64(c.Transport.HeartbeatTimeout, -1)
	} else {
		c.Transport.HeartbeatTimeout = orI64(c.Transport.HeartbeatTimeout, 90)
	}
	docQUIC(&c.Transport.QUIC)
	// rule: a trusted CA file means client certificates are checked, which needs TLS: force is implied
	if c.Transport.TLS.TrustedCaFile != "" {
		c.Transport.TLS.Force = true
	}
	c.WebServer.Addr = orS(c.WebServer.Addr, "127.0.0.1")
	c.SSHTunnelGateway.AutoGenPrivateKeyPath = orS(c.SSHTunnelGateway.AutoGenPrivateKeyPath, "./.autogen_ssh_key")
	c.BindAddr = orS(c.BindAddr, "0.0.0.0")
	c.BindPort = orI(c.BindPort, 7000)
	c.ProxyBindAddr = orS(c.ProxyBindAddr, c.BindAddr) // rule: proxies bind where frps binds unless told otherwise
	c.VhostHTTPTimeout = orI64(c.VhostHTTPTimeout, 60)
	c.DetailedErrorsToClient = orB(c.DetailedErrorsToClient, true)
	c.UserConnTimeout = orI64(c.UserConnTimeout, 10)
	c.UDPPacketSize = orI64(c.UDPPacketSize, 1500)
	c.NatHoleAnalysisDataReserveHours = orI64(c.NatHoleAnalysisDataReserveHours, 7*24)
	return c
}

func docDefaultsClient(in *v1.ClientCommonConfig) v1.ClientCommonConfig {
	c := *in
	c.ServerAddr = orS(c.ServerAddr, "0.0.0.0")
	c.ServerPort = orI(c.ServerPort, 7000)
	c.LoginFailExit = orB(c.LoginFailExit, true)
	c.NatHoleSTUNServer = orS(c.NatHoleSTUNServer, "stun.easyvoip.com:3478")
	c.Auth.Method = v1.AuthMethod(orS(string(c.Auth.Method), "token"))
	docLog(&c.Log)
	t := &c.Transport
	t.Protocol = orS(t.Protocol, "tcp")
	t.DialServerTimeout = orI64(t.DialServerTimeout, 10)
	t.DialServerKeepAlive = orI64(t.DialServerKeepAlive, 7200)
	t.ProxyURL = orS(t.ProxyURL, os.Getenv("http_proxy"))
	t.PoolCount = orI(t.PoolCount, 1)
	t.TCPMux = orB(t.TCPMux, true)
	t.TCPMuxKeepaliveInterval = orI64(t.TCPMuxKeepaliveInterval, 30)
	if *t.TCPMux {
		t.HeartbeatInterval, t.HeartbeatTimeout = orI64(t.HeartbeatInterval, -1), orI64(t.HeartbeatTimeout, -1)
	} else {
		t.HeartbeatInterval, t.HeartbeatTimeout = orI64(t.HeartbeatInterval, 30), orI64(t.HeartbeatTimeout, 90)
	}
	docQUIC(&t.QUIC)
	t.TLS.Enable = orB(t.TLS.Enable, true)
	t.TLS.DisableCustomTLSFirstByte = orB(t.TLS.DisableCustomTLSFirstByte, true)
	c.WebServer.Addr = orS(c.WebServer.Addr, "127.0.0.1")
	c.UDPPacketSize = orI64(c.UDPPacketSize, 1500)
	return c
}

func (d *drv) checkDocDefaultsServer(pre, done *v1.ServerConfig, doc string) {
	want := docDefaultsServer(pre)
	if a, b := coqOfAny(&want), coqOfAny(done); a != b {
		key := "documented-default:server"
		if pre.Transport.TLS.TrustedCaFile != "" && !pre.Transport.TLS.Force && !done.Transport.TLS.Force {
			key = "documented-default-rule:server:trustedCaFile-implies-force"
		}
		d.fail(key, "after the defaults are applied the server configuration differs from the documented defaults / default rules ("+firstLineDiff(a, b)+")", doc)
	}
}

func (d *drv) checkDocDefaultsClient(pre, done *v1.ClientCommonConfig) {
	want := docDefaultsClient(pre)
	if a, b := coqOfAny(&want), coqOfAny(done); a != b {
		d.fail("documented-default:client", "after the defaults are applied the client common section differs from the documented defaults ("+firstLineDiff(a, b)+")", coqOfAny(pre))
	}
}
