(* C17, message level: the generic lemma behind the per-type round trips and the fixed scripts
   the generated statements (gen/GenMsgRecThms.v) are closed with. *)
From FRP Require Import Model.MsgRec Proofs.FrameProofs Proofs.MsgObjProofs Proofs.RegistryCheck gen.GenMsg.
From Coq Require Import Lia.
Open Scope Z_scope.

(* today's registry, as in Properties/C17.v *)
Definition msgrec_registry := registry type_consts type_map.
Definition msgrec_registered := reg_of msgrec_registry.

Definition reg_entry (R : list (Z * string)) (b : byte) (n : string) : bool :=
  existsb (fun e : Z * string => (Z_of_byte b =? fst e) && String.eqb n (snd e)) R.

Lemma blen_encode_frame t body : blen (encode_frame t body) = 9 + blen body.
Proof.
  unfold encode_frame, blen. cbn [length]. rewrite app_length, be64_length. lia.
Qed.

Lemma reg_entry_registered R b n : reg_entry R b n = true -> reg_of R b = true.
Proof.
  unfold reg_entry, reg_of. rewrite !existsb_exists. intros [e [Hin H]].
  apply andb_true_iff in H. destruct H as [H _]. exists e. auto.
Qed.

Section Generic.
  Variable render : list (bytes * jv) -> bytes.
  Variable parse : bytes -> option (list (bytes * jv)).
  Hypothesis parse_render : forall o, parse (render o) = Some o.

  Lemma rec_roundtrip {A} (R : list (Z * string)) (n : string) (b : byte) (fs : list field)
        (to : A -> list gv) (of : list gv -> option A) :
    reg_entry R b n = true -> schema_wf fs = true ->
    (forall m, typed_fields_with typed fs (to m) = true) ->
    (forall m, of (to m) = Some m) ->
    forall m rest,
      blen (encode_rec render b fs to m) <= 9 + max_len ->
      decode_rec parse (reg_of R) b fs of (encode_rec render b fs to m ++ rest) = Some (m, rest).
  Proof.
    intros Hreg Hwf Ht Hof m rest Hlen. unfold decode_rec, encode_rec in *.
    rewrite blen_encode_frame in Hlen.
    rewrite (frame_roundtrip (reg_of R) b _ rest (reg_entry_registered R b n Hreg)) by lia.
    cbn [d_type d_body d_rest]. rewrite (Byte.byte_dec_lb eq_refl), parse_render.
    rewrite (obj_roundtrip fs (to m) Hwf (Ht m)), Hof. reflexivity.
  Qed.

  (* the converse side of the bound: an encoding that does not fit is refused, whatever the message *)
  Lemma rec_oversize_rejected {A} (R : list (Z * string)) (n : string) (b : byte) (fs : list field)
        (to : A -> list gv) (of : list gv -> option A) :
    reg_entry R b n = true ->
    forall m rest,
      9 + max_len < blen (encode_rec render b fs to m) < 2 ^ 63 ->
      decode_rec parse (reg_of R) b fs of (encode_rec render b fs to m ++ rest) = None.
  Proof.
    intros Hreg m rest Hlen. unfold decode_rec, encode_rec in *. rewrite blen_encode_frame in Hlen.
    unfold encode_frame. cbn [app]. rewrite <- app_assoc.
    destruct (oversize_rejected (reg_of R) b (blen (render (enc_obj fs (to m))))
                (render (enc_obj fs (to m)) ++ rest) (reg_entry_registered R b n Hreg) ltac:(lia)) as [c ->].
    reflexivity.
  Qed.
End Generic.

(* the statement proved for every registered message type in gen/GenMsgRecThms.v *)
Definition msg_roundtrip_stmt {A} (n : string) (b : byte) (fs : list field)
           (to : A -> list gv) (of : list gv -> option A) : Prop :=
  forall (render : list (bytes * jv) -> bytes) (parse : bytes -> option (list (bytes * jv))),
    (forall o, parse (render o) = Some o) ->
    forall (m : A) (rest : bytes),
      blen (encode_rec render b fs to m) <= 9 + max_len ->
      decode_rec parse msgrec_registered b fs of (encode_rec render b fs to m ++ rest) = Some (m, rest).

(** fixed scripts *)

Lemma opt_all_of_to {A} (of : list gv -> option A) (to : A -> list gv) :
  (forall m, of (to m) = Some m) -> forall l, opt_all (map of (map to l)) = Some l.
Proof.
  intros H l. induction l as [|a r IH]; cbn; [reflexivity|]. now rewrite H, IH.
Qed.

Lemma forallb_typed_map {A} (fs : list field) (to : A -> list gv) :
  (forall m, typed_fields_with typed fs (to m) = true) ->
  forall l, forallb (typed_fields_with typed fs) (map to l) = true.
Proof.
  intros H l. induction l as [|a r IH]; cbn; [reflexivity|]. now rewrite H, IH.
Qed.

Ltac msgrec_simpl := cbn.

(* use the inversion lemma of a nested struct wherever it occurs: by value, in a slice, behind a pointer *)
Ltac msgrec_nested H :=
  repeat first [rewrite H | rewrite (opt_all_of_to _ _ H)]; msgrec_simpl.

Ltac msgrec_destruct_opts :=
  repeat match goal with
         | x : option _ |- _ => destruct x
         end.

Ltac msgrec_of_to nested :=
  let m := fresh "m" in
  intros m; destruct m; msgrec_destruct_opts;
  match goal with |- ?of (?to ?x) = _ => unfold of, to end;
  msgrec_simpl; nested; msgrec_simpl; reflexivity.

(* typedness is shown by rewriting with these, one field at a time, never by unfolding the
   conversion of a nested struct *)
Lemma tf_nil : typed_fields_with typed (@nil (string * string * kind * bool)) [] = true. Proof. reflexivity. Qed.
Lemma tf_cons g j k o fs v vs :
  typed_fields_with typed ((g, j, k, o) :: fs) (v :: vs) = typed k v && typed_fields_with typed fs vs.
Proof. reflexivity. Qed.
Lemma ty_str s : typed KStr (VStr s) = true. Proof. reflexivity. Qed.
Lemma ty_int z : typed KInt (VInt z) = true. Proof. reflexivity. Qed.
Lemma ty_bool b : typed KBool (VBool b) = true. Proof. reflexivity. Qed.
Lemma ty_map m : typed KMapSS (VMap m) = true. Proof. reflexivity. Qed.
Lemma ty_strs l : typed KStrs (VStrs l) = true. Proof. reflexivity. Qed.
Lemma ty_struct fs vs : typed (KStruct fs) (VStruct vs) = typed_fields_with typed fs vs. Proof. reflexivity. Qed.
Lemma ty_structs fs l : typed (KStructs fs) (VStructs l) = forallb (typed_fields_with typed fs) l. Proof. reflexivity. Qed.
Lemma ty_ptr_none fs : typed (KPtr fs) (VPtr None) = true. Proof. reflexivity. Qed.
Lemma ty_ptr_some fs vs : typed (KPtr fs) (VPtr (Some vs)) = typed_fields_with typed fs vs. Proof. reflexivity. Qed.

Lemma typed_fs_conv {A} (fs fs' : list field) (to : A -> list gv) :
  (forall m, typed_fields_with typed fs (to m) = true) -> fs' = fs ->
  forall m, typed_fields_with typed fs' (to m) = true.
Proof. intros H -> m. apply H. Qed.

Lemma forallb_typed_conv {A} (fs fs' : list field) (to : A -> list gv) :
  (forall m, typed_fields_with typed fs (to m) = true) -> fs' = fs ->
  forall l, forallb (typed_fields_with typed fs') (map to l) = true.
Proof. intros H -> l. now apply forallb_typed_map. Qed.

Ltac msgrec_nested_typed H :=
  repeat first [rewrite (typed_fs_conv _ _ _ H) by reflexivity
               |rewrite (forallb_typed_conv _ _ _ H) by reflexivity].

Ltac msgrec_typed nested :=
  let m := fresh "m" in
  intros m;
  match goal with |- typed_fields_with typed ?fs (?to ?x) = _ => unfold fs, to end;
  repeat match goal with
         | |- context [option_map _ ?o] =>
             lazymatch o with Some _ => fail | None => fail | _ => destruct o; cbn [option_map] end
         end;
  repeat first [rewrite tf_cons | rewrite tf_nil | rewrite ty_str | rewrite ty_int | rewrite ty_bool
               |rewrite ty_map | rewrite ty_strs | rewrite ty_struct | rewrite ty_structs
               |rewrite ty_ptr_none | rewrite ty_ptr_some];
  nested; reflexivity.

Ltac msgrec_roundtrip Htyped Hofto :=
  match goal with
  | |- msg_roundtrip_stmt ?n ?b ?fs ?to ?of =>
      unfold msg_roundtrip_stmt; intros render parse Hpr;
      exact (rec_roundtrip render parse Hpr msgrec_registry n b fs to of
               (eq_refl true <: reg_entry msgrec_registry b n = true)
               (eq_refl true <: schema_wf fs = true) Htyped Hofto)
  end.
