// T4auth (property C04): the shape of frp's credential checks, regenerated from source on every run.
//
//	pkg/auth/token.go        TokenAuthSetterVerifier.VerifyLogin / VerifyPing / VerifyNewWorkConn as a
//	                         statement list: `if !slices.Contains(auth.additionalAuthScopes, v1.AuthScopeX) { return nil }`
//	                         -> GaIfNoScopeRetNil "AuthScopeX";  `if !util.ConstantTimeEqString(util.GetAuthKey(T, TS), K)
//	                         { return <error> }` -> GaIfKeyMismatchRetErr T TS K (THAT argument order);  `return nil` -> GaRetNil
//	pkg/util/util/util.go    ConstantTimeEqString: `return subtle.ConstantTimeCompare([]byte(a), []byte(b)) == 1` -> GaCtFull "a" "b"
//	server/service.go        RegisterControl: which condition selects auth.AlwaysPassVerifier, into what (local variable or
//	                         field), whose VerifyLogin is called and returned on error, what is handed to NewControl, the
//	                         order verify < NewControl < ctlManager.Add < Start, and how many assignments to a field named
//	                         authVerifier the file contains.
//
// Receiver, parameter names and single-assignment locals (`x := e`) are normalised away, so renaming them or naming a
// sub-expression does not change the output.  Anything else that is not recognised becomes GaUnknown "<source>", which
// the checker / interpreter in coq/Model/AuthShape.v refuses.
package main

import (
	"bytes"
	"fmt"
	"go/ast"
	"go/parser"
	"go/printer"
	"go/token"
	"path/filepath"
	"sort"
	"strings"

	"veriftranslator/tx"
)

func main() { tx.Main(tx.Unit{Name: "T4auth", File: "GenAuth.v", Fn: gen}) }

type env struct {
	fset  *token.FileSet
	subst map[string]string // identifier -> replacement text
}

func (e *env) raw(n ast.Node) string {
	var b bytes.Buffer
	_ = printer.Fprint(&b, e.fset, n)
	return strings.Join(strings.Fields(b.String()), " ")
}

// render prints an expression with identifier substitution (receiver/parameter normalisation, inlined locals).
func (e *env) render(x ast.Expr) string {
	switch v := x.(type) {
	case *ast.Ident:
		if r, ok := e.subst[v.Name]; ok {
			return r
		}
		return v.Name
	case *ast.SelectorExpr:
		return e.render(v.X) + "." + v.Sel.Name
	case *ast.ParenExpr:
		return "(" + e.render(v.X) + ")"
	case *ast.UnaryExpr:
		return v.Op.String() + e.render(v.X)
	case *ast.BinaryExpr:
		return e.render(v.X) + " " + v.Op.String() + " " + e.render(v.Y)
	case *ast.BasicLit:
		return v.Value
	case *ast.CallExpr:
		args := make([]string, len(v.Args))
		for i, a := range v.Args {
			args[i] = e.render(a)
		}
		var fun string
		if at, ok := v.Fun.(*ast.ArrayType); ok {
			fun = e.raw(at)
		} else {
			fun = e.render(v.Fun)
		}
		return fun + "(" + strings.Join(args, ", ") + ")"
	}
	return e.raw(x)
}

func isCall(x ast.Expr, name string) (*ast.CallExpr, bool) {
	c, ok := x.(*ast.CallExpr)
	if !ok {
		return nil, false
	}
	var b bytes.Buffer
	_ = printer.Fprint(&b, token.NewFileSet(), c.Fun)
	return c, b.String() == name
}

func returnsNil(b *ast.BlockStmt) bool {
	if len(b.List) != 1 {
		return false
	}
	r, ok := b.List[0].(*ast.ReturnStmt)
	if !ok || len(r.Results) != 1 {
		return false
	}
	id, ok := r.Results[0].(*ast.Ident)
	return ok && id.Name == "nil"
}

func returnsNonNil(b *ast.BlockStmt) bool {
	if len(b.List) != 1 {
		return false
	}
	r, ok := b.List[0].(*ast.ReturnStmt)
	if !ok || len(r.Results) != 1 {
		return false
	}
	id, ok := r.Results[0].(*ast.Ident)
	return !(ok && id.Name == "nil")
}

func findFunc(f *ast.File, recv, name string) *ast.FuncDecl {
	for _, d := range f.Decls {
		fd, ok := d.(*ast.FuncDecl)
		if !ok || fd.Name.Name != name {
			continue
		}
		if recv == "" && fd.Recv == nil {
			return fd
		}
		if recv != "" && fd.Recv != nil && len(fd.Recv.List) == 1 {
			var b bytes.Buffer
			_ = printer.Fprint(&b, token.NewFileSet(), fd.Recv.List[0].Type)
			if strings.TrimPrefix(b.String(), "*") == recv {
				return fd
			}
		}
	}
	return nil
}

func paramNames(fd *ast.FuncDecl) []string {
	var out []string
	for _, p := range fd.Type.Params.List {
		for _, n := range p.Names {
			out = append(out, n.Name)
		}
	}
	return out
}

// verifyBody translates one Verify* method of TokenAuthSetterVerifier.
func verifyBody(fset *token.FileSet, fd *ast.FuncDecl) []string {
	e := &env{fset: fset, subst: map[string]string{}}
	if len(fd.Recv.List[0].Names) == 1 {
		e.subst[fd.Recv.List[0].Names[0].Name] = "auth"
	}
	if ps := paramNames(fd); len(ps) == 1 {
		e.subst[ps[0]] = "m"
	}
	var out []string
	unknown := func(s ast.Stmt) { out = append(out, "GaUnknown "+tx.CoqString(e.raw(s))) }
	for _, s := range fd.Body.List {
		switch v := s.(type) {
		case *ast.AssignStmt:
			if v.Tok == token.DEFINE && len(v.Lhs) == 1 && len(v.Rhs) == 1 {
				if id, ok := v.Lhs[0].(*ast.Ident); ok {
					e.subst[id.Name] = e.render(v.Rhs[0])
					continue
				}
			}
			unknown(s)
		case *ast.IfStmt:
			not, ok := v.Cond.(*ast.UnaryExpr)
			if v.Init != nil || v.Else != nil || !ok || not.Op != token.NOT {
				unknown(s)
				continue
			}
			cond := not.X
			// a named local holding the call is inlined through render -> re-parse is avoided by looking at the AST
			if id, ok := cond.(*ast.Ident); ok {
				_ = id
				unknown(s)
				continue
			}
			if c, ok := isCall(cond, "slices.Contains"); ok && len(c.Args) == 2 && returnsNil(v.Body) &&
				e.render(c.Args[0]) == "auth.additionalAuthScopes" {
				out = append(out, "GaIfNoScopeRetNil "+tx.CoqString(strings.TrimPrefix(e.render(c.Args[1]), "v1.")))
				continue
			}
			if c, ok := isCall(cond, "util.ConstantTimeEqString"); ok && len(c.Args) == 2 && returnsNonNil(v.Body) {
				a := e.render(c.Args[0])
				const pfx = "util.GetAuthKey("
				if strings.HasPrefix(a, pfx) && strings.HasSuffix(a, ")") {
					parts := strings.Split(a[len(pfx):len(a)-1], ", ")
					if len(parts) == 2 {
						out = append(out, fmt.Sprintf("GaIfKeyMismatchRetErr %s %s %s", tx.CoqString(parts[0]), tx.CoqString(parts[1]),
							tx.CoqString(e.render(c.Args[1]))))
						continue
					}
				}
			}
			unknown(s)
		case *ast.ReturnStmt:
			if len(v.Results) == 1 {
				if id, ok := v.Results[0].(*ast.Ident); ok && id.Name == "nil" {
					out = append(out, "GaRetNil")
					continue
				}
			}
			unknown(s)
		default:
			unknown(s)
		}
	}
	return out
}

func ctEq(fset *token.FileSet, fd *ast.FuncDecl) string {
	e := &env{fset: fset, subst: map[string]string{}}
	ps := paramNames(fd)
	if len(ps) != 2 {
		return "GaCtUnknown " + tx.CoqString("parameters: "+strings.Join(ps, ","))
	}
	e.subst[ps[0]], e.subst[ps[1]] = "a", "b"
	if len(fd.Body.List) != 1 {
		return "GaCtUnknown " + tx.CoqString(e.raw(fd.Body))
	}
	r, ok := fd.Body.List[0].(*ast.ReturnStmt)
	if !ok || len(r.Results) != 1 {
		return "GaCtUnknown " + tx.CoqString(e.raw(fd.Body))
	}
	be, ok := r.Results[0].(*ast.BinaryExpr)
	if !ok || be.Op != token.EQL || e.render(be.Y) != "1" {
		return "GaCtUnknown " + tx.CoqString(e.raw(r))
	}
	c, ok := isCall(be.X, "subtle.ConstantTimeCompare")
	if !ok || len(c.Args) != 2 {
		return "GaCtUnknown " + tx.CoqString(e.raw(r))
	}
	arg := func(x ast.Expr) (string, bool) {
		cc, ok := x.(*ast.CallExpr)
		if !ok || len(cc.Args) != 1 {
			return "", false
		}
		if at, ok := cc.Fun.(*ast.ArrayType); !ok || e.raw(at) != "[]byte" {
			return "", false
		}
		id, ok := cc.Args[0].(*ast.Ident)
		if !ok {
			return "", false
		}
		return e.render(id), true
	}
	x, ok1 := arg(c.Args[0])
	y, ok2 := arg(c.Args[1])
	if !ok1 || !ok2 {
		return "GaCtUnknown " + tx.CoqString(e.raw(r))
	}
	return fmt.Sprintf("GaCtFull %s %s", tx.CoqString(x), tx.CoqString(y))
}

func coqList(xs []string) string { return "[" + strings.Join(xs, "; ") + "]" }

func conjuncts(e *env, x ast.Expr) []string {
	if p, ok := x.(*ast.ParenExpr); ok {
		return conjuncts(e, p.X)
	}
	if b, ok := x.(*ast.BinaryExpr); ok && b.Op == token.LAND {
		return append(conjuncts(e, b.X), conjuncts(e, b.Y)...)
	}
	return []string{e.render(x)}
}

func regControl(fset *token.FileSet, f *ast.File) (string, error) {
	fd := findFunc(f, "Service", "RegisterControl")
	if fd == nil {
		return "", fmt.Errorf("RegisterControl not found")
	}
	e := &env{fset: fset, subst: map[string]string{}}
	if len(fd.Recv.List[0].Names) == 1 {
		e.subst[fd.Recv.List[0].Names[0].Name] = "svr"
	}
	if ps := paramNames(fd); len(ps) == 3 {
		e.subst[ps[0]], e.subst[ps[1]], e.subst[ps[2]] = "ctlConn", "loginMsg", "internal"
	}
	alias := map[string]string{} // local -> local it was defined from
	init := map[string]string{}  // local -> rendered non-identifier initialiser
	locals := map[string]bool{}
	ast.Inspect(fd.Body, func(n ast.Node) bool {
		if a, ok := n.(*ast.AssignStmt); ok && a.Tok == token.DEFINE && len(a.Lhs) == len(a.Rhs) {
			for i, l := range a.Lhs {
				id, ok := l.(*ast.Ident)
				if !ok {
					continue
				}
				locals[id.Name] = true
				if r, ok := a.Rhs[i].(*ast.Ident); ok && locals[r.Name] {
					alias[id.Name] = r.Name
				} else {
					init[id.Name] = e.render(a.Rhs[i])
				}
			}
		}
		return true
	})
	root := func(n string) string {
		for i := 0; i < 10; i++ {
			if a, ok := alias[n]; ok {
				n = a
			} else {
				break
			}
		}
		return n
	}
	var bypass []string
	ast.Inspect(fd.Body, func(n ast.Node) bool {
		is, ok := n.(*ast.IfStmt)
		if !ok {
			return true
		}
		for _, s := range is.Body.List {
			a, ok := s.(*ast.AssignStmt)
			if !ok || len(a.Lhs) != 1 || len(a.Rhs) != 1 || e.render(a.Rhs[0]) != "auth.AlwaysPassVerifier" {
				continue
			}
			cs := conjuncts(e, is.Cond)
			sort.Strings(cs)
			q := make([]string, len(cs))
			for i, c := range cs {
				q[i] = tx.CoqString(c)
			}
			lhs, local := e.render(a.Lhs[0]), false
			if id, ok := a.Lhs[0].(*ast.Ident); ok && locals[id.Name] {
				lhs, local = root(id.Name), true
			}
			bypass = append(bypass, fmt.Sprintf("(%s, %s, %v)", coqList(q), tx.CoqString(lhs), local))
		}
		return true
	})
	// any other place that mentions AlwaysPassVerifier (e.g. a field assignment outside an if) is counted
	mentions := 0
	ast.Inspect(fd.Body, func(n ast.Node) bool {
		if s, ok := n.(*ast.SelectorExpr); ok && s.Sel.Name == "AlwaysPassVerifier" {
			mentions++
		}
		return true
	})
	verifyRecv, verifyReturns, ncArg := "?", false, "?"
	type ev struct {
		pos  token.Pos
		name string
	}
	var order []ev
	ast.Inspect(fd.Body, func(n ast.Node) bool {
		switch v := n.(type) {
		case *ast.IfStmt:
			if a, ok := v.Init.(*ast.AssignStmt); ok && len(a.Rhs) == 1 {
				if c, ok := a.Rhs[0].(*ast.CallExpr); ok {
					if s, ok := c.Fun.(*ast.SelectorExpr); ok && s.Sel.Name == "VerifyLogin" && returnsNonNil(v.Body) &&
						len(c.Args) == 1 && e.render(c.Args[0]) == "loginMsg" {
						if cond := e.render(v.Cond); strings.HasSuffix(cond, "!= nil") {
							verifyReturns = true
						}
					}
				}
			}
		case *ast.CallExpr:
			if s, ok := v.Fun.(*ast.SelectorExpr); ok {
				switch {
				case s.Sel.Name == "VerifyLogin":
					if id, ok := s.X.(*ast.Ident); ok {
						verifyRecv = root(id.Name)
					} else {
						verifyRecv = e.render(s.X)
					}
					order = append(order, ev{v.Pos(), "verify"})
				case s.Sel.Name == "Add" && strings.HasSuffix(e.render(s.X), "ctlManager"):
					order = append(order, ev{v.Pos(), "add"})
				case s.Sel.Name == "Start":
					order = append(order, ev{v.Pos(), "start"})
				}
			}
			if id, ok := v.Fun.(*ast.Ident); ok && id.Name == "NewControl" {
				order = append(order, ev{v.Pos(), "newcontrol"})
				if len(v.Args) > 4 {
					if a, ok := v.Args[4].(*ast.Ident); ok {
						ncArg = root(a.Name)
					} else {
						ncArg = e.render(v.Args[4])
					}
				}
			}
		}
		return true
	})
	sort.Slice(order, func(i, j int) bool { return order[i].pos < order[j].pos })
	os := make([]string, len(order))
	for i, o := range order {
		os[i] = tx.CoqString(o.name)
	}
	// assignments to a field named authVerifier anywhere in the file (the constructor uses a composite literal)
	fieldAssigns := 0
	ast.Inspect(f, func(n ast.Node) bool {
		if a, ok := n.(*ast.AssignStmt); ok {
			for _, l := range a.Lhs {
				if s, ok := l.(*ast.SelectorExpr); ok && s.Sel.Name == "authVerifier" {
					fieldAssigns++
				}
			}
		}
		return true
	})
	rootInit := init[verifyRecv]
	return fmt.Sprintf("{| rc_bypass := %s;\n     rc_bypass_mentions := %d;\n     rc_verify_recv := %s; rc_verify_returns := %v; rc_newcontrol_arg := %s;\n     rc_root_init := %s;\n     rc_order := %s;\n     rc_field_assigns := %d |}",
		coqList(bypass), mentions, tx.CoqString(verifyRecv), verifyReturns, tx.CoqString(ncArg), tx.CoqString(rootInit), coqList(os), fieldAssigns), nil
}

func gen() ([]byte, error) {
	fset := token.NewFileSet()
	tf, err := parser.ParseFile(fset, filepath.Join(tx.Repo, "pkg/auth/token.go"), nil, 0)
	if err != nil {
		return nil, err
	}
	uf, err := parser.ParseFile(fset, filepath.Join(tx.Repo, "pkg/util/util/util.go"), nil, 0)
	if err != nil {
		return nil, err
	}
	sf, err := parser.ParseFile(fset, filepath.Join(tx.Repo, "server/service.go"), nil, 0)
	if err != nil {
		return nil, err
	}
	var b bytes.Buffer
	b.WriteString("(* generated by translator unit t4auth from pkg/auth/token.go, pkg/util/util/util.go, server/service.go — do not edit *)\n")
	b.WriteString("From FRP Require Import Model.AuthShape.\nLocal Open Scope Z_scope.\nLocal Open Scope string_scope.\n\n")
	b.WriteString("Definition T4auth_translated : bool := true.\n\n")
	for _, m := range []struct{ fn, def string }{{"VerifyLogin", "gen_token_verify_login"}, {"VerifyPing", "gen_token_verify_ping"}, {"VerifyNewWorkConn", "gen_token_verify_workconn"}} {
		fd := findFunc(tf, "TokenAuthSetterVerifier", m.fn)
		if fd == nil {
			return nil, fmt.Errorf("TokenAuthSetterVerifier.%s not found", m.fn)
		}
		fmt.Fprintf(&b, "Definition %s : list ga_stmt :=\n  %s.\n\n", m.def, coqList(verifyBody(fset, fd)))
	}
	cd := findFunc(uf, "", "ConstantTimeEqString")
	if cd == nil {
		return nil, fmt.Errorf("ConstantTimeEqString not found")
	}
	fmt.Fprintf(&b, "Definition gen_ct_eq : ga_cteq := %s.\n\n", ctEq(fset, cd))
	rc, err := regControl(fset, sf)
	if err != nil {
		return nil, err
	}
	fmt.Fprintf(&b, "Definition gen_register_control : ga_regctl :=\n  %s.\n", rc)
	return b.Bytes(), nil
}
