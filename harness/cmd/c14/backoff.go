package main

// Driver "backoff" (C14): the real pkg/util/wait.fastBackoffImpl (through NewFastBackoffManager),
// the real BackoffUntil loop and the real config defaulting against Model/Backoff.v and
// Model/Heartbeat.v.
//
// Clock: fastBackoffImpl reads time.Now() itself.  The verif accessor VerifFastBackoffAdvance
// moves the stored instants back, which for this code is the same as advancing the clock; the
// clock reading used inside each call is read back from lastCalledTime, so the model is handed
// exactly the instants the implementation used (real instant + accumulated advance).
// Random source: not controllable (math/rand/v2 global); the returned delay is compared with the
// model's interval over all oracle values (Corr.C14.check_calls).

import (
	"fmt"
	"math/rand"
	"os"
	"path/filepath"
	"sort"
	"strings"
	"sync"
	"time"

	"github.com/fatedier/frp/pkg/config"
	v1 "github.com/fatedier/frp/pkg/config/v1"
	"github.com/fatedier/frp/pkg/util/wait"
)

func init() { drivers["backoff"] = runBackoff }

type ratio struct{ n, d int64 }

func (r ratio) f() float64 { return float64(r.n) / float64(r.d) }

type optSet struct {
	o                   wait.FastBackoffOptions
	factor, jit, fastJi ratio
	label               string
}

func (s optSet) coq() string {
	o := s.o
	return fmt.Sprintf("(mkopts %s %s %d %s %d %s %s %s %s %s %d %s)",
		coqZ(int64(o.Duration)), coqZ(s.factor.n), s.factor.d, coqZ(s.jit.n), s.jit.d, coqZ(int64(o.MaxDuration)),
		coqZ(int64(o.InitDurationIfFail)), coqZ(int64(o.FastRetryCount)), coqZ(int64(o.FastRetryDelay)),
		coqZ(s.fastJi.n), s.fastJi.d, coqZ(int64(o.FastRetryWindow)))
}

func mkOpt(label string, d time.Duration, factor, jit ratio, max, init time.Duration, fc int, fdel time.Duration, fj ratio, fw time.Duration) optSet {
	return optSet{o: wait.FastBackoffOptions{Duration: d, Factor: factor.f(), Jitter: jit.f(), MaxDuration: max,
		InitDurationIfFail: init, FastRetryCount: fc, FastRetryDelay: fdel, FastRetryJitter: fj.f(), FastRetryWindow: fw},
		factor: factor, jit: jit, fastJi: fj, label: label}
}

// the option sets written in client/service.go and client/control.go
func clientOptSets() []optSet {
	two, tenth, half, zero := ratio{2, 1}, ratio{1, 10}, ratio{1, 2}, ratio{0, 1}
	res := []optSet{
		mkOpt("login10", time.Second, two, tenth, 10*time.Second, 0, 0, 0, zero, 0),
		mkOpt("login20", time.Second, two, tenth, 20*time.Second, 0, 0, 0, zero, 0),
		mkOpt("keep", time.Second, two, tenth, 20*time.Second, 0, 3, 200*time.Millisecond, half, time.Minute),
	}
	for _, i := range []int64{1, 2, 3, 30} {
		res = append(res, mkOpt(fmt.Sprintf("ping%d", i), time.Duration(i)*time.Second, two, tenth, time.Duration(i)*time.Second, time.Second, 0, 0, zero, 0))
	}
	return res
}

func randOptSet(r *rand.Rand) optSet {
	durs := []time.Duration{0, time.Millisecond, 200 * time.Millisecond, time.Second, 3 * time.Second, 30 * time.Second}
	factors := []ratio{{0, 1}, {1, 1}, {3, 2}, {2, 1}, {2, 1}, {5, 2}, {3, 1}, {1, 2}}
	jits := []ratio{{0, 1}, {1, 10}, {1, 10}, {1, 2}, {1, 1}, {-1, 2}, {1, 4}}
	maxs := []time.Duration{0, time.Second, 10 * time.Second, 20 * time.Second, time.Minute}
	inits := []time.Duration{0, 0, time.Second, 100 * time.Millisecond}
	fcs := []int{0, 0, 1, 2, 3, 5, -1}
	fdels := []time.Duration{0, time.Millisecond, 200 * time.Millisecond, time.Second}
	fjs := []ratio{{0, 1}, {1, 2}, {1, 10}, {1, 1}, {-1, 1}}
	fws := []time.Duration{0, time.Second, 10 * time.Second, time.Minute, time.Hour}
	return mkOpt("random", durs[r.Intn(len(durs))], factors[r.Intn(len(factors))], jits[r.Intn(len(jits))],
		maxs[r.Intn(len(maxs))], inits[r.Intn(len(inits))], fcs[r.Intn(len(fcs))], fdels[r.Intn(len(fdels))],
		fjs[r.Intn(len(fjs))], fws[r.Intn(len(fws))])
}

func coqOptZ(v int64, some bool) string {
	if !some {
		return "None"
	}
	return "(Some " + coqZ(v) + ")"
}

// one history of direct Backoff calls
func backoffCase(r *rand.Rand, os optSet, dist map[string]int) (string, bool) {
	b := wait.NewFastBackoffManager(os.o)
	n := 2 + r.Intn(28)
	var advanced, base int64
	var prev time.Duration
	feedback := r.Intn(4) != 0 // BackoffUntil style: hand back the last returned delay
	errBias := []float64{0.95, 0.7, 0.4}[r.Intn(3)]
	w := os.o.FastRetryWindow
	if w <= 0 {
		w = 10 * time.Second
	}
	calls := make([]string, 0, n)
	nontrivial := false
	for i := 0; i < n; i++ {
		// advance the clock
		var adv time.Duration
		switch r.Intn(8) {
		case 0, 1:
			adv = 0
		case 2:
			adv = time.Duration(1+r.Intn(1000)) * time.Millisecond
		case 3:
			adv = w / 4
		case 4:
			adv = w / 2
		case 5:
			adv = w + time.Second
		case 6:
			adv = 2 * w
		case 7:
			adv = w - time.Millisecond
		}
		if i > 0 && adv > 0 {
			wait.VerifFastBackoffAdvance(b, adv)
			advanced += int64(adv)
		}
		err := r.Float64() < errBias
		if !feedback {
			prev = []time.Duration{0, time.Millisecond, 250 * time.Millisecond, time.Second, 7 * time.Second, time.Hour}[r.Intn(6)]
		}
		d := b.Backoff(prev, err)
		st, ok := wait.VerifFastBackoffStateOf(b)
		if !ok || st.LastCalledZero {
			return "", false
		}
		if i == 0 {
			base = st.LastCalled
		}
		// instants are written relative to the first call (shorter literals; the model only compares them)
		now := st.LastCalled + advanced - base
		cut := coqOptZ(st.FastRetryCutoff+advanced-base, !st.FastRetryCutoffZero)
		calls = append(calls, fmt.Sprintf("OC %s %s %s %s %d %d %s", coqZ(now), coqZ(int64(prev)), coqBool(err), coqZ(int64(d)),
			st.ConsecutiveErrCount, st.CountsInFastRetryWindow, cut))
		if err && i > 0 {
			nontrivial = true
		}
		if feedback {
			prev = d
		}
		if d > time.Duration(1)<<45 || d < 0 {
			break // beyond this float64 products stop being exact; stated in design/C14.md
		}
	}
	dist["calls"] += len(calls)
	return fmt.Sprintf("CBackoff %s [%s]", os.coq(), strings.Join(calls, "; ")), nontrivial
}

// recording wrapper around the real manager, used inside the real BackoffUntil
type recMgr struct {
	inner    wait.BackoffManager
	mu       sync.Mutex
	prevs    []time.Duration
	errs     []bool
	delays   []time.Duration
	nows     []int64
	override time.Duration // what the loop is told to wait (tiny), instead of the real delay
}

func (m *recMgr) Backoff(prev time.Duration, perr bool) time.Duration {
	m.mu.Lock()
	defer m.mu.Unlock()
	d := m.inner.Backoff(prev, perr)
	st, _ := wait.VerifFastBackoffStateOf(m.inner)
	m.prevs = append(m.prevs, prev)
	m.errs = append(m.errs, perr)
	m.delays = append(m.delays, d)
	m.nows = append(m.nows, st.LastCalled)
	return d
}

// the real BackoffUntil with the real manager and small durations (so that the loop's timer waits
// are a few milliseconds): outcomes scripted, arguments handed to Backoff recorded
func untilCase(r *rand.Rand, dist map[string]int) (string, bool) {
	two, tenth, half := ratio{2, 1}, ratio{1, 10}, ratio{1, 2}
	var os optSet
	switch r.Intn(3) {
	case 0: // keepControllerWorking's shape, scaled 1 s -> 1 ms
		os = mkOpt("keep-ms", time.Millisecond, two, tenth, 20*time.Millisecond, 0, 3, 200*time.Microsecond, half, 60*time.Millisecond)
	case 1: // loopLoginUntilSuccess' shape
		os = mkOpt("login-ms", time.Millisecond, two, tenth, 10*time.Millisecond, 0, 0, 0, ratio{0, 1}, 0)
	default: // ping sender's shape, InitDurationIfFail set
		os = mkOpt("ping-ms", 3*time.Millisecond, two, tenth, 3*time.Millisecond, time.Millisecond, 0, 0, ratio{0, 1}, 0)
	}
	sliding := r.Intn(4) != 0
	n := 1 + r.Intn(9)
	outs := make([]int, n) // 0 done 1 err 2 ok
	for i := range outs {
		switch {
		case r.Float64() < 0.7:
			outs[i] = 1
		default:
			outs[i] = 2
		}
	}
	finishes := r.Intn(3) == 0
	if finishes {
		outs[n-1] = 0
	}
	m := &recMgr{inner: wait.NewFastBackoffManager(os.o)}
	stop := make(chan struct{})
	i := 0
	var once sync.Once
	f := func() (bool, error) {
		k := i
		i++
		if k >= n {
			// the scripted history is over: close stopCh; BackoffUntil returns at its next select
			once.Do(func() { close(stop) })
			return false, nil
		}
		if k == n-1 && !finishes {
			once.Do(func() { close(stop) })
		}
		switch outs[k] {
		case 0:
			return true, nil
		case 1:
			return false, fmt.Errorf("scripted")
		}
		return false, nil
	}
	done := make(chan struct{})
	go func() { wait.BackoffUntil(f, m, sliding, stop); close(done) }()
	select {
	case <-done:
	case <-time.After(5 * time.Second):
		return "", false
	}
	m.mu.Lock()
	defer m.mu.Unlock()
	if len(m.delays) == 0 {
		return "", false
	}
	names := []string{"BDone", "BErr", "BOk"}
	for k := len(m.nows) - 1; k >= 0; k-- {
		m.nows[k] -= m.nows[0]
	}
	its := []string{}
	// call 0 is the NewTicker call; call k (k>=1) belongs to iteration k-1
	for k := 1; k < len(m.delays); k++ {
		it := k - 1
		if it >= n {
			break
		}
		its = append(its, fmt.Sprintf("OI %s %s %s %s %s", names[outs[it]], coqZ(m.nows[k]), coqZ(int64(m.prevs[k])),
			coqBool(m.errs[k]), coqZ(int64(m.delays[k]))))
	}
	dist[fmt.Sprintf("until_sliding_%v", sliding)]++
	return fmt.Sprintf("CUntil %s %s %s %s [%s] %s", coqBool(sliding), os.coq(), coqZ(m.nows[0]), coqZ(int64(m.delays[0])),
		strings.Join(its, "; "), coqBool(finishes)), true
}

func defaultsCase(r *rand.Rand) string {
	vals := []int64{0, 0, -1, 1, 3, 30, 90, 120, -5}
	mux := r.Intn(2) == 0
	i, t := vals[r.Intn(len(vals))], vals[r.Intn(len(vals))]
	muxp := mux
	sc := v1.ServerTransportConfig{HeartbeatTimeout: t}
	cc := v1.ClientTransportConfig{HeartbeatInterval: i, HeartbeatTimeout: t}
	if r.Intn(3) != 0 || !mux {
		// explicit pointer; otherwise leave nil (the default of tcpMux is true)
		sc.TCPMux = &muxp
		cc.TCPMux = &muxp
	}
	sc.Complete()
	cc.Complete()
	return fmt.Sprintf("CDefaults %s %s %s %s %s %s", coqBool(mux), coqZ(i), coqZ(t), coqZ(sc.HeartbeatTimeout),
		coqZ(cc.HeartbeatInterval), coqZ(cc.HeartbeatTimeout))
}

// fixed case replayed first on every run: the witness of Properties.C14_fast_retries_single_quota_refuted
// (keepControllerWorking's options, first call, then an error every second, delays fed back):
// fast, fast, slow+reset, fast, fast, fast -> counts 2,3,0,1,2,3
func witnessCase() (string, []int) {
	os := clientOptSets()[2]
	b := wait.NewFastBackoffManager(os.o)
	var advanced, base int64
	var prev time.Duration
	calls := []string{}
	counts := []int{}
	for i := 0; i < 7; i++ {
		if i > 0 {
			wait.VerifFastBackoffAdvance(b, time.Second)
			advanced += int64(time.Second)
		}
		err := i > 0
		d := b.Backoff(prev, err)
		st, _ := wait.VerifFastBackoffStateOf(b)
		if i == 0 {
			base = st.LastCalled
		}
		calls = append(calls, fmt.Sprintf("OC %s %s %s %s %d %d %s", coqZ(st.LastCalled+advanced-base), coqZ(int64(prev)), coqBool(err),
			coqZ(int64(d)), st.ConsecutiveErrCount, st.CountsInFastRetryWindow, coqOptZ(st.FastRetryCutoff+advanced-base, !st.FastRetryCutoffZero)))
		counts = append(counts, st.CountsInFastRetryWindow)
		prev = d
	}
	return fmt.Sprintf("CBackoff %s [%s]", os.coq(), strings.Join(calls, "; ")), counts
}

// the same heartbeat settings given as a LEGACY INI file and as TOML, through the real loaders
// (config.LoadServerConfig / LoadClientConfig: detection, legacy conversion, Complete): explicitly set values must
// arrive unchanged.  Emitted as CDefaults cases (explicit non-zero values: the model's defaulting is the identity).
func fileDefaultsCases(r *rand.Rand, dir string, k int) ([]string, error) {
	// the legacy parser refuses heartbeat_timeout < heartbeat_interval
	pairs := [][2]int64{{1, 3}, {30, 90}, {3, 120}, {-1, -1}, {-5, -1}, {30, 120}, {1, 1}, {-1, 3}, {2, 2}}
	mux := r.Intn(2) == 0
	pr := pairs[r.Intn(len(pairs))]
	i, t := pr[0], pr[1]
	out := []string{}
	for _, legacy := range []bool{true, false} {
		var sTxt, cTxt string
		if legacy {
			sTxt = fmt.Sprintf("[common]\nbind_port = 7000\ntcp_mux = %v\nheartbeat_timeout = %d\n", mux, t)
			cTxt = fmt.Sprintf("[common]\nserver_addr = 127.0.0.1\nserver_port = 7000\ntcp_mux = %v\nheartbeat_interval = %d\nheartbeat_timeout = %d\n", mux, i, t)
		} else {
			sTxt = fmt.Sprintf("bindPort = 7000\ntransport.tcpMux = %v\ntransport.heartbeatTimeout = %d\n", mux, t)
			cTxt = fmt.Sprintf("serverAddr = \"127.0.0.1\"\nserverPort = 7000\ntransport.tcpMux = %v\ntransport.heartbeatInterval = %d\ntransport.heartbeatTimeout = %d\n", mux, i, t)
		}
		ext := map[bool]string{true: "ini", false: "toml"}[legacy]
		sp := filepath.Join(dir, fmt.Sprintf("frps_%d.%s", k, ext))
		cp := filepath.Join(dir, fmt.Sprintf("frpc_%d.%s", k, ext))
		if err := os.WriteFile(sp, []byte(sTxt), 0o600); err != nil {
			return nil, err
		}
		if err := os.WriteFile(cp, []byte(cTxt), 0o600); err != nil {
			return nil, err
		}
		sc, isLegacy, err := config.LoadServerConfig(sp, true)
		if err != nil || isLegacy != legacy {
			return nil, fmt.Errorf("LoadServerConfig(%s): %v legacy=%v", sp, err, isLegacy)
		}
		cc, _, _, isLegacy, err := config.LoadClientConfig(cp, true)
		if err != nil || isLegacy != legacy {
			return nil, fmt.Errorf("LoadClientConfig(%s): %v legacy=%v", cp, err, isLegacy)
		}
		out = append(out, fmt.Sprintf("CDefaults %s %s %s %s %s %s", coqBool(mux), coqZ(i), coqZ(t), coqZ(sc.Transport.HeartbeatTimeout),
			coqZ(cc.Transport.HeartbeatInterval), coqZ(cc.Transport.HeartbeatTimeout)))
	}
	return out, nil
}

func runBackoff(cfg *runCfg) error {
	r := rand.New(rand.NewSource(cfg.Seed))
	dist := map[string]int{}
	client := clientOptSets()
	cases := []string{}
	seen := map[string]bool{}
	nontrivial := 0
	samples := []string{}
	wc, wcounts := witnessCase()
	cases = append(cases, wc)
	seen[wc] = true
	nontrivial++
	cfg.St["witness_counts_in_window"] = wcounts
	nUntil := cfg.N / 6
	nDef := 24
	for len(cases) < cfg.N-nUntil-nDef {
		var os optSet
		if r.Intn(2) == 0 {
			os = client[r.Intn(len(client))]
		} else {
			os = randOptSet(r)
		}
		c, nt := backoffCase(r, os, dist)
		if c == "" {
			return fmt.Errorf("NewFastBackoffManager did not return a *fastBackoffImpl or lastCalledTime stayed zero")
		}
		dist["opts_"+os.label]++
		if !seen[c] {
			seen[c] = true
			if nt {
				nontrivial++
			}
		}
		if len(samples) < 2 {
			samples = append(samples, c)
		}
		cases = append(cases, c)
	}
	for k := 0; k < nUntil; k++ {
		c, ok := untilCase(r, dist)
		if !ok {
			cfg.St["impl_failures"] = []map[string]string{{"key": "until-hang", "what": "wait.BackoffUntil did not return after stopCh was closed / f reported done", "case": c}}
			continue
		}
		if !seen[c] {
			seen[c] = true
			nontrivial++
		}
		if k == 0 {
			samples = append(samples, c)
		}
		cases = append(cases, c)
	}
	for k := 0; k < nDef; k++ {
		c := defaultsCase(r)
		if !seen[c] {
			seen[c] = true
			nontrivial++
		}
		cases = append(cases, c)
		dist["defaults"]++
	}
	tmp, err := os.MkdirTemp("", "c14cfg")
	if err != nil {
		return err
	}
	defer os.RemoveAll(tmp)
	for k := 0; k < 8; k++ {
		cs, err := fileDefaultsCases(r, tmp, k)
		if err != nil {
			return err
		}
		cases = append(cases, cs...)
		dist["defaults_from_ini_and_toml_files"] += len(cs)
	}
	cf := &caseFile{Imports: corrImports, Typ: "case", Cases: cases,
		Tail: "Definition M := Eval vm_compute in mismatches check_case cases.\nPrint M.\n" +
			"Definition NFAST := Eval vm_compute in count_kind 1 cases.\nPrint NFAST.\n" +
			"Definition NSLOW := Eval vm_compute in count_kind 2 cases.\nPrint NSLOW.\n" +
			"Definition NRESET := Eval vm_compute in count_kind 3 cases.\nPrint NRESET.\n" +
			"Definition NNOERR := Eval vm_compute in count_kind 4 cases.\nPrint NNOERR.\n" +
			"Definition NCLAMPED := Eval vm_compute in count_clamped cases.\nPrint NCLAMPED.\n"}
	if err := cf.Write(cfg.Out); err != nil {
		return err
	}
	keys := make([]string, 0, len(dist))
	for k := range dist {
		keys = append(keys, k)
	}
	sort.Strings(keys)
	d := map[string]int{}
	for _, k := range keys {
		d[k] = dist[k]
	}
	cfg.St["cases"] = len(cases)
	cfg.St["distinct_nontrivial"] = nontrivial
	cfg.St["samples"] = samples
	cfg.St["distribution"] = d
	if _, ok := cfg.St["impl_failures"]; !ok {
		cfg.St["impl_failures"] = []map[string]string{}
	}
	return nil
}
