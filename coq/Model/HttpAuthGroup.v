(* C07 — tcpmux load-balancing groups in front of the muxer (server/group/tcpmux.go:
   TCPMuxGroupCtl.Listen, TCPMuxGroup.HTTPConnectListen, worker, TCPMuxGroupListener.Accept / Close, CloseListener).
   A group has ONE listener in the muxer, registered with the route config of its first member; the muxer checks the
   credentials of that listener; every member takes connections from the shared accept channel.  Model only. *)
From FRP Require Export Model.HttpAuth.
Open Scope Z_scope.

(* what a member proxy asks for when it joins: RouteConfig{Domain, RouteByHTTPUser, Username, Password}, group, groupKey *)
Record ha_gmember := {
  gm_id : Z;                    (* identity of the member's TCPMuxGroupListener *)
  gm_group : bytes; gm_key : bytes;
  gm_domain : bytes; gm_by_user : bytes; gm_user : bytes; gm_pass : bytes
}.

Record ha_group := {
  g_name : bytes;               (* tmg.group *)
  g_key : bytes;                (* tmg.groupKey *)
  g_route : ha_route;           (* tmg.tcpMuxLn: the listener in the muxer; domain / routeByHTTPUser / username / password of the group *)
  g_members : list ha_gmember   (* tmg.lns, never empty while the group is in the table *)
}.

Definition ha_gstate := list ha_group.     (* TCPMuxGroupCtl.groups restricted to the groups that have members *)

Inductive ha_gop := GJoin (m : ha_gmember) | GLeave (id : Z).
(* results of Listen: 0 joined | 1 ErrGroupParamsInvalid | 2 ErrGroupAuthFailed | 3 ErrRouterConfigConflict; of Close: 0 *)

Definition ha_grp_table (st : ha_gstate) : list ha_route := map g_route st.

(* Routers.exist: same (lower-cased) domain, same location, same routeByHTTPUser *)
Definition ha_grp_conflict (st : ha_gstate) (m : ha_gmember) : bool :=
  existsb (fun r => bytes_eqb (lower (rt_domain r)) (lower (gm_domain m)) && ha_is_empty (rt_location r) &&
                    bytes_eqb (rt_by_user r) (gm_by_user m)) (ha_grp_table st).

Definition ha_route_of_member (m : ha_gmember) : ha_route :=
  {| rt_id := gm_id m; rt_domain := gm_domain m; rt_location := []; rt_by_user := gm_by_user m;
     rt_user := gm_user m; rt_pass := gm_pass m; rt_has_conn := true |}.

(* HTTPConnectListen on an existing group *)
Definition ha_grp_join_existing (g : ha_group) (m : ha_gmember) : ha_group * Z :=
  if negb (bytes_eqb (rt_domain (g_route g)) (gm_domain m)) ||
     negb (bytes_eqb (rt_by_user (g_route g)) (gm_by_user m)) ||
     negb (bytes_eqb (rt_user (g_route g)) (gm_user m)) ||
     negb (bytes_eqb (rt_pass (g_route g)) (gm_pass m))
  then (g, 1)
  else if negb (bytes_eqb (g_key g) (gm_key m)) then (g, 2)
  else ({| g_name := g_name g; g_key := g_key g; g_route := g_route g; g_members := g_members g ++ [m] |}, 0).

Fixpoint ha_grp_join_in (st : ha_gstate) (m : ha_gmember) : option (ha_gstate * Z) :=
  match st with
  | [] => None
  | g :: t =>
      if bytes_eqb (g_name g) (gm_group m) then
        let '(g', r) := ha_grp_join_existing g m in Some (g' :: t, r)
      else match ha_grp_join_in t m with
           | Some (t', r) => Some (g :: t', r)
           | None => None
           end
  end.

Definition ha_grp_join (st : ha_gstate) (m : ha_gmember) : ha_gstate * Z :=
  match ha_grp_join_in st m with
  | Some x => x
  | None =>
      (* first member: the muxer listener is created from its route config *)
      if ha_grp_conflict st m then (st, 3)
      else (st ++ [ {| g_name := gm_group m; g_key := gm_key m; g_route := ha_route_of_member m; g_members := [m] |} ], 0)
  end.

(* Close of a member listener: removed from its group; the last one takes the group and its muxer listener along *)
Definition ha_grp_leave (st : ha_gstate) (id : Z) : ha_gstate :=
  filter (fun g => match g_members g with [] => false | _ => true end)
         (map (fun g => {| g_name := g_name g; g_key := g_key g; g_route := g_route g;
                           g_members := filter (fun m => negb (gm_id m =? id)) (g_members g) |}) st).

Definition ha_grp_step (st : ha_gstate) (op : ha_gop) : ha_gstate * Z :=
  match op with
  | GJoin m => ha_grp_join st m
  | GLeave id => (ha_grp_leave st id, 0)
  end.

Fixpoint ha_grp_run (st : ha_gstate) (ops : list ha_gop) : ha_gstate * list Z :=
  match ops with
  | [] => (st, [])
  | op :: t => let '(st1, r) := ha_grp_step st op in let '(st2, rs) := ha_grp_run st1 t in (st2, r :: rs)
  end.

Definition ha_route_eqb (a b : ha_route) : bool :=
  (rt_id a =? rt_id b) && bytes_eqb (rt_domain a) (rt_domain b) && bytes_eqb (rt_location a) (rt_location b) &&
  bytes_eqb (rt_by_user a) (rt_by_user b) && bytes_eqb (rt_user a) (rt_user b) && bytes_eqb (rt_pass a) (rt_pass b) &&
  Bool.eqb (rt_has_conn a) (rt_has_conn b).

(* A CONNECT arrives: Muxer.handle decides on the group's listener; the worker puts the connection on the group's
   accept channel; [chosen] is the member whose Accept took it (scheduling: an oracle).  None: nobody received it, or
   [chosen] is not a member of the group the connection was handed to. *)
Definition ha_grp_deliver (canon : bytes -> bytes) (st : ha_gstate) (passthrough : bool) (rq : ha_req) (chosen : Z)
  : option ha_gmember :=
  match ha_mux_handle (ha_tbl_get (ha_grp_table st)) canon passthrough rq with
  | MForward l _ =>
      match find (fun g => ha_route_eqb (g_route g) l) st with
      | Some g => find (fun m => gm_id m =? chosen) (g_members g)
      | None => None
      end
  | _ => None
  end.

(* what a member demands, as the muxer defines "configured" (user name set) *)
Definition ha_member_creds (m : ha_gmember) : option (bytes * bytes) :=
  if ha_nonempty (gm_user m) then Some (gm_user m, gm_pass m) else None.

(* ------------------------------------------------------------------------------------------ *)
(* http load-balancing groups (server/group/http.go: HTTPGroupController.Register, HTTPGroup.Register, createConn).
   The first member's route config (with ITS Username / Password) is added to the vhost router; a joiner is compared
   with the group in group name, domain, location and routeByHTTPUser — not in Username / Password — and in the group
   key.  Requests are checked by CheckAuth against the group's route; createConn hands them to the members in turn
   ([chosen]: an oracle).  Member routes here have location "" (one location per group). *)
(* [cmp]: whether the params-invalid condition also compares Username and Password (read from the source by translator
   unit t7: gen/GenRouteSites.v http_group_compared; false at the pinned commit) *)
Definition ha_hgrp_join_existing (cmp : bool) (g : ha_group) (m : ha_gmember) : ha_group * Z :=
  if negb (bytes_eqb (rt_domain (g_route g)) (gm_domain m)) ||
     negb (bytes_eqb (rt_by_user (g_route g)) (gm_by_user m)) ||
     (cmp && (negb (bytes_eqb (rt_user (g_route g)) (gm_user m)) || negb (bytes_eqb (rt_pass (g_route g)) (gm_pass m))))
  then (g, 1)
  else if negb (bytes_eqb (g_key g) (gm_key m)) then (g, 2)
  else ({| g_name := g_name g; g_key := g_key g; g_route := g_route g; g_members := g_members g ++ [m] |}, 0).

Fixpoint ha_hgrp_join_in (cmp : bool) (st : ha_gstate) (m : ha_gmember) : option (ha_gstate * Z) :=
  match st with
  | [] => None
  | g :: t =>
      if bytes_eqb (g_name g) (gm_group m) then
        let '(g', r) := ha_hgrp_join_existing cmp g m in Some (g' :: t, r)
      else match ha_hgrp_join_in cmp t m with
           | Some (t', r) => Some (g :: t', r)
           | None => None
           end
  end.

Definition ha_hgrp_join (cmp : bool) (st : ha_gstate) (m : ha_gmember) : ha_gstate * Z :=
  match ha_hgrp_join_in cmp st m with
  | Some x => x
  | None =>
      if ha_grp_conflict st m then (st, 3)
      else (st ++ [ {| g_name := gm_group m; g_key := gm_key m; g_route := ha_route_of_member m; g_members := [m] |} ], 0)
  end.

Fixpoint ha_hgrp_run (cmp : bool) (st : ha_gstate) (ms : list ha_gmember) : ha_gstate * list Z :=
  match ms with
  | [] => (st, [])
  | m :: t => let '(st1, r) := ha_hgrp_join cmp st m in let '(st2, rs) := ha_hgrp_run cmp st1 t in (st2, r :: rs)
  end.

Definition ha_hgrp_deliver (canon : bytes -> bytes) (st : ha_gstate) (rq : ha_req) (chosen : Z) : option ha_gmember :=
  match ha_serve_http (ha_tbl_get (ha_grp_table st)) canon rq with
  | OForward l =>
      match find (fun g => ha_route_eqb (g_route g) l) st with
      | Some g => find (fun m => gm_id m =? chosen) (g_members g)
      | None => None
      end
  | _ => None
  end.

(* what an http proxy demands (CheckAuth: user or password set) *)
Definition ha_hmember_creds (m : ha_gmember) : option (bytes * bytes) :=
  if ha_nonempty (gm_user m) || ha_nonempty (gm_pass m) then Some (gm_user m, gm_pass m) else None.
