(* C03 — UDP tunnels preserve datagram payloads, boundaries and reply addressing.
   Only statements here; proofs live in Proofs/.  Every theorem is followed by Print Assumptions. *)
From FRP Require Import Model.Base64 Model.Udp Proofs.Base64Proofs Proofs.UdpProofs Proofs.RegistryCheck.
Open Scope Z_scope.

Definition today_registry := registry type_consts type_map.
Definition registered := reg_of today_registry.

(** * base64 (encoding/base64 StdEncoding as used by NewUDPPacket / GetContent) *)

Theorem C03_base64_roundtrip : forall d : bytes, b64_decode (b64_encode d) = Some d.
Proof. exact b64_roundtrip. Qed.
Print Assumptions C03_base64_roundtrip.

(* encoded length = 4 * ceil(n / 3) *)
Theorem C03_base64_length : forall d : bytes, blen (b64_encode d) = 4 * ((blen d + 2) / 3).
Proof. exact b64_encode_length. Qed.
Print Assumptions C03_base64_length.

(** * one datagram through NewUDPPacket, WriteMsg, ReadMsg, GetContent *)

(* reflective over today's translator output: 'u' is registered and is the UDPPacket message *)
Theorem C03_udp_type_registered :
  registered udp_type_byte = true /\ In (Z_of_byte udp_type_byte, "UDPPacket"%string) today_registry.
Proof. vm_compute. split; [reflexivity|]. repeat (try (left; reflexivity); right). Qed.
Print Assumptions C03_udp_type_registered.

(* payload, boundaries and both addresses survive, whatever follows on the stream, whenever the
   frame fits the message bound: 4*ceil(n/3) + overhead(l, r) <= 10240.  The JSON text PARSER is
   an oracle (encoding/json): the theorem asks of it only that it inverts the (concrete) renderer
   on this very text *)
Theorem C03_datagram_roundtrip : forall parse d l r rest,
  parse (udp_text (new_udp_packet d l r)) = Some (enc_obj udp_fields (upacket_vals (new_udp_packet d l r))) ->
  4 * ((blen d + 2) / 3) + udp_overhead l r <= 10240 ->
  exists p, udp_decode_msg registered parse (udp_encode_msg (new_udp_packet d l r) ++ rest) = UDOk p rest /\
            get_content p = Some d /\ up_laddr p = l /\ up_raddr p = r.
Proof.
  intros parse d l r rest. apply (udp_datagram_roundtrip registered parse d l r rest).
  exact (proj1 C03_udp_type_registered).
Qed.
Print Assumptions C03_datagram_roundtrip.

(* every payload up to the default udpPacketSize satisfies the size condition *)
Theorem C03_default_packet_size_fits : forall d l r,
  blen d <= 1500 -> uaddr_small l -> uaddr_small r ->
  4 * ((blen d + 2) / 3) + udp_overhead l r <= 10240.
Proof. exact udp_default_size_fits. Qed.
Print Assumptions C03_default_packet_size_fits.

(* a datagram whose frame does not fit is refused by the receiving ReadMsg (and the work
   connection dies with it): the claim is made below the bound only *)
Theorem C03_oversize_frame_rejected : forall parse p rest,
  upacket_fits p = false -> blen (udp_text p) < 2 ^ 63 ->
  udp_decode_msg registered parse (udp_encode_msg p ++ rest) = UDFrameErr ErrMaxLen.
Proof.
  intros parse p rest. apply udp_oversize_rejected. exact (proj1 C03_udp_type_registered).
Qed.
Print Assumptions C03_oversize_frame_rejected.

(* non-vacuity: a 3-byte datagram from 127.0.3.1:4000, its text and its frame *)
Example C03_example_packet :
  let a := Some {| ua_ip := bs "127.0.3.1"; ua_port := 4000; ua_zone := [] |} in
  udp_text (new_udp_packet (bs "abc") None a) = bs "{""c"":""YWJj"",""r"":{""IP"":""127.0.3.1"",""Port"":4000,""Zone"":""""}}" /\
  upacket_fits (new_udp_packet (bs "abc") None a) = true /\
  4 * ((3 + 2) / 3) + udp_overhead None a = 57 /\ uaddr_small a.
Proof. vm_compute. repeat split; discriminate. Qed.
