package main

import "verifharness/hx"

func drivePlugin(cfg *hx.RunCfg) error { return nil }
