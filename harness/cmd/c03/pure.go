package main

// Part (i): real udp.NewUDPPacket / udp.GetContent and msg.WriteMsg / msg.ReadMsg of a
// UDPPacket against Model/Udp.v + Model/Base64.v.

import (
	"bytes"
	"encoding/base64"
	"errors"
	"fmt"
	"hash/adler32"
	"net"

	jsonMsg "github.com/fatedier/golib/msg/json"

	"github.com/fatedier/frp/pkg/msg"
	"github.com/fatedier/frp/pkg/proto/udp"
	"verifharness/hx"
)

func genAddr(g *hx.Gen) *net.UDPAddr {
	switch g.Intn(10) {
	case 0:
		return nil
	case 1:
		return &net.UDPAddr{IP: net.ParseIP("2001:db8::" + fmt.Sprintf("%x", 1+g.Intn(0xffff))), Port: g.Intn(65536)}
	case 2:
		return &net.UDPAddr{IP: net.ParseIP("fe80::1"), Port: 1 + g.Intn(65535), Zone: "eth0"}
	case 3:
		return &net.UDPAddr{IP: net.IPv4(192, 168, byte(g.Intn(256)), byte(g.Intn(256))), Port: g.Intn(65536)} // 16-byte form
	case 4:
		return &net.UDPAddr{} // zero value: IP "" Port 0
	default:
		return &net.UDPAddr{IP: net.IPv4(127, 0, 3, byte(1+g.Intn(250))).To4(), Port: 1 + g.Intn(65535)}
	}
}

func genPayload(g *hx.Gen, size int) []byte {
	switch g.Intn(6) {
	case 0:
		return bytes.Repeat([]byte{byte(g.Intn(256))}, size)
	case 1: // bytes whose 6-bit groups hit the '+' '/' end of the alphabet
		b := make([]byte, size)
		for i := range b {
			b[i] = []byte{0xfb, 0xff, 0xfe, 0xef, 0xbf, 0x3e, 0x3f}[g.Intn(7)]
		}
		return b
	default:
		return g.Bytes(size)
	}
}

func pickSize(g *hx.Gen, i int) int {
	switch {
	case i < 40:
		return i // 0..39: every residue mod 3 several times
	case i%23 == 0: // around the 10240-byte frame bound (about 7.6 KB of payload) and beyond
		return []int{7680, 7400, 9000, 7638, 7642, 7645, 7636, 4096, 7639, 7590, 7641, 8000, 7632}[(i/23)%13] // for a v4 RemoteAddr the bound is crossed between 7638 and 7642; quick tier uses entries 2..6
	case i%7 == 0:
		return 1400 + g.Intn(102) // up to 1501
	case i%3 == 0:
		return g.Intn(1501)
	default:
		return 40 + g.Intn(260)
	}
}

// readClass: 0 ok, 4 ErrMaxMsgLength, 5 any other error
func readClass(err error) int {
	switch {
	case err == nil:
		return 0
	case errors.Is(err, jsonMsg.ErrMaxMsgLength):
		return 4
	default:
		return 5
	}
}

func addrEq(a, b *net.UDPAddr) bool {
	if a == nil || b == nil {
		return a == b
	}
	return a.String() == b.String() && a.Port == b.Port && a.Zone == b.Zone
}

func purePacketCase(g *hx.Gen, i int, dist map[string]int, fails *[]failure) string {
	size := pickSize(g, i)
	buf := genPayload(g, size)
	keep := append([]byte(nil), buf...)
	l, r := (*net.UDPAddr)(nil), genAddr(g)
	if g.Chance(0.15) {
		l = genAddr(g)
	}
	p := udp.NewUDPPacket(buf, l, r)
	// the caller reuses its buffer right after NewUDPPacket returns: the packet must not alias it
	for k := range buf {
		buf[k] ^= 0xa5
	}
	var w bytes.Buffer
	werr := msg.WriteMsg(&w, p)
	wire := append([]byte(nil), w.Bytes()...)
	back := 5
	if werr == nil {
		m, err := msg.ReadMsg(bytes.NewReader(wire))
		back = readClass(err)
		if err == nil {
			q, ok := m.(*msg.UDPPacket)
			if !ok {
				back = 6
			} else {
				got, gerr := udp.GetContent(q)
				if gerr != nil || !bytes.Equal(got, keep) || q.Content != p.Content || !addrEq(q.LocalAddr, l) || !addrEq(q.RemoteAddr, r) {
					back = 1
					*fails = append(*fails, fail("pure:roundtrip", "UDPPacket written and read back differs from the datagram it was built from",
						fmt.Sprintf("size=%d raddr=%v", size, r)))
				}
			}
		}
	}
	cls := "fit"
	if back == 4 {
		cls = "oversize"
	}
	hx.CountBy(dist, fmt.Sprintf("pkt %s size<=%d", cls, bucket(size)))
	head, tail := wire, []byte(nil)
	if k := bytes.Index(wire, []byte(p.Content)); len(p.Content) > 0 && k >= 0 {
		head, tail = wire[:k], wire[k+len(p.Content):]
	}
	content := "None"
	if size <= 1500 {
		content = "(Some " + hx.HxS(p.Content) + ")"
	}
	return fmt.Sprintf("CPkt %s %s %s %s %s %s %d %d %d", hx.Hx(keep), coqAddr(l), coqAddr(r), hx.Hx(head), hx.Hx(tail), content,
		len(p.Content), adler32.Checksum([]byte(p.Content)), back)
}

func bucket(n int) int {
	for _, b := range []int{0, 3, 64, 512, 1400, 1500, 7000, 7700, 100000} {
		if n <= b {
			return b
		}
	}
	return n
}

// pureDecodeCase: GetContent on a content string that is valid, or damaged in a labelled way.
func pureDecodeCase(g *hx.Gen, i int, dist map[string]int) string {
	n := g.Intn(40)
	if g.Chance(0.1) {
		n = 100 + g.Intn(1400)
	}
	raw := genPayload(g, n)
	s := []byte(base64.StdEncoding.EncodeToString(raw))
	kind := "valid"
	switch g.Intn(12) {
	case 0:
		if len(s) > 0 {
			s[g.Intn(len(s))] = []byte("-_ .*\x00\xff!")[g.Intn(8)]
			kind = "foreign-char"
		}
	case 1:
		if len(s) > 0 {
			k := g.Intn(len(s))
			s = append(s[:k:k], s[k+1:]...)
			kind = "char-dropped"
		}
	case 2:
		k := g.Intn(len(s) + 1)
		s = append(s[:k:k], append([]byte{[]byte("\r\n")[g.Intn(2)]}, s[k:]...)...)
		kind = "newline-inserted"
	case 3:
		s = []byte(base64.URLEncoding.EncodeToString(raw))
		kind = "url-alphabet"
	case 4:
		s = []byte(base64.RawStdEncoding.EncodeToString(raw))
		kind = "no-padding"
	case 5:
		s = append(s, []byte("QUJD=A==\nQQ")[g.Intn(11)])
		kind = "trailing"
	case 6:
		if len(s) >= 4 && s[len(s)-1] == '=' { // non-zero trailing bits under padding
			k := len(s) - 2
			if s[k] == '=' {
				k--
			}
			s[k] = "ABCDEFGHIJKLMNOPQRSTUVWXYZabcdefghijklmnopqrstuvwxyz0123456789+/"[g.Intn(64)]
			kind = "trailing-bits"
		}
	case 7:
		if len(s) > 0 {
			s[g.Intn(len(s))] = '='
			kind = "pad-inside"
		}
	}
	out, err := udp.GetContent(&msg.UDPPacket{Content: string(s)})
	hx.CountBy(dist, fmt.Sprintf("dec %s ok=%v", kind, err == nil))
	if err != nil {
		out = nil
	}
	return fmt.Sprintf("CDec %s %s %s", hx.Hx(s), hx.Bool(err == nil), hx.Hx(out))
}
