// verifharness: correspondence drivers.  Each sub-command runs the real frp code on
// generated inputs and writes (a) a Coq case file holding the inputs together with
// the implementation's projected observations and (b) a JSON stats file.
//
//	harness <driver> -seed N -n N -out cases.v -stats stats.json [-tier quick|thorough]
package main

import (
	"encoding/json"
	"flag"
	"fmt"
	"os"
	"sort"
)

type driverFn func(cfg *runCfg) error

type runCfg struct {
	seed   int64
	n      int
	out    string
	stats  string
	tier   string
	replay string
	extra  string
	st     map[string]any
}

var drivers = map[string]driverFn{}

func main() {
	if len(os.Args) < 2 {
		names := []string{}
		for k := range drivers {
			names = append(names, k)
		}
		sort.Strings(names)
		fmt.Fprintln(os.Stderr, "usage: harness <driver> [flags]; drivers:", names)
		os.Exit(2)
	}
	name := os.Args[1]
	fn, ok := drivers[name]
	if !ok {
		fmt.Fprintln(os.Stderr, "unknown driver", name)
		os.Exit(2)
	}
	fs := flag.NewFlagSet(name, flag.ExitOnError)
	cfg := &runCfg{st: map[string]any{}}
	fs.Int64Var(&cfg.seed, "seed", 1, "PRNG seed")
	fs.IntVar(&cfg.n, "n", 100, "number of cases")
	fs.StringVar(&cfg.out, "out", "", "Coq case file to write")
	fs.StringVar(&cfg.stats, "stats", "", "stats JSON file to write")
	fs.StringVar(&cfg.tier, "tier", "quick", "quick|thorough")
	fs.StringVar(&cfg.replay, "replay", "", "replay file")
	fs.StringVar(&cfg.extra, "extra", "", "driver-specific argument")
	_ = fs.Parse(os.Args[2:])
	if err := fn(cfg); err != nil {
		fmt.Fprintln(os.Stderr, "harness:", err)
		os.Exit(3)
	}
	if cfg.stats != "" {
		b, _ := json.MarshalIndent(cfg.st, "", " ")
		if err := os.WriteFile(cfg.stats, b, 0o644); err != nil {
			fmt.Fprintln(os.Stderr, "harness:", err)
			os.Exit(3)
		}
	}
}
