(* C17, system level: proofs about Model/FrameSys.v. *)
From FRP Require Import Model.Frame Model.FrameSys Proofs.FrameProofs.
From Coq Require Import Lia ZifyBool ZifyNat.
Open Scope Z_scope.

Lemma fs_byte_eqb_refl b : Byte.eqb b b = true.
Proof. now apply Byte.byte_dec_lb. Qed.

Lemma fs_bytes_eqb_eq a : forall b, bytes_eqb a b = true <-> a = b.
Proof.
  induction a as [|x a IH]; intros [|y b]; cbn; split; try congruence; try discriminate.
  - intros H. apply andb_true_iff in H. destruct H as [H1 H2].
    apply Byte.byte_dec_bl in H1. apply IH in H2. congruence.
  - intros [= -> ->]. rewrite fs_byte_eqb_refl. cbn. now apply IH.
Qed.

(** * Specification vocabulary *)

(* the stream handleConnection gets to see, if any *)
Definition fs_conn_stream (force_tls : bool) (need : Z) (wsp : bytes) (ev : fs_first_ev) : option bytes :=
  if blen (fe_bytes ev) <? need then None
  else if is_prefix wsp (fe_bytes ev) then fe_inner ev
  else
    match fe_bytes ev with
    | [] => None
    | b :: _ => if fs_tls_head b then fe_inner ev
                else if force_tls then None else Some (fe_bytes ev)
    end.

(* the encoder's image of the three session-opening messages: the only first messages frps expects *)
Definition fs_wellformed_first (reg : byte -> bool) (tl tw tv : byte) (s : bytes) : Prop :=
  exists t body rest,
    s = encode_frame t body ++ rest /\ reg t = true /\ blen body <= max_len /\
    (t = tl \/ t = tw \/ t = tv).

Definition fs_expected_first reg tl tw tv force need wsp (ev : fs_first_ev) : Prop :=
  exists s, fs_conn_stream force need wsp ev = Some s /\ fs_wellformed_first reg tl tw tv s /\ fe_json ev = JMsg.

(** * First bytes *)
Section First.
  Variable reg : byte -> bool.
  Variables tl tw tv : byte.
  Variable force : bool.
  Variable need : Z.
  Variable wsp : bytes.

  Local Notation handle := (fs_handle_conn reg tl tw tv).
  Local Notation step := (fs_first_step reg tl tw tv force need wsp).
  Local Notation expected := (fs_expected_first reg tl tw tv force need wsp).

  Definition fs_confined_out (ev : fs_first_ev) (out : fs_first_out) : Prop :=
    fo_closed out = [fe_conn ev] /\ fo_act out = ActClose /\ fo_close out <> KeepOpen /\
    (fo_reply out = RNone \/ fo_reply out = RTlsAny).

  Lemma fs_wait_more_confined ev : fs_confined_out ev (fs_wait_more ev).
  Proof.
    unfold fs_wait_more, fs_closed, fs_confined_out. destruct (fe_eof ev); cbn; repeat split; try congruence; auto.
  Qed.

  Lemma fs_close_now_confined ev : fs_confined_out ev (fs_closed ev CloseNow RNone ActClose).
  Proof. unfold fs_closed, fs_confined_out; cbn; repeat split; try congruence; auto. Qed.

  Lemma fs_handle_bad st ev s :
    ~ (fs_wellformed_first reg tl tw tv s /\ fe_json ev = JMsg) ->
    exists out, handle st ev s = Some (st, out) /\ fs_confined_out ev out.
  Proof.
    intros Hbad. unfold fs_handle_conn.
    destruct (decode_frame reg s) as [e c a|r c a] eqn:E.
    - destruct (fs_needs_more e); eexists; (split; [reflexivity|]);
        [apply fs_wait_more_confined|apply fs_close_now_confined].
    - destruct (fe_json ev) eqn:Ej;
        [eexists; split; [reflexivity|apply fs_close_now_confined]
        |eexists; split; [reflexivity|apply fs_close_now_confined]|].
      destruct (dispatch_first tl tw tv (DOk r c a)) eqn:Ed;
        try (exfalso; apply Hbad; split; [|reflexivity];
             assert (Hne : dispatch_first tl tw tv (DOk r c a) <> ActClose) by congruence;
             apply dispatch_confined in Hne; destruct Hne as (r' & c' & a' & Heq & Ht);
             injection Heq as <- <- <-;
             apply decode_sound in E; destruct E as (Hs & Hr & Hl & _ & _);
             exists (d_type r), (d_body r), (d_rest r); tauto).
      eexists; split; [reflexivity|apply fs_close_now_confined].
  Qed.

  (* state unchanged, exactly that connection closed, no reply (except what a failing TLS
     handshake emits), for every state and every event that is not an expected first message *)
  Lemma fs_wrapped_bad st ev :
    (forall inner, fe_inner ev = Some inner -> ~ (fs_wellformed_first reg tl tw tv inner /\ fe_json ev = JMsg)) ->
    exists out, fs_wrapped reg tl tw tv st ev = Some (st, out) /\ fs_confined_out ev out.
  Proof.
    intros H. unfold fs_wrapped. destruct (fe_inner ev) as [inner|].
    - apply fs_handle_bad. now apply H.
    - eexists; split; [reflexivity|].
      unfold fs_closed, fs_confined_out; cbn; repeat split; try congruence; auto.
  Qed.

  Theorem fs_bad_first_confined st ev :
    ~ expected ev ->
    exists out, step st ev = Some (st, out) /\ fs_confined_out ev out.
  Proof.
    intros Hbad. unfold fs_first_step. unfold fs_expected_first, fs_conn_stream in Hbad.
    destruct (blen (fe_bytes ev) <? need).
    { eexists; split; [reflexivity|apply fs_wait_more_confined]. }
    destruct (is_prefix wsp (fe_bytes ev)).
    { apply fs_wrapped_bad. intros inner Hi Hw. apply Hbad. exists inner. tauto. }
    destruct (fe_bytes ev) as [|b rest] eqn:Eb.
    - eexists; split; [reflexivity|apply fs_wait_more_confined].
    - destruct (fs_tls_head b).
      + apply fs_wrapped_bad. intros inner Hi Hw. apply Hbad. exists inner. tauto.
      + destruct force.
        * eexists; split; [reflexivity|apply fs_close_now_confined].
        * apply fs_handle_bad. intros [Hw' Hj]. apply Hbad. exists (b :: rest). auto.
  Qed.

  Lemma dispatch_of_type t body rest c a :
    t = tl \/ t = tw \/ t = tv ->
    dispatch_first tl tw tv (DOk {| d_type := t; d_body := body; d_rest := rest |} c a) <> ActClose.
  Proof.
    intros H. cbn. destruct (Byte.eqb t tl) eqn:E1; [congruence|].
    destruct (Byte.eqb t tw) eqn:E2; [congruence|].
    destruct (Byte.eqb t tv) eqn:E3; [congruence|].
    exfalso. destruct H as [->|[->| ->]];
      [rewrite fs_byte_eqb_refl in E1|rewrite fs_byte_eqb_refl in E2|rewrite fs_byte_eqb_refl in E3]; discriminate.
  Qed.

  (* conversely an expected first message always reaches its handler: it is never closed as unexpected *)
  Theorem fs_expected_first_dispatched st ev st' out :
    expected ev -> step st ev = Some (st', out) -> fo_act out <> ActClose.
  Proof.
    intros (s & Hs & (t & body & rest & -> & Hr & Hl & Ht) & Hj).
    unfold fs_first_step. unfold fs_conn_stream in Hs.
    assert (Hh : handle st ev (encode_frame t body ++ rest) = Some (st', out) -> fo_act out <> ActClose).
    { unfold fs_handle_conn. rewrite (frame_roundtrip reg t body rest Hr Hl), Hj.
      pose proof (dispatch_of_type t body rest (9 + blen body) (blen body) Ht) as Hd.
      destruct (dispatch_first tl tw tv _); [| | |congruence];
        destruct (fe_handler ev); intros [= <- <-]; cbn; congruence. }
    destruct (blen (fe_bytes ev) <? need); [discriminate|].
    unfold fs_wrapped.
    destruct (is_prefix wsp (fe_bytes ev)); [rewrite Hs; exact Hh|].
    destruct (fe_bytes ev) as [|b bs]; [discriminate|].
    destruct (fs_tls_head b).
    - rewrite Hs. exact Hh.
    - destruct force; [discriminate|].
      assert (Hs' : b :: bs = encode_frame t body ++ rest) by congruence. rewrite Hs'. exact Hh.
  Qed.

  (** sessions: the only first messages that can change the session table are a Login whose handler
      accepts and a Login whose handler crashes the process *)
  Definition fs_state_cases (st : fs_state) (ev : fs_first_ev) (st' : fs_state) (out : fs_first_out) : Prop :=
    (st' = st /\ fo_close out <> ServerDown) \/
    (exists rid, fe_handler ev = HAccept rid /\ st' = fs_ins_session rid st /\ fo_act out = ActLogin /\
                 fo_close out = KeepOpen) \/
    (fe_handler ev = HCrash /\ st' = [] /\ fo_act out = ActLogin /\ fo_close out = ServerDown).

  Ltac same_state :=
    intros [= <- <-]; left; split; [reflexivity|];
    unfold fs_wait_more, fs_closed; cbn; try destruct (fe_eof _); cbn; congruence.

  Theorem fs_first_step_state st ev st' out :
    step st ev = Some (st', out) -> fs_state_cases st ev st' out.
  Proof.
    unfold fs_first_step.
    assert (Hh : forall s, handle st ev s = Some (st', out) -> fs_state_cases st ev st' out).
    { intros s. unfold fs_handle_conn.
      destruct (decode_frame reg s) as [e c a|r c a]; [destruct (fs_needs_more e); same_state|].
      destruct (fe_json ev); [same_state|same_state|].
      destruct (dispatch_first tl tw tv (DOk r c a)); destruct (fe_handler ev) as [| |rid|] eqn:Eh;
        try discriminate; try same_state.
      - intros [= <- <-]. right. left. exists rid. cbn. auto.
      - intros [= <- <-]. right. right. cbn. auto. }
    assert (Hw : fs_wrapped reg tl tw tv st ev = Some (st', out) -> fs_state_cases st ev st' out).
    { unfold fs_wrapped. destruct (fe_inner ev); [apply Hh|same_state]. }
    destruct (blen (fe_bytes ev) <? need); [same_state|].
    destruct (is_prefix wsp (fe_bytes ev)); [exact Hw|].
    destruct (fe_bytes ev) as [|b bs]; [same_state|].
    destruct (fs_tls_head b); [exact Hw|].
    destruct force; [same_state|apply Hh].
  Qed.

  (* the process can only die through a crashing handler behind a Login; never through an
     unexpected or malformed first message *)
  Theorem fs_down_only_by_crash st ev st' out :
    step st ev = Some (st', out) -> fo_close out = ServerDown ->
    fe_handler ev = HCrash /\ fo_act out = ActLogin /\ ~ ~ expected ev.
  Proof.
    intros Hs Hd.
    destruct (fs_first_step_state st ev st' out Hs) as [[_ Hn]|[(rid & _ & _ & _ & Hk)|(Hh & _ & Ha & _)]];
      [contradiction|congruence|].
    repeat split; try assumption. intros Hbad.
    destruct (fs_bad_first_confined st ev Hbad) as (out' & Hs' & _ & Ha' & _).
    rewrite Hs in Hs'. injection Hs' as _ <-. congruence.
  Qed.
End First.

Lemma fs_ins_keeps_others rid st x : In x st -> fst x <> rid -> In x (fs_ins_session rid st).
Proof.
  induction st as [|[r ps] rest IH]; cbn; [tauto|]. intros Hin Hne.
  destruct (bytes_eqb rid r) eqn:E.
  - apply fs_bytes_eqb_eq in E. subst r. destruct Hin as [<-|Hin]; [cbn in Hne; congruence|now right].
  - destruct (bytes_ltb rid r); [now right|].
    destruct Hin as [<-|Hin]; [now left|right; auto].
Qed.

Lemma fs_ins_keeps_ids rid st r : In r (map fst st) -> In r (map fst (fs_ins_session rid st)).
Proof.
  induction st as [|[r0 ps] rest IH]; cbn; [tauto|]. intros Hin.
  destruct (bytes_eqb rid r0) eqn:E.
  - apply fs_bytes_eqb_eq in E. subst r0. cbn. exact Hin.
  - destruct (bytes_ltb rid r0); cbn; [now right|]. destruct Hin; [now left|right; auto].
Qed.

Lemma fs_del_spec rid st :
  ~ In rid (map fst (fs_del_session rid st)) /\
  (forall x, In x st -> fst x <> rid -> In x (fs_del_session rid st)) /\
  (forall x, In x (fs_del_session rid st) -> In x st).
Proof.
  induction st as [|[r ps] rest (IH1 & IH2 & IH3)]; cbn; [tauto|].
  destruct (bytes_eqb rid r) eqn:E.
  - apply fs_bytes_eqb_eq in E. subst r. repeat split; [assumption| |auto].
    intros x [<-|Hin] Hne; [cbn in Hne; congruence|auto].
  - assert (Hne : rid <> r) by (intros ->; rewrite (proj2 (fs_bytes_eqb_eq r r) eq_refl) in E; discriminate).
    repeat split.
    + cbn. intros [H|H]; [congruence|contradiction].
    + intros x [<-|Hin] Hx; [now left|right; auto].
    + intros x [<-|Hin]; [now left|right; auto].
Qed.

(** * Read loop *)
Section Loop.
  Variable reg : byte -> bool.
  Variable jok : byte -> bytes -> bool.

  Definition fs_good (m : byte * bytes) : Prop :=
    reg (fst m) = true /\ blen (snd m) <= max_len /\ jok (fst m) (snd m) = true.
  Definition fs_enc_all (ms : list (byte * bytes)) : bytes :=
    flat_map (fun m => encode_frame (fst m) (snd m)) ms.
  Definition fs_starts_good (s : bytes) : Prop :=
    exists t b rest, s = encode_frame t b ++ rest /\ fs_good (t, b).
  (* why the loop stops at a stream that does not start with a good frame *)
  Definition fs_end_of (tail : bytes) : fs_loop_end :=
    match decode_frame reg tail with
    | DErr ErrEOF _ _ => EndEOF
    | DErr e _ _ => EndFrame e
    | DOk r _ _ => EndJson (d_type r)
    end.

  Lemma decode_rest_shorter s r c a :
    decode_frame reg s = DOk r c a -> (length (d_rest r) + 9 <= length s)%nat.
  Proof.
    intros H. apply decode_sound in H. destruct H as (Hs & _).
    apply (f_equal (@length byte)) in Hs. rewrite Hs.
    unfold encode_frame. cbn [app length]. rewrite !app_length, be64_length. lia.
  Qed.

  Lemma fs_fuel_irrelevant n : forall m s,
    (length s < n)%nat -> (length s < m)%nat -> fs_read_loop_fuel reg jok n s = fs_read_loop_fuel reg jok m s.
  Proof.
    induction n as [|n IH]; intros m s Hn Hm; [lia|]. destruct m as [|m]; [lia|].
    cbn [fs_read_loop_fuel]. destruct (decode_frame reg s) as [e c a|r c a] eqn:E; [reflexivity|].
    destruct (jok (d_type r) (d_body r)); [|reflexivity].
    pose proof (decode_rest_shorter s r c a E). rewrite (IH m (d_rest r)) by lia. reflexivity.
  Qed.

  Lemma fs_fuel_enough n : forall s, (length s < n)%nat -> snd (fs_read_loop_fuel reg jok n s) <> EndFuel.
  Proof.
    induction n as [|n IH]; intros s Hn; [lia|].
    cbn [fs_read_loop_fuel]. destruct (decode_frame reg s) as [e c a|r c a] eqn:E.
    - destruct e; cbn; congruence.
    - destruct (jok (d_type r) (d_body r)); [|cbn; congruence].
      pose proof (decode_rest_shorter s r c a E).
      specialize (IH (d_rest r) ltac:(lia)). destruct (fs_read_loop_fuel reg jok n (d_rest r)). exact IH.
  Qed.

  Theorem fs_read_loop_no_fuel_end s : snd (fs_read_loop reg jok s) <> EndFuel.
  Proof. apply fs_fuel_enough. lia. Qed.

  (* one unfolding of the loop, fuel hidden *)
  Lemma fs_read_loop_unfold s :
    fs_read_loop reg jok s =
    match decode_frame reg s with
    | DErr ErrEOF _ _ => ([], EndEOF)
    | DErr e _ _ => ([], EndFrame e)
    | DOk r _ _ =>
        if jok (d_type r) (d_body r) then
          let '(ms, e) := fs_read_loop reg jok (d_rest r) in ((d_type r, d_body r) :: ms, e)
        else ([], EndJson (d_type r))
    end.
  Proof.
    unfold fs_read_loop at 1. cbn [fs_read_loop_fuel].
    destruct (decode_frame reg s) as [e c a|r c a] eqn:E; [reflexivity|].
    destruct (jok (d_type r) (d_body r)); [|reflexivity].
    pose proof (decode_rest_shorter s r c a E). unfold fs_read_loop.
    rewrite (fs_fuel_irrelevant (length s) (S (length (d_rest r))) (d_rest r)) by lia. reflexivity.
  Qed.

  Lemma fs_not_good_end tail :
    ~ fs_starts_good tail -> fs_read_loop reg jok tail = ([], fs_end_of tail).
  Proof.
    intros Hbad. rewrite fs_read_loop_unfold. unfold fs_end_of.
    destruct (decode_frame reg tail) as [e c a|r c a] eqn:E; [destruct e; reflexivity|].
    destruct (jok (d_type r) (d_body r)) eqn:Ej; [|reflexivity].
    exfalso. apply Hbad. apply decode_sound in E. destruct E as (Hs & Hr & Hl & _).
    exists (d_type r), (d_body r), (d_rest r). unfold fs_good. cbn. auto.
  Qed.

  (* the dispatched sequence of a stream built from good frames followed by anything that does not
     start with a good frame is exactly those frames; the loop ends there, whatever follows *)
  Theorem fs_read_loop_prefix ms tail :
    Forall fs_good ms -> ~ fs_starts_good tail ->
    fs_read_loop reg jok (fs_enc_all ms ++ tail) = (ms, fs_end_of tail).
  Proof.
    intros Hg Hbad. induction Hg as [|[t b] ms (Hr & Hl & Hj) Hg IH]; cbn [fs_enc_all flat_map app].
    - now apply fs_not_good_end.
    - cbn [fst snd] in *. rewrite fs_read_loop_unfold, <- app_assoc.
      rewrite (frame_roundtrip reg t b _ Hr Hl). cbn [d_type d_body d_rest]. rewrite Hj.
      fold (fs_enc_all ms). rewrite IH. reflexivity.
  Qed.

  (* and every byte stream is of that shape, in exactly one way: the dispatched messages are the
     maximal prefix of well-formed frames *)
  Theorem fs_read_loop_maximal_prefix s :
    exists ms tail,
      s = fs_enc_all ms ++ tail /\ Forall fs_good ms /\ ~ fs_starts_good tail /\
      fs_read_loop reg jok s = (ms, fs_end_of tail) /\ fs_end_of tail <> EndFuel.
  Proof.
    assert (Hend : forall tail, fs_end_of tail <> EndFuel).
    { intros tail. unfold fs_end_of. destruct (decode_frame reg tail) as [[]| ]; congruence. }
    remember (length s) as n eqn:Hn. revert s Hn.
    induction n as [n IH] using lt_wf_ind. intros s Hn.
    destruct (decode_frame reg s) as [e c a|r c a] eqn:E.
    - exists [], s. assert (Hbad : ~ fs_starts_good s).
      { intros (t & b & rest & -> & Hr & Hl & _). cbn in Hr, Hl.
        rewrite (frame_roundtrip reg t b rest Hr Hl) in E. discriminate. }
      repeat split; [constructor|assumption|now apply fs_not_good_end|apply Hend].
    - destruct (jok (d_type r) (d_body r)) eqn:Ej.
      + pose proof (decode_rest_shorter s r c a E) as Hlen.
        destruct (IH (length (d_rest r)) ltac:(lia) (d_rest r) eq_refl) as (ms & tail & Hs & Hg & Hbad & Hl & He).
        exists ((d_type r, d_body r) :: ms), tail.
        pose proof E as E'. apply decode_sound in E'. destruct E' as (Hs' & Hr & Hlen' & _).
        repeat split; try assumption.
        * cbn [fs_enc_all flat_map fst snd]. fold (fs_enc_all ms). rewrite <- app_assoc, <- Hs. exact Hs'.
        * constructor; [unfold fs_good; cbn; auto|assumption].
        * rewrite fs_read_loop_unfold, E, Ej, Hl. reflexivity.
      + exists [], s. assert (Hbad : ~ fs_starts_good s).
        { intros (t & b & rest & -> & Hr & Hl & Hj). cbn in Hr, Hl, Hj.
          rewrite (frame_roundtrip reg t b rest Hr Hl) in E. injection E as <- _ _. cbn in Ej. congruence. }
        repeat split; [constructor|assumption|now apply fs_not_good_end|apply Hend].
  Qed.

  Variable jnull : byte -> bytes -> bool.

  (* any decode error ends THAT session only *)
  Theorem fs_stream_step_confined st conn rid s st' out :
    fs_stream_step reg jok jnull st conn rid s = (st', out) ->
    ~ In rid (map fst st') /\
    (forall x, In x st -> fst x <> rid -> In x st') /\
    (forall x, In x st' -> In x st) /\
    so_closed out = [conn] /\
    (so_read out, so_end out) = fs_read_loop reg jok s /\ so_end out <> EndFuel /\
    so_dispatched out = filter (fun m => negb (jnull (fst m) (snd m))) (so_read out).
  Proof.
    unfold fs_stream_step. pose proof (fs_read_loop_no_fuel_end s) as Hf.
    destruct (fs_read_loop reg jok s) as [ms e]. intros [= <- <-]. cbn in *.
    destruct (fs_del_spec rid st) as (H1 & H2 & H3). repeat split; assumption.
  Qed.
End Loop.

(** * Histories *)
Section Histories.
  Variable reg : byte -> bool.
  Variables tl tw tv : byte.
  Variable force : bool.
  Variable need : Z.
  Variable wsp : bytes.
  Variable jok jnull : byte -> bytes -> bool.

  Local Notation step := (fs_step reg tl tw tv force need wsp jok jnull).
  Local Notation run := (fs_run reg tl tw tv force need wsp jok jnull).

  (* events that legitimately concern session rid: the end of its own control channel, and a
     login that is ACCEPTED (credentials checked: C04) under the same run id (C12: replacement) *)
  Definition fs_touches (rid : bytes) (e : fs_event) : Prop :=
    match e with
    | EvStream _ r _ => r = rid
    | EvFirst ev => fe_handler ev = HAccept rid \/ fe_handler ev = HCrash   (* a crash concerns everybody *)
    end.

  Lemma fs_step_keeps st e st' closed x :
    step st e = Some (st', closed) -> In x st -> ~ fs_touches (fst x) e -> In x st'.
  Proof.
    unfold fs_step. destruct e as [ev|conn rid s]; cbn [fs_touches].
    - destruct (fs_first_step reg tl tw tv force need wsp st ev) as [[st1 out]|] eqn:E; [|discriminate].
      intros [= <- _] Hin Hnt.
      destruct (fs_first_step_state reg tl tw tv force need wsp st ev st1 out E)
        as [[-> _]|[(rid & Hh & -> & _)|(Hh & _)]]; [assumption| |exfalso; apply Hnt; now right].
      apply fs_ins_keeps_others; [assumption|]. intros Heq. apply Hnt. left. congruence.
    - destruct (fs_stream_step reg jok jnull st conn rid s) as [st1 out] eqn:E. intros [= <- _] Hin Hnt.
      apply (fs_stream_step_confined reg jok jnull st conn rid s st1 out E); [assumption|]. intros Heq. apply Hnt. congruence.
  Qed.

  (* whatever arrives on other connections, in any number and order, a session stays as it is *)
  Theorem fs_run_keeps_untouched es : forall st st' x,
    run st es = Some st' -> In x st -> (forall e, In e es -> ~ fs_touches (fst x) e) -> In x st'.
  Proof.
    induction es as [|e r IH]; intros st st' x; cbn [fs_run].
    - intros [= <-]. auto.
    -       destruct (step st e) as [[st1 closed]|] eqn:E; [|discriminate].
      intros Hr Hin Hnt. apply (IH st1 st' x Hr).
      + eapply fs_step_keeps; [exact E|exact Hin|apply Hnt; now left].
      + intros e' He'. apply Hnt. now right.
  Qed.

  (* a history made only of unexpected / malformed first messages leaves the server state untouched *)
  Theorem fs_run_bad_firsts evs st :
    Forall (fun ev => ~ fs_expected_first reg tl tw tv force need wsp ev) evs ->
    run st (map EvFirst evs) = Some st.
  Proof.
    intros H. induction H as [|ev r Hbad _ IH]; [reflexivity|].
    cbn [map fs_run fs_step].
    destruct (fs_bad_first_confined reg tl tw tv force need wsp st ev Hbad) as (out & -> & _). exact IH.
  Qed.
End Histories.
