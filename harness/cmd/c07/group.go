package main

// Part of driver httpauth: tcpmux load-balancing groups.  The real group.TCPMuxGroupCtl over the real
// tcpmux.HTTPConnectTCPMuxer; members with none / same / different credentials (and a different group key) join in
// every order, with and without a leave in between; then CONNECT requests with none / right / wrong / other
// credentials; observed: the result of every Listen, the answer to the CONNECT, and which member's listener accepted.

import (
	"bufio"
	"context"
	"errors"
	"fmt"
	"io"
	"net"
	"net/http"
	"strings"
	"sync"
	"time"

	"github.com/fatedier/frp/pkg/util/tcpmux"
	"github.com/fatedier/frp/pkg/util/vhost"
	"github.com/fatedier/frp/server/group"

	"verifharness/hx"
)

func init() { extraParts = append(extraParts, (*run).groupPart) }

type gmember struct {
	id              int
	name            string
	key, user, pass string
}

var gmembers = []gmember{
	{0, "open", "k", "", ""},
	{1, "alice", "k", "alice", "apw"},
	{2, "bob", "k", "bob", "bpw"},
	{3, "alice-twin", "k", "alice", "apw"},
	{4, "pass-only", "k", "", "apw"},
	{5, "alice-wrong-key", "k2", "alice", "apw"},
}

type gop struct {
	join  bool
	m     int
	res   int
	descr string
}

const gDomain, gGroup = "g.test", "grp"

func (m gmember) coq(s *symtab) string {
	return fmt.Sprintf("(mk_gm %d %s %s %s [] %s %s)", m.id, s.b(gGroup), s.b(m.key), s.b(gDomain), s.b(m.user), s.b(m.pass))
}

func groupScenarios() [][]gop {
	var out [][]gop
	n := len(gmembers)
	for a := 0; a < n; a++ {
		for b := 0; b < n; b++ {
			if a == b {
				continue
			}
			out = append(out, []gop{{join: true, m: a}, {join: true, m: b}})
			for c := 0; c < n; c++ {
				if c == a || c == b {
					continue
				}
				out = append(out, []gop{{join: true, m: a}, {join: true, m: b}, {join: true, m: c}})
				out = append(out, []gop{{join: true, m: a}, {join: true, m: b}, {join: false, m: a}, {join: true, m: c}})
			}
		}
	}
	return out
}

func (r *run) groupPart(_ []credKind) error {
	creds := []credKind{{"none", ""}, {"right-alice", basic("alice", "apw")}, {"wrong-pass", basic("alice", "WRONG")}, {"bob", basic("bob", "bpw")}}
	scen := groupScenarios()
	type result struct {
		cases []string
		fails [][3]string
		dist  []string
		err   error
	}
	results := make([]result, len(scen))
	parallel(len(scen), 12, func(si int) {
		ops := scen[si]
		res := &results[si]
		ln, err := net.Listen("tcp", "127.0.7.225:0")
		if err != nil {
			res.err = err
			return
		}
		mux, err := tcpmux.NewHTTPConnectTCPMuxer(ln, false, 5*time.Second)
		if err != nil {
			res.err = err
			return
		}
		defer mux.Close()
		ctl := group.NewTCPMuxGroupCtl(mux)
		arr := newArrivals()
		lns := map[int]net.Listener{}
		var wg sync.WaitGroup
		for i := range ops {
			op := &ops[i]
			m := gmembers[op.m]
			if !op.join {
				op.descr = "leave " + m.name
				if l, ok := lns[op.m]; ok {
					_ = l.Close()
					delete(lns, op.m)
				}
				continue
			}
			op.descr = fmt.Sprintf("join %s(user=%q pass=%q key=%q)", m.name, m.user, m.pass, m.key)
			l, err := ctl.Listen(context.Background(), "httpconnect", gGroup, m.key,
				vhost.RouteConfig{Domain: gDomain, Username: m.user, Password: m.pass})
			switch {
			case err == nil:
				op.res = 0
				lns[op.m] = l
				wg.Add(1)
				go func(id int) {
					defer wg.Done()
					for {
						c, err := l.Accept()
						if err != nil {
							return
						}
						go func() {
							defer c.Close()
							_ = c.SetDeadline(time.Now().Add(5 * time.Second))
							line, err := bufio.NewReader(c).ReadString('\n')
							if err != nil {
								return
							}
							arr.add(strings.TrimSpace(strings.TrimPrefix(line, "case ")), id)
							_, _ = io.WriteString(c, "HTTP/1.1 299 Backend\r\nContent-Length: 0\r\n\r\n")
						}()
					}
				}(m.id)
			case errors.Is(err, group.ErrGroupParamsInvalid):
				op.res = 1
			case errors.Is(err, group.ErrGroupAuthFailed):
				op.res = 2
			case errors.Is(err, vhost.ErrRouterConfigConflict):
				op.res = 3
			default:
				op.res = 9
			}
		}
		var opsCoq, resCoq, descr []string
		for _, op := range ops {
			if op.join {
				opsCoq = append(opsCoq, "GJoin "+gmembers[op.m].coq(r.sym))
			} else {
				opsCoq = append(opsCoq, fmt.Sprintf("GLeave %d", op.m))
			}
			resCoq = append(resCoq, fmt.Sprint(op.res))
			descr = append(descr, fmt.Sprintf("%s -> %d", op.descr, op.res))
		}
		history := strings.Join(descr, "; ")
		// members take connections in turn: several CONNECTs per credential kind, so that every member gets some
		for ci, ck := range creds {
			for rep := 0; rep < 2*len(lns)+1; rep++ {
				id := fmt.Sprintf("g%d-%d-%d", si, ci, rep)
				rq := mkReq("FConnect", "PH11", target{host: gDomain + ":443"}, "", ck.raw, rep%3)
				cls, ok200 := 0, false
				hr := rawDo(ln.Addr().String(), strings.Replace(rq.wire(id), "Connection: close\r\n", "", 1), "CONNECT",
					func(c net.Conn, br *bufio.Reader, first *http.Response) int {
						if first.StatusCode != 200 {
							return 0
						}
						_, _ = io.WriteString(c, "case "+id+"\n")
						resp, err := http.ReadResponse(br, &http.Request{Method: "CONNECT"})
						if err != nil {
							return 0
						}
						return resp.StatusCode
					})
				if hr.err != nil {
					res.err = hr.err
					return
				}
				switch {
				case hr.status == 200:
					ok200 = true
					switch hr.second {
					case 299:
						cls = 200
					case 0:
						cls = -200
					default:
						cls = hr.second
					}
				default:
					cls = hr.status
				}
				member := -1
				if got := arr.get(id); len(got) > 0 {
					member = got[0]
					mm := gmembers[member]
					if mm.user != "" {
						u, p, _ := parseBasicRef(rq.pauth)
						if u != mm.user || p != mm.pass {
							res.fails = append(res.fails, [3]string{"backend-reached-without-credentials:tcpmux-group",
								fmt.Sprintf("group member %s is configured with %q:%q; a CONNECT carrying Proxy-Authorization user=%q password=%q was accepted by its listener", mm.name, mm.user, mm.pass, u, p),
								fmt.Sprintf("history: %s; then %s", history, rq.String())})
						}
					}
				}
				res.cases = append(res.cases, fmt.Sprintf("CGrp %s %s %s %s %s (%d) (* %s; then CONNECT with Proxy-Authorization %q *)",
					hx.List(opsCoq), hx.List(resCoq), rq.coq(r.sym), hx.Z(int64(cls)), hx.Bool(ok200), member, history, ck.raw))
				res.dist = append(res.dist, fmt.Sprintf("group:cls-%d", cls))
			}
		}
		for _, l := range lns {
			_ = l.Close()
		}
		wg.Wait()
	})
	for _, res := range results {
		if res.err != nil {
			r.errs++
			r.fail("zz-driver-io:tcpmux-group", "the driver could not complete a group scenario: "+res.err.Error(), "")
			continue
		}
		for _, f := range res.fails {
			r.fail(f[0], f[1], f[2])
		}
		for i, c := range res.cases {
			r.addCase(c, true, "group:cases", res.dist[i])
		}
	}
	return nil
}

// ---- http load-balancing groups: the real group.HTTPGroupController over the routers of a real HTTPReverseProxy ----

func init() { extraParts = append(extraParts, (*run).httpGroupPart) }

func (r *run) httpGroupPart(_ []credKind) error {
	creds := []credKind{{"none", ""}, {"right-alice", basic("alice", "apw")}, {"wrong-pass", basic("alice", "WRONG")}, {"bob", basic("bob", "bpw")}}
	var scen [][]int
	for a := range gmembers {
		for b := range gmembers {
			if a != b {
				scen = append(scen, []int{a, b})
			}
		}
	}
	type result struct {
		cases []string
		fails [][3]string
		err   error
	}
	results := make([]result, len(scen))
	parallel(len(scen), 8, func(si int) {
		res := &results[si]
		routers := vhost.NewRouters()
		rp := vhost.NewHTTPReverseProxy(vhost.HTTPReverseProxyOptions{ResponseHeaderTimeoutS: 5}, routers)
		ctl := group.NewHTTPGroupController(routers)
		arr := newArrivals()
		var msCoq, resCoq, descr []string
		joined := 0
		for _, mi := range scen[si] {
			m := gmembers[mi]
			err := ctl.Register(m.name, gGroup, m.key, vhost.RouteConfig{Domain: gDomain, Username: m.user, Password: m.pass,
				CreateConnFn: func(string) (net.Conn, error) {
					c1, c2 := net.Pipe()
					go stubBackend(c2, m.id, arr)
					return c1, nil
				}})
			code := 9
			switch {
			case err == nil:
				code = 0
				joined++
			case errors.Is(err, group.ErrGroupParamsInvalid):
				code = 1
			case errors.Is(err, group.ErrGroupAuthFailed):
				code = 2
			case errors.Is(err, vhost.ErrRouterConfigConflict):
				code = 3
			}
			msCoq = append(msCoq, m.coq(r.sym))
			resCoq = append(resCoq, fmt.Sprint(code))
			descr = append(descr, fmt.Sprintf("register %s(user=%q pass=%q key=%q) -> %d", m.name, m.user, m.pass, m.key, code))
		}
		history := strings.Join(descr, "; ")
		ln, err := net.Listen("tcp", "127.0.7.227:0")
		if err != nil {
			res.err = err
			return
		}
		srv := &http.Server{Handler: rp}
		go func() { _ = srv.Serve(ln) }()
		defer srv.Close()
		for ci, ck := range creds {
			for rep := 0; rep < 2*joined+1; rep++ {
				id := fmt.Sprintf("hg%d-%d-%d", si, ci, rep)
				rq := mkReq("FOrigin", "PH11", target{host: gDomain, path: "/"}, ck.raw, "", rep%3)
				hr := rawDo(ln.Addr().String(), rq.wire(id), "GET", nil)
				if hr.err != nil {
					res.err = hr.err
					return
				}
				member := -1
				if got := arr.get(id); len(got) > 0 {
					member = got[0]
					mm := gmembers[member]
					if mm.user != "" || mm.pass != "" {
						u, p, _ := parseBasicRef(rq.auth)
						if u != mm.user || p != mm.pass {
							what := fmt.Sprintf("http group member %s is configured with %q:%q; a GET carrying Authorization user=%q password=%q was served by it", mm.name, mm.user, mm.pass, u, p)
							cs := fmt.Sprintf("history: %s; then %s", history, rq.String())
							res.fails = append(res.fails, [3]string{"backend-reached-without-credentials:http-group", what, cs})
						}
					}
				}
				res.cases = append(res.cases, fmt.Sprintf("CHGrp %s %s %s %d (%d) (* %s; then GET / with Authorization %q *)",
					hx.List(msCoq), hx.List(resCoq), rq.coq(r.sym), hr.status, member, history, ck.raw))
			}
		}
	})
	for _, res := range results {
		if res.err != nil {
			r.errs++
			r.fail("zz-driver-io:http-group", "the driver could not complete an http group scenario: "+res.err.Error(), "")
			continue
		}
		for _, f := range res.fails {
			r.fail(f[0], f[1], f[2])
		}
		for _, c := range res.cases {
			r.addCase(c, true, "http-group:cases")
		}
	}
	return nil
}
