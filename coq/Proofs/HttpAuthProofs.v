(* C07 — proofs about Model/HttpAuth.v *)
From FRP Require Import Model.HttpAuth Proofs.FrameProofs.
From Coq Require Import Lia.
Open Scope Z_scope.

(* ---- equality tests ---- *)
Lemma ha_bytes_eqb_eq a : forall b, bytes_eqb a b = true <-> a = b.
Proof.
  induction a as [|x a IH]; intros [|y b]; cbn; split; intros H; try reflexivity; try discriminate.
  - apply andb_true_iff in H. destruct H as [H1 H2]. apply Byte.byte_dec_bl in H1. apply IH in H2. now subst.
  - injection H as -> ->. apply andb_true_iff. split; [now apply Byte.byte_dec_lb|now apply IH].
Qed.

Lemma ha_bytes_eqb_refl a : bytes_eqb a a = true.
Proof. now apply ha_bytes_eqb_eq. Qed.

Lemma ha_bytes_eqb_neq a b : bytes_eqb a b = false <-> a <> b.
Proof.
  split; intros H.
  - intros E. apply ha_bytes_eqb_eq in E. congruence.
  - destruct (bytes_eqb a b) eqn:E; [|reflexivity]. apply ha_bytes_eqb_eq in E. contradiction.
Qed.

Lemma ha_Z_of_byte_inj x y : Z_of_byte x = Z_of_byte y -> x = y.
Proof. intros H. rewrite <- (byte_of_Z_of_byte x), <- (byte_of_Z_of_byte y). now rewrite H. Qed.

Lemma ha_is_empty_iff s : ha_is_empty s = true <-> s = [].
Proof. destruct s; cbn; split; intros; congruence. Qed.

Lemma ha_nonempty_false s : ha_nonempty s = false <-> s = [].
Proof. unfold ha_nonempty. destruct s; cbn; split; intros; congruence. Qed.

(* ---- subtle.ConstantTimeCompare decides equality ---- *)
Lemma ha_ct_acc_zero a : forall b v,
  length a = length b -> (ha_ct_acc a b v = 0 <-> v = 0 /\ a = b).
Proof.
  induction a as [|x a IH]; intros [|y b] v Hl; cbn in *; try discriminate.
  - split; [intros ->; auto|tauto].
  - injection Hl as Hl. rewrite (IH b _ Hl). rewrite Z.lor_eq_0_iff, Z.lxor_eq_0_iff. split.
    + intros [[-> Hxy] ->]. apply ha_Z_of_byte_inj in Hxy. now subst.
    + intros [-> E]. injection E as -> ->. auto.
Qed.

Lemma ha_ct_eq_iff a b : ha_ct_eq a b = true <-> a = b.
Proof.
  unfold ha_ct_eq, blen. destruct (Z.eqb_spec (Z.of_nat (length a)) (Z.of_nat (length b))) as [E|E].
  - apply Nat2Z.inj in E. rewrite Z.eqb_eq, (ha_ct_acc_zero a b 0 E). tauto.
  - split; [discriminate|]. intros ->. contradiction.
Qed.

Lemma ha_ct_eq_false a b : ha_ct_eq a b = false <-> a <> b.
Proof.
  split; intros H.
  - intros E. apply ha_ct_eq_iff in E. congruence.
  - destruct (ha_ct_eq a b) eqn:E; [|reflexivity]. apply ha_ct_eq_iff in E. contradiction.
Qed.

(* ---- the "configured" predicates ---- *)
Lemma ha_creds_none r : ha_creds r = None <-> rt_user r = [] /\ rt_pass r = [].
Proof.
  unfold ha_creds, ha_nonempty. destruct (rt_user r), (rt_pass r); cbn; split; intros H;
    try discriminate; try tauto; destruct H; discriminate.
Qed.

Lemma ha_creds_some r c : ha_creds r = Some c -> c = (rt_user r, rt_pass r).
Proof. unfold ha_creds. destruct (_ || _); congruence. Qed.

(* ================================================================================================ *)
Section Proofs.
  Variable get : bytes -> bytes -> bytes -> option ha_route.
  Variable canon : bytes -> bytes.

  Notation serve := (ha_serve_http get canon).
  Notation checked := (ha_serve_http_checked get canon).

  (* what CreateConnection consults is literally what CheckAuth consulted *)
  Lemma ha_forward_lookup_is_check_lookup rq :
    ha_get_vhost get (canon (ri_host (ha_inject rq))) (ri_url (ha_inject rq)) (ri_user (ha_inject rq)) = checked rq.
  Proof. reflexivity. Qed.

  Lemma ha_create_connection_checked rq :
    ha_create_connection get canon (ha_inject rq) =
    match checked rq with Some r => if rt_has_conn r then Some r else None | None => None end.
  Proof. reflexivity. Qed.

  Lemma ha_check_auth_checked rq :
    ha_check_auth get (canon (ha_req_host rq)) (rq_path rq) (ha_route_user_of rq)
                  (fst (ha_presented rq)) (snd (ha_presented rq)) =
    match checked rq with
    | Some r => match ha_creds r with
                | Some c => bytes_eqb (fst c) (fst (ha_presented rq)) && bytes_eqb (snd c) (snd (ha_presented rq))
                | None => true
                end
    | None => true
    end.
  Proof.
    unfold ha_check_auth, ha_serve_http_checked, ha_creds.
    destruct (ha_get_vhost _ _ _ _) as [r|]; [|reflexivity].
    destruct (ha_nonempty (rt_user r) || ha_nonempty (rt_pass r)); cbn; [|reflexivity].
    destruct (bytes_eqb (rt_user r) _), (bytes_eqb (rt_pass r) _); reflexivity.
  Qed.

  (* serve_http in terms of the single consulted route *)
  Lemma ha_serve_http_unfold rq :
    serve rq =
    if negb (ha_check_auth get (canon (ha_req_host rq)) (rq_path rq) (ha_route_user_of rq)
                           (fst (ha_presented rq)) (snd (ha_presented rq)))
    then OUnauthorized
    else match rq_form rq, rq_proto rq with
         | FConnect, PH2Stream => ONoHijack
         | _, _ => match ha_create_connection get canon (ha_inject rq) with
                   | Some r => OForward r | None => ONotFound end
         end.
  Proof.
    unfold ha_serve_http, ha_presented. destruct (negb _); [reflexivity|].
    destruct (rq_form rq), (rq_proto rq); reflexivity.
  Qed.

  Lemma ha_pair_eqb (c p : bytes * bytes) :
    bytes_eqb (fst c) (fst p) && bytes_eqb (snd c) (snd p) = true <-> c = p.
  Proof.
    destruct c, p; cbn. rewrite andb_true_iff, !ha_bytes_eqb_eq. split; [intros [-> ->]; reflexivity|].
    intros [= -> ->]. auto.
  Qed.

  Theorem ha_serve_http_forward_inv rq r :
    serve rq = OForward r ->
    checked rq = Some r /\ rt_has_conn r = true /\
    (ha_creds r = None \/ ha_creds r = Some (ha_presented rq)).
  Proof.
    rewrite ha_serve_http_unfold, ha_check_auth_checked, ha_create_connection_checked.
    destruct (checked rq) as [r0|] eqn:E.
    - destruct (ha_creds r0) as [c|] eqn:Ec.
      + destruct (bytes_eqb (fst c) _ && bytes_eqb (snd c) _) eqn:Eq; cbn; [|discriminate].
        apply ha_pair_eqb in Eq. subst c.
        destruct (rq_form rq), (rq_proto rq), (rt_has_conn r0) eqn:Eh; try discriminate;
          intros [= <-]; auto.
      + cbn. destruct (rq_form rq), (rq_proto rq), (rt_has_conn r0) eqn:Eh; try discriminate;
          intros [= <-]; auto.
    - cbn. destruct (rq_form rq), (rq_proto rq); discriminate.
  Qed.

  Theorem ha_serve_http_forward_implies_credentials rq r :
    serve rq = OForward r -> ha_creds r = None \/ ha_creds r = Some (ha_presented rq).
  Proof. intros H. apply ha_serve_http_forward_inv in H. tauto. Qed.

  Theorem ha_serve_http_check_route_is_forward_route rq r :
    serve rq = OForward r -> checked rq = Some r.
  Proof. intros H. apply ha_serve_http_forward_inv in H. tauto. Qed.

  Theorem ha_serve_http_wrong_credentials rq r c :
    checked rq = Some r -> ha_creds r = Some c -> ha_presented rq <> c ->
    serve rq = OUnauthorized.
  Proof.
    intros E Ec Hne. rewrite ha_serve_http_unfold, ha_check_auth_checked, E, Ec.
    destruct (bytes_eqb (fst c) _ && bytes_eqb (snd c) _) eqn:Eq; [|reflexivity].
    apply ha_pair_eqb in Eq. congruence.
  Qed.

  (* the model is not vacuous: authorised requests are forwarded, to the consulted route *)
  Theorem ha_serve_http_authorized_forwarded rq r :
    checked rq = Some r -> rt_has_conn r = true ->
    (ha_creds r = None \/ ha_creds r = Some (ha_presented rq)) ->
    ~ (rq_form rq = FConnect /\ rq_proto rq = PH2Stream) ->
    serve rq = OForward r.
  Proof.
    intros E Eh Hc Hn. rewrite ha_serve_http_unfold, ha_check_auth_checked, ha_create_connection_checked, E, Eh.
    assert (match ha_creds r with
            | Some c => bytes_eqb (fst c) (fst (ha_presented rq)) && bytes_eqb (snd c) (snd (ha_presented rq))
            | None => true end = true) as ->.
    { destruct Hc as [->| ->]; [reflexivity|]. now apply ha_pair_eqb. }
    cbn. destruct (rq_form rq), (rq_proto rq); try reflexivity. exfalso. apply Hn. auto.
  Qed.

  (* a request that selects no route passes the check and then fails to be forwarded *)
  Theorem ha_serve_http_no_route rq :
    checked rq = None -> serve rq = ONotFound \/ serve rq = ONoHijack.
  Proof.
    intros E. rewrite ha_serve_http_unfold, ha_check_auth_checked, ha_create_connection_checked, E. cbn.
    destruct (rq_form rq), (rq_proto rq); auto.
  Qed.

  (* every request of a connection — every stream of an h2c connection — is decided on its own *)
  Theorem ha_serve_conn_every_stream rqs i r :
    nth_error (ha_serve_conn get canon rqs) i = Some (OForward r) ->
    exists rq, nth_error rqs i = Some rq /\ checked rq = Some r /\
               (ha_creds r = None \/ ha_creds r = Some (ha_presented rq)).
  Proof.
    unfold ha_serve_conn. revert i. induction rqs as [|q rqs IH]; intros [|i]; cbn; try discriminate.
    - intros [= H]. exists q. apply ha_serve_http_forward_inv in H. tauto.
    - apply IH.
  Qed.

  Theorem ha_serve_conn_wrong_credentials rqs i rq r c :
    nth_error rqs i = Some rq -> checked rq = Some r -> ha_creds r = Some c -> ha_presented rq <> c ->
    nth_error (ha_serve_conn get canon rqs) i = Some OUnauthorized.
  Proof.
    intros Hn E Ec Hne. unfold ha_serve_conn. rewrite (map_nth_error _ _ _ Hn).
    f_equal. eapply ha_serve_http_wrong_credentials; eauto.
  Qed.

  (* ---------------------------------------------------------------------------------------------- *)
  (* Muxer.handle + tcpmux *)
  Notation mux := (ha_mux_handle get canon).
  Definition ha_mux_selected (rq : ha_req) : option ha_route :=
    ha_get_vhost get (lower (canon (ha_req_host rq))) [] (fst (ha_mux_presented rq)).

  Lemma ha_mux_unfold pt rq :
    mux pt rq =
    match rq_form rq with
    | FConnect =>
        match ha_mux_selected rq with
        | None => MNotFound
        | Some l =>
            match ha_mux_creds l with
            | Some c => if bytes_eqb (fst c) (fst (ha_mux_presented rq)) && bytes_eqb (snd c) (snd (ha_mux_presented rq))
                        then MForward l (negb pt) else MAuthFailed (negb pt)
            | None => MForward l (negb pt)
            end
        end
    | _ => MClose
    end.
  Proof.
    unfold ha_mux_handle, ha_mux_selected, ha_mux_presented, ha_mux_creds.
    destruct (rq_form rq); try reflexivity.
    destruct (ha_get_vhost _ _ _ _) as [l|]; [|reflexivity].
    destruct (ha_nonempty (rt_user l)); reflexivity.
  Qed.

  Theorem ha_mux_forward_inv pt rq l s :
    mux pt rq = MForward l s ->
    rq_form rq = FConnect /\ ha_mux_selected rq = Some l /\ s = negb pt /\
    (ha_mux_creds l = None \/ ha_mux_creds l = Some (ha_mux_presented rq)).
  Proof.
    rewrite ha_mux_unfold. destruct (rq_form rq); try discriminate.
    destruct (ha_mux_selected rq) as [l0|]; [|discriminate].
    destruct (ha_mux_creds l0) as [c|] eqn:Ec.
    - destruct (_ && _) eqn:Eq; [|discriminate]. apply ha_pair_eqb in Eq. subst c.
      intros [= <- <-]. auto.
    - intros [= <- <-]. auto.
  Qed.

  Theorem ha_mux_forward_implies_credentials pt rq l s :
    mux pt rq = MForward l s -> ha_mux_creds l = None \/ ha_mux_creds l = Some (ha_mux_presented rq).
  Proof. intros H. apply ha_mux_forward_inv in H. tauto. Qed.

  Theorem ha_mux_check_route_is_forward_route pt rq l s :
    mux pt rq = MForward l s -> ha_mux_selected rq = Some l.
  Proof. intros H. apply ha_mux_forward_inv in H. tauto. Qed.

  Theorem ha_mux_wrong_credentials pt rq l c :
    rq_form rq = FConnect -> ha_mux_selected rq = Some l -> ha_mux_creds l = Some c -> ha_mux_presented rq <> c ->
    mux pt rq = MAuthFailed (negb pt).
  Proof.
    intros Ef E Ec Hne. rewrite ha_mux_unfold, Ef, E, Ec.
    destruct (_ && _) eqn:Eq; [|reflexivity]. apply ha_pair_eqb in Eq. congruence.
  Qed.

  Theorem ha_mux_not_connect pt rq : rq_form rq <> FConnect -> mux pt rq = MClose.
  Proof. rewrite ha_mux_unfold. destruct (rq_form rq); congruence. Qed.
End Proofs.

(* ================================================================================================ *)
(* HTTPAuthMiddleware *)
Lemma ha_cfg_creds_none c : ha_cfg_creds c = None <-> cf_user c = [] /\ cf_pass c = [].
Proof.
  unfold ha_cfg_creds. destruct (cf_user c), (cf_pass c); cbn; split; intros H;
    try discriminate; try tauto; destruct H; discriminate.
Qed.

Theorem ha_middleware_next_iff c rq :
  ha_middleware c rq = MwNext <->
  ha_cfg_creds c = None \/ ha_parse_basic (rq_auth rq) = ha_cfg_creds c.
Proof.
  unfold ha_middleware, ha_cfg_creds.
  destruct (ha_is_empty (cf_user c) && ha_is_empty (cf_pass c)) eqn:Ee; cbn.
  - split; auto.
  - destruct (ha_parse_basic (rq_auth rq)) as [[u p]|]; cbn.
    + destruct (ha_ct_eq u (cf_user c)) eqn:Eu; cbn.
      * destruct (ha_ct_eq p (cf_pass c)) eqn:Ep.
        -- apply ha_ct_eq_iff in Eu, Ep. subst. split; auto.
        -- apply ha_ct_eq_false in Ep. split; [discriminate|]. intros [H|[= _ H]]; [discriminate|contradiction].
      * apply ha_ct_eq_false in Eu. split; [discriminate|]. intros [H|[= H _]]; [discriminate|contradiction].
    + split; [discriminate|]. intros [H|H]; discriminate.
Qed.

Theorem ha_middleware_forward_implies_credentials c rq :
  ha_middleware c rq = MwNext -> ha_cfg_creds c = None \/ ha_parse_basic (rq_auth rq) = ha_cfg_creds c.
Proof. apply ha_middleware_next_iff. Qed.

Theorem ha_middleware_wrong_credentials c rq x :
  ha_cfg_creds c = Some x -> ha_parse_basic (rq_auth rq) <> Some x -> ha_middleware c rq = MwUnauthorized.
Proof.
  intros Ec Hne. destruct (ha_middleware c rq) eqn:E; [|reflexivity].
  apply ha_middleware_next_iff in E. destruct E as [E|E]; congruence.
Qed.

(* ================================================================================================ *)
(* http_proxy plugin *)
Theorem ha_http_proxy_auth_iff c rq :
  ha_http_proxy_auth c rq = true <->
  ha_cfg_creds c = None \/ ha_http_proxy_presented rq = ha_cfg_creds c.
Proof.
  unfold ha_http_proxy_auth, ha_http_proxy_presented, ha_cfg_creds.
  destruct (ha_is_empty (cf_user c) && ha_is_empty (cf_pass c)) eqn:Ee.
  - split; auto.
  - destruct (rq_pauth rq) as [v|]; [|split; [discriminate|intros [H|H]; discriminate]].
    destruct (hv_space v); cbn; [|split; [discriminate|intros [H|H]; discriminate]].
    destruct (hv_decoded v) as [b|]; [|split; [discriminate|intros [H|H]; discriminate]].
    destruct (ha_cut_colon b) as [[u p]|]; [|split; [discriminate|intros [H|H]; discriminate]].
    destruct (ha_ct_eq u (cf_user c)) eqn:Eu; cbn.
    + destruct (ha_ct_eq p (cf_pass c)) eqn:Ep; cbn.
      * apply ha_ct_eq_iff in Eu, Ep. subst. split; auto.
      * apply ha_ct_eq_false in Ep. split; [discriminate|]. intros [H|[= _ H]]; [discriminate|contradiction].
    + apply ha_ct_eq_false in Eu. split; [discriminate|]. intros [H|[= H _]]; [discriminate|contradiction].
Qed.

Theorem ha_http_proxy_forward_implies_credentials c rq :
  ha_http_proxy c rq = HpProxy -> ha_cfg_creds c = None \/ ha_http_proxy_presented rq = ha_cfg_creds c.
Proof.
  unfold ha_http_proxy. destruct (ha_http_proxy_auth c rq) eqn:E; [|discriminate].
  intros _. now apply ha_http_proxy_auth_iff.
Qed.

Theorem ha_http_proxy_wrong_credentials c rq x :
  ha_cfg_creds c = Some x -> ha_http_proxy_presented rq <> Some x ->
  ha_http_proxy c rq = HpChallenge (match rq_form rq with FConnect => true | _ => false end).
Proof.
  intros Ec Hne. unfold ha_http_proxy. destruct (ha_http_proxy_auth c rq) eqn:E; [|reflexivity].
  apply ha_http_proxy_auth_iff in E. destruct E as [E|E]; congruence.
Qed.

Theorem ha_http_proxy_via_forward_implies_credentials e c rq :
  ha_http_proxy_via e c rq = HpProxy -> ha_cfg_creds c = None \/ ha_http_proxy_presented rq = ha_cfg_creds c.
Proof.
  unfold ha_http_proxy_via. destruct e; destruct (ha_http_proxy_auth c rq) eqn:E; try discriminate;
    intros _; now apply ha_http_proxy_auth_iff.
Qed.

Theorem ha_http_proxy_via_wrong_credentials e c rq x :
  ha_cfg_creds c = Some x -> ha_http_proxy_presented rq <> Some x ->
  exists close, ha_http_proxy_via e c rq = HpChallenge close.
Proof.
  intros Ec Hne. unfold ha_http_proxy_via.
  destruct (ha_http_proxy_auth c rq) eqn:E.
  - apply ha_http_proxy_auth_iff in E. destruct E as [E|E]; congruence.
  - destruct e; eauto.
Qed.

Lemma ha_http_proxy_rest_nth c rqs : forall i,
  nth_error (ha_http_proxy_rest c rqs) i = option_map (ha_http_proxy_via HpServeHTTP c) (nth_error rqs i).
Proof. induction rqs as [|q t IH]; intros [|i]; cbn; auto. Qed.

(* every request of a connection, whichever entry point takes it *)
Theorem ha_http_proxy_conn_every_request sniff c rqs i :
  nth_error (ha_http_proxy_conn sniff c rqs) i = Some HpProxy ->
  exists rq, nth_error rqs i = Some rq /\
             (ha_cfg_creds c = None \/ ha_http_proxy_presented rq = ha_cfg_creds c).
Proof.
  destruct rqs as [|q t]; [destruct i; discriminate|]. destruct i as [|i]; cbn.
  - intros [= H]. exists q. split; [reflexivity|]. eapply ha_http_proxy_via_forward_implies_credentials; eauto.
  - rewrite ha_http_proxy_rest_nth. destruct (nth_error t i) as [rq|]; [|discriminate]. cbn [option_map].
    intros [= H]. exists rq. split; [reflexivity|].
    exact (ha_http_proxy_via_forward_implies_credentials HpServeHTTP c rq H).
Qed.

(* ================================================================================================ *)
(* socks5 plugin *)
Theorem ha_socks5_granted_inv c rq m :
  ha_socks5 c rq = S5Granted m ->
  (ha_s5_creds c = None /\ m = 0) \/ (ha_s5_creds c = Some (s5_user rq, s5_pass rq) /\ m = 2).
Proof.
  unfold ha_socks5, ha_s5_creds.
  destruct (ha_nonempty (cf_user c) || ha_nonempty (cf_pass c)).
  - destruct (find _ _); [|discriminate]. destruct (s5_ver rq =? 1); cbn; [|discriminate].
    destruct (bytes_eqb (s5_user rq) (cf_user c)) eqn:Eu; cbn; [|discriminate].
    destruct (bytes_eqb (s5_pass rq) (cf_pass c)) eqn:Ep; [|discriminate].
    apply ha_bytes_eqb_eq in Eu, Ep. intros [= <-]. right. now rewrite Eu, Ep.
  - destruct (find _ _); [|discriminate]. intros [= <-]. auto.
Qed.

Theorem ha_socks5_wrong_credentials c rq x :
  ha_s5_creds c = Some x -> (s5_user rq, s5_pass rq) <> x ->
  ha_socks5 c rq = S5NoAcceptable \/ ha_socks5 c rq = S5BadVersion \/ ha_socks5 c rq = S5AuthFailed.
Proof.
  intros Ec Hne. destruct (ha_socks5 c rq) eqn:E; auto.
  apply ha_socks5_granted_inv in E. destruct E as [[E _]|[E _]]; congruence.
Qed.

(* ================================================================================================ *)
(* gorilla/mux route tables *)
Lemma ha_web_match_in en rs m path : forall s r s',
  ha_web_match en rs m path s = (Some r, s') -> In r rs.
Proof.
  induction rs as [|x rs IH]; cbn; intros s r s'; [discriminate|].
  destruct (_ && ha_pat_match (wr_pat x) path).
  - destruct (ha_method_ok (wr_methods x) m).
    + intros [= <- _]. now left.
    + intros H. right. eapply IH; eauto.
  - intros H. right. eapply IH; eauto.
Qed.

Definition ha_starts_with (p : string) (s : string) : bool := is_prefix (ha_str_bytes p) (ha_str_bytes s).

(* the only route the code serves without credentials on purpose: the health probe.  (The /debug/pprof/ family
   registered under webServer.pprofEnable used to sit on the bare router; since fix 0f1c1cc it hangs off a
   sub-router that uses the middleware and is therefore not an exception any more.) *)
Definition ha_declared_public (r : ha_wroute) : bool :=
  match wr_pat r, wr_cond r with
  | PExact "/healthz", CAlways => true
  | _, _ => false
  end.

Definition ha_pat_known (p : ha_pat) : bool := match p with PUnknownPat _ => false | _ => true end.

Definition ha_stmt_ok (s : ha_wstmt) : bool :=
  match s with
  | WRoute r => ha_pat_known (wr_pat r) && (wr_mw r || ha_declared_public r)
  | WUnknown _ _ => false
  end.

Definition ha_routes_guarded (l : list ha_wstmt) : bool :=
  match l with [] => false | _ => forallb ha_stmt_ok l end.     (* an empty table means the translator found nothing *)

Lemma ha_routes_guarded_sound l :
  ha_routes_guarded l = true ->
  l <> [] /\
  (forall s, In s l -> exists r, s = WRoute r) /\
  (forall r, In r (ha_routes_of l) -> wr_mw r = true \/ ha_declared_public r = true).
Proof.
  unfold ha_routes_guarded. destruct l as [|s0 l0]; [discriminate|]. set (l := s0 :: l0). intros H.
  rewrite forallb_forall in H. split; [discriminate|]. split.
  - intros s Hs. specialize (H s Hs). destruct s; [eauto|discriminate].
  - intros r Hr. unfold ha_routes_of in Hr. apply in_flat_map in Hr. destruct Hr as [s [Hs Hr]].
    specialize (H s Hs). destruct s as [r'|]; [|contradiction]. destruct Hr as [<-|[]].
    cbn in H. apply andb_true_iff in H. destruct H as [_ H]. now apply orb_true_iff in H.
Qed.

(* the three tables of today: dashboard, admin API, web server *)
Lemma ha_api_routes_guarded_sound d a w :
  ha_routes_guarded (d ++ a ++ w) = true -> ha_routes_guarded d = true -> ha_routes_guarded a = true ->
  (forall s, In s (d ++ a ++ w) -> exists r, s = WRoute r) /\
  (forall r, In r (ha_routes_of (d ++ a ++ w)) -> wr_mw r = true \/ ha_declared_public r = true) /\
  d <> [] /\ a <> [].
Proof.
  intros H Hd Ha. apply ha_routes_guarded_sound in H, Hd, Ha. tauto.
Qed.

(* whatever the flags, the configuration and the request: a handler of a guarded table runs only for a request
   with the configured credentials, unless the route is one of the declared public ones *)
Theorem ha_web_served_implies_credentials l en c rq p g :
  ha_routes_guarded l = true ->
  ha_web_serve en (ha_routes_of l) c rq = WServed p g ->
  (g = true /\ (ha_cfg_creds c = None \/ ha_parse_basic (rq_auth rq) = ha_cfg_creds c)) \/
  (g = false /\ exists r, In r (ha_routes_of l) /\ wr_pat r = p /\ ha_declared_public r = true).
Proof.
  intros Hg. apply ha_routes_guarded_sound in Hg. destruct Hg as [_ [_ Hg]].
  unfold ha_web_serve. destruct (ha_web_match _ _ _ _ _) as [[r|] s] eqn:E.
  - apply ha_web_match_in in E. destruct (wr_mw r) eqn:Em.
    + destruct (ha_middleware c rq) eqn:Emw; [|discriminate]. intros [= <- <-]. left. split; [reflexivity|].
      now apply ha_middleware_next_iff.
    + intros [= <- <-]. right. split; [reflexivity|]. exists r. destruct (Hg r E) as [H|H]; [congruence|auto].
  - destruct s; discriminate.
Qed.

Theorem ha_web_wrong_credentials l en c rq x :
  ha_routes_guarded l = true ->
  ha_cfg_creds c = Some x -> ha_parse_basic (rq_auth rq) <> Some x ->
  match ha_web_serve en (ha_routes_of l) c rq with
  | WServed p g => g = false /\ exists r, In r (ha_routes_of l) /\ wr_pat r = p /\ ha_declared_public r = true
  | _ => True
  end.
Proof.
  intros Hg Ec Hne. destruct (ha_web_serve en (ha_routes_of l) c rq) eqn:E; auto.
  apply (ha_web_served_implies_credentials l en c rq path guarded Hg) in E.
  destruct E as [[_ [E|E]]|[-> E]]; [congruence|congruence|auto].
Qed.

(* static_file: its one route is on a router that uses the middleware *)
Theorem ha_static_file_served_implies_credentials prefix en c rq p g :
  ha_web_serve en (ha_static_file_routes prefix) c rq = WServed p g ->
  ha_cfg_creds c = None \/ ha_parse_basic (rq_auth rq) = ha_cfg_creds c.
Proof.
  unfold ha_web_serve. destruct (ha_web_match _ _ _ _ _) as [[r|] s] eqn:E.
  - apply ha_web_match_in in E. destruct E as [<-|[]]. cbn.
    destruct (ha_middleware c rq) eqn:Emw; [|discriminate]. intros _. now apply ha_middleware_next_iff.
  - destruct s; discriminate.
Qed.

Theorem ha_static_file_wrong_credentials prefix en c rq x :
  ha_cfg_creds c = Some x -> ha_parse_basic (rq_auth rq) <> Some x ->
  forall p g, ha_web_serve en (ha_static_file_routes prefix) c rq <> WServed p g.
Proof.
  intros Ec Hne p g E. apply ha_static_file_served_implies_credentials in E. destruct E; congruence.
Qed.

(* ================================================================================================ *)
(* the list-based Routers.Get returns a route of the table, registered for that host and user, whose
   location is a prefix of the path *)
Lemma ha_insert_desc_in r l x : In x (ha_insert_desc r l) <-> x = r \/ In x l.
Proof.
  induction l as [|y l IH]; cbn; [intuition|].
  destruct (bytes_ltb _ _); cbn; [rewrite IH|]; intuition.
Qed.

Lemma ha_sort_desc_in l x : In x (ha_sort_desc l) <-> In x l.
Proof.
  induction l as [|y l IH]; cbn; [tauto|]. rewrite ha_insert_desc_in, IH. intuition.
Qed.

Theorem ha_tbl_get_sound tbl host path user r :
  ha_tbl_get tbl host path user = Some r ->
  In r tbl /\ lower (rt_domain r) = lower host /\ rt_by_user r = user /\ is_prefix (rt_location r) path = true.
Proof.
  unfold ha_tbl_get. intros H. apply find_some in H. destruct H as [Hin Hp].
  apply ha_sort_desc_in, filter_In in Hin. destruct Hin as [Hin Hf].
  apply andb_true_iff in Hf. destruct Hf as [Hd Hu]. apply ha_bytes_eqb_eq in Hd, Hu. auto.
Qed.

(* ================================================================================================ *)
(* tcpmux load-balancing groups *)
From FRP Require Import Model.HttpAuthGroup.

(* every member of a group was configured with exactly the credentials of the group's muxer listener *)
Definition ha_grp_inv (st : ha_gstate) : Prop :=
  forall g m, In g st -> In m (g_members g) ->
              gm_user m = rt_user (g_route g) /\ gm_pass m = rt_pass (g_route g).

Lemma ha_grp_inv_nil : ha_grp_inv [].
Proof. intros g m []. Qed.

Lemma ha_grp_join_existing_inv g m g' r :
  (forall x, In x (g_members g) -> gm_user x = rt_user (g_route g) /\ gm_pass x = rt_pass (g_route g)) ->
  ha_grp_join_existing g m = (g', r) ->
  g_route g' = g_route g /\
  (forall x, In x (g_members g') -> gm_user x = rt_user (g_route g) /\ gm_pass x = rt_pass (g_route g)).
Proof.
  intros H. unfold ha_grp_join_existing.
  destruct (bytes_eqb (rt_domain (g_route g)) (gm_domain m)); cbn; [|intros [= <- _]; auto].
  destruct (bytes_eqb (rt_by_user (g_route g)) (gm_by_user m)); cbn; [|intros [= <- _]; auto].
  destruct (bytes_eqb (rt_user (g_route g)) (gm_user m)) eqn:Eu; cbn; [|intros [= <- _]; auto].
  destruct (bytes_eqb (rt_pass (g_route g)) (gm_pass m)) eqn:Ep; cbn; [|intros [= <- _]; auto].
  destruct (bytes_eqb (g_key g) (gm_key m)); cbn; intros [= <- _]; auto.
  cbn. split; [reflexivity|]. intros x Hx. apply in_app_or in Hx. destruct Hx as [Hx|[<-|[]]]; [auto|].
  apply ha_bytes_eqb_eq in Eu, Ep. auto.
Qed.

Lemma ha_grp_join_in_inv st : forall m st' r,
  ha_grp_inv st -> ha_grp_join_in st m = Some (st', r) -> ha_grp_inv st'.
Proof.
  induction st as [|g t IH]; cbn; intros m st' r Hinv; [discriminate|].
  destruct (bytes_eqb (g_name g) (gm_group m)).
  - destruct (ha_grp_join_existing g m) as [g' r'] eqn:E. intros [= <- _].
    apply ha_grp_join_existing_inv in E; [|intros x Hx; apply (Hinv g x); cbn; auto].
    destruct E as [Er Em]. intros g0 m0 [<-|Hg] Hm; [rewrite Er; auto|]. apply (Hinv g0 m0); cbn; auto.
  - destruct (ha_grp_join_in t m) as [[t' r']|] eqn:E; [|discriminate]. intros [= <- _].
    assert (ha_grp_inv t') as Ht.
    { eapply IH; [|exact E]. intros g0 m0 Hg Hm. apply (Hinv g0 m0); cbn; auto. }
    intros g0 m0 [<-|Hg] Hm; [apply (Hinv g m0); cbn; auto|apply (Ht g0 m0); auto].
Qed.

Lemma ha_grp_step_inv st op : ha_grp_inv st -> ha_grp_inv (fst (ha_grp_step st op)).
Proof.
  intros Hinv. destruct op as [m|id]; cbn.
  - unfold ha_grp_join. destruct (ha_grp_join_in st m) as [[st' r]|] eqn:E.
    + cbn. eapply ha_grp_join_in_inv; eauto.
    + destruct (ha_grp_conflict st m); cbn; [assumption|].
      intros g0 m0 Hg Hm. apply in_app_or in Hg. destruct Hg as [Hg|[<-|[]]]; [apply (Hinv g0 m0); auto|].
      cbn in Hm. destruct Hm as [<-|[]]. cbn. auto.
  - unfold ha_grp_leave. intros g0 m0 Hg Hm. apply filter_In in Hg. destruct Hg as [Hg _].
    apply in_map_iff in Hg. destruct Hg as [g [<- Hg]]. cbn in *. apply filter_In in Hm. destruct Hm as [Hm _].
    apply (Hinv g m0); auto.
Qed.

Lemma ha_grp_run_inv ops : forall st, ha_grp_inv st -> ha_grp_inv (fst (ha_grp_run st ops)).
Proof.
  induction ops as [|op t IH]; intros st Hinv; cbn; [assumption|].
  pose proof (ha_grp_step_inv st op Hinv) as H1. destruct (ha_grp_step st op) as [st1 r]. cbn in H1.
  specialize (IH st1 H1). destruct (ha_grp_run st1 t) as [st2 rs]. exact IH.
Qed.

Lemma ha_route_eqb_eq a b : ha_route_eqb a b = true -> a = b.
Proof.
  unfold ha_route_eqb. rewrite !andb_true_iff. intros [[[[[[H1 H2] H3] H4] H5] H6] H7].
  apply Z.eqb_eq in H1. apply ha_bytes_eqb_eq in H2, H3, H4, H5, H6. apply Bool.eqb_prop in H7.
  destruct a, b; cbn in *; subst; reflexivity.
Qed.

(* for every history of joins and leaves, in every order: a member that receives a connection was configured with no
   user name, or the CONNECT presented exactly the member's user name and password *)
Theorem ha_grp_member_receives_only_with_credentials canon ops pt rq chosen m :
  ha_grp_deliver canon (fst (ha_grp_run [] ops)) pt rq chosen = Some m ->
  ha_member_creds m = None \/ ha_member_creds m = Some (ha_mux_presented rq).
Proof.
  pose proof (ha_grp_run_inv ops [] ha_grp_inv_nil) as Hinv. set (st := fst (ha_grp_run [] ops)) in *.
  unfold ha_grp_deliver. destruct (ha_mux_handle _ _ _ _) as [| |s|l s] eqn:E; try discriminate.
  destruct (find _ st) as [g|] eqn:Eg; [|discriminate]. intros Hm.
  apply find_some in Eg. destruct Eg as [Hg Heq]. apply ha_route_eqb_eq in Heq.
  apply find_some in Hm. destruct Hm as [Hm _].
  destruct (Hinv g m Hg Hm) as [Hu Hp].
  apply ha_mux_forward_implies_credentials in E. unfold ha_mux_creds in E. unfold ha_member_creds.
  rewrite Hu, Hp, Heq. exact E.
Qed.

(* a member configured differently from the group it asks to join is refused *)
Theorem ha_grp_join_other_credentials_refused g m :
  (gm_user m, gm_pass m) <> (rt_user (g_route g), rt_pass (g_route g)) ->
  ha_grp_join_existing g m = (g, 1).
Proof.
  intros Hne. unfold ha_grp_join_existing.
  destruct (bytes_eqb (rt_user (g_route g)) (gm_user m)) eqn:Eu;
    destruct (bytes_eqb (rt_pass (g_route g)) (gm_pass m)) eqn:Ep;
    try (now rewrite ?orb_true_r; cbn; rewrite ?orb_true_r).
  apply ha_bytes_eqb_eq in Eu, Ep. exfalso. apply Hne. now rewrite Eu, Ep.
Qed.

(* ================================================================================================ *)
(* routes of a proxy: construction sites (translator tables) and the model of Run *)
From FRP Require Import Model.HttpAuthSites.

Definition ha_dkind_known (d : ha_dkind) : bool := match d with DUnknownDomain _ => false | _ => true end.
Definition ha_dkind_eqb (a b : ha_dkind) : bool :=
  match a, b with DCustom, DCustom => true | DSubdomain, DSubdomain => true | _, _ => false end.

Definition ha_site_ok (s : ha_site) : bool :=
  ha_dkind_known (rs_domain s) &&
  String.eqb (rs_user s) "pxy.cfg.HTTPUser" && String.eqb (rs_pass s) "pxy.cfg.HTTPPassword" &&
  String.eqb (rs_byuser s) "pxy.cfg.RouteByHTTPUser".

Definition ha_site_stmt_ok (x : ha_site_stmt) : bool :=
  match x with SSite s => ha_site_ok s | SUnknownSite _ _ => false end.

Definition ha_sites_of (l : list ha_site_stmt) : list ha_site :=
  flat_map (fun x => match x with SSite s => [s] | SUnknownSite _ _ => [] end) l.

Definition ha_site_covers (l : list ha_site_stmt) (proxy : string) (d : ha_dkind) (grouped : bool) : bool :=
  existsb (fun s => String.eqb (rs_proxy s) proxy && ha_dkind_eqb (rs_domain s) d && Bool.eqb (rs_grouped s) grouped)
          (ha_sites_of l).

(* every construction site carries the proxy's credentials, and all eight kinds of site exist *)
Definition ha_sites_ok (l : list ha_site_stmt) : bool :=
  forallb ha_site_stmt_ok l &&
  forallb (fun p => forallb (fun d => forallb (fun g => ha_site_covers l p d g) [true; false]) [DCustom; DSubdomain])
          ["http"%string; "tcpmux"%string].

Lemma ha_sites_ok_sound l :
  ha_sites_ok l = true ->
  (forall x, In x l -> exists s, x = SSite s) /\
  (forall s, In s (ha_sites_of l) ->
     rs_user s = "pxy.cfg.HTTPUser"%string /\ rs_pass s = "pxy.cfg.HTTPPassword"%string /\
     rs_byuser s = "pxy.cfg.RouteByHTTPUser"%string /\ ha_dkind_known (rs_domain s) = true) /\
  (forall p d g, In p ["http"%string; "tcpmux"%string] -> In d [DCustom; DSubdomain] ->
     exists s, In s (ha_sites_of l) /\ rs_proxy s = p /\ ha_dkind_eqb (rs_domain s) d = true /\ rs_grouped s = g).
Proof.
  unfold ha_sites_ok. rewrite andb_true_iff. intros [H1 H2]. rewrite forallb_forall in H1. split; [|split].
  - intros x Hx. specialize (H1 x Hx). destruct x; [eauto|discriminate].
  - intros s Hs. unfold ha_sites_of in Hs. apply in_flat_map in Hs. destruct Hs as [x [Hx Hs]].
    specialize (H1 x Hx). destruct x as [s'|]; [|contradiction]. destruct Hs as [<-|[]].
    cbn in H1. unfold ha_site_ok in H1. rewrite !andb_true_iff in H1. destruct H1 as [[[Hd Hu] Hp] Hb].
    apply String.eqb_eq in Hu, Hp, Hb. auto.
  - intros p d g Hp Hd. rewrite forallb_forall in H2. specialize (H2 p Hp).
    rewrite forallb_forall in H2. specialize (H2 d Hd). rewrite forallb_forall in H2.
    assert (In g [true; false]) as Hg by (destruct g; cbn; auto). specialize (H2 g Hg).
    unfold ha_site_covers in H2. apply existsb_exists in H2. destruct H2 as [s [Hs Hc]].
    rewrite !andb_true_iff in Hc. destruct Hc as [[Hc1 Hc2] Hc3].
    apply String.eqb_eq in Hc1. apply Bool.eqb_prop in Hc3. eauto.
Qed.

(* a group must compare at least these fields of a joiner with its own, and nothing the translator could not read *)
Definition ha_group_compares_credentials (c : ha_group_compared) : bool :=
  existsb (String.eqb "Username") c && existsb (String.eqb "Password") c &&
  existsb (String.eqb "Domain") c && existsb (String.eqb "RouteByHTTPUser") c &&
  forallb (fun s => match s with String "?" _ => false | _ => true end) c.

Lemma ha_group_compares_credentials_sound c :
  ha_group_compares_credentials c = true ->
  In "Username"%string c /\ In "Password"%string c /\ In "Domain"%string c /\ In "RouteByHTTPUser"%string c.
Proof.
  unfold ha_group_compares_credentials. rewrite !andb_true_iff. intros [[[[H1 H2] H3] H4] _].
  repeat split; match goal with H : existsb _ c = true |- In ?s c =>
    idtac end.
  - apply existsb_exists in H1. destruct H1 as [x [Hx E]]. apply String.eqb_eq in E. now subst.
  - apply existsb_exists in H2. destruct H2 as [x [Hx E]]. apply String.eqb_eq in E. now subst.
  - apply existsb_exists in H3. destruct H3 as [x [Hx E]]. apply String.eqb_eq in E. now subst.
  - apply existsb_exists in H4. destruct H4 as [x [Hx E]]. apply String.eqb_eq in E. now subst.
Qed.

(* the model of Run: every route registered for a proxy, on every host (custom domains and sub-domain) and every
   location, carries the proxy's user, password and routing user *)
Theorem ha_px_routes_carry_credentials sdh p r :
  In r (ha_px_routes sdh p) ->
  rt_user r = px_user p /\ rt_pass r = px_pass p /\ rt_by_user r = px_by_user p /\ rt_id r = px_id p /\
  In (rt_domain r) (ha_px_hosts sdh p).
Proof.
  unfold ha_px_routes. intros H. apply in_flat_map in H. destruct H as [d [Hd H]].
  apply in_map_iff in H. destruct H as [loc [<- _]]. cbn. auto.
Qed.

Theorem ha_px_subdomain_route_exists sdh p :
  px_subdomain p <> [] -> exists r, In r (ha_px_routes sdh p) /\ rt_domain r = px_subdomain p ++ ha_dot :: sdh /\
                                    rt_user r = px_user p /\ rt_pass r = px_pass p.
Proof.
  intros Hne. unfold ha_px_routes, ha_px_hosts.
  assert (ha_nonempty (px_subdomain p) = true) as ->.
  { unfold ha_nonempty. destruct (px_subdomain p); [congruence|reflexivity]. }
  assert (exists loc, In loc (ha_px_locations p)) as [loc Hloc].
  { unfold ha_px_locations. destruct (px_kind p =? 0); [|exists []; cbn; auto].
    destruct (px_locations p) as [|x t]; [exists []|exists x]; cbn; auto. }
  eexists. split.
  - apply in_flat_map. exists (px_subdomain p ++ ha_dot :: sdh). split; [apply in_or_app; right; cbn; auto|].
    apply in_map_iff. exists loc. split; [reflexivity|exact Hloc].
  - cbn. auto.
Qed.

(* ================================================================================================ *)
(* http load-balancing groups: the clause fails for members whose credentials differ from the first member's *)
Definition hg_b (s : string) : bytes := ha_str_bytes s.
Definition hg_open : ha_gmember :=
  {| gm_id := 0; gm_group := hg_b "g"; gm_key := hg_b "k"; gm_domain := hg_b "h.test"; gm_by_user := [];
     gm_user := []; gm_pass := [] |}.
Definition hg_locked : ha_gmember :=
  {| gm_id := 1; gm_group := hg_b "g"; gm_key := hg_b "k"; gm_domain := hg_b "h.test"; gm_by_user := [];
     gm_user := hg_b "alice"; gm_pass := hg_b "apw" |}.
Definition hg_rq : ha_req :=
  {| rq_form := FOrigin; rq_proto := PH11; rq_method := hg_b "GET"; rq_url_host := []; rq_hdr_host := hg_b "h.test";
     rq_path := hg_b "/"; rq_auth := None; rq_pauth := None; rq_casing := 0 |}.

(* witness: an unprotected proxy opens the group, a protected one joins and is admitted; a request without any
   credentials is forwarded and the protected member is the one that serves it *)
Theorem ha_hgrp_member_credentials_refuted :
  exists ms rq chosen m c,
    ha_hgrp_deliver ha_canon_or_self (fst (ha_hgrp_run false [] ms)) rq chosen = Some m /\
    snd (ha_hgrp_run false [] ms) = [0; 0] /\
    ha_hmember_creds m = Some c /\ ha_presented rq <> c.
Proof.
  exists [hg_open; hg_locked], hg_rq, 1, hg_locked, (hg_b "alice", hg_b "apw").
  repeat split; try (vm_compute; reflexivity). vm_compute. discriminate.
Qed.

(* the clause holds for the histories in which every member has the credentials of its group's route ([ha_grp_inv]):
   exactly the histories without a joiner whose Username / Password differ from the first member's *)
Theorem ha_hgrp_member_receives_only_with_credentials_partial canon st rq chosen m :
  ha_grp_inv st ->
  ha_hgrp_deliver canon st rq chosen = Some m ->
  ha_hmember_creds m = None \/ ha_hmember_creds m = Some (ha_presented rq).
Proof.
  intros Hinv. unfold ha_hgrp_deliver.
  destruct (ha_serve_http _ _ _) as [|l| |] eqn:E; try discriminate.
  destruct (find _ st) as [g|] eqn:Eg; [|discriminate]. intros Hm.
  apply find_some in Eg. destruct Eg as [Hg Heq]. apply ha_route_eqb_eq in Heq.
  apply find_some in Hm. destruct Hm as [Hm _].
  destruct (Hinv g m Hg Hm) as [Hu Hp].
  apply ha_serve_http_forward_implies_credentials in E. unfold ha_creds in E. unfold ha_hmember_creds.
  rewrite Hu, Hp, Heq. exact E.
Qed.

(* with the comparison of Username and Password in place the clause holds for every history of joins *)
Lemma ha_hgrp_join_in_inv st : forall m st' r,
  ha_grp_inv st -> ha_hgrp_join_in true st m = Some (st', r) -> ha_grp_inv st'.
Proof.
  induction st as [|g t IH]; cbn; intros m st' r Hinv; [discriminate|].
  destruct (bytes_eqb (g_name g) (gm_group m)).
  - unfold ha_hgrp_join_existing. cbn [andb].
    destruct (bytes_eqb (rt_user (g_route g)) (gm_user m)) eqn:Eu;
      destruct (bytes_eqb (rt_pass (g_route g)) (gm_pass m)) eqn:Ep;
      destruct (bytes_eqb (rt_domain (g_route g)) (gm_domain m));
      destruct (bytes_eqb (rt_by_user (g_route g)) (gm_by_user m)); cbn;
      try (intros [= <- _]; exact Hinv).
    destruct (bytes_eqb (g_key g) (gm_key m)); cbn; intros [= <- _]; [|exact Hinv].
    apply ha_bytes_eqb_eq in Eu, Ep.
    intros g0 m0 [<-|Hg] Hm; [|apply (Hinv g0 m0); cbn; auto]. cbn in *.
    apply in_app_or in Hm. destruct Hm as [Hm|[<-|[]]]; [apply (Hinv g m0); cbn; auto|auto].
  - destruct (ha_hgrp_join_in true t m) as [[t' r']|] eqn:E; [|discriminate]. intros [= <- _].
    assert (ha_grp_inv t') as Ht.
    { eapply IH; [|exact E]. intros g0 m0 Hg Hm. apply (Hinv g0 m0); cbn; auto. }
    intros g0 m0 [<-|Hg] Hm; [apply (Hinv g m0); cbn; auto|apply (Ht g0 m0); auto].
Qed.

Lemma ha_hgrp_run_inv ms : forall st, ha_grp_inv st -> ha_grp_inv (fst (ha_hgrp_run true st ms)).
Proof.
  induction ms as [|m t IH]; intros st Hinv; cbn; [assumption|].
  assert (ha_grp_inv (fst (ha_hgrp_join true st m))) as H1.
  { unfold ha_hgrp_join. destruct (ha_hgrp_join_in true st m) as [[st' r]|] eqn:E.
    - cbn. eapply ha_hgrp_join_in_inv; eauto.
    - destruct (ha_grp_conflict st m); cbn; [assumption|].
      intros g0 m0 Hg Hm. apply in_app_or in Hg. destruct Hg as [Hg|[<-|[]]]; [apply (Hinv g0 m0); auto|].
      cbn in Hm. destruct Hm as [<-|[]]. cbn. auto. }
  destruct (ha_hgrp_join true st m) as [st1 r]. cbn in H1.
  specialize (IH st1 H1). destruct (ha_hgrp_run true st1 t) as [st2 rs]. exact IH.
Qed.

Theorem ha_hgrp_member_receives_only_with_credentials_when_compared canon ms rq chosen m :
  ha_hgrp_deliver canon (fst (ha_hgrp_run true [] ms)) rq chosen = Some m ->
  ha_hmember_creds m = None \/ ha_hmember_creds m = Some (ha_presented rq).
Proof.
  apply ha_hgrp_member_receives_only_with_credentials_partial.
  apply ha_hgrp_run_inv, ha_grp_inv_nil.
Qed.

(* ================================================================================================ *)
(* Muxer.handle under concurrent close / register / accept *)
From FRP Require Import Model.HttpAuthMuxRace.

(* the listener a connection waits for, or was delivered to, is one its credentials were checked against *)
Definition ha_mrace_inv (rq : ha_req) (c : ha_mconn) : Prop :=
  match c with
  | MCNew rq' => rq' = rq
  | MCHandover l _ | MCDelivered l => ha_mux_creds l = None \/ ha_mux_creds l = Some (ha_mux_presented rq)
  | MCClosed | MCRefused _ => True
  end.

Lemma ha_mrace_step_inv canon pt rq s a :
  ha_mrace_inv rq (ms_conn s) -> ha_mrace_inv rq (ms_conn (ha_mrace_step canon pt s a)).
Proof.
  intros H. destruct a as [|id|id|r]; cbn.
  - destruct (ms_conn s) as [rq'| | | |] eqn:E; try (rewrite E; exact H). cbn in H. subst rq'.
    destruct (ha_mux_handle _ _ _ _) as [| |x|l ok] eqn:Em; cbn; auto.
    eapply ha_mux_forward_implies_credentials; eauto.
  - destruct (ms_conn s) as [|l ok| | |] eqn:E; try (rewrite E; exact H).
    destruct (rt_id l =? id); cbn; [exact H|rewrite E; exact H].
  - destruct (ms_conn s) as [|l ok| | |]; try exact H. destruct (rt_id l =? id); cbn; auto.
  - destruct (ha_mrace_conflict (ms_tbl s) r); cbn; exact H.
Qed.

Lemma ha_mrace_run_inv canon pt rq sched : forall s,
  ha_mrace_inv rq (ms_conn s) -> ha_mrace_inv rq (ms_conn (ha_mrace_run canon pt s sched)).
Proof.
  unfold ha_mrace_run. induction sched as [|a t IH]; intros s H; cbn; [exact H|].
  apply IH. now apply ha_mrace_step_inv.
Qed.

(* for every schedule of handle steps, accepts, listener closes and registrations, from any table: the connection is
   delivered only to a listener that demands no credentials or exactly those the CONNECT presented *)
Theorem ha_mrace_delivered_only_to_checked_listener canon pt tbl rq sched l :
  ms_conn (ha_mrace_run canon pt {| ms_tbl := tbl; ms_conn := MCNew rq |} sched) = MCDelivered l ->
  ha_mux_creds l = None \/ ha_mux_creds l = Some (ha_mux_presented rq).
Proof.
  intros H. pose proof (ha_mrace_run_inv canon pt rq sched {| ms_tbl := tbl; ms_conn := MCNew rq |} eq_refl) as Hi.
  rewrite H in Hi. exact Hi.
Qed.

(* one decision per connection: after the hand-over failed (or handle refused) nothing is ever delivered *)
Lemma ha_mrace_final_stays canon pt sched : forall s,
  (ms_conn s = MCClosed \/ exists o, ms_conn s = MCRefused o) ->
  ms_conn (ha_mrace_run canon pt s sched) = ms_conn s.
Proof.
  unfold ha_mrace_run. induction sched as [|a t IH]; intros s H; cbn; [reflexivity|].
  assert (ms_conn (ha_mrace_step canon pt s a) = ms_conn s) as E.
  { destruct a as [|id|id|r]; cbn; destruct H as [H|[o H]]; rewrite ?H; try reflexivity;
      try (destruct (ha_mrace_conflict (ms_tbl s) r); cbn; rewrite ?H; reflexivity). }
  rewrite IH; [exact E|]. rewrite E. exact H.
Qed.

(* the routed listener is closed while the connection waits for it: the connection is closed, whatever else covers
   the host now or registers later *)
Theorem ha_mrace_closed_listener_closes_connection canon pt tbl l ok sched :
  ms_conn (ha_mrace_run canon pt {| ms_tbl := tbl; ms_conn := MCHandover l ok |} (MACloseListener (rt_id l) :: sched)) = MCClosed.
Proof.
  change (ha_mrace_run canon pt {| ms_tbl := tbl; ms_conn := MCHandover l ok |} (MACloseListener (rt_id l) :: sched))
    with (ha_mrace_run canon pt (ha_mrace_step canon pt {| ms_tbl := tbl; ms_conn := MCHandover l ok |} (MACloseListener (rt_id l))) sched).
  rewrite ha_mrace_final_stays; cbn; rewrite Z.eqb_refl; auto.
Qed.

(* the facts translator unit t7 reads off Muxer.handle *)
Definition ha_muxer_facts_expected : list (string * Z) :=
  [("lookups"%string, 1); ("accept_sends"%string, 1); ("accept_sends_on_lookup_result"%string, 1); ("other_sends"%string, 0);
   ("credential_checks"%string, 1); ("credential_checks_on_lookup_result"%string, 1);
   ("handover_failure_closes_and_ends"%string, 1)].
Fixpoint ha_facts_eqb (a b : list (string * Z)) : bool :=
  match a, b with
  | [], [] => true
  | (k, v) :: a', (k', v') :: b' => String.eqb k k' && (v =? v') && ha_facts_eqb a' b'
  | _, _ => false
  end.
Lemma ha_facts_eqb_eq a : forall b, ha_facts_eqb a b = true -> a = b.
Proof.
  induction a as [|[k v] a IH]; intros [|[k' v'] b]; cbn; try discriminate; [reflexivity|].
  rewrite !andb_true_iff. intros [[H1 H2] H3]. apply String.eqb_eq in H1. apply Z.eqb_eq in H2.
  apply IH in H3. now subst.
Qed.
