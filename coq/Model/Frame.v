(* C17: the framing layer of the control protocol.
   Mirrors golib msg/json MsgCtl.readMsg / Pack as used by pkg/msg/ctl.go:
     1 type byte | 8-byte big-endian signed length | body
   readMsg: read 1 byte; unregistered type -> ErrMsgType; binary.Read int64;
   length > max -> ErrMaxMsgLength; length < 0 -> ErrMsgLength; make([]byte,length);
   io.ReadFull.  The model returns, on every path, the number of bytes consumed from
   the stream and the size of the buffer requested from the allocator. *)
From FRP Require Export Model.Bytes.

Definition max_len : Z := 10240.

Inductive derr := ErrEOF | ErrType | ErrShortLen | ErrMaxLen | ErrLen | ErrShortBody.

Record dres := { d_type : byte; d_body : bytes; d_rest : bytes }.

Inductive dout :=
| DErr (e : derr) (consumed alloc : Z)
| DOk (r : dres) (consumed alloc : Z).

Definition encode_frame (t : byte) (body : bytes) : bytes :=
  t :: be64 (blen body) ++ body.

Definition decode_frame (reg : byte -> bool) (s : bytes) : dout :=
  match s with
  | [] => DErr ErrEOF 0 0
  | t :: s1 =>
      if negb (reg t) then DErr ErrType 1 0
      else if blen s1 <? 8 then DErr ErrShortLen (1 + blen s1) 0
      else
        let n := rd64 (firstn 8 s1) in
        let s2 := skipn 8 s1 in
        if max_len <? n then DErr ErrMaxLen 9 0
        else if n <? 0 then DErr ErrLen 9 0
        else if blen s2 <? n then DErr ErrShortBody (9 + blen s2) n
        else DOk {| d_type := t;
                    d_body := firstn (Z.to_nat n) s2;
                    d_rest := skipn (Z.to_nat n) s2 |} (9 + n) n
  end.

Definition out_consumed (o : dout) : Z :=
  match o with DErr _ c _ => c | DOk _ c _ => c end.
Definition out_alloc (o : dout) : Z :=
  match o with DErr _ _ a => a | DOk _ _ a => a end.

(* A stream of frames: decode until error; what a read loop sees. *)
Fixpoint decode_stream (fuel : nat) (reg : byte -> bool) (s : bytes)
  : list (byte * bytes) * option derr :=
  match fuel with
  | O => ([], None)
  | S k =>
      match decode_frame reg s with
      | DErr ErrEOF _ _ => ([], None)
      | DErr e _ _ => ([], Some e)
      | DOk r _ _ =>
          let '(fs, e) := decode_stream k reg (d_rest r) in
          ((d_type r, d_body r) :: fs, e)
      end
  end.

(* First-message dispatch of server/service.go:handleConnection.
   Login -> session handling, NewWorkConn -> pool, NewVisitorConn -> visitor,
   anything else (or any decode error) -> close this connection only. *)
Inductive first_action := ActLogin | ActWorkConn | ActVisitor | ActClose.

Definition dispatch_first (tLogin tWork tVisitor : byte) (o : dout) : first_action :=
  match o with
  | DErr _ _ _ => ActClose
  | DOk r _ _ =>
      if Byte.eqb (d_type r) tLogin then ActLogin
      else if Byte.eqb (d_type r) tWork then ActWorkConn
      else if Byte.eqb (d_type r) tVisitor then ActVisitor
      else ActClose
  end.
