(* C04 — proofs about Model/SshGate.v *)
From FRP Require Import Model.Auth Model.SshGate Proofs.AuthProofs.
Open Scope Z_scope.

Lemma sg_auth_no_file attempts : forall perm, sg_auth SgNoFile attempts = Some perm -> perm = None.
Proof.
  induction attempts as [|a r IH]; cbn; [discriminate|]. destruct a as [|key poss|]; cbn.
  - now intros perm [= <-].
  - exact IH.
  - exact IH.
Qed.

Lemma sg_auth_file_authorised k attempts : sg_no_client_auth k = false ->
  forall perm, sg_auth k attempts = Some perm -> sg_key_authorised k attempts.
Proof.
  intros N. induction attempts as [|a r IH]; cbn; [discriminate|]. intros perm.
  assert (forall p, sg_auth k r = Some p -> sg_key_authorised k (a :: r)) as Rest.
  { intros p E. destruct (IH p E) as (l & key & u & Ek & I & L). exists l, key, u. repeat split; try assumption. now right. }
  destruct a as [|key poss|]; cbn.
  - rewrite N. apply Rest.
  - destruct (sg_callback k key) as [u|] eqn:C; [|apply Rest]. destruct poss; [|apply Rest].
    intros _. destruct k as [| |l]; cbn in C; try discriminate. exists l, key, u. repeat split; [now left | assumption].
  - apply Rest.
Qed.

Section SshGateProofs.
  Variable H : bytes -> Z -> bytes.
  Variable oidc : bytes -> Z -> option bytes.
  Variable c : au_cfg.

  (* a virtual-client session exists only if the ssh key is authorised by the configured file or the login the plugin
     chain returned carries a valid credential (without plugins: the token of the command line) *)
  Theorem sg_session_implies_key_or_token k s conn now gen attempts cmd_token cmd_user ts pool lplug s' rid sid :
    sg_step H oidc c k s conn now gen attempts cmd_token cmd_user ts pool lplug = (s', SgForwarded (AuOLoginOk rid sid)) ->
    sg_key_authorised k attempts \/
    exists perm l, au_lplug_apply lplug (sg_login H k perm cmd_token cmd_user ts pool) = Some l /\
                   (au_login_cred_ok H oidc c now l = true \/ asp_always_pass (al_spec l) = true /\ lplug <> AuLPlugSame).
  Proof.
    unfold sg_step. destruct (sg_auth k attempts) as [perm|] eqn:A; [|discriminate].
    destruct (sg_no_client_auth k) eqn:N.
    - intros E. right. exists perm.
      destruct (au_lplug_apply lplug (sg_login H k perm cmd_token cmd_user ts pool)) as [l|] eqn:LP.
      + exists l. split; [reflexivity|].
        destruct (au_login_cred_ok H oidc c now l) eqn:Cr; [now left|]. right.
        destruct (asp_always_pass (al_spec l)) eqn:Fl.
        * split; [reflexivity|]. intros ->. cbn in LP. injection LP as <-. cbn in Fl. unfold sg_always_pass in Fl.
          rewrite N in Fl. discriminate.
        * exfalso.
          destruct (au_bad_login_refused H oidc c s true conn now gen _ lplug l LP Cr) as [e R]; [now rewrite Fl|].
          rewrite R in E. discriminate.
      + exfalso. rewrite (au_login_plugin_reject_refused H oidc c s true conn now gen _ lplug LP) in E. discriminate.
    - intros _. left. now apply (sg_auth_file_authorised k attempts N perm).
  Qed.

  (* the configuration the batch-3 seed attacks: no authorized_keys file, no Login plugin rewriting => only the token admits *)
  Corollary sg_no_file_needs_token s conn now gen attempts cmd_token cmd_user ts pool s' rid sid :
    sg_step H oidc c SgNoFile s conn now gen attempts cmd_token cmd_user ts pool AuLPlugSame = (s', SgForwarded (AuOLoginOk rid sid)) ->
    au_login_cred_ok H oidc c now (sg_login H SgNoFile None cmd_token cmd_user ts pool) = true.
  Proof.
    intros E.
    destruct (sg_session_implies_key_or_token _ _ _ _ _ _ _ _ _ _ _ _ _ _ E) as [(l & key & u & Ek & _)|(perm & l & LP & [Cr|[_ Ne]])];
      [discriminate | | now contradiction Ne].
    cbn in LP. injection LP as <-. exact Cr.
  Qed.

  (* a Login plugin that rejects refuses the gateway session too, authorised key or not *)
  Theorem sg_login_plugin_reject_refused k s conn now gen attempts cmd_token cmd_user ts pool lplug :
    (forall l, au_lplug_apply lplug l = None) ->
    forall rid sid, snd (sg_step H oidc c k s conn now gen attempts cmd_token cmd_user ts pool lplug) <> SgForwarded (AuOLoginOk rid sid).
  Proof.
    intros R rid sid. unfold sg_step. destruct (sg_auth k attempts) as [perm|]; [|discriminate].
    rewrite (au_login_plugin_reject_refused H oidc c s true conn now gen _ lplug (R _)). cbn. discriminate.
  Qed.

  (* whatever does not end in LoginOk leaves the server state as it was *)
  Theorem sg_refused_leaves_state k s conn now gen attempts cmd_token cmd_user ts pool lplug :
    (forall rid sid, snd (sg_step H oidc c k s conn now gen attempts cmd_token cmd_user ts pool lplug) <> SgForwarded (AuOLoginOk rid sid)) ->
    fst (sg_step H oidc c k s conn now gen attempts cmd_token cmd_user ts pool lplug) = s.
  Proof.
    unfold sg_step. destruct (sg_auth k attempts) as [perm|]; [|reflexivity].
    set (e := AuEFirst true conn now gen (AuFLogin (sg_login H k perm cmd_token cmd_user ts pool) lplug)).
    destruct (au_step H oidc c s e) as [s' o] eqn:E. cbn. intros NoOk.
    assert (au_is_refusal o = true) as R.
    { unfold e in E. cbn in E. destruct (au_lplug_apply lplug _) in E; [|inversion E; subst; reflexivity].
      destruct (au_verify_login _ _ _ _ _ _ _) in E; inversion E; subst; [|reflexivity].
      exfalso. eapply NoOk. reflexivity. }
    pose proof (au_refused_unchanged H oidc c s e) as U. rewrite E in U. cbn in U. now apply U.
  Qed.
End SshGateProofs.
