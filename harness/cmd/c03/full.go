package main

// Part "full": the select-default drop of ForwardUserConn on a full sendCh, and the capacities of
// the channels the code creates.

import (
	"encoding/binary"
	"fmt"
	"net"
	"os"
	"path/filepath"
	"regexp"
	"strconv"
	"sync/atomic"
	"time"

	"github.com/fatedier/frp/pkg/msg"
	"github.com/fatedier/frp/pkg/proto/udp"
	"verifharness/hx"
)

func fullPayload(u, i int) []byte {
	b := []byte{'C', '3', 0, 0, 0, 0, 0, 0}
	binary.BigEndian.PutUint16(b[2:], uint16(u))
	binary.BigEndian.PutUint32(b[4:], uint32(i))
	return b
}

// runFull: nobody drains sendCh (capacity 1024, as in server/proxy/udp.go) while k > 1024 datagrams
// arrive; ForwardUserConn must keep the first 1024 and drop the rest; then the pipeline drains
// (in lockstep with the backend so that no kernel buffer overflows) and exactly those 1024 arrive,
// in order, and are answered.
func runFull(cfg *hx.RunCfg, g *hx.Gen, dist map[string]int, fails *[]failure) []string {
	k := 1024 + 8 + g.Intn(56)
	w, err := newWorld(backendIP, 2)
	if err != nil {
		addFail(fails, fail("full:setup", err.Error(), ""))
		return nil
	}
	defer w.close()
	pub, err := net.ListenUDP("udp", &net.UDPAddr{IP: net.ParseIP(pubIP)})
	if err != nil {
		addFail(fails, fail("full:setup", err.Error(), ""))
		return nil
	}
	srvSendCh := make(chan *msg.UDPPacket, 1024)
	srvReadCh := make(chan *msg.UDPPacket, 1024)
	cliReadCh := make(chan *msg.UDPPacket, 1024)
	cliSendCh := make(chan msg.Message, 1024)
	fwdDone := make(chan struct{})
	go func() { defer close(fwdDone); udp.ForwardUserConn(pub, srvReadCh, srvSendCh, bufSize) }()
	to := pub.LocalAddr().(*net.UDPAddr)

	// phase 1: k datagrams, paced so that the kernel queue of the public socket never overflows
	for i := 0; i < k; i++ {
		_, _ = w.users[i%2].WriteToUDP(fullPayload(i%2, i), to)
		if i%32 == 31 {
			want := i + 1
			if want > 1024 {
				want = 1024
			}
			waitUntil(time.Second, func() bool { return len(srvSendCh) >= want })
			if i >= 1024 {
				time.Sleep(2 * time.Millisecond)
			}
		}
	}
	waitUntil(time.Second, func() bool { return len(srvSendCh) == 1024 })
	time.Sleep(30 * time.Millisecond)
	queued := len(srvSendCh)

	// phase 2: drain through the codec into the Forwarder, in lockstep with the backend
	udp.Forwarder(w.backendAddr(), cliReadCh, cliSendCh, bufSize)
	l1r, l1w := net.Pipe()
	l2r, l2w := net.Pipe()
	var moved int64
	bkCount := func() int { w.mu.Lock(); defer w.mu.Unlock(); return len(w.bk) }
	rpCount := func() int {
		c := 0
		for _, n := range w.recvCounts() {
			c += n
		}
		return c
	}
	go func() {
		for p := range srvSendCh {
			_ = msg.WriteMsg(l1w, p)
			n := int(atomic.AddInt64(&moved, 1))
			if n%16 == 0 {
				waitUntil(time.Second, func() bool { return bkCount() >= n-8 && rpCount() >= n-32 })
			}
		}
	}()
	go func() {
		for {
			m, err := msg.ReadMsg(l1r)
			if err != nil {
				return
			}
			if p, ok := m.(*msg.UDPPacket); ok {
				cliReadCh <- p
			}
		}
	}()
	go func() {
		for m := range cliSendCh {
			_ = msg.WriteMsg(l2w, m)
		}
	}()
	bridgeDone := make(chan struct{})
	go func() {
		defer close(bridgeDone)
		for {
			m, err := msg.ReadMsg(l2r)
			if err != nil {
				return
			}
			if p, ok := m.(*msg.UDPPacket); ok {
				srvReadCh <- p
			}
		}
	}()
	waitUntil(5*time.Second, func() bool { return bkCount() >= queued && rpCount() >= queued })
	time.Sleep(50 * time.Millisecond)

	// observations: indices, after checking every payload on this side
	var bidx []string
	bad := 0
	w.mu.Lock()
	for _, r := range w.bk {
		_, u, i := hdr(r.data)
		if len(r.data) != 8 || i < 0 || i >= k || u != i%2 || string(r.data) != string(fullPayload(u, i)) {
			bad++
			i = -1
		}
		bidx = append(bidx, hx.Z(int64(i)))
	}
	uidx := [2][]string{}
	for u := 0; u < 2; u++ {
		for _, d := range w.urecv[u] {
			_, uu, i := hdr(xf(d))
			if len(d) != 8 || uu != u || i < 0 || i >= k || string(xf(d)) != string(fullPayload(u, i)) {
				bad++
				i = -1
			}
			uidx[u] = append(uidx[u], hx.Z(int64(i)))
		}
	}
	nb := len(w.bk)
	w.mu.Unlock()
	if bad > 0 {
		addFail(fails, fail("full:corrupt", fmt.Sprintf("%d datagrams/replies of the queue-full scenario are not what was sent", bad), ""))
	}
	if queued != 1024 {
		addFail(fails, fail("full:queue-length", fmt.Sprintf("sendCh holds %d packets after %d datagrams, expected 1024", queued, k), ""))
	}
	hx.CountBy(dist, fmt.Sprintf("full sent=%d queued=%d backend=%d", k, queued, nb))
	line := fmt.Sprintf("CFull %d %d %s %s %s %s", bufSize, k, hx.List(w.userAddrs()), hx.List(bidx), hx.List(uidx[0]), hx.List(uidx[1]))

	// teardown
	pub.Close()
	<-fwdDone
	l1r.Close()
	l1w.Close()
	l2r.Close()
	l2w.Close()
	<-bridgeDone
	close(srvSendCh)
	close(cliReadCh)
	close(srvReadCh)
	return []string{line}
}

var makeChanRe = regexp.MustCompile(`make\(chan [^,()]+,\s*([0-9]+)\)`)

// capCase reads the channel capacities out of the source files that create the tunnel's queues.
func capCase(dist map[string]int, fails *[]failure) []string {
	repo := os.Getenv("VERIF_REPO")
	if repo == "" {
		repo = "/repo"
	}
	var caps []string
	for _, f := range []string{"server/proxy/udp.go", "client/proxy/udp.go", "client/proxy/sudp.go", "client/visitor/sudp.go"} {
		src, err := os.ReadFile(filepath.Join(repo, f))
		if err != nil {
			addFail(fails, fail("cap:read", err.Error(), f))
			continue
		}
		for _, m := range makeChanRe.FindAllSubmatch(src, -1) {
			n, _ := strconv.Atoi(string(m[1]))
			caps = append(caps, hx.Z(int64(n)))
			hx.CountBy(dist, fmt.Sprintf("cap %s %d", f, n))
		}
	}
	return []string{"CCap " + hx.List(caps)}
}
