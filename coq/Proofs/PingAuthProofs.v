From Coq Require Import ZArith List Bool Lia.
From FRP Require Import Model.PingAuth.
Import ListNotations.
Open Scope Z_scope.

Lemma pa_mem_app : forall s a b, pa_mem s (a ++ b) = pa_mem s a || pa_mem s b.
Proof. intros. unfold pa_mem. apply existsb_app. Qed.

Lemma pa_login_keeps : forall subjects s x, pa_mem x subjects = true -> pa_mem x (pa_login subjects s) = true.
Proof.
  intros subjects s x H. unfold pa_login. destruct (pa_mem s subjects); auto.
  rewrite pa_mem_app. rewrite H. reflexivity.
Qed.

Lemma pa_login_adds : forall subjects s, pa_mem s (pa_login subjects s) = true.
Proof.
  intros. unfold pa_login. destruct (pa_mem s subjects) eqn:E; auto.
  rewrite pa_mem_app. simpl. rewrite Z.eqb_refl. rewrite orb_true_r. reflexivity.
Qed.

(* once an identity is remembered, every later ping of that identity is accepted, whatever other
   identities log in or ping in between *)
Lemma pa_remembered_forever : forall evs subjects x,
  pa_mem x subjects = true ->
  forall v, In (x, v) (pa_run subjects evs) -> v = true.
Proof.
  induction evs as [|e r IH]; intros subjects x H v Hin; simpl in Hin; [contradiction|].
  destruct e as [s|s].
  - eapply IH; [|exact Hin]. apply pa_login_keeps. exact H.
  - destruct Hin as [Hin|Hin].
    + inversion Hin; subst. exact H.
    + eapply IH; eauto.
Qed.

Theorem pa_logged_in_identity_always_accepted : forall pre x post subjects v,
  In (x, v) (pa_run (pa_login (fold_left (fun l e => match e with PALogin s => pa_login l s | _ => l end) pre subjects) x) post) ->
  v = true.
Proof.
  intros pre x post subjects v H.
  eapply pa_remembered_forever; [|exact H]. apply pa_login_adds.
Qed.
