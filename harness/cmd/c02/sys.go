package main

import "verifharness/hx"

func driveSys(cfg *hx.RunCfg) error { return nil }
