(* Reflective checkers over the translator's tables (T1) with their soundness lemmas. *)
From FRP Require Import Model.MsgObj Proofs.MsgObjProofs.
From Coq Require Import Lia.
Open Scope Z_scope.

Definition str_eqb (a b : string) : bool := String.eqb a b.

Fixpoint nodup_str (l : list string) : bool :=
  match l with [] => true | x :: r => negb (existsb (String.eqb x) r) && nodup_str r end.
Fixpoint nodup_Z (l : list Z) : bool :=
  match l with [] => true | x :: r => negb (existsb (Z.eqb x) r) && nodup_Z r end.

Fixpoint assoc {A} (n : string) (l : list (string * A)) : option A :=
  match l with [] => None | (k, v) :: r => if String.eqb n k then Some v else assoc n r end.

(* the registry as (type byte, struct name) pairs: join of the constants with msgTypeMap *)
Definition registry (consts : list (string * Z)) (tmap : list (string * string)) : list (Z * string) :=
  flat_map (fun cs : string * string =>
              match assoc (fst cs) consts with Some b => [(b, snd cs)] | None => [] end) tmap.

Definition registry_ok (consts : list (string * Z)) (tmap : list (string * string))
           (structs : list (string * list field)) : bool :=
  nodup_str (map fst consts) && nodup_Z (map snd consts) &&
  forallb (fun c : string * Z => (0 <=? snd c) && (snd c <? 256)) consts &&
  nodup_str (map fst tmap) && nodup_str (map snd tmap) &&
  (* every constant is mapped, every key of the map is a constant *)
  forallb (fun c : string * Z => existsb (String.eqb (fst c)) (map fst tmap)) consts &&
  forallb (fun cs : string * string => existsb (String.eqb (fst cs)) (map fst consts)) tmap &&
  (* every registered type is a declared struct with a well-formed schema *)
  forallb (fun cs : string * string =>
             match assoc (snd cs) structs with Some fs => schema_wf fs | None => false end) tmap.

Lemma nodup_str_NoDup l : nodup_str l = true -> NoDup l.
Proof.
  induction l as [|x r IH]; cbn; intros H; constructor.
  - apply andb_true_iff in H. destruct H as [H _]. apply negb_true_iff in H.
    intros Hin. assert (existsb (String.eqb x) r = true); [|congruence].
    apply existsb_exists. exists x. split; [assumption|apply String.eqb_refl].
  - apply andb_true_iff in H. apply IH. tauto.
Qed.

Lemma nodup_Z_NoDup l : nodup_Z l = true -> NoDup l.
Proof.
  induction l as [|x r IH]; cbn; intros H; constructor.
  - apply andb_true_iff in H. destruct H as [H _]. apply negb_true_iff in H.
    intros Hin. assert (existsb (Z.eqb x) r = true); [|congruence].
    apply existsb_exists. exists x. split; [assumption|apply Z.eqb_refl].
  - apply andb_true_iff in H. apply IH. tauto.
Qed.

Lemma assoc_In {A} n (l : list (string * A)) v : assoc n l = Some v -> In (n, v) l.
Proof.
  induction l as [|[k w] r IH]; cbn; [discriminate|].
  destruct (String.eqb_spec n k) as [->|]; [intros [= ->]; now left|intros H; right; auto].
Qed.

Lemma In_assoc {A} n (l : list (string * A)) v :
  NoDup (map fst l) -> In (n, v) l -> assoc n l = Some v.
Proof.
  induction l as [|[k w] r IH]; cbn; intros Hnd Hin; [contradiction|].
  inversion Hnd as [|? ? Hk Hr]; subst.
  destruct Hin as [[= -> ->]|Hin].
  - now rewrite String.eqb_refl.
  - destruct (String.eqb_spec n k) as [->|]; [|auto].
    exfalso. apply Hk. apply in_map_iff. exists (k, v). auto.
Qed.

Lemma in_registry consts tmap b s :
  In (b, s) (registry consts tmap) <-> exists c, In (c, s) tmap /\ assoc c consts = Some b.
Proof.
  unfold registry. rewrite in_flat_map. split.
  - intros [[c s'] [Hin H]]. cbn in H. destruct (assoc c consts) eqn:E; [|contradiction].
    destruct H as [[= -> ->]|[]]. eauto.
  - intros [c [Hin E]]. exists (c, s). split; [assumption|]. cbn. rewrite E. now left.
Qed.

Lemma NoDup_snd_inj {A B} (l : list (A * B)) a a' b :
  NoDup (map snd l) -> In (a, b) l -> In (a', b) l -> a = a'.
Proof.
  induction l as [|[k v] r IH]; cbn; intros Hnd Ha Hb; [contradiction|].
  inversion Hnd as [|? ? Hk Hr]; subst.
  destruct Ha as [Ea|Ha]; destruct Hb as [Eb|Hb].
  - congruence.
  - exfalso. apply Hk. inversion Ea; subst. apply in_map_iff. exists (a', b). auto.
  - exfalso. apply Hk. inversion Eb; subst. apply in_map_iff. exists (a, b). auto.
  - auto.
Qed.

(* Soundness: the checker implies that the registry is a bijection between
   its type bytes and its message types, every byte fits in one octet, and
   every registered message has a well-formed schema. *)
Theorem registry_ok_sound consts tmap structs :
  registry_ok consts tmap structs = true ->
  let R := registry consts tmap in
  (forall b s s', In (b, s) R -> In (b, s') R -> s = s') /\
  (forall b b' s, In (b, s) R -> In (b', s) R -> b = b') /\
  (forall b s, In (b, s) R -> 0 <= b < 256) /\
  (forall b s, In (b, s) R -> exists fs, In (s, fs) structs /\ schema_wf fs = true) /\
  length R = length tmap /\ length tmap = length consts.
Proof.
  unfold registry_ok. rewrite !andb_true_iff.
  intros [[[[[[[H1 H2] H3] H4] H5] H6] H7] H8]. set (R := registry consts tmap).
  apply nodup_str_NoDup in H1, H4, H5. apply nodup_Z_NoDup in H2.
  rewrite forallb_forall in H3, H6, H7, H8.
  assert (Hinj_c : forall c c' b, assoc c consts = Some b -> assoc c' consts = Some b -> c = c').
  { intros c c' b Ha Hb. apply assoc_In in Ha, Hb. exact (NoDup_snd_inj consts c c' b H2 Ha Hb). }
  assert (Hinj_t : forall c c' s, In (c, s) tmap -> In (c', s) tmap -> c = c').
  { intros c c' s Ha Hb. exact (NoDup_snd_inj tmap c c' s H5 Ha Hb). }
  assert (Hfun_t : forall c s s', In (c, s) tmap -> In (c, s') tmap -> s = s').
  { intros c s s' Ha Hb. apply In_assoc in Ha, Hb; try assumption. congruence. }
  repeat split.
  - intros b s s' Ha Hb. apply in_registry in Ha, Hb.
    destruct Ha as [c [Ha Ea]], Hb as [c' [Hb Eb]].
    assert (c = c') by eauto. subst. eauto.
  - intros b b' s Ha Hb. apply in_registry in Ha, Hb.
    destruct Ha as [c [Ha Ea]], Hb as [c' [Hb Eb]].
    assert (c = c') by eauto. subst. congruence.
  - apply in_registry in H. destruct H as [c [_ E]]. apply assoc_In in E.
    specialize (H3 _ E). cbn in H3. lia.
  - apply in_registry in H. destruct H as [c [_ E]]. apply assoc_In in E.
    specialize (H3 _ E). cbn in H3. lia.
  - intros b s H. apply in_registry in H. destruct H as [c [Hin _]].
    specialize (H8 _ Hin). cbn in H8. destruct (assoc s structs) as [fs|] eqn:E; [|discriminate].
    exists fs. split; [now apply assoc_In|assumption].
  - (* every map entry contributes exactly one registry entry *)
    subst R. unfold registry. clear -H7.
    induction tmap as [|[c s] r IH]; [reflexivity|]. cbn [flat_map].
    assert (Hc : existsb (String.eqb c) (map fst consts) = true) by (apply (H7 (c, s)); now left).
    apply existsb_exists in Hc. destruct Hc as [c' [Hin Heq]]. apply String.eqb_eq in Heq. subst c'.
    cbn [fst snd]. destruct (assoc c consts) eqn:E.
    + cbn [app length]. f_equal. apply IH. intros x Hx. apply H7. now right.
    + exfalso. clear -Hin E. induction consts as [|[k v] r' IH']; [contradiction|].
      cbn in *. destruct (String.eqb_spec c k); [discriminate|]. destruct Hin; [congruence|auto].
  - (* |tmap| = |consts|: two duplicate-free name lists included in each other *)
    apply Nat.le_antisymm.
    + rewrite <- (map_length fst tmap), <- (map_length fst consts).
      apply NoDup_incl_length; [assumption|]. intros c Hc. apply in_map_iff in Hc.
      destruct Hc as [[c' s] [<- Hin]]. specialize (H7 _ Hin). apply existsb_exists in H7.
      destruct H7 as [x [Hx Ex]]. apply String.eqb_eq in Ex. cbn in Ex. now subst.
    + rewrite <- (map_length fst tmap), <- (map_length fst consts).
      apply NoDup_incl_length; [assumption|]. intros c Hc. apply in_map_iff in Hc.
      destruct Hc as [[c' s] [<- Hin]]. specialize (H6 _ Hin). apply existsb_exists in H6.
      destruct H6 as [x [Hx Ex]]. apply String.eqb_eq in Ex. cbn in Ex. now subst.
Qed.

(* registered-type predicate used by the frame decoder *)
Definition reg_of (R : list (Z * string)) (b : byte) : bool :=
  existsb (fun e : Z * string => Z_of_byte b =? fst e) R.

(** wire stability against the pinned schema *)
Fixpoint kind_ext (g t : kind) : bool :=
  let fields_ext := fix go (gs : list field) (ts : list field) : bool :=
    match gs with
    | [] => true
    | (_, gj, gk, go_) :: gr =>
        (fix find (ts' : list field) : bool :=
           match ts' with
           | [] => false
           | (_, tj, tk, to_) :: tr =>
               if String.eqb gj tj then kind_ext gk tk && Bool.eqb go_ to_ else find tr
           end) ts && go gr ts
    end in
  let extras_omit := fun (gs ts : list field) =>
    forallb (fun t : field =>
               existsb (fun g : field => String.eqb (f_json g) (f_json t)) gs || f_omit t) ts in
  match g, t with
  | KStr, KStr | KInt, KInt | KBool, KBool | KMapSS, KMapSS | KStrs, KStrs => true
  | KStruct gs, KStruct ts | KStructs gs, KStructs ts | KPtr gs, KPtr ts =>
      fields_ext gs ts && extras_omit gs ts
  | _, _ => false
  end.

Definition wire_stable_ok
  (gconsts : list (string * Z)) (gtmap : list (string * string)) (gstructs : list (string * list field))
  (consts : list (string * Z)) (tmap : list (string * string)) (structs : list (string * list field)) : bool :=
  (* every released (byte, message) pair is registered today, under the same byte *)
  forallb (fun e : Z * string =>
             existsb (fun e' : Z * string => (fst e =? fst e') && String.eqb (snd e) (snd e'))
                     (registry consts tmap))
          (registry gconsts gtmap) &&
  (* every released message keeps every field (json name, kind, omitempty); new fields are omitempty *)
  forallb (fun gs : string * list field =>
             match assoc (fst gs) structs with
             | Some ts => kind_ext (KStruct (snd gs)) (KStruct ts)
             | None => false
             end) gstructs.
