package main

// http load-balancing groups through the vhost HTTP port (part of driver http): the real
// vhost.HTTPReverseProxy and the real group.HTTPGroupController on one route table, as
// server/service.go wires them; members are stub CreateConnFn functions towards raw backends.
//   (a) forwarding through a group of two members: the member that served a request is the one the
//       pool key (dial address) names; everything else as for a plain route;
//   (b) CONNECT to a group;
//   (c) the group is closed and another group takes the same (domain, location, user): no request
//       reaches the former backend (also when the new member has the former member's name);
//   (d) one member's dial stalls while the membership changes: the change goes through and requests
//       served by the other members are answered in bounded time.

import (
	"context"
	"encoding/base64"
	"errors"
	"fmt"
	"net"
	"net/http"
	"strings"
	"sync"
	"time"

	"github.com/fatedier/frp/pkg/util/vhost"
	"github.com/fatedier/frp/server/group"
	"verifharness/hx"
)

type groupRig struct {
	rp   *vhost.HTTPReverseProxy
	gc   *group.HTTPGroupController
	srv  *http.Server
	addr string
	be   *backends

	mu      sync.Mutex
	dials   []string
	stall   map[string]time.Duration // member name -> how long its CreateConnFn blocks before failing
	beAddr  map[string]string        // member name -> backend address
	beRoute map[string]int           // member name -> backend id
}

func newGroupRig(timeoutS int64) (*groupRig, error) {
	r := &groupRig{be: newBackends(), stall: map[string]time.Duration{}, beAddr: map[string]string{}, beRoute: map[string]int{}}
	routers := vhost.NewRouters()
	r.rp = vhost.NewHTTPReverseProxy(vhost.HTTPReverseProxyOptions{ResponseHeaderTimeoutS: timeoutS}, routers)
	r.gc = group.NewHTTPGroupController(routers)
	tr := r.rp.VerifTransport()
	orig := tr.DialContext
	tr.DialContext = func(ctx context.Context, network, addr string) (net.Conn, error) {
		r.mu.Lock()
		r.dials = append(r.dials, addr)
		r.mu.Unlock()
		return orig(ctx, network, addr)
	}
	ln, err := net.Listen("tcp", net.JoinHostPort(c02Addr, "0"))
	if err != nil {
		return nil, err
	}
	r.addr = ln.Addr().String()
	r.srv = &http.Server{Addr: r.addr, Handler: r.rp, ReadHeaderTimeout: 60 * time.Second}
	go func() { _ = r.srv.Serve(ln) }()
	return r, nil
}

func (r *groupRig) close() {
	r.srv.Close()
	r.rp.VerifTransport().CloseIdleConnections()
	r.be.close()
}

// join registers member `name` of group `grp` (its own backend, id) on the route described by rt.
func (r *groupRig) join(name, grp string, rt *routeSpec, id int) error {
	ba, err := r.be.add(c02Addr, id)
	if err != nil {
		return err
	}
	r.mu.Lock()
	r.beAddr[name], r.beRoute[name] = ba, id
	r.mu.Unlock()
	return r.gc.Register(name, grp, "key-"+grp, vhost.RouteConfig{
		Domain: rt.domain, Location: rt.location, RouteByHTTPUser: rt.user, RewriteHost: rt.rewriteHost,
		Headers: rt.headers, ResponseHeaders: rt.respHeaders,
		CreateConnFn: func(remoteAddr string) (net.Conn, error) {
			r.mu.Lock()
			d := r.stall[name]
			r.mu.Unlock()
			if d > 0 {
				time.Sleep(d) // no work connection arrives (server: userConnTimeout)
				return nil, errors.New("timeout trying to get work connection")
			}
			return net.DialTimeout("tcp", ba, 2*time.Second)
		},
	})
}

func (r *groupRig) leave(name, grp string, rt *routeSpec) {
	r.gc.UnRegister(name, grp, vhost.RouteConfig{Domain: rt.domain, Location: rt.location, RouteByHTTPUser: rt.user})
}

func (r *groupRig) takeDials() []string {
	r.mu.Lock()
	defer r.mu.Unlock()
	d := r.dials
	r.dials = nil
	return d
}

func (r *groupRig) nameOf(route int) string {
	r.mu.Lock()
	defer r.mu.Unlock()
	for n, id := range r.beRoute {
		if id == route {
			return n
		}
	}
	return ""
}

func groupCases(g *hx.Gen, st *fwdStats, tier string) ([]string, error) {
	var cases []string
	// ---- (a) forwarding through a group of two members, keep-alive sequences ----
	r, err := newGroupRig(10)
	if err != nil {
		return nil, err
	}
	rt := genRoute(g, 0)
	rt.domain, rt.location, rt.id = "g0.c02.test", "", 0 // location "": a CONNECT (empty path) is routed to it as well
	if err := r.join("alpha", "g1", rt, 1); err != nil {
		return nil, err
	}
	if err := r.join("beta", "g1", rt, 2); err != nil {
		return nil, err
	}
	served := map[string]int{}
	for c := 0; c < 3; c++ {
		u, err := dialUser(r.addr, fmt.Sprintf("127.0.2.%d", 2+g.Intn(250)))
		if err != nil {
			return nil, err
		}
		ip, _, _ := net.SplitHostPort(u.c.LocalAddr().String())
		for k := 0; k < 6; k++ {
			rg := genRequest(g, rt, tier, false)
			resp := genResponse(g, rg.req.method, tier, false)
			r.be.script(resp)
			r.be.drain()
			r.takeDials()
			got, err := u.do(rg.req, 20*time.Second)
			if err != nil {
				st.dist["exchange-retried"]++
				break
			}
			seen := r.be.waitSeen(5 * time.Second)
			if seen == nil {
				st.fail("impl:group-backend-saw-nothing", fmt.Sprintf("%s %s -> %d", rg.req.method, rg.req.target, got.status), rg.req.target)
				break
			}
			member := r.nameOf(seen.route)
			served[member]++
			dials := r.takeDials()
			dial := ""
			if len(dials) > 0 {
				dial = dials[len(dials)-1]
			}
			obs := func(hs []hdr) func(string) (string, bool) {
				return func(c string) (string, bool) {
					for _, kv := range hs {
						if canonGo(kv[0]) == c {
							return kv[1], true
						}
					}
					return "", false
				}
			}
			// the endpoint id the request was pooled by: the fourth component of the dial address
			endpointID := member + "#?"
			if dial != "" {
				if parts := strings.Split(strings.TrimSuffix(dial, ":80"), "."); len(parts) >= 5 {
					if b, err := base64.StdEncoding.DecodeString(parts[len(parts)-2]); err == nil {
						endpointID = string(b)
					}
				}
				if !strings.HasPrefix(endpointID, member+"#") {
					st.fail("impl:group-pool-key-names-other-member", fmt.Sprintf("request served by member %q was pooled under endpoint %q (dial address %s)", member, endpointID, dial), dial)
				}
			}
			beginCase()
			route := fmt.Sprintf("{| hc_domain := %s; hc_location := %s; hc_user := %s; hc_rewrite_host := %s; hc_headers := %s; hc_resp_headers := %s; hc_endpoint := Some %s; hc_id := 0 |}",
				S(rt.domain), S(rt.location), S(rt.user), S(rt.rewriteHost), coqPairs(mapOrder(rt.headers, obs(seen.hdrs), canonGo)),
				coqPairs(mapOrder(rt.respHeaders, obs(got.hdrs), canonGo)), S(endpointID))
			cs := endCase(fmt.Sprintf("CFwdG (%s) %d %s (%s) %s (%s) %s (%s) (%s)", route, seen.route, S(member), coqReq(rg, ip, false), S(reencQuery(rg.query)),
				coqSeen(seen), optS(dial), coqScripted(resp, rg.req.method), coqGotFor(got, resp)))
			cases = append(cases, cs)
			st.dist["group:forward"]++
		}
		u.close()
	}
	if served["alpha"] == 0 || served["beta"] == 0 {
		st.fail("impl:group-member-never-chosen", fmt.Sprintf("requests served per member: %v", served), "group g1")
	}

	// ---- (b) CONNECT to the group ----
	for i := 0; i < 2; i++ {
		up, down := g.Bytes(20000+g.Intn(20000)), g.Bytes(20000+g.Intn(20000))
		r.be.mu.Lock()
		r.be.tunDown, r.be.tunUpLen = down, len(up)
		r.be.mu.Unlock()
		r.be.drain()
		for len(r.be.tunGot) > 0 {
			<-r.be.tunGot
		}
		u, err := dialUser(r.addr, "")
		if err != nil {
			return nil, err
		}
		head := "CONNECT g0.c02.test:80 HTTP/1.1\r\nHost: g0.c02.test:80\r\n\r\n"
		accepted, upRecv, downRecv := tunnelExchange(u, r.be, head, up, down, i == 1)
		u.close()
		cases = append(cases, fmt.Sprintf("CTunnel 4 %s %s %s %s %s", hx.Bool(accepted), hx.HxS(bodyID(up)), hx.HxS(bodyID(upRecv)), hx.HxS(bodyID(down)), hx.HxS(bodyID(downRecv))))
		st.dist["group:connect"]++
		if !accepted || bodyID(up) != bodyID(upRecv) || bodyID(down) != bodyID(downRecv) {
			st.fail("impl:connect-to-group-refused-or-not-transparent", fmt.Sprintf("CONNECT through the vhost http port to a group with two live members: accepted=%v up %s/%s down %s/%s",
				accepted, bodyID(up), bodyID(upRecv), bodyID(down), bodyID(downRecv)), head)
		}
	}
	r.close()

	// ---- (c) group closed, another group on the same triple ----
	for variant, newName := range []string{"beta", "alpha"} {
		r, err := newGroupRig(10)
		if err != nil {
			return nil, err
		}
		rt := &routeSpec{domain: "g1.c02.test", location: "/"}
		if err := r.join("alpha", "g1", rt, 1); err != nil {
			return nil, err
		}
		r.be.script(&scripted{status: 200, framing: "cl", body: []byte("ok"), hdrs: []hdr{{"Content-Type", "text/plain"}}})
		u, err := dialUser(r.addr, "")
		if err != nil {
			return nil, err
		}
		firstRoute, secondRoute := 0, 0
		r.be.drain()
		if _, err := u.do(simpleGet("g1.c02.test", "/before"), 3*time.Second); err == nil {
			if sn := r.be.waitSeen(2 * time.Second); sn != nil {
				firstRoute = sn.route
			}
		}
		r.leave("alpha", "g1", rt)
		if err := r.join(newName, "g2", rt, 2); err != nil {
			return nil, err
		}
		r.be.drain()
		status := 0
		if got, err := u.do(simpleGet("g1.c02.test", "/after"), 3*time.Second); err == nil {
			status = got.status
			if sn := r.be.waitSeen(2 * time.Second); sn != nil {
				secondRoute = sn.route
			}
		}
		u.close()
		r.close()
		cs := fmt.Sprintf("CRegroup %d %d %d %d", variant, firstRoute, secondRoute, status)
		cases = append(cases, cs)
		st.dist[fmt.Sprintf("group:regroup:%s", map[int]string{0: "other-member-name", 1: "same-member-name"}[variant])]++
		if false {
		} else if firstRoute != 1 || secondRoute != 2 || status != 200 {
			st.fail("impl:request-reached-backend-of-closed-group:"+map[int]string{0: "other-member-name", 1: "same-member-name"}[variant],
				fmt.Sprintf("group g1/alpha closed, group g2/%s registered on the same (domain, location, user): the next request on the keep-alive connection reached backend %d (status %d); expected the new member's backend 2",
					newName, secondRoute, status), cs)
		}
	}

	// ---- (d) one member's dial stalls while the membership changes ----
	{
		r, err := newGroupRig(10)
		if err != nil {
			return nil, err
		}
		rt := &routeSpec{domain: "g2.c02.test", location: "/"}
		if err := r.join("alpha", "g1", rt, 1); err != nil {
			return nil, err
		}
		if err := r.join("beta", "g1", rt, 2); err != nil {
			return nil, err
		}
		r.be.script(&scripted{status: 200, framing: "cl", body: []byte("ok"), hdrs: []hdr{{"Content-Type", "text/plain"}}})
		r.mu.Lock()
		r.stall["alpha"] = 2500 * time.Millisecond
		r.mu.Unlock()
		const bound = 700 * time.Millisecond
		ask := func(path string, timeout time.Duration) (int, time.Duration) {
			u, err := dialUser(r.addr, "")
			if err != nil {
				return 0, 0
			}
			defer u.close()
			t0 := time.Now()
			got, err := u.do(simpleGet("g2.c02.test", path), timeout)
			if err != nil {
				return 0, time.Since(t0)
			}
			return got.status, time.Since(t0)
		}
		// two requests so that one of them is certainly on the stalling member
		var wg sync.WaitGroup
		for i := 0; i < 2; i++ {
			wg.Add(1)
			go func(i int) {
				defer wg.Done()
				ask(fmt.Sprintf("/first-%d", i), 4*time.Second)
			}(i)
		}
		time.Sleep(200 * time.Millisecond)
		// membership change while a dial is stalled
		joinDone := make(chan time.Duration, 1)
		go func() {
			t0 := time.Now()
			_ = r.join("gamma", "g1", rt, 3)
			joinDone <- time.Since(t0)
		}()
		time.Sleep(100 * time.Millisecond)
		answered := 0
		var pwg sync.WaitGroup
		var pmu sync.Mutex
		for i := 0; i < 6; i++ {
			pwg.Add(1)
			go func(i int) {
				defer pwg.Done()
				stt, el := ask(fmt.Sprintf("/probe-%d", i), 1500*time.Millisecond)
				if stt == 200 && el <= bound {
					pmu.Lock()
					answered++
					pmu.Unlock()
				}
			}(i)
			time.Sleep(10 * time.Millisecond)
		}
		pwg.Wait()
		joinMs := int64(-1)
		select {
		case d := <-joinDone:
			joinMs = d.Milliseconds()
		case <-time.After(100 * time.Millisecond):
		}
		wg.Wait()
		r.close()
		cs := fmt.Sprintf("CGroupStall 6 %d %d %d", answered, joinMs, bound.Milliseconds())
		cases = append(cases, cs)
		st.dist["group:member-dial-stalls"]++
		// with three members in turn at most every third request meets the stalling member
		if answered < 3 || joinMs < 0 || joinMs > bound.Milliseconds() {
			st.fail("impl:group-requests-hang-behind-stalled-member-dial",
				fmt.Sprintf("http group with members alpha (dial stalls 2.5 s), beta; gamma joins meanwhile: join returned after %d ms (-1 = not within the bound), %d of 6 further requests answered within %d ms",
					joinMs, answered, bound.Milliseconds()), cs)
		}
	}
	_ = strings.TrimSpace
	return cases, nil
}
