// c13: correspondence drivers for property C13 (load-balancing groups).
//
//	groups        parent driver: generates sequential histories and gate-driven schedules for the three
//	              group controllers, has them executed by child processes (a crash of the implementation
//	              is a possible outcome), writes the Coq case file and the stats.
//	sysgroups     the same through a whole in-process frps with real in-process frpc clients.
//	groups-child  executes the cases of a JSON file from a start index, one RESULT line per case.
package main

import "verifharness/hx"

var drivers = map[string]hx.DriverFn{
	"groups":       groupsDriver,
	"groups-child": groupsChild,
	"sysgroups":    sysGroups,
}

func main() { hx.Main(drivers) }
