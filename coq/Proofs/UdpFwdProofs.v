(* C03: proofs about Model/Udp.v, part 2 (the tunnel state machine): accounting of every datagram,
   the only reasons for a loss, the per-user socket table. *)
From FRP Require Import Model.Udp Proofs.FrameProofs Proofs.MsgObjProofs Proofs.Base64Proofs Proofs.UdpProofs.
From Coq Require Import Lia ZifyBool ZifyNat.
Open Scope Z_scope.
Ltac Zify.zify_post_hook ::= Z.div_mod_to_equations.

(** * histories *)

Lemma urun_app c h1 : forall st h2,
  urun c st (h1 ++ h2) =
  (fst (urun c (fst (urun c st h1)) h2), snd (urun c st h1) ++ snd (urun c (fst (urun c st h1)) h2)).
Proof.
  induction h1 as [|e h1 IH]; intros st h2; cbn [app urun].
  - cbn. destruct (urun c st h2); reflexivity.
  - destruct (ustep c st e) as [st1 o1]. rewrite IH.
    destruct (urun c st1 h1) as [st2 o2]. cbn [fst snd].
    destruct (urun c st2 h2) as [st3 o3]. cbn [fst snd]. now rewrite app_assoc.
Qed.

Lemma urun_snoc c st h e :
  urun c st (h ++ [e]) =
  (fst (ustep c (fst (urun c st h)) e), snd (urun c st h) ++ snd (ustep c (fst (urun c st h)) e)).
Proof.
  rewrite urun_app. cbn [urun]. destruct (ustep c (fst (urun c st h)) e) as [st1 o1].
  cbn [fst snd]. now rewrite app_nil_r.
Qed.

(* the induction principle used by every invariant: P relates the history processed so far, the
   state reached and the trace produced *)
Lemma urun_invariant c (P : list uev -> ust -> list uout -> Prop) st0 :
  P [] st0 [] ->
  (forall h st tr e, P h st tr -> P (h ++ [e]) (fst (ustep c st e)) (tr ++ snd (ustep c st e))) ->
  forall h, P h (fst (urun c st0 h)) (snd (urun c st0 h)).
Proof.
  intros H0 Hs h. induction h as [|e h IH] using rev_ind.
  - exact H0.
  - rewrite urun_snoc. cbn [fst snd]. apply Hs. exact IH.
Qed.

(** * counting *)

Lemma ucount_app {A} (f : A -> bool) a b : ucount f (a ++ b) = ucount f a + ucount f b.
Proof. induction a as [|x a IH]; cbn [app ucount]; lia. Qed.

Lemma ucount_nonneg {A} (f : A -> bool) l : 0 <= ucount f l.
Proof. induction l as [|x l IH]; cbn [ucount]; [lia|]. destruct (f x); lia. Qed.

Lemma ucount_del_nth {A B} (f : B -> bool) (g : A -> B) k : forall l p,
  nth_error l k = Some p ->
  ucount f (map g l) = ucount f (map g (udel_nth k l)) + (if f (g p) then 1 else 0).
Proof.
  induction k as [|k IH]; intros [|x l] p; cbn [nth_error udel_nth map ucount]; try discriminate.
  - intros [= ->]. lia.
  - intros H. rewrite (IH l p H). lia.
Qed.

Lemma upview_new c' d ra : upview (new_udp_packet (uread c' d) None ra) = (ra, Some (uread c' d)).
Proof. unfold upview. cbn [new_udp_packet up_raddr]. now rewrite get_content_new. Qed.

Lemma usent_snoc c h e : usent c (h ++ [e]) = usent c h ++ usent c [e].
Proof. unfold usent. now rewrite flat_map_app. Qed.
Lemma ubackend_app a b : ubackend (a ++ b) = ubackend a ++ ubackend b.
Proof. unfold ubackend. now rewrite flat_map_app. Qed.
Lemma udropped_fwd_app a b : udropped_fwd (a ++ b) = udropped_fwd a ++ udropped_fwd b.
Proof. unfold udropped_fwd. now rewrite flat_map_app. Qed.
Lemma utagged_app a b : utagged (a ++ b) = utagged a ++ utagged b.
Proof. unfold utagged. now rewrite flat_map_app. Qed.
Lemma uuser_app a b : uuser (a ++ b) = uuser a ++ uuser b.
Proof. unfold uuser. now rewrite flat_map_app. Qed.
Lemma udropped_rev_app a b : udropped_rev (a ++ b) = udropped_rev a ++ udropped_rev b.
Proof. unfold udropped_rev. now rewrite flat_map_app. Qed.

Lemma udropped_fwd_map_fwd w l : udropped_fwd (map (ODropFwd w) l) = map upview l.
Proof. induction l as [|x l IH]; cbn; [reflexivity|]. f_equal. exact IH. Qed.
Lemma udropped_fwd_map_rev w l : udropped_fwd (map (ODropRev w) l) = [].
Proof. induction l as [|x l IH]; cbn; [reflexivity|]. exact IH. Qed.
Lemma udropped_rev_map_rev w l : udropped_rev (map (ODropRev w) l) = map upview l.
Proof. induction l as [|x l IH]; cbn; [reflexivity|]. f_equal. exact IH. Qed.
Lemma udropped_rev_map_fwd w l : udropped_rev (map (ODropFwd w) l) = [].
Proof. induction l as [|x l IH]; cbn; [reflexivity|]. exact IH. Qed.
Lemma ubackend_map_fwd w l : ubackend (map (ODropFwd w) l) = [].
Proof. induction l as [|x l IH]; cbn; [reflexivity|]. exact IH. Qed.
Lemma ubackend_map_rev w l : ubackend (map (ODropRev w) l) = [].
Proof. induction l as [|x l IH]; cbn; [reflexivity|]. exact IH. Qed.
Lemma utagged_map_fwd w l : utagged (map (ODropFwd w) l) = [].
Proof. induction l as [|x l IH]; cbn; [reflexivity|]. exact IH. Qed.
Lemma utagged_map_rev w l : utagged (map (ODropRev w) l) = [].
Proof. induction l as [|x l IH]; cbn; [reflexivity|]. exact IH. Qed.
Lemma uuser_map_fwd w l : uuser (map (ODropFwd w) l) = [].
Proof. induction l as [|x l IH]; cbn; [reflexivity|]. exact IH. Qed.
Lemma uuser_map_rev w l : uuser (map (ODropRev w) l) = [].
Proof. induction l as [|x l IH]; cbn; [reflexivity|]. exact IH. Qed.

Global Hint Rewrite @ucount_app map_app ubackend_app udropped_fwd_app utagged_app uuser_app udropped_rev_app
  udropped_fwd_map_fwd udropped_fwd_map_rev udropped_rev_map_rev udropped_rev_map_fwd
  ubackend_map_fwd ubackend_map_rev utagged_map_fwd utagged_map_rev uuser_map_fwd uuser_map_rev app_nil_r : ucnt.

Ltac ucases :=
  repeat match goal with
         | |- context [match ?x with _ => _ end] => destruct x eqn:?
         | |- context [if ?x then _ else _] => destruct x eqn:?
         end.

(** * accounting, user -> backend direction *)

Ltac ustep_open st e :=
  destruct st as [ssq srq wsc wcs up crq csq cm crd coq cz ns];
  destruct e; cbn [ustep s_sendq s_readq w_sc w_cs conn_up c_readq c_sendq c_map c_readers c_oldq c_zombies next_sock];
  unfold ubreak_outs;
  ucases; cbn [fst snd s_sendq s_readq w_sc w_cs conn_up c_readq c_sendq c_map c_readers c_oldq c_zombies next_sock usent flat_map].

Ltac ucount_norm :=
  autorewrite with ucnt in *;
  cbn [ubackend udropped_fwd utagged uuser udropped_rev flat_map app map ucount] in *;
  autorewrite with ucnt in *;
  cbn [ubackend udropped_fwd utagged uuser udropped_rev flat_map app map ucount] in *.

Definition fwd_account c (f : uview -> bool) (h : list uev) (st : ust) (tr : list uout) : Prop :=
  ucount f (usent c h) =
  ucount f (ubackend tr) + ucount f (map upview (ufwd_pending st)) + ucount f (udropped_fwd tr).

Lemma fwd_account_step c f h st tr e :
  fwd_account c f h st tr ->
  fwd_account c f (h ++ [e]) (fst (ustep c st e)) (tr ++ snd (ustep c st e)).
Proof.
  unfold fwd_account. intros H. rewrite usent_snoc.
  unfold ufwd_pending in *.
  ustep_open st e; cbn [s_sendq w_sc c_readq c_oldq] in H; ucount_norm.
  all: rewrite ?upview_new in *.
  all: try match goal with E : nth_error ?l ?k = Some ?p |- _ => rewrite (ucount_del_nth f upview k l p E) in H end.
  all: unfold upview in *.
  all: repeat match goal with E : get_content _ = _ |- _ => rewrite E in *; clear E end.
  all: lia.
Qed.

Theorem fwd_accounting c f h :
  fwd_account c f h (fst (urun c uinit h)) (snd (urun c uinit h)).
Proof.
  apply (urun_invariant c (fwd_account c f)).
  - reflexivity.
  - intros. now apply fwd_account_step.
Qed.

(** * accounting, backend -> user direction *)

Definition rev_account (f : uview -> bool) (st : ust) (tr : list uout) : Prop :=
  ucount f (utagged tr) =
  ucount f (uuser tr) + ucount f (map upview (urev_pending st)) + ucount f (udropped_rev tr).

Lemma rev_account_step c f st tr e :
  rev_account f st tr ->
  rev_account f (fst (ustep c st e)) (tr ++ snd (ustep c st e)).
Proof.
  unfold rev_account. intros H.
  unfold urev_pending in *.
  ustep_open st e; cbn [c_sendq w_cs s_readq] in H; ucount_norm.
  all: rewrite ?upview_new in *.
  all: unfold upview in *.
  all: repeat match goal with E : get_content _ = _ |- _ => rewrite E in *; clear E end.
  all: repeat match goal with E : up_raddr _ = _ |- _ => rewrite E in *; clear E end.
  all: lia.
Qed.

Theorem rev_accounting c f h :
  rev_account f (fst (urun c uinit h)) (snd (urun c uinit h)).
Proof.
  apply (urun_invariant c (fun _ => rev_account f)).
  - reflexivity.
  - intros. now apply rev_account_step.
Qed.


(** * only full queues and dying connections lose datagrams *)

Definition uaddr_smallb (a : uaddr) : bool :=
  (blen (ua_ip a) <=? 45) && (0 <=? ua_port a) && (ua_port a <=? 65535) && (blen (ua_zone a) <=? 64).
Definition uaddr_okb (ra : option uaddr) : bool :=
  match ra with Some a => uaddr_smallb a | None => false end.

Lemma uaddr_okb_small ra : uaddr_okb ra = true -> uaddr_small ra.
Proof.
  destruct ra as [a|]; cbn; [|discriminate]. unfold uaddr_smallb. intros H.
  repeat (apply andb_true_iff in H; destruct H as [H ?]). lia.
Qed.

(* the read buffers are small enough that every datagram read into them fits a frame *)
Definition ucfg_ok (c : ucfg) : Prop := 0 <= uc_buf c /\ b64_len (uc_buf c) + 154 <= max_len.

Definition pkt_okb (p : upacket) : bool :=
  match get_content p with Some _ => true | None => false end && upacket_fits p && uaddr_okb (up_raddr p).

Lemma uread_len c d : 0 <= uc_buf c -> blen (uread c d) <= uc_buf c.
Proof. intros H. unfold uread, blen. rewrite firstn_length. lia. Qed.

Lemma pkt_okb_new c d ra : ucfg_ok c -> uaddr_okb ra = true -> pkt_okb (new_udp_packet (uread c d) None ra) = true.
Proof.
  intros [H0 Hc] Hra. unfold pkt_okb. rewrite get_content_new. cbn [new_udp_packet up_raddr].
  rewrite Hra. rewrite udp_fits_of_size; [reflexivity|].
  pose proof (uaddr_small_overhead ra (uaddr_okb_small ra Hra)).
  pose proof (uread_len c d H0). pose proof (blen_nonneg (uread c d)).
  unfold udp_overhead, b64_len in *. cbn [uaddr_overhead]. lia.
Qed.

Definition uev_ok (e : uev) : bool :=
  match e with
  | EUserSend a _ => uaddr_smallb a
  | ECliPump os_ok => os_ok
  | ESrvDeliver wr_ok => wr_ok
  | _ => true
  end.

Definition uall (st : ust) : list upacket :=
  s_sendq st ++ w_sc st ++ c_readq st ++ c_oldq st ++ c_sendq st ++ w_cs st ++ s_readq st.
Definition utags (st : ust) : list (N * option uaddr) := c_readers st ++ c_zombies st.
Definition tag_bad (e : N * option uaddr) : bool := negb (uaddr_okb (snd e)).
Definition out_bad (o : uout) : bool := negb (uout_drop_ok o).

Definition valid_inv (st : ust) (tr : list uout) : Prop :=
  ucount negb (map pkt_okb (uall st)) + ucount tag_bad (utags st) + ucount out_bad tr = 0.

Lemma ucount_filter_le {A} (f g : A -> bool) l : ucount f (filter g l) <= ucount f l.
Proof.
  induction l as [|x l IH]; cbn [filter ucount]; [lia|].
  destruct (g x); cbn [ucount]; destruct (f x); lia.
Qed.

Lemma urd_get_count (f : N * option uaddr -> bool) s l ra :
  urd_get s l = Some ra -> (if f (s, ra) then 1 else 0) <= ucount f l.
Proof.
  induction l as [|[s' a] l IH]; cbn [urd_get ucount]; [discriminate|].
  destruct (N.eqb_spec s s') as [->|].
  - intros [= ->]. pose proof (ucount_nonneg f l). lia.
  - intros H. specialize (IH H). destruct (f (s', a)); lia.
Qed.

Lemma out_bad_map_fwd l : ucount out_bad (map (ODropFwd DReplacing) l) = 0.
Proof. induction l as [|x l IH]; cbn; [reflexivity|]. exact IH. Qed.
Lemma out_bad_map_rev l : ucount out_bad (map (ODropRev DReplacing) l) = 0.
Proof. induction l as [|x l IH]; cbn; [reflexivity|]. exact IH. Qed.
Global Hint Rewrite out_bad_map_fwd out_bad_map_rev : ucnt.

Ltac nonneg_all :=
  repeat match goal with
         | |- context [ucount ?f ?l] =>
             lazymatch goal with
             | _ : 0 <= ucount f l |- _ => fail
             | _ => pose proof (ucount_nonneg f l)
             end
         | _ : context [ucount ?f ?l] |- _ =>
             lazymatch goal with
             | _ : 0 <= ucount f l |- _ => fail
             | _ => pose proof (ucount_nonneg f l)
             end
         end.

Lemma valid_step c st tr e :
  ucfg_ok c -> uev_ok e = true -> valid_inv st tr ->
  valid_inv (fst (ustep c st e)) (tr ++ snd (ustep c st e)).
Proof.
  unfold valid_inv, uall, utags. intros Hc He H.
  ustep_open st e; cbn [s_sendq s_readq w_sc w_cs c_readq c_sendq c_oldq c_readers c_zombies uev_ok] in *; ucount_norm.
  all: try match goal with E : nth_error ?l ?k = Some ?p |- _ => rewrite (ucount_del_nth negb pkt_okb k l p E) in H end.
  all: try match goal with E : urd_get ?s ?l = Some ?ra |- _ => pose proof (urd_get_count tag_bad s l ra E) end.
  all: try match goal with |- context [ucount tag_bad (urd_del ?s ?l)] => pose proof (ucount_filter_le tag_bad (fun e => negb (N.eqb s (fst e))) l); fold (urd_del s l) in * end.
  all: nonneg_all.
  all: cbn [out_bad uout_drop_ok udrop_allowed negb] in *.
  (* tags read from the reader tables are good *)
  all: repeat match goal with
         | Hle : (if tag_bad (?s, ?ra) then 1 else 0) <= _ |- _ =>
             unfold tag_bad at 1 in Hle; cbn [snd] in Hle;
             destruct (uaddr_okb ra) eqn:?; [clear Hle|cbn [negb] in Hle; lia]
         end.
  (* packets taken from a queue are good *)
  all: repeat match goal with
         | Hc' : context [pkt_okb ?u] |- _ =>
             is_var u;
             lazymatch goal with
             | _ : pkt_okb u = _ |- _ => fail
             | _ => destruct (pkt_okb u) eqn:?; [|cbn [negb] in *; lia]
             end
         end.
  all: repeat match goal with
         | Eok : pkt_okb ?u = true |- _ =>
             unfold pkt_okb in Eok;
             apply andb_true_iff in Eok; destruct Eok as [Eok ?];
             apply andb_true_iff in Eok; destruct Eok as [? ?]
         end.
  all: repeat match goal with
         | E : get_content ?u = _, E' : context [get_content ?u] |- _ =>
             lazymatch E' with E => fail | _ => rewrite E in E' end
         end.
  all: try discriminate; try congruence.
  all: rewrite ?pkt_okb_new by (assumption || (cbn [uaddr_okb]; assumption)).
  all: unfold tag_bad in *; cbn [snd negb] in *.
  all: repeat match goal with E : uaddr_okb ?x = true |- context [uaddr_okb ?x] => rewrite E end.
  all: cbn [negb] in *.
  all: try lia.
  all: match goal with E : up_raddr ?u = None, E' : uaddr_okb (up_raddr ?u) = true |- _ => rewrite E in E'; discriminate end.
Qed.

Lemma forallb_snoc {A} (f : A -> bool) l x : forallb f (l ++ [x]) = forallb f l && f x.
Proof. rewrite forallb_app. cbn. now rewrite andb_true_r. Qed.

Theorem valid_always c h :
  ucfg_ok c -> forallb uev_ok h = true ->
  valid_inv (fst (urun c uinit h)) (snd (urun c uinit h)).
Proof.
  intros Hc.
  apply (urun_invariant c (fun h st tr => forallb uev_ok h = true -> valid_inv st tr)).
  - intros _. reflexivity.
  - intros h0 st tr e IH Hok. rewrite forallb_snoc in Hok. apply andb_true_iff in Hok.
    destruct Hok as [Hh He]. apply valid_step; auto.
Qed.

Lemma ucount_zero_forallb {A} (f : A -> bool) l : ucount f l = 0 -> forallb (fun x => negb (f x)) l = true.
Proof.
  induction l as [|x l IH]; cbn [ucount forallb]; [reflexivity|].
  pose proof (ucount_nonneg f l) as Hn. destruct (f x); cbn [negb andb]; intros Hz; [lia|]. apply IH. lia.
Qed.

(* every loss in the trace is a full queue or a dying work connection *)
Theorem drops_only_allowed c h :
  ucfg_ok c -> forallb uev_ok h = true ->
  forallb uout_drop_ok (snd (urun c uinit h)) = true.
Proof.
  intros Hc Hok. pose proof (valid_always c h Hc Hok) as H. unfold valid_inv in H.
  pose proof (ucount_nonneg negb (map pkt_okb (uall (fst (urun c uinit h))))).
  pose proof (ucount_nonneg tag_bad (utags (fst (urun c uinit h)))).
  pose proof (ucount_nonneg out_bad (snd (urun c uinit h))).
  assert (H3 : ucount out_bad (snd (urun c uinit h)) = 0) by lia.
  apply ucount_zero_forallb in H3. rewrite forallb_forall in *. intros o Ho.
  specialize (H3 o Ho). unfold out_bad in H3. now rewrite negb_involutive in H3.
Qed.


(** * the per-user socket table *)

Definition is_sock_out (o : uout) : bool :=
  match o with OSockNew _ _ | OSockClosed _ | OBackend _ _ _ | OTagged _ _ _ => true | _ => false end.
Definition sock_ids (tr : list uout) : list N :=
  flat_map (fun o => match o with OSockNew s _ => [s] | _ => [] end) tr.
Definition ulive (st : ust) : list (N * option uaddr) := c_readers st ++ c_zombies st.

Record sock_inv (st : ust) (tr : list uout) : Prop := {
  si_map_of_reader : forall s ra, In (s, ra) (c_readers st) -> umap_get (uaddr_string ra) (c_map st) = Some s;
  si_reader_of_map : forall k s, In (k, s) (c_map st) -> exists ra, In (s, ra) (c_readers st) /\ uaddr_string ra = k;
  si_keys_nodup : NoDup (map fst (c_map st));
  si_live_nodup : NoDup (map fst (ulive st));
  si_live_below : forall s ra, In (s, ra) (ulive st) -> (s < next_sock st)%N;
  si_live_created : forall s ra, In (s, ra) (ulive st) -> In (OSockNew s ra) tr;
  si_created_below : forall s ra, In (OSockNew s ra) tr -> (s < next_sock st)%N;
  si_created_once : NoDup (sock_ids tr);
  si_tag_is_creator : forall s ra d, In (OTagged s ra d) tr -> In (OSockNew s ra) tr;
  si_backend_same_key : forall s ra d, In (OBackend s ra d) tr ->
      exists ra0, In (OSockNew s ra0) tr /\ uaddr_string ra0 = uaddr_string ra;
  si_closed_dead : forall s, In (OSockClosed s) tr -> ~ In s (map fst (ulive st));
  si_closed_below : forall s, In (OSockClosed s) tr -> (s < next_sock st)%N
}.

Lemma umap_get_In k m s : umap_get k m = Some s -> In (k, s) m.
Proof.
  induction m as [|[k' s'] m IH]; cbn [umap_get]; [discriminate|].
  destruct (bytes_eqb k k') eqn:E.
  - apply bytes_eqb_eq in E. subst. intros [= ->]. now left.
  - intros H. right. auto.
Qed.

Lemma umap_get_None k m : umap_get k m = None -> ~ In k (map fst m).
Proof.
  induction m as [|[k' s'] m IH]; cbn [umap_get map fst In]; [tauto|].
  destruct (bytes_eqb k k') eqn:E; [discriminate|].
  intros H [Hk|Hk]; [subst; rewrite bytes_eqb_refl in E; discriminate|]. now apply IH.
Qed.

Lemma umap_get_del_other k k' m : k <> k' -> umap_get k (umap_del k' m) = umap_get k m.
Proof.
  intros Hne. induction m as [|[k2 s2] m IH]; cbn [umap_del filter umap_get fst]; [reflexivity|].
  destruct (bytes_eqb k' k2) eqn:E; cbn [negb].
  - apply bytes_eqb_eq in E. subst k2. fold (umap_del k' m). rewrite IH.
    rewrite bytes_eqb_neq by assumption. reflexivity.
  - cbn [umap_get]. fold (umap_del k' m). now rewrite IH.
Qed.

Lemma umap_del_In k m e : In e (umap_del k m) <-> In e m /\ fst e <> k.
Proof.
  unfold umap_del. rewrite filter_In. split; intros [H1 H2]; split; auto.
  - intros E. rewrite E, bytes_eqb_refl in H2. discriminate.
  - destruct (bytes_eqb k (fst e)) eqn:E; [|reflexivity]. apply bytes_eqb_eq in E. congruence.
Qed.

Lemma urd_get_In s l ra : urd_get s l = Some ra -> In (s, ra) l.
Proof.
  induction l as [|[s' a] l IH]; cbn [urd_get]; [discriminate|].
  destruct (N.eqb_spec s s') as [->|]; [intros [= ->]; now left|intros H; right; auto].
Qed.

Lemma urd_get_None s l : urd_get s l = None -> ~ In s (map fst l).
Proof.
  induction l as [|[s' a] l IH]; cbn [urd_get map fst In]; [tauto|].
  destruct (N.eqb_spec s s') as [->|]; [discriminate|]. intros H [Hs|Hs]; [congruence|]. now apply IH.
Qed.

Lemma urd_del_In s l e : In e (urd_del s l) <-> In e l /\ fst e <> s.
Proof.
  unfold urd_del. rewrite filter_In. split; intros [H1 H2]; split; auto.
  - intros E. rewrite E, N.eqb_refl in H2. discriminate.
  - destruct (N.eqb_spec s (fst e)); [congruence|reflexivity].
Qed.

Lemma NoDup_map_filter {A B} (f : A -> B) (g : A -> bool) l : NoDup (map f l) -> NoDup (map f (filter g l)).
Proof.
  induction l as [|x l IH]; cbn [map filter]; [auto|]. intros H. inversion H as [|y m Hn Hd]; subst.
  destruct (g x); cbn [map]; [|auto]. constructor; [|auto].
  intros Hin. apply Hn. apply in_map_iff in Hin. destruct Hin as (z & Hz & Hin).
  apply filter_In in Hin. apply in_map_iff. exists z. tauto.
Qed.

Lemma NoDup_fst_fun {A B} (l : list (A * B)) a b b' :
  NoDup (map fst l) -> In (a, b) l -> In (a, b') l -> b = b'.
Proof.
  induction l as [|[x y] l IH]; cbn [map fst In]; [tauto|]. intros H. inversion H as [|z m Hn Hd]; subst.
  intros [E1|H1] [E2|H2].
  - congruence.
  - inversion E1; subst. exfalso. apply Hn. apply in_map_iff. exists (a, b'). auto.
  - inversion E2; subst. exfalso. apply Hn. apply in_map_iff. exists (a, b). auto.
  - eauto.
Qed.

Lemma uzombie_find_In k l s : uzombie_find k l = Some s -> exists ra, In (s, ra) l /\ uaddr_string ra = k.
Proof.
  induction l as [|[s' a] l IH]; cbn [uzombie_find]; [discriminate|].
  destruct (bytes_eqb k (uaddr_string a)) eqn:E.
  - apply bytes_eqb_eq in E. intros [= ->]. exists a. split; [now left|auto].
  - intros H. destruct (IH H) as (ra & Hin & Hk). exists ra. split; [now right|auto].
Qed.

Lemma sock_ids_app a b : sock_ids (a ++ b) = sock_ids a ++ sock_ids b.
Proof. unfold sock_ids. now rewrite flat_map_app. Qed.

Lemma sock_ids_In s tr : In s (sock_ids tr) <-> exists ra, In (OSockNew s ra) tr.
Proof.
  unfold sock_ids. rewrite in_flat_map. split.
  - intros (o & Ho & Hs). destruct o; cbn in Hs; try tauto. destruct Hs as [->|[]]. eauto.
  - intros (ra & H). exists (OSockNew s ra). split; [auto|now left].
Qed.

(* events that neither touch the socket table nor mention a socket *)
Definition sock_event (e : uev) : bool :=
  match e with
  | ECliPump _ | EOldPump _ | EBackendReply _ _ | ESockIdle _ | EWorkConnReplaced => true
  | _ => false
  end.

Lemma nosock_map_fwd w l : filter is_sock_out (map (ODropFwd w) l) = [].
Proof. induction l as [|x l IH]; cbn; auto. Qed.
Lemma nosock_map_rev w l : filter is_sock_out (map (ODropRev w) l) = [].
Proof. induction l as [|x l IH]; cbn; auto. Qed.

Lemma sock_untouched c st e :
  sock_event e = false ->
  let st' := fst (ustep c st e) in
  c_map st' = c_map st /\ c_readers st' = c_readers st /\ c_zombies st' = c_zombies st /\
  next_sock st' = next_sock st /\ filter is_sock_out (snd (ustep c st e)) = [].
Proof.
  intros He. destruct st as [ssq srq wsc wcs up crq csq cm crd coq cz ns].
  destruct e; try discriminate He;
    cbn [ustep s_sendq s_readq w_sc w_cs conn_up c_readq c_sendq c_map c_readers c_oldq c_zombies next_sock];
    unfold ubreak_outs; ucases;
    cbn [fst snd s_sendq s_readq w_sc w_cs conn_up c_readq c_sendq c_map c_readers c_oldq c_zombies next_sock filter is_sock_out];
    repeat split; try reflexivity.
  all: rewrite ?filter_app, ?nosock_map_fwd, ?nosock_map_rev; reflexivity.
Qed.

Lemma in_app_sock o tr o2 : is_sock_out o = true -> filter is_sock_out o2 = [] -> In o (tr ++ o2) -> In o tr.
Proof.
  intros Hs Hf Hin. apply in_app_or in Hin. destruct Hin as [|Hin]; [assumption|].
  assert (In o (filter is_sock_out o2)) by (apply filter_In; auto). rewrite Hf in *. contradiction.
Qed.

Lemma sock_ids_nosock o2 : filter is_sock_out o2 = [] -> sock_ids o2 = [].
Proof.
  induction o2 as [|o l IH]; cbn [filter]; [reflexivity|].
  destruct o; cbn [is_sock_out]; try discriminate; intros H; cbn; auto.
Qed.

Lemma sock_inv_nosock st st' tr os :
  c_map st' = c_map st -> c_readers st' = c_readers st -> c_zombies st' = c_zombies st ->
  next_sock st' = next_sock st -> filter is_sock_out os = [] ->
  sock_inv st tr -> sock_inv st' (tr ++ os).
Proof.
  intros E1 E2 E3 E4 E5 [I1 I2 I3 I4 I5 T1 T2 T3 T4 T5 T6 T7].
  unfold ulive in *. constructor; unfold ulive; rewrite ?E1, ?E2, ?E3, ?E4.
  - exact I1.
  - exact I2.
  - exact I3.
  - exact I4.
  - exact I5.
  - intros s ra H. apply in_or_app. left. eauto.
  - intros s ra H. apply (in_app_sock (OSockNew s ra) _ _ eq_refl E5) in H. eauto.
  - rewrite sock_ids_app, (sock_ids_nosock _ E5), app_nil_r. exact T3.
  - intros s ra d H. apply (in_app_sock (OTagged s ra d) _ _ eq_refl E5) in H. apply in_or_app. left. eauto.
  - intros s ra d H. apply (in_app_sock (OBackend s ra d) _ _ eq_refl E5) in H. destruct (T5 _ _ _ H) as (ra0 & H1 & H2).
    exists ra0. split; [apply in_or_app; now left|exact H2].
  - intros s H. apply (in_app_sock (OSockClosed s) _ _ eq_refl E5) in H. eauto.
  - intros s H. apply (in_app_sock (OSockClosed s) _ _ eq_refl E5) in H. eauto.
Qed.

Lemma sock_inv_untouched c st tr e :
  sock_event e = false -> sock_inv st tr -> sock_inv (fst (ustep c st e)) (tr ++ snd (ustep c st e)).
Proof.
  intros He Hi. destruct (sock_untouched c st e He) as (E1 & E2 & E3 & E4 & E5).
  apply (sock_inv_nosock st); assumption.
Qed.

(* a datagram written to / a reply read from a live socket; the table does not change *)
Lemma sock_inv_use st st' tr os :
  c_map st' = c_map st -> c_readers st' = c_readers st -> c_zombies st' = c_zombies st ->
  next_sock st' = next_sock st ->
  (forall o, In o os -> match o with
                        | OSockNew _ _ | OSockClosed _ => False
                        | OTagged s ra _ => In (s, ra) (ulive st)
                        | OBackend s ra _ => exists ra0, In (s, ra0) (ulive st) /\ uaddr_string ra0 = uaddr_string ra
                        | _ => True
                        end) ->
  sock_inv st tr -> sock_inv st' (tr ++ os).
Proof.
  intros E1 E2 E3 E4 Hos [I1 I2 I3 I4 I5 T1 T2 T3 T4 T5 T6 T7].
  assert (Hids : sock_ids os = []).
  { clear -Hos. induction os as [|o os IH]; [reflexivity|]. cbn [sock_ids flat_map].
    pose proof (Hos o (or_introl eq_refl)) as Ho. destruct o; try contradiction; cbn [app];
      apply IH; intros o' Ho'; apply Hos; now right. }
  unfold ulive in *. constructor; unfold ulive; rewrite ?E1, ?E2, ?E3, ?E4.
  - exact I1.
  - exact I2.
  - exact I3.
  - exact I4.
  - exact I5.
  - intros s ra H. apply in_or_app. left. eauto.
  - intros s ra H. apply in_app_or in H. destruct H as [H|H]; [eauto|]. apply Hos in H. contradiction.
  - rewrite sock_ids_app, Hids, app_nil_r. exact T3.
  - intros s ra d H. apply in_or_app. left. apply in_app_or in H. destruct H as [H|H]; [eauto|].
    apply Hos in H. eauto.
  - intros s ra d H. apply in_app_or in H. destruct H as [H|H].
    + destruct (T5 _ _ _ H) as (ra0 & H1 & H2). exists ra0. split; [apply in_or_app; now left|exact H2].
    + apply Hos in H. destruct H as (ra0 & H1 & H2). exists ra0. split; [apply in_or_app; left; eauto|exact H2].
  - intros s H. apply in_app_or in H. destruct H as [H|H]; [eauto|]. apply Hos in H. contradiction.
  - intros s H. apply in_app_or in H. destruct H as [H|H]; [eauto|]. apply Hos in H. contradiction.
Qed.

(* a new socket [next_sock st] for [ra], either in the current table (key k) or among the zombies *)
Lemma sock_inv_new st st' tr ra d (cur : bool) :
  next_sock st' = N.succ (next_sock st) ->
  (if cur
   then umap_get (uaddr_string ra) (c_map st) = None /\ c_map st' = (uaddr_string ra, next_sock st) :: c_map st /\ c_readers st' = (next_sock st, ra) :: c_readers st /\ c_zombies st' = c_zombies st
   else c_map st' = c_map st /\ c_readers st' = c_readers st /\ c_zombies st' = (next_sock st, ra) :: c_zombies st) ->
  sock_inv st tr ->
  sock_inv st' (tr ++ [OSockNew (next_sock st) ra; OBackend (next_sock st) ra d]).
Proof.
  intros En Hcur [I1 I2 I3 I4 I5 T1 T2 T3 T4 T5 T6 T7].
  set (ns := next_sock st) in *.
  assert (Hfresh : ~ In ns (map fst (ulive st))).
  { intros H. apply in_map_iff in H. destruct H as ([s ra'] & Hs & Hin). cbn in Hs. subst s.
    apply I5 in Hin. fold ns in Hin. lia. }
  assert (Hlive : forall e, In e (ulive st') <-> e = (ns, ra) \/ In e (ulive st)).
  { intros e. unfold ulive. destruct cur.
    - destruct Hcur as (_ & _ & -> & ->). cbn [app In]. intuition congruence.
    - destruct Hcur as (_ & -> & ->). rewrite !in_app_iff. cbn [In]. intuition congruence. }
  assert (Hnd : NoDup (map fst (ulive st'))).
  { unfold ulive in *. destruct cur.
    - destruct Hcur as (_ & _ & -> & ->). cbn [app map fst]. constructor; assumption.
    - destruct Hcur as (_ & -> & ->). rewrite map_app in *. cbn [map fst].
      apply (NoDup_Add (Add_app ns (map fst (c_readers st)) (map fst (c_zombies st)))). split; assumption. }
  constructor.
  - (* map of reader *)
    destruct cur.
    + destruct Hcur as (Hnone & -> & -> & _). intros s ra' [E|H].
      * inversion E; subst. cbn [umap_get]. now rewrite bytes_eqb_refl.
      * cbn [umap_get]. destruct (bytes_eqb (uaddr_string ra') (uaddr_string ra)) eqn:E.
        -- apply bytes_eqb_eq in E. rewrite <- E in Hnone. rewrite (I1 _ _ H) in Hnone. discriminate.
        -- now apply I1.
    + destruct Hcur as (-> & -> & _). exact I1.
  - destruct cur.
    + destruct Hcur as (Hnone & -> & -> & _). intros k s [E|H].
      * inversion E; subst. exists ra. split; [now left|reflexivity].
      * destruct (I2 _ _ H) as (ra' & H1 & H2). exists ra'. split; [now right|assumption].
    + destruct Hcur as (-> & -> & _). exact I2.
  - destruct cur.
    + destruct Hcur as (Hnone & -> & _). cbn [map fst]. constructor; [now apply umap_get_None|assumption].
    + destruct Hcur as (-> & _). exact I3.
  - exact Hnd.
  - intros s ra' H. apply Hlive in H. rewrite En. destruct H as [E|H]; [inversion E; subst; lia|].
    apply I5 in H. fold ns in H. lia.
  - intros s ra' H. apply Hlive in H. apply in_or_app. destruct H as [E|H]; [inversion E; subst; right; now left|left; eauto].
  - intros s ra' H. rewrite En. apply in_app_or in H. destruct H as [H|[E|[E|[]]]]; try discriminate.
    + apply T2 in H. fold ns in H. lia.
    + inversion E; subst. lia.
  - rewrite sock_ids_app. cbn [sock_ids flat_map app].
    apply (NoDup_Add (Add_app ns (sock_ids tr) [])). rewrite app_nil_r. split; [assumption|].
    intros H. apply sock_ids_In in H. destruct H as (ra' & H). apply T2 in H. fold ns in H. lia.
  - intros s ra' d' H. apply in_or_app. left. apply in_app_or in H.
    destruct H as [H|[E|[E|[]]]]; try discriminate. eauto.
  - intros s ra' d' H. apply in_app_or in H. destruct H as [H|[E|[E|[]]]]; try discriminate.
    + destruct (T5 _ _ _ H) as (ra0 & H1 & H2). exists ra0. split; [apply in_or_app; now left|assumption].
    + inversion E; subst. exists ra'. split; [apply in_or_app; right; now left|reflexivity].
  - intros s H. apply in_app_or in H. destruct H as [H|[E|[E|[]]]]; try discriminate.
    intros Hin. apply in_map_iff in Hin. destruct Hin as ([s' ra'] & Hs & Hin). cbn in Hs. subst s'.
    apply Hlive in Hin. destruct Hin as [E|Hin].
    + inversion E; subst. apply T7 in H. fold ns in H. lia.
    + apply (T6 _ H). apply in_map_iff. exists (s, ra'). auto.
  - intros s H. rewrite En. apply in_app_or in H. destruct H as [H|[E|[E|[]]]]; try discriminate.
    apply T7 in H. fold ns in H. lia.
Qed.

Lemma NoDup_map_app_filter_l {A B} (f : A -> B) (g : A -> bool) l1 l2 :
  NoDup (map f (l1 ++ l2)) -> NoDup (map f (filter g l1 ++ l2)).
Proof.
  induction l1 as [|x l1 IH]; cbn [app filter map]; [auto|]. intros H. inversion H as [|y m Hn Hd]; subst.
  destruct (g x); cbn [app map]; [|auto]. constructor; [|auto].
  intros Hin. apply Hn. rewrite map_app, in_app_iff in *. destruct Hin as [Hin|Hin]; [left|now right].
  apply in_map_iff in Hin. destruct Hin as (z & Hz & Hin). apply filter_In in Hin. apply in_map_iff. exists z. tauto.
Qed.

Lemma NoDup_map_app_filter_r {A B} (f : A -> B) (g : A -> bool) l1 l2 :
  NoDup (map f (l1 ++ l2)) -> NoDup (map f (l1 ++ filter g l2)).
Proof.
  induction l1 as [|x l1 IH]; cbn [app map]; [apply NoDup_map_filter|]. intros H. inversion H as [|y m Hn Hd]; subst.
  constructor; [|auto].
  intros Hin. apply Hn. rewrite map_app, in_app_iff in *. destruct Hin as [Hin|Hin]; [now left|right].
  apply in_map_iff in Hin. destruct Hin as (z & Hz & Hin). apply filter_In in Hin. apply in_map_iff. exists z. tauto.
Qed.

(* socket s is closed: its entries disappear, nothing else changes *)
Lemma sock_inv_close st st' tr s os :
  next_sock st' = next_sock st ->
  In s (map fst (ulive st)) ->
  (forall e, In e (ulive st') <-> In e (ulive st) /\ fst e <> s) ->
  NoDup (map fst (ulive st')) ->
  (forall s' ra, In (s', ra) (c_readers st') -> umap_get (uaddr_string ra) (c_map st') = Some s') ->
  (forall k s', In (k, s') (c_map st') -> exists ra, In (s', ra) (c_readers st') /\ uaddr_string ra = k) ->
  NoDup (map fst (c_map st')) ->
  (forall o, In o os -> match o with
                        | OSockNew _ _ | OBackend _ _ _ => False
                        | OSockClosed s' => s' = s
                        | OTagged s' ra _ => In (s', ra) (ulive st)
                        | _ => True
                        end) ->
  sock_inv st tr -> sock_inv st' (tr ++ os).
Proof.
  intros En Hs Hlive Hnd I1' I2' I3' Hos [I1 I2 I3 I4 I5 T1 T2 T3 T4 T5 T6 T7].
  assert (Hids : sock_ids os = []).
  { clear -Hos. induction os as [|o os IH]; [reflexivity|]. cbn [sock_ids flat_map].
    pose proof (Hos o (or_introl eq_refl)) as Ho. destruct o; try contradiction; cbn [app];
      apply IH; intros o' Ho'; apply Hos; now right. }
  constructor; rewrite ?En.
  - exact I1'.
  - exact I2'.
  - exact I3'.
  - exact Hnd.
  - intros s' ra H. apply Hlive in H. destruct H as [H _]. eauto.
  - intros s' ra H. apply Hlive in H. destruct H as [H _]. apply in_or_app. left. eauto.
  - intros s' ra H. apply in_app_or in H. destruct H as [H|H]; [eauto|]. apply Hos in H. contradiction.
  - rewrite sock_ids_app, Hids, app_nil_r. exact T3.
  - intros s' ra d H. apply in_or_app. left. apply in_app_or in H. destruct H as [H|H]; [eauto|].
    apply Hos in H. eauto.
  - intros s' ra d H. apply in_app_or in H. destruct H as [H|H]; [|apply Hos in H; contradiction].
    destruct (T5 _ _ _ H) as (ra0 & H1 & H2). exists ra0. split; [apply in_or_app; now left|exact H2].
  - intros s' H Hin. apply in_map_iff in Hin. destruct Hin as ([s2 ra] & E & Hin). cbn in E. subst s2.
    apply Hlive in Hin. destruct Hin as [Hin Hne]. cbn in Hne.
    apply in_app_or in H. destruct H as [H|H].
    + apply (T6 _ H). apply in_map_iff. exists (s', ra). auto.
    + apply Hos in H. congruence.
  - intros s' H. apply in_app_or in H. destruct H as [H|H]; [eauto|]. apply Hos in H. subst s'.
    apply in_map_iff in Hs. destruct Hs as ([s2 ra] & E & Hin). cbn in E. subst s2. eauto.
Qed.

Lemma NoDup_app_not_both {A} (l1 l2 : list A) x : NoDup (l1 ++ l2) -> In x l1 -> In x l2 -> False.
Proof.
  induction l1 as [|y l1 IH]; cbn [app In]; [tauto|]. intros H. inversion H as [|z m Hn Hd]; subst.
  intros [->|H1] H2; [apply Hn; apply in_or_app; now right|eauto].
Qed.

Lemma NoDup_app_l {A} (l1 l2 : list A) : NoDup (l1 ++ l2) -> NoDup l1.
Proof.
  induction l1 as [|x l1 IH]; cbn [app]; [constructor|]. intros H. inversion H as [|y m Hn Hd]; subst.
  constructor; [|auto]. intros Hin. apply Hn. apply in_or_app. now left.
Qed.

(** ** the five events that touch the table *)

Ltac open_st st :=
  destruct st as [ssq srq wsc wcs up crq csq cm crd coq cz ns];
  cbn [ustep s_sendq s_readq w_sc w_cs conn_up c_readq c_sendq c_map c_readers c_oldq c_zombies next_sock].

Lemma sock_inv_step c st tr e :
  sock_inv st tr -> sock_inv (fst (ustep c st e)) (tr ++ snd (ustep c st e)).
Proof.
  intros Hi. destruct (sock_event e) eqn:He; [|now apply sock_inv_untouched].
  destruct e; try discriminate He; clear He.
  - (* ECliPump *)
    open_st st. destruct crq as [|p q]; [cbn [fst snd]; rewrite app_nil_r; exact Hi|].
    destruct (get_content p) as [buf|] eqn:Eg.
    2:{ cbn [fst snd]. eapply sock_inv_nosock; try exact Hi; reflexivity. }
    destruct (umap_get (uaddr_string (up_raddr p)) cm) as [s|] eqn:Em.
    + cbn [fst snd]. eapply sock_inv_use; try exact Hi; try reflexivity.
      intros o [<-|[]]. apply umap_get_In in Em. destruct Hi as [_ I2 _ _ _ _ _ _ _ _ _ _].
      destruct (I2 _ _ Em) as (ra & H1 & H2). exists ra. split; [|exact H2].
      unfold ulive. cbn [c_readers]. apply in_or_app. now left.
    + destruct os_ok; cbn [fst snd].
      * match type of Hi with sock_inv ?st0 _ => apply (sock_inv_new st0 _ tr (up_raddr p) buf true) end;
          [reflexivity| |exact Hi]. cbn. auto.
      * eapply sock_inv_nosock; try exact Hi; reflexivity.
  - (* EOldPump *)
    open_st st. destruct (nth_error coq k) as [p|] eqn:En; [|cbn [fst snd]; rewrite app_nil_r; exact Hi].
    destruct (get_content p) as [buf|] eqn:Eg.
    2:{ cbn [fst snd]. eapply sock_inv_nosock; try exact Hi; reflexivity. }
    destruct (uzombie_find (uaddr_string (up_raddr p)) cz) as [s|] eqn:Ez; cbn [fst snd].
    + eapply sock_inv_use; try exact Hi; try reflexivity.
      intros o [<-|[]]. apply uzombie_find_In in Ez. destruct Ez as (ra & H1 & H2).
      exists ra. split; [|exact H2]. unfold ulive. cbn [c_zombies]. apply in_or_app. now right.
    + match type of Hi with sock_inv ?st0 _ => apply (sock_inv_new st0 _ tr (up_raddr p) buf false) end;
        [reflexivity| |exact Hi]. cbn. auto.
  - (* EBackendReply *)
    open_st st. destruct (urd_get s crd) as [ra|] eqn:Er.
    + assert (Hin : In (s, ra) (ulive {| s_sendq := ssq; s_readq := srq; w_sc := wsc; w_cs := wcs; conn_up := up;
                  c_readq := crq; c_sendq := csq; c_map := cm; c_readers := crd; c_oldq := coq; c_zombies := cz; next_sock := ns |})).
      { unfold ulive. cbn [c_readers]. apply in_or_app. left. now apply urd_get_In. }
      destruct (uqlen csq <? uqcap); cbn [fst snd]; eapply sock_inv_use; try exact Hi; try reflexivity.
      * intros o [<-|[]]. exact Hin.
      * intros o [<-|[<-|[]]]; [exact Hin|exact I].
    + destruct (urd_get s cz) as [ra|] eqn:Ez; cbn [fst snd]; [|eapply sock_inv_nosock; try exact Hi; reflexivity].
      pose proof Hi as [I1 I2 I3 I4 I5 _ _ _ _ _ _ _].
      apply urd_get_In in Ez.
      eapply sock_inv_close with (s := s); try exact Hi; try reflexivity; unfold ulive in *;
        cbn [c_map c_readers c_zombies] in *.
      * apply in_map_iff. exists (s, ra). split; [reflexivity|]. apply in_or_app. now right.
      * intros e. rewrite !in_app_iff, urd_del_In. split.
        -- intros [H|[H1 H2]]; [|tauto]. split; [now left|]. intros E.
           apply (NoDup_app_not_both (map fst crd) (map fst cz) s).
           ++ now rewrite <- map_app.
           ++ apply in_map_iff. exists e. auto.
           ++ apply in_map_iff. exists (s, ra). auto.
        -- tauto.
      * apply NoDup_map_app_filter_r. exact I4.
      * exact I1.
      * exact I2.
      * exact I3.
      * intros o [<-|[<-|[<-|[]]]]; [|exact I|reflexivity]. apply in_or_app. now right.
  - (* ESockIdle *)
    open_st st. destruct (urd_get s crd) as [ra|] eqn:Er.
    + cbn [fst snd]. pose proof Hi as [I1 I2 I3 I4 I5 _ _ _ _ _ _ _].
      apply urd_get_In in Er. unfold ulive in *; cbn [c_map c_readers c_zombies] in *.
      assert (Hndr : NoDup (map fst crd)) by (rewrite map_app in I4; now apply NoDup_app_l in I4).
      eapply sock_inv_close with (s := s); try exact Hi; try reflexivity; unfold ulive in *;
        cbn [c_map c_readers c_zombies] in *.
      * apply in_map_iff. exists (s, ra). split; [reflexivity|]. apply in_or_app. now left.
      * intros e. rewrite !in_app_iff, urd_del_In. split.
        -- intros [H|H]; [tauto|]. split; [now right|]. intros E.
           apply (NoDup_app_not_both (map fst crd) (map fst cz) s).
           ++ now rewrite <- map_app.
           ++ apply in_map_iff. exists (s, ra). auto.
           ++ apply in_map_iff. exists e. auto.
        -- tauto.
      * apply NoDup_map_app_filter_l. exact I4.
      * intros s' ra' H. apply urd_del_In in H. destruct H as [H Hne]. cbn in Hne.
        rewrite umap_get_del_other; [now apply I1|].
        intros E. pose proof (I1 _ _ H) as H1. pose proof (I1 _ _ Er) as H2. rewrite E in H1. congruence.
      * intros k s' H. apply umap_del_In in H. destruct H as [H Hne]. cbn in Hne.
        destruct (I2 _ _ H) as (ra' & H1 & H2). exists ra'. split; [|exact H2].
        apply urd_del_In. split; [exact H1|]. cbn. intros E. subst s'.
        pose proof (NoDup_fst_fun crd s ra' ra Hndr H1 Er). subst ra'. congruence.
      * apply NoDup_map_filter. exact I3.
      * intros o [<-|[]]. reflexivity.
    + destruct (urd_get s cz) as [ra|] eqn:Ez; cbn [fst snd]; [|rewrite app_nil_r; exact Hi].
      pose proof Hi as [I1 I2 I3 I4 I5 _ _ _ _ _ _ _].
      apply urd_get_In in Ez.
      eapply sock_inv_close with (s := s); try exact Hi; try reflexivity; unfold ulive in *;
        cbn [c_map c_readers c_zombies] in *.
      * apply in_map_iff. exists (s, ra). split; [reflexivity|]. apply in_or_app. now right.
      * intros e. rewrite !in_app_iff, urd_del_In. split.
        -- intros [H|[H1 H2]]; [|tauto]. split; [now left|]. intros E.
           apply (NoDup_app_not_both (map fst crd) (map fst cz) s).
           ++ now rewrite <- map_app.
           ++ apply in_map_iff. exists e. auto.
           ++ apply in_map_iff. exists (s, ra). auto.
        -- tauto.
      * apply NoDup_map_app_filter_r. exact I4.
      * exact I1.
      * exact I2.
      * exact I3.
      * intros o [<-|[]]. reflexivity.
  - (* EWorkConnReplaced *)
    open_st st. cbn [fst snd]. unfold ubreak_outs. cbn [w_sc w_cs c_sendq].
    destruct Hi as [I1 I2 I3 I4 I5 T1 T2 T3 T4 T5 T6 T7]. unfold ulive in *. cbn [c_map c_readers c_zombies next_sock] in *.
    assert (E5 : filter is_sock_out ((map (ODropFwd DReplacing) wsc ++ map (ODropRev DReplacing) wcs) ++ map (ODropRev DReplacing) csq) = []).
    { now rewrite !filter_app, !nosock_map_fwd, !nosock_map_rev. }
    constructor; unfold ulive; cbn [c_map c_readers c_zombies next_sock app].
    + intros s ra [].
    + intros k s [].
    + constructor.
    + exact I4.
    + exact I5.
    + intros s ra H. apply in_or_app. left. eauto.
    + intros s ra H. apply (in_app_sock (OSockNew s ra) _ _ eq_refl E5) in H. eauto.
    + rewrite sock_ids_app, (sock_ids_nosock _ E5), app_nil_r. exact T3.
    + intros s ra d H. apply (in_app_sock (OTagged s ra d) _ _ eq_refl E5) in H. apply in_or_app. left. eauto.
    + intros s ra d H. apply (in_app_sock (OBackend s ra d) _ _ eq_refl E5) in H. destruct (T5 _ _ _ H) as (ra0 & H1 & H2).
      exists ra0. split; [apply in_or_app; now left|exact H2].
    + intros s H. apply (in_app_sock (OSockClosed s) _ _ eq_refl E5) in H. eauto.
    + intros s H. apply (in_app_sock (OSockClosed s) _ _ eq_refl E5) in H. eauto.
Qed.

Lemma sock_inv_init : sock_inv uinit [].
Proof.
  constructor; cbn; try (intros; contradiction); try constructor.
Qed.

Theorem sock_invariant c h : sock_inv (fst (urun c uinit h)) (snd (urun c uinit h)).
Proof.
  apply (urun_invariant c (fun _ => sock_inv)).
  - exact sock_inv_init.
  - intros. now apply sock_inv_step.
Qed.

(* which sockets one step can mention *)
Lemma step_out_sock c st tr e o :
  sock_inv st tr ->
  In o (snd (ustep c st e)) ->
  match o with
  | OTagged s ra _ => In (s, ra) (ulive st)
  | OBackend s _ _ => In s (map fst (ulive st)) \/ s = next_sock st
  | OSockNew s _ => s = next_sock st
  | _ => True
  end.
Proof.
  intros [_ I2 _ _ _ _ _ _ _ _ _ _].
  destruct o; try (intros; exact I); unfold ulive.
  all: ustep_open st e; cbn [In app c_readers c_zombies c_map next_sock] in *; intros Hin.
  all: repeat (rewrite in_app_iff in Hin; cbn [In] in Hin).
  all: repeat match goal with
         | H : _ \/ _ |- _ => destruct H as [H|H]
         | H : In _ (map _ _) |- _ => apply in_map_iff in H; destruct H as (? & ? & ?)
         | H : False |- _ => contradiction
         end; try discriminate.
  all: try match goal with H : _ = _ |- _ => inversion H; subst; clear H end.
  all: try (right; reflexivity); try reflexivity.
  all: try match goal with E : urd_get _ _ = Some _ |- _ => apply urd_get_In in E; apply in_or_app; auto end.
  - match goal with E : umap_get _ _ = Some _ |- _ => apply umap_get_In in E; destruct (I2 _ _ E) as (ra0 & H1 & _) end.
    left. apply in_map_iff. exists (s, ra0). split; [reflexivity|]. apply in_or_app. now left.
  - match goal with E : uzombie_find _ _ = Some _ |- _ => apply uzombie_find_In in E; destruct E as (ra0 & H1 & _) end.
    left. apply in_map_iff. exists (s, ra0). split; [reflexivity|]. apply in_or_app. now right.
Qed.

Lemma urun_out_split c : forall h st o,
  In o (snd (urun c st h)) ->
  exists ha e hb, h = ha ++ e :: hb /\ In o (snd (ustep c (fst (urun c st ha)) e)).
Proof.
  induction h as [|e h IH]; intros st o; cbn [urun].
  - cbn. contradiction.
  - destruct (ustep c st e) as [st1 o1] eqn:Es. destruct (urun c st1 h) as [st2 o2] eqn:Er. cbn [snd].
    intros H. apply in_app_or in H. destruct H as [H|H].
    + exists [], e, h. split; [reflexivity|]. cbn [urun fst]. now rewrite Es.
    + assert (H' : In o (snd (urun c st1 h))) by now rewrite Er.
      destruct (IH st1 o H') as (ha & e' & hb & -> & Hin).
      exists (e :: ha), e', hb. split; [reflexivity|]. cbn [urun]. rewrite Es.
      destruct (urun c st1 ha) as [st3 o3]. exact Hin.
Qed.

Definition out_speaks (s : N) (o : uout) : Prop :=
  match o with
  | OSockNew s' _ | OBackend s' _ _ | OTagged s' _ _ => s' = s
  | _ => False
  end.

(* once the reader goroutine of socket s has ended, s is never written to, never read from and
   never created again, whatever happens afterwards (new users, new Forwarders, late replies) *)
Theorem closed_socket_is_silent c h1 h2 s o :
  In (OSockClosed s) (snd (urun c uinit h1)) ->
  In o (snd (urun c (fst (urun c uinit h1)) h2)) ->
  ~ out_speaks s o.
Proof.
  intros Hc Ho Hsp. destruct (urun_out_split c h2 _ o Ho) as (ha & e & hb & -> & Hin).
  pose proof (sock_invariant c (h1 ++ ha)) as Hi. rewrite urun_app in Hi. cbn [fst snd] in Hi.
  set (st := fst (urun c (fst (urun c uinit h1)) ha)) in *.
  pose proof (step_out_sock c st _ e o Hi Hin) as Hout.
  destruct Hi as [_ _ _ _ I5 _ _ _ _ _ T6 T7].
  assert (Hcl : In (OSockClosed s) (snd (urun c uinit h1) ++ snd (urun c (fst (urun c uinit h1)) ha)))
    by (apply in_or_app; now left).
  pose proof (T6 s Hcl) as Hdead. pose proof (T7 s Hcl) as Hbelow.
  destruct o; cbn in Hsp; try contradiction; subst.
  - lia.
  - destruct Hout as [Hout|Hout]; [contradiction|lia].
  - apply Hdead. apply in_map_iff. exists (s, ra). auto.
Qed.

(* and a late datagram for it is discarded *)
Lemma late_reply_discarded c st s d :
  ~ In s (map fst (ulive st)) -> ustep c st (EBackendReply s d) = (st, [OLate s d]).
Proof.
  intros H. unfold ulive in H. rewrite map_app, in_app_iff in H.
  cbn [ustep]. destruct (urd_get s (c_readers st)) eqn:E1.
  { apply urd_get_In in E1. exfalso. apply H. left. apply in_map_iff. exists (s, o). auto. }
  destruct (urd_get s (c_zombies st)) eqn:E2.
  { apply urd_get_In in E2. exfalso. apply H. right. apply in_map_iff. exists (s, o). auto. }
  reflexivity.
Qed.

(* the socket map is injective on live entries *)
Theorem sock_map_injective c h k k' s :
  let st := fst (urun c uinit h) in
  In (k, s) (c_map st) -> In (k', s) (c_map st) -> k = k'.
Proof.
  intros st H1 H2. destruct (sock_invariant c h) as [_ I2 _ I4 _ _ _ _ _ _ _ _]. fold st in I2, I4.
  destruct (I2 _ _ H1) as (ra & Hr & <-). destruct (I2 _ _ H2) as (ra' & Hr' & <-).
  unfold ulive in I4. rewrite map_app in I4. apply NoDup_app_l in I4.
  now rewrite (NoDup_fst_fun _ _ _ _ I4 Hr Hr').
Qed.

Lemma created_once_same_tag tr : NoDup (sock_ids tr) ->
  forall s ra ra', In (OSockNew s ra) tr -> In (OSockNew s ra') tr -> ra = ra'.
Proof.
  induction tr as [|o tr IH]; intros Hnd s ra ra' H1 H2; [contradiction|].
  destruct H1 as [E1|H1], H2 as [E2|H2].
  - congruence.
  - subst o. cbn [sock_ids flat_map app] in Hnd. inversion Hnd as [|x l Hn Hd]; subst.
    exfalso. apply Hn. apply sock_ids_In. eauto.
  - subst o. cbn [sock_ids flat_map app] in Hnd. inversion Hnd as [|x l Hn Hd]; subst.
    exfalso. apply Hn. apply sock_ids_In. eauto.
  - apply (IH) with (s := s); auto. destruct o; cbn [sock_ids flat_map app] in Hnd; auto.
    inversion Hnd; auto.
Qed.

Lemma uread_id c d : blen d <= uc_buf c -> uread c d = d.
Proof. intros H. unfold uread, blen in *. apply firstn_all2. lia. Qed.

(* statements in the form used by Properties/C03.v *)
Theorem delivered_is_sent c h f :
  ucount f (ubackend (snd (urun c uinit h))) <= ucount f (usent c h).
Proof.
  pose proof (fwd_accounting c f h) as H. unfold fwd_account in H.
  pose proof (ucount_nonneg f (map upview (ufwd_pending (fst (urun c uinit h))))).
  pose proof (ucount_nonneg f (udropped_fwd (snd (urun c uinit h)))). lia.
Qed.

Theorem replies_delivered_were_tagged c h f :
  ucount f (uuser (snd (urun c uinit h))) <= ucount f (utagged (snd (urun c uinit h))).
Proof.
  pose proof (rev_accounting c f h) as H. unfold rev_account in H.
  pose proof (ucount_nonneg f (map upview (urev_pending (fst (urun c uinit h))))).
  pose proof (ucount_nonneg f (udropped_rev (snd (urun c uinit h)))). lia.
Qed.

Theorem light_load_all_arrive c h f :
  udropped_fwd (snd (urun c uinit h)) = [] -> ufwd_pending (fst (urun c uinit h)) = [] ->
  ucount f (ubackend (snd (urun c uinit h))) = ucount f (usent c h).
Proof.
  intros Hd Hp. pose proof (fwd_accounting c f h) as H. unfold fwd_account in H.
  rewrite Hd, Hp in H. cbn in H. lia.
Qed.

Theorem light_load_all_replies_arrive c h f :
  udropped_rev (snd (urun c uinit h)) = [] -> urev_pending (fst (urun c uinit h)) = [] ->
  ucount f (uuser (snd (urun c uinit h))) = ucount f (utagged (snd (urun c uinit h))).
Proof.
  intros Hd Hp. pose proof (rev_accounting c f h) as H. unfold rev_account in H.
  rewrite Hd, Hp in H. cbn in H. lia.
Qed.

Theorem reply_tagging c h :
  let tr := snd (urun c uinit h) in
  (forall s ra d, In (OTagged s ra d) tr -> In (OSockNew s ra) tr) /\
  (forall s ra ra', In (OSockNew s ra) tr -> In (OSockNew s ra') tr -> ra = ra') /\
  (forall s ra d, In (OBackend s ra d) tr ->
     exists ra0, In (OSockNew s ra0) tr /\ uaddr_string ra0 = uaddr_string ra).
Proof.
  destruct (sock_invariant c h) as [_ _ _ _ _ _ _ T3 T4 T5 _ _]. cbv zeta. repeat split.
  - exact T4.
  - exact (created_once_same_tag _ T3).
  - exact T5.
Qed.

(** * order: within one work connection the tunnel is a FIFO pipeline *)

Inductive usubseq {A} : list A -> list A -> Prop :=
| uss_nil : usubseq [] []
| uss_skip x l1 l2 : usubseq l1 l2 -> usubseq l1 (x :: l2)
| uss_keep x l1 l2 : usubseq l1 l2 -> usubseq (x :: l1) (x :: l2).

Lemma usubseq_nil_l {A} (l : list A) : usubseq [] l.
Proof. induction l; [apply uss_nil|apply uss_skip; assumption]. Qed.

Lemma usubseq_snoc_r {A} (a b : list A) x : usubseq a b -> usubseq a (b ++ [x]).
Proof.
  induction 1; cbn [app].
  - apply uss_skip. apply uss_nil.
  - apply uss_skip. assumption.
  - apply uss_keep. assumption.
Qed.

Lemma usubseq_snoc_both {A} (a b : list A) x : usubseq a b -> usubseq (a ++ [x]) (b ++ [x]).
Proof.
  induction 1; cbn [app].
  - apply uss_keep. apply uss_nil.
  - apply uss_skip. assumption.
  - apply uss_keep. assumption.
Qed.

Lemma usubseq_drop_head {A} (a b : list A) x : usubseq (x :: a) b -> usubseq a b.
Proof.
  intros H. remember (x :: a) as l eqn:E. revert x a E.
  induction H as [|y l1 l2 H IH|y l1 l2 H IH]; intros x a E; [discriminate| |].
  - apply uss_skip. eapply IH. exact E.
  - inversion E; subst. apply uss_skip. exact H.
Qed.

Lemma usubseq_drop_mid {A} (a m b l : list A) : usubseq (a ++ m ++ b) l -> usubseq (a ++ b) l.
Proof.
  revert l. induction a as [|x a IH]; cbn [app]; intros l H.
  - induction m as [|y m IHm]; cbn [app] in H; [exact H|]. apply IHm. eapply usubseq_drop_head. exact H.
  - remember (x :: a ++ m ++ b) as l0 eqn:E. revert E.
    induction H as [|y l1 l2 H IH2|y l1 l2 H IH2]; intros E; [discriminate| |].
    + apply uss_skip. auto.
    + inversion E; subst. apply uss_keep. auto.
Qed.

Lemma usubseq_refl {A} (l : list A) : usubseq l l.
Proof. induction l; [apply uss_nil|apply uss_keep; assumption]. Qed.

Lemma usubseq_trans {A} (a b c : list A) : usubseq a b -> usubseq b c -> usubseq a c.
Proof.
  intros H1 H2. revert a H1. induction H2 as [|x l1 l2 H IH|x l1 l2 H IH]; intros a H1.
  - inversion H1; subst. apply uss_nil.
  - apply uss_skip. auto.
  - inversion H1; subst; [apply uss_skip; auto|apply uss_keep; auto].
Qed.

Lemma usubseq_app_l {A} (a b b' : list A) : usubseq b b' -> usubseq (a ++ b) (a ++ b').
Proof. intros H. induction a; cbn [app]; [exact H|apply uss_keep; assumption]. Qed.

Lemma usubseq_skip_block {A} (m b b' : list A) : usubseq b b' -> usubseq b (m ++ b').
Proof. intros H. induction m; cbn [app]; [exact H|apply uss_skip; assumption]. Qed.

Ltac sub_solve :=
  repeat first
    [ apply usubseq_refl
    | apply usubseq_app_l
    | apply uss_keep
    | apply usubseq_nil_l
    | apply uss_skip
    | apply usubseq_skip_block ].

Definition is_replace (e : uev) : bool := match e with EWorkConnReplaced => true | _ => false end.

Definition ufifo (st : ust) : list upacket := c_readq st ++ w_sc st ++ s_sendq st.

Definition order_inv c (h : list uev) (st : ust) (tr : list uout) : Prop :=
  c_oldq st = [] /\ usubseq (ubackend tr ++ map upview (ufifo st)) (usent c h).

Lemma order_step c h st tr e :
  is_replace e = false -> order_inv c h st tr ->
  order_inv c (h ++ [e]) (fst (ustep c st e)) (tr ++ snd (ustep c st e)).
Proof.
  unfold order_inv, ufifo. intros He [Hold H]. rewrite usent_snoc.
  ustep_open st e; try discriminate He; cbn [c_oldq c_readq w_sc s_sendq] in *; subst.
  all: try (match goal with E : nth_error [] ?k = Some _ |- _ => destruct k; discriminate E end).
  all: split; [try reflexivity|].
  all: autorewrite with ucnt; cbn [ubackend flat_map app]; rewrite ?app_nil_r.
  all: repeat match goal with |- context [flat_map ?f (?x ++ ?y)] => change (flat_map f (x ++ y)) with (ubackend (x ++ y)) end.
  all: autorewrite with ucnt; cbn [app].
  all: rewrite ?upview_new.
  all: repeat rewrite map_app in *; cbn [map] in *; repeat rewrite <- app_assoc in *; cbn [app] in *.
  all: try exact H.
  all: unfold upview in *; repeat match goal with E : get_content _ = _ |- _ => rewrite E in *; clear E end.
  all: try exact H.
  all: rewrite ?app_nil_r in *.
  all: try exact H.
  all: try (eapply usubseq_trans; [|exact H]; sub_solve; fail).
  - cbn [new_udp_packet up_raddr]. rewrite get_content_new.
    rewrite !app_assoc. apply usubseq_snoc_both. rewrite <- !app_assoc. exact H.
  - apply usubseq_snoc_r. exact H.
Qed.

Theorem order_preserved c h :
  forallb (fun e => negb (is_replace e)) h = true ->
  let st0 := fst (ustep c uinit EWorkConnReplaced) in
  usubseq (ubackend (snd (urun c st0 h))) (usent c h).
Proof.
  intros Hh st0.
  assert (Hi : order_inv c h (fst (urun c st0 h)) (snd (urun c st0 h))).
  { revert Hh. apply (urun_invariant c (fun h st tr => forallb (fun e => negb (is_replace e)) h = true -> order_inv c h st tr)).
    - intros _. split; [reflexivity|]. cbn. apply uss_nil.
    - intros h0 st tr e IH Hok. rewrite forallb_snoc in Hok. apply andb_true_iff in Hok.
      destruct Hok as [Hh He]. apply order_step; [now apply negb_true_iff in He|auto]. }
  destruct Hi as [_ Hi]. eapply usubseq_trans; [|exact Hi].
  rewrite <- (app_nil_r (ubackend _)) at 1. apply usubseq_app_l. apply usubseq_nil_l.
Qed.

(* a subsequence keeps the relative order of any two elements, in particular per user *)
Lemma usubseq_filter {A} (f : A -> bool) (a b : list A) : usubseq a b -> usubseq (filter f a) (filter f b).
Proof.
  induction 1 as [|x l1 l2 H IH|x l1 l2 H IH]; cbn [filter].
  - apply uss_nil.
  - destruct (f x); [apply uss_skip|]; assumption.
  - destruct (f x); [apply uss_keep|]; assumption.
Qed.

(** * order across a replacement of the work connection *)

Lemma order_step_replace c h st tr :
  c_readq st = [] -> order_inv c h st tr ->
  order_inv c (h ++ [EWorkConnReplaced]) (fst (ustep c st EWorkConnReplaced)) (tr ++ snd (ustep c st EWorkConnReplaced)).
Proof.
  unfold order_inv, ufifo. intros Hq [Hold H]. rewrite usent_snoc.
  destruct st as [ssq srq wsc wcs up crq csq cm crd coq cz ns]. cbn [c_readq c_oldq w_sc s_sendq] in *. subst.
  cbn [ustep fst snd c_oldq c_readq w_sc s_sendq w_cs c_sendq app]. unfold ubreak_outs. cbn [w_sc w_cs usent flat_map app].
  split; [reflexivity|]. rewrite app_nil_r.
  autorewrite with ucnt. cbn [app] in *. rewrite ?app_nil_r.
  eapply usubseq_trans; [|exact H]. rewrite map_app. sub_solve.
Qed.

(* the hypothesis of the theorem: whenever the work connection is replaced, nothing is buffered in
   the readCh of the Forwarder that is being replaced *)
Definition replaced_when_drained c (h : list uev) : Prop :=
  forall h1 h2, h = h1 ++ EWorkConnReplaced :: h2 -> c_readq (fst (urun c uinit h1)) = [].

Theorem order_preserved_when_drained c h :
  replaced_when_drained c h ->
  usubseq (ubackend (snd (urun c uinit h))) (usent c h).
Proof.
  intros Hd.
  assert (Hi : fst (urun c uinit h) = fst (urun c uinit h) /\ order_inv c h (fst (urun c uinit h)) (snd (urun c uinit h))).
  { revert Hd.
    apply (urun_invariant c (fun h st tr => replaced_when_drained c h ->
                                st = fst (urun c uinit h) /\ order_inv c h st tr)).
    - intros _. split; [reflexivity|]. split; [reflexivity|]. cbn. apply uss_nil.
    - intros h0 st tr e IH Hd.
      assert (Hd0 : replaced_when_drained c h0).
      { intros h1 h2 E. apply (Hd h1 (h2 ++ [e])). rewrite E, <- app_assoc. reflexivity. }
      destruct (IH Hd0) as [Est Hinv]. split.
      + rewrite urun_snoc. cbn [fst]. now rewrite <- Est.
      + destruct (is_replace e) eqn:Er.
        * destruct e; try discriminate Er. apply order_step_replace; [|exact Hinv].
          rewrite Est. apply (Hd h0 []). reflexivity.
        * now apply order_step. }
  destruct Hi as [_ [_ Hi]]. eapply usubseq_trans; [|exact Hi].
  rewrite <- (app_nil_r (ubackend _)) at 1. apply usubseq_app_l. apply usubseq_nil_l.
Qed.

(* without that hypothesis order is NOT preserved: user a sends "one" then "two"; "one" is still in
   the old Forwarder's readCh when the connection is replaced; "two" travels over the new
   connection and overtakes it *)
Definition reorder_user : uaddr := {| ua_ip := bs "127.0.3.10"; ua_port := 40001; ua_zone := [] |}.
Definition reorder_history : list uev :=
  [EWorkConnReplaced; EUserSend reorder_user (bs "one"); ESrvSend; ECliRecv;
   EWorkConnReplaced; EUserSend reorder_user (bs "two"); ESrvSend; ECliRecv; ECliPump true; EOldPump 0].

Lemma reorder_witness :
  ubackend (snd (urun {| uc_buf := 1500 |} uinit reorder_history)) =
    [(Some reorder_user, Some (bs "two")); (Some reorder_user, Some (bs "one"))] /\
  usent {| uc_buf := 1500 |} reorder_history =
    [(Some reorder_user, Some (bs "one")); (Some reorder_user, Some (bs "two"))].
Proof. vm_compute. split; reflexivity. Qed.

Lemma usubseq_length {A} (a b : list A) : usubseq a b -> (length a <= length b)%nat.
Proof. induction 1; cbn; lia. Qed.

Lemma reorder_not_subseq : ~ usubseq (ubackend (snd (urun {| uc_buf := 1500 |} uinit reorder_history)))
                                     (usent {| uc_buf := 1500 |} reorder_history).
Proof.
  destruct reorder_witness as [-> ->]. intros H.
  inversion H as [|x l1 l2 H1|x l1 l2 H1]; subst.
  apply usubseq_length in H1. cbn in H1. lia.
Qed.
