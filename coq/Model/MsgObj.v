(* C17: schema-driven abstract JSON object codec.
   enc_obj mirrors what encoding/json.Marshal does with a frp message struct
   (field order, json names, omitempty dropping Go-empty values, struct-typed
   fields never dropped); dec_obj mirrors Unmarshal into a zero value (lookup by
   name, absent -> zero).  nil and empty maps/slices are identified (lists). *)
From FRP Require Export Model.GenTypes.

Inductive jv :=
| JNull | JBool (b : bool) | JNum (z : Z) | JStr (s : bytes)
| JArr (l : list jv) | JObj (l : list (bytes * jv)).

Inductive gv :=
| VStr (s : bytes) | VInt (z : Z) | VBool (b : bool)
| VMap (m : list (bytes * bytes)) | VStrs (l : list bytes)
| VStruct (vs : list gv) | VStructs (l : list (list gv)) | VPtr (o : option (list gv)).

Definition bs (s : string) : bytes := list_byte_of_string s.

(* Go's isEmptyValue *)
Definition is_empty (v : gv) : bool :=
  match v with
  | VStr [] => true | VInt 0 => true | VBool false => true
  | VMap [] => true | VStrs [] => true | VStructs [] => true | VPtr None => true
  | _ => false
  end.

Definition zero (k : kind) : gv :=
  match k with
  | KStr => VStr [] | KInt => VInt 0 | KBool => VBool false
  | KMapSS => VMap [] | KStrs => VStrs []
  | KStruct fs => VStruct [] (* placeholder, refined by zero_fields below *)
  | KStructs _ => VStructs [] | KPtr _ => VPtr None
  | KUnknown _ => VStr []
  end.

Section Fields.
  Variable enc_val : kind -> gv -> jv.
  Fixpoint enc_fields_with (fs : list field) (vs : list gv) : list (bytes * jv) :=
    match fs, vs with
    | (_, j, k, o) :: fs', v :: vs' =>
        if o && is_empty v then enc_fields_with fs' vs'
        else (bs j, enc_val k v) :: enc_fields_with fs' vs'
    | _, _ => []
    end.
End Fields.

Fixpoint enc_val (k : kind) (v : gv) : jv :=
  match k, v with
  | KStr, VStr s => JStr s
  | KInt, VInt z => JNum z
  | KBool, VBool b => JBool b
  | KMapSS, VMap m => JObj (map (fun kv => (fst kv, JStr (snd kv))) m)
  | KStrs, VStrs l => JArr (map JStr l)
  | KStruct fs, VStruct vs => JObj (enc_fields_with enc_val fs vs)
  | KStructs fs, VStructs l => JArr (map (fun vs => JObj (enc_fields_with enc_val fs vs)) l)
  | KPtr fs, VPtr (Some vs) => JObj (enc_fields_with enc_val fs vs)
  | _, _ => JNull
  end.

Definition enc_obj (fs : list field) (vs : list gv) : list (bytes * jv) :=
  enc_fields_with enc_val fs vs.

Fixpoint jlookup (n : bytes) (o : list (bytes * jv)) : option jv :=
  match o with
  | [] => None
  | (k, v) :: r => if bytes_eqb n k then Some v else jlookup n r
  end.

Fixpoint opt_all {A} (l : list (option A)) : option (list A) :=
  match l with
  | [] => Some []
  | Some a :: r => match opt_all r with Some r' => Some (a :: r') | None => None end
  | None :: _ => None
  end.

Section DecFields.
  Variable dec_val : kind -> jv -> option gv.
  Variable zero_val : kind -> gv.
  Fixpoint dec_fields_with (fs : list field) (o : list (bytes * jv)) : option (list gv) :=
    match fs with
    | [] => Some []
    | (_, j, k, _) :: fs' =>
        match (match jlookup (bs j) o with
               | None => Some (zero_val k)
               | Some x => dec_val k x end),
              dec_fields_with fs' o with
        | Some v, Some r => Some (v :: r)
        | _, _ => None
        end
    end.
End DecFields.

Fixpoint zero_val (k : kind) : gv :=
  match k with
  | KStruct fs => VStruct (map (fun f : field => zero_val (f_kind f)) fs)
  | _ => zero k
  end.

Definition dec_str (j : jv) : option bytes := match j with JStr s => Some s | _ => None end.

Fixpoint dec_val (k : kind) (j : jv) : option gv :=
  match k, j with
  | KStr, JStr s => Some (VStr s)
  | KInt, JNum z => Some (VInt z)
  | KBool, JBool b => Some (VBool b)
  | KMapSS, JObj o =>
      option_map VMap (opt_all (map (fun kv => option_map (pair (fst kv)) (dec_str (snd kv))) o))
  | KStrs, JArr l => option_map VStrs (opt_all (map dec_str l))
  | KStruct fs, JObj o => option_map VStruct (dec_fields_with dec_val zero_val fs o)
  | KStructs fs, JArr l =>
      option_map VStructs
        (opt_all (map (fun x => match x with
                                | JObj o => dec_fields_with dec_val zero_val fs o
                                | _ => None end) l))
  | KPtr fs, JObj o => option_map (fun vs => VPtr (Some vs)) (dec_fields_with dec_val zero_val fs o)
  | KPtr fs, JNull => Some (VPtr None)
  | _, _ => None
  end.

Definition dec_obj (fs : list field) (o : list (bytes * jv)) : option (list gv) :=
  dec_fields_with dec_val zero_val fs o.

(* well-typed values (what a Go value of the struct type can be) *)
Section Typed.
  Variable typed : kind -> gv -> bool.
  Fixpoint typed_fields_with (fs : list field) (vs : list gv) : bool :=
    match fs, vs with
    | [], [] => true
    | (_, _, k, _) :: fs', v :: vs' => typed k v && typed_fields_with fs' vs'
    | _, _ => false
    end.
End Typed.

Fixpoint typed (k : kind) (v : gv) : bool :=
  match k, v with
  | KStr, VStr _ | KInt, VInt _ | KBool, VBool _ | KMapSS, VMap _ | KStrs, VStrs _ => true
  | KStruct fs, VStruct vs => typed_fields_with typed fs vs
  | KStructs fs, VStructs l => forallb (typed_fields_with typed fs) l
  | KPtr fs, VPtr None => true
  | KPtr fs, VPtr (Some vs) => typed_fields_with typed fs vs
  | _, _ => false
  end.

(* schema well-formedness: json names pairwise distinct at every level, no Unknown kind *)
Fixpoint nodupb (l : list bytes) : bool :=
  match l with
  | [] => true
  | x :: r => negb (existsb (bytes_eqb x) r) && nodupb r
  end.

Fixpoint kind_wf (k : kind) : bool :=
  let fields_wf := fix go (fs : list field) : bool :=
    match fs with
    | [] => true
    | (_, _, k', _) :: r => kind_wf k' && go r
    end in
  match k with
  | KStruct fs | KStructs fs | KPtr fs =>
      nodupb (map (fun f : field => bs (f_json f)) fs) && fields_wf fs
  | KUnknown _ => false
  | _ => true
  end.

Definition schema_wf (fs : list field) : bool := kind_wf (KStruct fs).
