(* Proofs about Model/Backoff.v: delay ranges of fastBackoffImpl driven by BackoffUntil for the
   option sets the client passes, absence of the NewTicker/Reset panic, and the fast-retry budget. *)
From Coq Require Import ZArith List Bool Lia.
From FRP Require Import Model.Backoff.
Import ListNotations.
Open Scope Z_scope.

Lemma fb_JS_pos : 0 < fb_JS.
Proof. unfold fb_JS. lia. Qed.

(* Jitter(d, n/m) lies in [d, d + d*n/m] for every value of the random source *)
Lemma fb_jitter_bounds : forall d n m j,
  0 <= d -> 0 < n -> 0 < m -> 0 <= j < fb_JS ->
  d <= fb_jitter d (n, m) j /\ m * (fb_jitter d (n, m) j - d) <= n * d.
Proof.
  intros d n m j Hd Hn Hm Hj. unfold fb_jitter. cbn [fst snd].
  destruct (n <=? 0) eqn:E; [apply Z.leb_le in E; lia|]. cbn [fst snd].
  pose proof fb_JS_pos as HJ.
  assert (H0 : 0 <= j * n * d) by (apply Z.mul_nonneg_nonneg; [apply Z.mul_nonneg_nonneg|]; lia).
  assert (Hb : 0 < fb_JS * m) by (apply Z.mul_pos_pos; lia).
  rewrite Z.quot_div_nonneg by lia.
  set (q := j * n * d / (fb_JS * m)).
  assert (Hq0 : 0 <= q) by (apply Z.div_pos; lia).
  assert (Hq1 : fb_JS * m * q <= j * n * d) by (apply Z.mul_div_le; lia).
  split; [lia|].
  replace (d + q - d) with q by lia.
  assert (Hle : j * n * d <= fb_JS * (n * d)).
  { replace (j * n * d) with (j * (n * d)) by ring.
    apply Z.mul_le_mono_nonneg_r; [apply Z.mul_nonneg_nonneg; lia|lia]. }
  assert (H2 : fb_JS * (m * q) <= fb_JS * (n * d)).
  { replace (fb_JS * (m * q)) with (fb_JS * m * q) by ring. lia. }
  apply Z.mul_le_mono_pos_l in H2; lia.
Qed.

(* ---- a delay range [lo, hi] that an option set keeps ---- *)
Record fb_wf (o : fb_opts) (lo hi : Z) : Prop := {
  wf_factor : fo_factor o = (2, 1);
  wf_jitter : fo_jitter o = (1, 10);
  wf_max : fo_max o = hi;
  wf_lohi : 0 < lo <= hi;
  wf_dur : lo <= fo_duration o <= hi;
  wf_sec : lo <= 2 * fb_second;
  wf_init : fo_init_fail o = 0 \/ (0 < fo_init_fail o /\ lo <= 2 * fo_init_fail o);
  wf_fast : fo_fast_count o <= 0 \/
            (exists jn jm, fo_fast_jitter o = (jn, jm) /\ 0 < jn /\ 0 < jm /\
                           lo <= fo_fast_delay o /\ fo_fast_delay o * (jm + jn) <= hi * jm)
}.

Definition fb_prev_ok (lo hi prev : Z) : Prop := prev = 0 \/ lo <= prev <= hi.

Lemma fb_slow_range : forall o lo hi cec prev j,
  fb_wf o lo hi -> fb_prev_ok lo hi prev -> 0 <= j < fb_JS ->
  lo <= fb_slow o cec prev j <= hi.
Proof.
  intros o lo hi cec prev j W Hp Hj. destruct W as [Wf Wj Wm Wl Wd Ws Wi _].
  unfold fb_slow. rewrite Wf, Wj, Wm. cbn [fst snd].
  set (d0 := if cec =? 1 then fb_empty_or (fo_init_fail o) prev else prev).
  set (d1 := fb_empty_or d0 fb_second).
  assert (H1 : 0 < d1 /\ lo <= 2 * d1).
  { unfold d1, d0, fb_empty_or, fb_prev_ok in *.
    assert (0 < fb_second) by (unfold fb_second; lia).
    destruct (cec =? 1); [destruct (Z.eqb_spec (fo_init_fail o) 0)|];
      repeat match goal with |- context [if ?x =? 0 then _ else _] => destruct (Z.eqb_spec x 0) end;
      lia. }
  destruct H1 as [H1a H1b].
  change (2 =? 0) with false. cbv iota.
  rewrite Z.quot_1_r. change (1 >? 0) with true. cbv iota.
  assert (Hd2 : 0 <= d1 * 2) by lia.
  destruct (fb_jitter_bounds (d1 * 2) 1 10 j Hd2 ltac:(lia) ltac:(lia) Hj) as [Ja Jb].
  set (d3 := fb_jitter (d1 * 2) (1, 10) j) in *.
  destruct (hi >? 0) eqn:E1; [|rewrite Z.gtb_ltb in E1; apply Z.ltb_ge in E1; lia].
  destruct (d3 >? hi) eqn:E2; simpl.
  - lia.
  - rewrite Z.gtb_ltb in E2. apply Z.ltb_ge in E2. lia.
Qed.

Lemma fb_backoff_range : forall o lo hi s now prev err j,
  fb_wf o lo hi -> fb_prev_ok lo hi prev -> 0 <= j < fb_JS ->
  lo <= snd (fb_backoff o s now prev err j) <= hi.
Proof.
  intros o lo hi s now prev err j W Hp Hj.
  pose proof (fb_slow_range o lo hi) as HS.
  unfold fb_backoff, fb_backoff_k.
  destruct (fs_last s).
  2:{ simpl. apply (wf_dur _ _ _ W). }
  destruct ((fo_fast_count o >? 0) && err) eqn:E.
  - apply andb_prop in E. destruct E as [E1 E2]. rewrite Z.gtb_ltb in E1. apply Z.ltb_lt in E1.
    destruct (fs_counts s + 1 <=? fo_fast_count o).
    + simpl. destruct (wf_fast _ _ _ W) as [F|[jn [jm [F1 [F2 [F3 [F4 F5]]]]]]]; [lia|].
      rewrite F1.
      assert (Hd : 0 <= fo_fast_delay o) by (pose proof (wf_lohi _ _ _ W); lia).
      destruct (fb_jitter_bounds (fo_fast_delay o) jn jm j Hd F2 F3 Hj) as [Ja Jb].
      split; [lia|].
      assert (jm * fb_jitter (fo_fast_delay o) (jn, jm) j <= jm * hi) by lia.
      apply Z.mul_le_mono_pos_l in H; lia.
    + destruct (fb_after now (fs_cutoff s)); simpl; apply HS; auto.
  - destruct err; simpl; [apply HS; auto|apply (wf_dur _ _ _ W)].
Qed.

(* BackoffUntil: every delay it waits lies in the range, and it never hands a non-positive
   duration to NewTicker / Ticker.Reset *)
Definition bu_js_ok (l : list bu_attempt) : Prop := Forall (fun a => 0 <= ba_j a < fb_JS) l.

Lemma bu_iter_range : forall sliding o lo hi st a st' d,
  fb_wf o lo hi -> fb_prev_ok lo hi (bs_delay st) -> 0 <= ba_j a < fb_JS ->
  bu_iter sliding o st a = Some (st', d) ->
  lo <= d <= hi /\ bs_delay st' = d.
Proof.
  intros sliding o lo hi st a st' d W Hp Hj H.
  unfold bu_iter in H. destruct sliding.
  - destruct (ba_out a) eqn:Eo; [discriminate| |];
      (destruct (fb_backoff o (bs_fb st) (ba_now a) (bs_delay st) _ (ba_j a)) as [s2 d2] eqn:Eb;
       inversion H; subst; clear H; simpl; split; [|reflexivity];
       match type of Eb with fb_backoff ?o ?s ?n ?p ?e ?j = _ =>
         pose proof (fb_backoff_range o lo hi s n p e j W Hp Hj) as R; rewrite Eb in R; exact R end).
  - destruct (fb_backoff o (bs_fb st) (ba_now a) (bs_delay st) (bs_perr st) (ba_j a)) as [s2 d2] eqn:Eb.
    pose proof (fb_backoff_range o lo hi (bs_fb st) (ba_now a) (bs_delay st) (bs_perr st) (ba_j a) W Hp Hj) as R.
    rewrite Eb in R. simpl in R.
    destruct (ba_out a); [discriminate| |]; inversion H; subst; simpl; auto.
Qed.

Lemma bu_loop_range : forall sliding o lo hi l st ds e,
  fb_wf o lo hi -> fb_prev_ok lo hi (bs_delay st) -> bu_js_ok l ->
  bu_loop sliding o st l = (ds, e) ->
  Forall (fun d => lo <= d <= hi) ds /\ e <> BUPanic.
Proof.
  intros sliding o lo hi. induction l as [|a r IH]; intros st ds e W Hp Hj H; simpl in H.
  - inversion H; subst. split; [constructor|discriminate].
  - inversion Hj as [|x y Ha Hr]; subst.
    destruct (bu_iter sliding o st a) as [[st' d]|] eqn:Ei.
    + destruct (bu_iter_range _ _ _ _ _ _ _ _ W Hp Ha Ei) as [Rd Rs].
      destruct (d <=? 0) eqn:E0.
      * apply Z.leb_le in E0. pose proof (wf_lohi _ _ _ W). lia.
      * destruct (bu_loop sliding o st' r) as [ds' e'] eqn:El.
        destruct (IH st' ds' e' W) as [F1 F2]; auto.
        { right. rewrite Rs. exact Rd. }
        inversion H; subst; clear H. split; [constructor; auto|exact F2].
    + inversion H; subst. split; [constructor|discriminate].
Qed.

Theorem bu_run_range : forall sliding o lo hi now0 j0 l ds e,
  fb_wf o lo hi -> bu_js_ok l ->
  bu_run sliding o now0 j0 l = (ds, e) ->
  Forall (fun d => lo <= d <= hi) ds /\ e <> BUPanic.
Proof.
  intros sliding o lo hi now0 j0 l ds e W Hj H.
  unfold bu_run, bu_start in H.
  destruct (fb_backoff o fb_init now0 0 false j0) as [s d] eqn:Eb.
  assert (Hd : d = fo_duration o).
  { unfold fb_backoff, fb_backoff_k, fb_init in Eb. simpl in Eb. inversion Eb. reflexivity. }
  destruct (d <=? 0) eqn:E0.
  - apply Z.leb_le in E0. pose proof (wf_dur _ _ _ W). pose proof (wf_lohi _ _ _ W). lia.
  - eapply bu_loop_range; eauto. left. reflexivity.
Qed.

(* ---- the client's option sets ---- *)
Ltac fb_proj := cbn [fo_duration fo_factor fo_jitter fo_max fo_init_fail fo_fast_count fo_fast_delay
                      fo_fast_jitter fo_fast_window]; unfold fb_second, fb_ns_ms in *.

Lemma fb_login_wf : forall M, fb_second <= M -> fb_wf (fb_login_opts M) fb_second M.
Proof.
  intros M HM. unfold fb_login_opts.
  constructor; fb_proj; try reflexivity; try lia; try (left; lia).
Qed.

Lemma fb_keep_wf : fb_wf fb_keep_opts (200 * fb_ns_ms) (20 * fb_second).
Proof.
  unfold fb_keep_opts.
  constructor; fb_proj; try reflexivity; try lia; try (left; lia).
  right. exists 1, 2. repeat split; lia.
Qed.

Lemma fb_ping_wf : forall I, 0 < I ->
  fb_wf (fb_ping_opts I) (Z.min I 2 * fb_second) (I * fb_second).
Proof.
  intros I HI. unfold fb_ping_opts.
  constructor; fb_proj; try reflexivity; try lia; try (left; lia).
Qed.

(* ---- fast retries: the budget ---- *)
Local Arguments Z.add : simpl never.
Local Arguments Z.sub : simpl never.
Local Arguments Z.mul : simpl never.
Local Arguments Z.max : simpl never.
Local Arguments Z.of_nat : simpl never.
Fixpoint fb_after_calls (o : fb_opts) (s : fb_state) (cs : list fb_call) : fb_state :=
  match cs with
  | [] => s
  | c :: r => fb_after_calls o (fst (fst (fb_backoff_k o s (fc_now c) (fc_prev c) (fc_err c) (fc_j c)))) r
  end.

Lemma fb_counts_step_nonneg : forall o s now prev err j,
  0 <= fs_counts s -> 0 <= fs_counts (fst (fst (fb_backoff_k o s now prev err j))).
Proof.
  intros. unfold fb_backoff_k. destruct (fs_last s); simpl; auto.
  destruct ((fo_fast_count o >? 0) && err).
  - destruct (fs_counts s + 1 <=? fo_fast_count o); simpl; [lia|].
    destruct (fb_after now (fs_cutoff s)); simpl; lia.
  - destruct err; simpl; auto.
Qed.

Lemma fb_counts_nonneg : forall o cs s,
  0 <= fs_counts s -> 0 <= fs_counts (fb_after_calls o s cs).
Proof.
  intros o. induction cs as [|c r IH]; intros s H; simpl; auto.
  apply IH. apply fb_counts_step_nonneg. exact H.
Qed.

(* once the cut-off lies at or beyond every clock reading to come, the counter is never reset:
   at most FastRetryCount - counts further fast retries *)
Lemma fb_fast_noreset : forall o cs s c tmax,
  fs_cutoff s = Some c -> tmax <= c ->
  (forall x, In x cs -> fc_now x <= tmax) ->
  fb_count_fast (fb_calls o s cs) <= Z.max 0 (fo_fast_count o - fs_counts s).
Proof.
  intros o. induction cs as [|x r IH]; intros s c tmax Hc Ht Hn; simpl; [lia|].
  assert (Hx : fc_now x <= tmax) by (apply Hn; left; reflexivity).
  assert (Hr : forall y, In y r -> fc_now y <= tmax) by (intros; apply Hn; right; auto).
  unfold fb_backoff_k. destruct (fs_last s).
  2:{ simpl. specialize (IH {| fs_last := Some (fc_now x); fs_cec := fs_cec s; fs_cutoff := fs_cutoff s; fs_counts := fs_counts s |} c tmax Hc Ht Hr). simpl in IH. lia. }
  destruct ((fo_fast_count o >? 0) && fc_err x).
  - destruct (fs_counts s + 1 <=? fo_fast_count o) eqn:E1.
    + apply Z.leb_le in E1. simpl.
      match goal with |- context [fb_calls o ?s' r] => specialize (IH s' c tmax ltac:(simpl; auto) Ht Hr); simpl in IH end.
      lia.
    + apply Z.leb_gt in E1. rewrite Hc. unfold fb_after.
      destruct (fc_now x >? c) eqn:E2; [rewrite Z.gtb_ltb in E2; apply Z.ltb_lt in E2; lia|].
      simpl.
      match goal with |- context [fb_calls o ?s' r] => specialize (IH s' c tmax ltac:(simpl; auto) Ht Hr); simpl in IH end.
      lia.
  - destruct (fc_err x); simpl;
      match goal with |- context [fb_calls o ?s' r] => specialize (IH s' c tmax ltac:(simpl; auto) Ht Hr); simpl in IH end;
      lia.
Qed.

Lemma fb_fast_window : forall o cs s tmin,
  (forall x, In x cs -> tmin <= fc_now x <= tmin + fo_fast_window o) ->
  fb_count_fast (fb_calls o s cs) <= Z.max 0 (fo_fast_count o - fs_counts s) + Z.max 0 (fo_fast_count o).
Proof.
  intros o. induction cs as [|x r IH]; intros s tmin Hn; simpl; [lia|].
  assert (Hx : tmin <= fc_now x <= tmin + fo_fast_window o) by (apply Hn; left; reflexivity).
  assert (Hr : forall y, In y r -> tmin <= fc_now y <= tmin + fo_fast_window o) by (intros; apply Hn; right; auto).
  unfold fb_backoff_k. destruct (fs_last s).
  2:{ simpl. specialize (IH {| fs_last := Some (fc_now x); fs_cec := fs_cec s; fs_cutoff := fs_cutoff s; fs_counts := fs_counts s |} tmin Hr). simpl in IH. lia. }
  destruct ((fo_fast_count o >? 0) && fc_err x).
  - destruct (fs_counts s + 1 <=? fo_fast_count o) eqn:E1.
    + apply Z.leb_le in E1. simpl.
      match goal with |- context [fb_calls o ?s' r] => specialize (IH s' tmin Hr); simpl in IH end.
      lia.
    + apply Z.leb_gt in E1.
      destruct (fb_after (fc_now x) (fs_cutoff s)).
      * simpl.
        match goal with |- context [fb_calls o ?s' r] =>
          pose proof (fb_fast_noreset o r s' (fc_now x + fo_fast_window o) (tmin + fo_fast_window o) eq_refl ltac:(lia)) as HA end.
        simpl in HA. specialize (HA ltac:(intros y Hy; apply Hr in Hy; lia)). lia.
      * simpl.
        match goal with |- context [fb_calls o ?s' r] => specialize (IH s' tmin Hr); simpl in IH end.
        lia.
  - destruct (fc_err x); simpl;
      match goal with |- context [fb_calls o ?s' r] => specialize (IH s' tmin Hr); simpl in IH end;
      lia.
Qed.

(* in any stretch of any history whose clock readings span at most FastRetryWindow there are at
   most 2 * FastRetryCount fast retries (the quota of the window that is ending plus the quota of
   the one that starts) *)
Theorem fb_fast_retries_per_window : forall o pre win tmin,
  0 <= fo_fast_count o ->
  (forall x, In x win -> tmin <= fc_now x <= tmin + fo_fast_window o) ->
  fb_count_fast (fb_calls o (fb_after_calls o fb_init pre) win) <= 2 * fo_fast_count o.
Proof.
  intros o pre win tmin HN Hw.
  pose proof (fb_fast_window o win (fb_after_calls o fb_init pre) tmin Hw) as H.
  pose proof (fb_counts_nonneg o pre fb_init ltac:(simpl; lia)) as Hc.
  lia.
Qed.

(* never more than FastRetryCount fast retries in a row *)
Definition fb_all_fast (l : list (Z * fb_kind)) : bool := forallb (fun x => fb_is_fast (snd x)) l.

Lemma fb_fast_run_from : forall o cs s,
  0 <= fs_counts s ->
  fb_all_fast (fb_calls o s cs) = true ->
  Z.of_nat (length cs) <= Z.max 0 (fo_fast_count o - fs_counts s).
Proof.
  intros o. induction cs as [|x r IH]; intros s Hc H; [simpl; lia|].
  cbn [fb_calls] in H. unfold fb_backoff_k in H.
  change (length (x :: r)) with (S (length r)). rewrite Nat2Z.inj_succ.
  destruct (fs_last s); [|simpl in H; discriminate].
  destruct ((fo_fast_count o >? 0) && fc_err x).
  - destruct (fs_counts s + 1 <=? fo_fast_count o) eqn:E1.
    + apply Z.leb_le in E1. simpl in H.
      match type of H with context [fb_calls o ?s' r] => specialize (IH s'); simpl in IH end.
      specialize (IH ltac:(lia) H). lia.
    + destruct (fb_after (fc_now x) (fs_cutoff s)); simpl in H; discriminate.
  - destruct (fc_err x); simpl in H; discriminate.
Qed.

Theorem fb_fast_run_bounded : forall o pre run,
  0 <= fo_fast_count o ->
  fb_all_fast (fb_calls o (fb_after_calls o fb_init pre) run) = true ->
  Z.of_nat (length run) <= fo_fast_count o.
Proof.
  intros o pre run HN H.
  pose proof (fb_counts_nonneg o pre fb_init ltac:(simpl; lia)) as Hc.
  pose proof (fb_fast_run_from o run _ Hc H). lia.
Qed.

(* a retry that is not a fast one at least doubles the previous delay, up to the cap:
   exponential growth once the fast quota is used up *)
Lemma fb_slow_grows : forall o lo hi cec prev j,
  fb_wf o lo hi -> 0 < prev -> (cec <> 1 \/ fo_init_fail o = 0) -> 0 <= j < fb_JS ->
  Z.min (2 * prev) hi <= fb_slow o cec prev j.
Proof.
  intros o lo hi cec prev j W Hp Hc Hj. destruct W as [Wf Wj Wm Wl Wd Ws Wi _].
  unfold fb_slow. rewrite Wf, Wj, Wm. cbn [fst snd].
  assert (Hd0 : (if cec =? 1 then fb_empty_or (fo_init_fail o) prev else prev) = prev).
  { destruct (Z.eqb_spec cec 1); auto. destruct Hc as [Hc|Hc]; [contradiction|].
    rewrite Hc. reflexivity. }
  rewrite Hd0.
  assert (He : fb_empty_or prev fb_second = prev) by (unfold fb_empty_or; destruct (Z.eqb_spec prev 0); lia).
  rewrite He.
  change (2 =? 0) with false. cbv iota. rewrite Z.quot_1_r. change (1 >? 0) with true. cbv iota.
  destruct (fb_jitter_bounds (prev * 2) 1 10 j ltac:(lia) ltac:(lia) ltac:(lia) Hj) as [Ja Jb].
  set (d3 := fb_jitter (prev * 2) (1, 10) j) in *.
  destruct (hi >? 0); simpl; [|lia].
  destruct (d3 >? hi) eqn:E2; lia.
Qed.

(* the correspondence compares the real delay with the interval [model at j=0, model at j=2^53-1 (+1 ns)];
   these are the ends of the model's range *)
Lemma fb_jitter_mono : forall d n m j j',
  0 <= d -> 0 < n -> 0 < m -> 0 <= j <= j' ->
  fb_jitter d (n, m) j <= fb_jitter d (n, m) j'.
Proof.
  intros d n m j j' Hd Hn Hm Hj. unfold fb_jitter. cbn [fst snd].
  destruct (n <=? 0) eqn:E; [apply Z.leb_le in E; lia|]. cbn [fst snd].
  pose proof fb_JS_pos as HJ.
  assert (Hb : 0 < fb_JS * m) by (apply Z.mul_pos_pos; lia).
  assert (H0 : 0 <= j * n * d) by (apply Z.mul_nonneg_nonneg; [apply Z.mul_nonneg_nonneg|]; lia).
  assert (H1 : j * n * d <= j' * n * d).
  { apply Z.mul_le_mono_nonneg_r; [lia|]. apply Z.mul_le_mono_nonneg_r; lia. }
  rewrite !Z.quot_div_nonneg by lia.
  apply Z.add_le_mono_l. apply Z.div_le_mono; lia.
Qed.

(* The stronger reading "at most FastRetryCount fast retries per window" does NOT hold for the code:
   the counter starts at 1 with a zero cut-off, so the first over-quota call resets it at once.
   With keepControllerWorking's options and an error every second: fast, fast, slow+reset, fast,
   fast, fast within six seconds of a one-minute window. *)
Definition fb_quota_witness_pre : list fb_call :=
  [ {| fc_now := 0; fc_prev := 0; fc_err := false; fc_j := 0 |} ].
Definition fb_quota_witness_win : list fb_call :=
  map (fun k => {| fc_now := k * fb_second; fc_prev := 200 * fb_ns_ms; fc_err := true; fc_j := 0 |}) [1; 2; 3; 4; 5; 6].

Theorem fb_single_quota_refuted :
  forallb (fun x => (0 <=? fc_now x) && (fc_now x <=? 0 + fo_fast_window fb_keep_opts)) fb_quota_witness_win = true /\
  fb_count_fast (fb_calls fb_keep_opts (fb_after_calls fb_keep_opts fb_init fb_quota_witness_pre) fb_quota_witness_win) = 5 /\
  fo_fast_count fb_keep_opts = 3.
Proof. vm_compute. repeat split; reflexivity. Qed.
