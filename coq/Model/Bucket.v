(* C01: the reservation token bucket of golang.org/x/time/rate as used through WaitN
   (Limiter.reserveN / advance).  Model only: no proofs here.

   Units: time in nanoseconds (Z), [rate] in tokens per second, [burst] in tokens.  The float64
   token balance of the Go code is kept exactly as an integer scaled by 10^9 (token-nanoseconds
   per second): tokens_go = bk_tokens / 10^9, so that rate * elapsed_ns is exact.  The float64
   rounding of the Go code is NOT modelled (the driver compares act times with a tolerance).

   Go                                                     model
   advance(t): last := lim.last; if t.Before(last) {last = t}     l' := min last t
               tokens := lim.tokens + limit * (t - last)          tk + rate * (t - l')
               if tokens > burst { tokens = burst }               min (burst * G)
   NewLimiter: tokens = 0, last = zero time; the first advance sees an elapsed time of
               centuries (saturated Duration), hence a full bucket  [bk_last = None]  (needs
               rate * 9.2e9 s >= burst; frp uses rate = burst)
   wait(n):    if n > burst && limit != Inf -> error               [None], state unchanged
   reserveN:   tokens -= n; if tokens < 0 { wait = durationFromTokens(-tokens) }
               durationFromTokens(x) = time.Duration(1e9 * x / limit), truncated   (-tk) / rate  (floor; -tk > 0)
               timeToAct = t + wait; lim.last = t; lim.tokens = tokens
   WaitN then sleeps until timeToAct: the caller proceeds (writes / returns the bytes read) at or
   after the ACT TIME. *)
From FRP Require Export Model.Bytes.
Open Scope Z_scope.

Definition BK_G : Z := 1000000000.

Record bk_state := { bk_tokens : Z; bk_last : option Z }.

Definition bk_init : bk_state := {| bk_tokens := 0; bk_last := None |}.

Definition bk_advance (rate burst : Z) (st : bk_state) (t : Z) : Z :=
  match bk_last st with
  | None => burst * BK_G
  | Some l => Z.min (burst * BK_G) (bk_tokens st + rate * (t - Z.min l t))
  end.

(* one WaitN(n) issued at time t: new state and the act time ([None]: "exceeds limiter's burst") *)
Definition bk_reserve (rate burst : Z) (st : bk_state) (t n : Z) : bk_state * option Z :=
  if burst <? n then (st, None)
  else
    let tk := bk_advance rate burst st t - n * BK_G in
    let w := if tk <? 0 then (- tk) / rate else 0 in
    ({| bk_tokens := tk; bk_last := Some t |}, Some (t + w)).

(* a history of reservations (request time, tokens), from all connections and both directions of
   one proxy in the order in which they take the limiter's mutex: (act time, tokens) of each;
   [None] as soon as one of them is refused *)
Fixpoint bk_run (rate burst : Z) (st : bk_state) (reqs : list (Z * Z)) : option (list (Z * Z)) :=
  match reqs with
  | [] => Some []
  | (t, n) :: r =>
      match bk_reserve rate burst st t n with
      | (st', Some a) =>
          match bk_run rate burst st' r with
          | Some l => Some ((a, n) :: l)
          | None => None
          end
      | (_, None) => None
      end
  end.

Fixpoint bk_final (rate burst : Z) (st : bk_state) (reqs : list (Z * Z)) : bk_state :=
  match reqs with
  | [] => st
  | (t, n) :: r => bk_final rate burst (fst (bk_reserve rate burst st t n)) r
  end.

Definition sumn (l : list (Z * Z)) : Z := fold_right (fun x acc => snd x + acc) 0 l.

(* request times as a monotonic clock hands them out *)
Fixpoint times_from (t0 : Z) (reqs : list (Z * Z)) : Prop :=
  match reqs with
  | [] => True
  | (t, _) :: r => t0 <= t /\ times_from t r
  end.

Definition reqs_ok (burst : Z) (st : bk_state) (reqs : list (Z * Z)) : Prop :=
  Forall (fun x => 0 <= snd x <= burst) reqs /\
  match bk_last st with
  | None => match reqs with [] => True | (t, _) :: r => times_from t r end
  | Some l => times_from l reqs
  end.
