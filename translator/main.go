// Translator: regenerates the table-like parts of the Coq model from the Go
// sources of fatedier/frp on every run (standard library only).
//
//	translator -repo /repo -out /verif/coq/gen
//
// Every unit writes one Gen*.v file.  A construct a unit does not recognise is
// emitted as an explicit Unknown node so that the reflective checkers in
// coq/Proofs fail instead of silently skipping it.
package main

import (
	"bytes"
	"flag"
	"fmt"
	"os"
	"path/filepath"
)

var repo, outDir string

func writeIfChanged(name string, content []byte) {
	p := filepath.Join(outDir, name)
	old, err := os.ReadFile(p)
	if err == nil && bytes.Equal(old, content) {
		return
	}
	if err := os.WriteFile(p, content, 0o644); err != nil {
		fatal(err)
	}
}

func fatal(err error) {
	fmt.Fprintln(os.Stderr, "translator:", err)
	os.Exit(2)
}

type unit struct {
	name string
	file string
	fn   func() ([]byte, error)
}

var units []unit

func register(name, file string, fn func() ([]byte, error)) {
	units = append(units, unit{name, file, fn})
}

func main() {
	flag.StringVar(&repo, "repo", "/repo", "path of the frp working tree")
	flag.StringVar(&outDir, "out", "", "output directory for Gen*.v")
	flag.Parse()
	if outDir == "" {
		fatal(fmt.Errorf("-out required"))
	}
	if err := os.MkdirAll(outDir, 0o755); err != nil {
		fatal(err)
	}
	for _, u := range units {
		b, err := u.fn()
		if err != nil {
			// A unit that cannot even parse its source still produces a file, with a
			// failure marker the proofs trip over, so the breakage is attributed.
			b = []byte(fmt.Sprintf("(* translator unit %s failed: %s *)\nFrom FRP Require Import Model.GenTypes.\nDefinition %s_translated : bool := false.\n", u.name, sanitize(err.Error()), u.name))
			fmt.Fprintf(os.Stderr, "translator: unit %s: %v\n", u.name, err)
		}
		writeIfChanged(u.file, b)
	}
}

func sanitize(s string) string {
	var b bytes.Buffer
	for _, r := range s {
		if r == '*' || r == '(' || r == ')' || r == '"' {
			b.WriteByte('_')
		} else {
			b.WriteRune(r)
		}
	}
	return b.String()
}

// coqString renders s as a Coq string literal (ASCII only; others as '?', the
// translator only handles identifiers, json names and literals from source).
func coqString(s string) string {
	var b bytes.Buffer
	b.WriteByte('"')
	for i := 0; i < len(s); i++ {
		c := s[i]
		switch {
		case c == '"':
			b.WriteString(`""`)
		case c >= 32 && c < 127:
			b.WriteByte(c)
		default:
			b.WriteByte('?')
		}
	}
	b.WriteByte('"')
	return b.String()
}
