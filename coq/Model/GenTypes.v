(* Types of the data the translator emits (coq/gen/Gen*.v).  Model only. *)
From FRP Require Export Model.Bytes.

(* T1: message schemas.  A field is (Go name, json name, kind, omitempty). *)
Inductive kind :=
| KStr | KInt | KBool | KMapSS | KStrs
| KStruct (fs : list (string * string * kind * bool))   (* struct value: never omitted by encoding/json *)
| KStructs (fs : list (string * string * kind * bool))  (* slice of structs *)
| KPtr (fs : list (string * string * kind * bool))      (* pointer to struct; nil is the empty value *)
| KUnknown (go_type : string).                          (* not recognised by the translator *)

Definition field : Type := string * string * kind * bool.
Definition f_go (f : field) : string := let '(g, _, _, _) := f in g.
Definition f_json (f : field) : string := let '(_, j, _, _) := f in j.
Definition f_kind (f : field) : kind := let '(_, _, k, _) := f in k.
Definition f_omit (f : field) : bool := let '(_, _, _, o) := f in o.
