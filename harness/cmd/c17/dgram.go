package main

// Driver "dgram" (C17): the NAT-hole datagram decoder, pkg/nathole DecodeMessageInto (crypto.Decode +
// msg.ReadMsgInto), fed every datagram length 0..64, random and structured datagrams, under recover.
// Compared with Model/Datagram.v (Corr/C17Dgram.v).

import (
	"bytes"
	"fmt"
	"math"
	"reflect"

	"github.com/fatedier/golib/crypto"

	"github.com/fatedier/frp/pkg/msg"
	"github.com/fatedier/frp/pkg/nathole"
)

func init() { drivers["dgram"] = runDgram }

// decodeObserved calls the real decoder on a private copy (crypto.Decode decrypts in place).
func decodeObserved(data, key []byte) (obs int, m msg.NatHoleSid, panicText string) {
	defer func() {
		if r := recover(); r != nil {
			obs, panicText = 2, fmt.Sprint(r)
		}
	}()
	cp := append([]byte{}, data...)
	if err := nathole.DecodeMessageInto(cp, key, &m); err != nil {
		return 1, m, ""
	}
	return 0, m, ""
}

func runDgram(cfg *runCfg) error {
	g := newGen(cfg.Seed)
	key := []byte("c17-datagram-key")
	cf := &caseFile{
		Imports: "From FRP Require Import Corr.C17Dgram.\n",
		Typ:     "dg_case",
		Tail: "Definition M := Eval vm_compute in mismatches check_dg cases.\nPrint M.\n" +
			"Definition NDGSHORT := Eval vm_compute in count_if is_dg_short cases.\nPrint NDGSHORT.\n" +
			"Definition NDGFRAMEERR := Eval vm_compute in count_if is_dg_frame_err cases.\nPrint NDGFRAMEERR.\n" +
			"Definition NDGJSONERR := Eval vm_compute in count_if is_dg_json_err cases.\nPrint NDGJSONERR.\n" +
			"Definition NDGOK := Eval vm_compute in count_if is_dg_ok cases.\nPrint NDGOK.\n",
	}
	dist := map[string]int{}
	distinct := map[string]bool{}
	var samples, implFail []any
	var add func(kind string, data []byte, want *msg.NatHoleSid)
	addK := func(key []byte, kind string, data []byte, want *msg.NatHoleSid) {
		// oracles: the cipher (golib crypto.Decode on a copy) and the JSON layer (msg.ReadMsgInto on its output)
		var plain []byte
		if p, err := crypto.Decode(append([]byte{}, data...), key); err == nil {
			plain = p
		}
		jsonOK := false
		if plain != nil {
			var ref msg.NatHoleSid
			jsonOK = msg.ReadMsgInto(bytes.NewReader(plain), &ref) == nil
		}
		obs, got, ptxt := decodeObserved(data, key)
		same := true
		if want != nil { // a datagram written by EncodeMessage under this key: must be read back, equal
			same = obs == 0 && reflect.DeepEqual(got, *want)
		}
		c := fmt.Sprintf("CDgram %s %s %s %d %s", coqHx(data), coqHx(plain), coqBool(jsonOK), obs, coqBool(same))
		cf.Cases = append(cf.Cases, c)
		dist[fmt.Sprintf("%s obs=%d", kind, obs)]++
		distinct[fmt.Sprintf("%x", data)] = true
		if obs == 2 {
			implFail = append(implFail, map[string]any{"key": "dgram:decoder-panic",
				"what": fmt.Sprintf("nathole.DecodeMessageInto panicked on a %d-byte datagram (%s); waitDetectMessage has no recover: the frpc process dies", len(data), ptxt),
				"case": c})
		}
		if !same && obs != 2 {
			implFail = append(implFail, map[string]any{"key": "dgram:roundtrip",
				"what": fmt.Sprintf("a datagram written by nathole.EncodeMessage under a %d-byte key is not read back by DecodeMessageInto under the same key (obs=%d)", len(key), obs),
				"case": c})
		}
		if len(samples) < 5 && len(data) < 60 && len(data) >= 16 {
			samples = append(samples, map[string]any{"kind": kind, "datagram_hex": fmt.Sprintf("%x", data), "obs": obs})
		}
	}
	add = func(kind string, data []byte, want *msg.NatHoleSid) { addK(key, kind, data, want) }
	// every key length 0..33 (xtcp without secretKey has an EMPTY key): what EncodeMessage writes under a key,
	// DecodeMessageInto must read back under the same key
	for kl := 0; kl <= 33; kl++ {
		k := g.bytes(kl)
		m := &msg.NatHoleSid{TransactionID: g.str(), Sid: "sid-" + fmt.Sprint(kl), Response: kl%2 == 0, Nonce: g.str()}
		d, err := nathole.EncodeMessage(m, k)
		if err != nil {
			return err
		}
		addK(k, fmt.Sprintf("key-length-%s", map[bool]string{true: "0", false: ">0"}[kl == 0]), d, m)
	}
	enc := func(plain []byte) []byte {
		b, _ := crypto.Encode(plain, key)
		return b
	}
	// every length 0..64, random content
	for l := 0; l <= 64; l++ {
		for k := 0; k < 3; k++ {
			add("random-length", g.bytes(l), nil)
		}
	}
	// every plaintext length 0..24 with the first bytes of a valid frame (partial / bare headers)
	sidFrame := encodeMsg(&msg.NatHoleSid{TransactionID: "t", Sid: "s", Nonce: "n"})
	for l := 0; l <= 24 && l <= len(sidFrame); l++ {
		add("partial-frame", enc(sidFrame[:l]), nil)
	}
	n := cfg.N
	for i := 0; i < n; i++ {
		switch g.intn(10) {
		case 0, 1: // what EncodeMessage produces: must come back equal
			m := &msg.NatHoleSid{TransactionID: g.str(), Sid: g.str(), Response: g.chance(0.5), Nonce: g.str()}
			d, err := nathole.EncodeMessage(m, key)
			if err != nil {
				return err
			}
			add("encode-message", d, m)
		case 2: // another registered type: only registration is checked, the body goes into the sid struct
			t := regTypes[g.intn(18)]
			body := []byte([]string{`{}`, `{"sid":"x","response":true}`, `{"proxy_name":"p"}`}[g.intn(3)])
			add("other-registered-type", enc(frame(t, int64(len(body)), body)), nil)
		case 3: // unknown type byte with a perfectly good body
			t := byte(g.intn(256))
			body := []byte(`{"sid":"x"}`)
			add("type-byte", enc(frame(t, int64(len(body)), body)), nil)
		case 4: // negative / oversized / overlong declared lengths
			l := []int64{-1, math.MinInt64, 10241, 1 << 40, math.MaxInt64, 200, 12}[g.intn(7)]
			add("declared-length", enc(frame('5', l, []byte(`{"sid":"x"}`))), nil)
		case 5: // truncated ciphertext of a valid datagram
			d, _ := nathole.EncodeMessage(&msg.NatHoleSid{Sid: g.str(), Nonce: g.str()}, key)
			add("truncated", d[:g.intn(len(d))], nil)
		case 6: // frame followed by more bytes in the same datagram: ignored
			m := &msg.NatHoleSid{Sid: g.str()}
			add("trailing", enc(append(encodeMsg(m), g.bytes(1+g.intn(20))...)), m)
		case 7: // garbage / wrongly typed JSON
			body := [][]byte{g.bytes(g.intn(30)), []byte(`{"sid":5}`), []byte(`[]`), []byte(`{"response":"yes"}`), []byte(`null`)}[g.intn(5)]
			add("json-body", enc(frame('5', int64(len(body)), body)), nil)
		case 8: // encrypted under another key
			d, _ := crypto.Encode(sidFrame, []byte("some other key"))
			add("wrong-key", d, nil)
		default: // body exactly at / just over the bound: 10 KiB of ciphertext per case is too slow to push through
			// Coq's string-literal parser, so these are checked on the Go side against the reference path
			// (crypto.Decode + msg.ReadMsgInto, whose bound the codec driver ties to the model)
			l := 10239 + g.intn(3)
			body := append([]byte(`{"nonce":"`), bytes.Repeat([]byte{'a'}, l-12)...)
			body = append(body, '"', '}')
			d := enc(frame('5', int64(len(body)), body))
			obs, _, _ := decodeObserved(d, key)
			wantObs := 1
			if p, err := crypto.Decode(append([]byte{}, d...), key); err == nil {
				var ref msg.NatHoleSid
				if msg.ReadMsgInto(bytes.NewReader(p), &ref) == nil {
					wantObs = 0
				}
			}
			if (len(body) <= 10240) != (wantObs == 0) || obs != wantObs {
				implFail = append(implFail, map[string]any{"key": "dgram:bound",
					"what": fmt.Sprintf("datagram with a %d-byte body: DecodeMessageInto obs=%d, reference path obs=%d, bound 10240", len(body), obs, wantObs),
					"case": fmt.Sprintf("body length %d", len(body))})
			}
			dist[fmt.Sprintf("bound(go-side) len=%d obs=%d", len(body), obs)]++
		}
	}
	// property monitor on the implementation only (C17_datagram_roundtrip says the model passes it): volume of
	// EncodeMessage -> DecodeMessageInto round trips with fresh random ivs; a failure is reported with the datagram
	monitored := 0
	for i := 0; i < 25*n; i++ {
		m := &msg.NatHoleSid{TransactionID: g.str(), Sid: g.str(), Response: g.chance(0.5), Nonce: g.str()}
		d, err := nathole.EncodeMessage(m, key)
		if err != nil {
			return err
		}
		obs, got, _ := decodeObserved(d, key)
		monitored++
		if obs != 0 || !reflect.DeepEqual(got, *m) {
			add("encode-message-monitor", d, m) // goes to the model too, with the full observation
			implFail = append(implFail, map[string]any{"key": "dgram:roundtrip",
				"what": fmt.Sprintf("a datagram written by nathole.EncodeMessage is not read back by DecodeMessageInto (obs=%d)", obs),
				"case": cf.Cases[len(cf.Cases)-1]})
			break
		}
	}
	cfg.St["roundtrips_monitored"] = monitored
	// UDPPacket contents around and above the socket buffer size through the real udp.ForwardUserConn (child process)
	if why := runUdpfwd(); why != "" {
		implFail = append(implFail, map[string]any{"key": "dgram:udp-forward",
			"what": "udp.ForwardUserConn did not deliver UDPPacket contents of sizes " + fmt.Sprint(udpfwdSizes) + " intact (bufSize 1500): " + why,
			"case": "h_c17 udpfwd"})
	}
	cfg.St["udp_forward_sizes"] = udpfwdSizes
	if err := cf.Write(cfg.Out); err != nil {
		return err
	}
	cfg.St["cases"] = len(cf.Cases)
	cfg.St["distinct_nontrivial"] = len(distinct)
	cfg.St["distribution"] = dist
	cfg.St["samples"] = samples
	cfg.St["impl_failures"] = implFail
	return nil
}
