package main

func (d *drv) runFormats(g *gen, n int) map[string]any { return map[string]any{"documents": 0} }
