(* C09 — layered model on top of Model/Ports.v.  Model only: no proofs here.

   Level X ("resource controller"): the two port managers, the tcp group table, what the OS has
   listening for this process (os_bound), what other processes hold (squat), and the proxy objects.
     server/proxy/tcp.go   TCPProxy.Run / Close          tcp_run / group_listen / tcp_close
     server/proxy/udp.go   UDPProxy.Run / Close           udp_run / udp_close  (isClosed once-guard)
     server/group/tcp.go   TCPGroupCtl.Listen, TCPGroup.Listen, CloseListener, RemoveGroup
   Level Y ("control"): server/control.go RegisterProxy (quota check-and-add, deferred rollback, name
   check, Run, Add), CloseProxy (subtract, Close, Del), the session teardown loop in worker().
   Every step is one handler's sequential semantics; net.Listen's outcome is an oracle argument, the
   OS probe is DERIVED from os_bound and squat (so "a used port is bound, hence not bindable" is a
   provable invariant instead of an assumption). *)
From FRP Require Export Model.Ports.
Open Scope Z_scope.

(* ---- association lists ---- *)
Fixpoint aget {V} (k : Z) (l : list (Z * V)) : option V :=
  match l with [] => None | (q, v) :: r => if k =? q then Some v else aget k r end.
Fixpoint adel {V} (k : Z) (l : list (Z * V)) : list (Z * V) :=
  match l with [] => [] | (q, v) :: r => if k =? q then adel k r else (q, v) :: adel k r end.
Definition aset {V} (k : Z) (v : V) (l : list (Z * V)) := (k, v) :: adel k l.

Fixpoint sget {V} (k : string) (l : list (string * V)) : option V :=
  match l with [] => None | (q, v) :: r => if String.eqb k q then Some v else sget k r end.
Fixpoint sdel {V} (k : string) (l : list (string * V)) : list (string * V) :=
  match l with [] => [] | (q, v) :: r => if String.eqb k q then sdel k r else (q, v) :: sdel k r end.
Definition sset {V} (k : string) (v : V) (l : list (string * V)) := (k, v) :: sdel k l.

Inductive pkind := KTcp | KUdp | KOther.

(* os_bound: (proto, port); proto 0 = tcp, 1 = udp.  A listening socket is identified by its protocol
   and port: the kernel admits one listener per (protocol, address, port), and all sockets of one
   server share the address.  Closing "my listener on p" is therefore removing (proto, p); the code's
   guards against closing twice (UDPProxy.isClosed, one Close per tcp proxy) are modelled explicitly. *)
Definition binding := (Z * Z)%type.
Definition b_proto (b : binding) := fst b.
Definition b_port (b : binding) := snd b.

(* TCPGroup: groupKey, addr, port (as requested by the first member), realPort, lns, tcpLn *)
Record tgrp := { tg_key : string; tg_addr : Z; tg_port : Z; tg_real : Z; tg_lns : list Z }.

(* a proxy object after a successful Run: kind, LoadBalancer.Group, realBindPort, UDPProxy.isClosed
   (for tcp objects the flag is a ghost: the Go object has none) *)
Record pobj := { po_kind : pkind; po_group : string; po_real : Z; po_closed : bool }.

Record rcst := {
  rc_tcp : pm; rc_udp : pm;
  rc_groups : list (string * tgrp);
  rc_bound : list binding;
  rc_squat : list (Z * Z);
  rc_objs : list (Z * pobj);
  rc_next : Z }.

Definition rc_set_tcp (t : pm) (r : rcst) : rcst :=
  {| rc_tcp := t; rc_udp := rc_udp r; rc_groups := rc_groups r; rc_bound := rc_bound r; rc_squat := rc_squat r;
     rc_objs := rc_objs r; rc_next := rc_next r |}.
Definition rc_set_udp (u : pm) (r : rcst) : rcst :=
  {| rc_tcp := rc_tcp r; rc_udp := u; rc_groups := rc_groups r; rc_bound := rc_bound r; rc_squat := rc_squat r;
     rc_objs := rc_objs r; rc_next := rc_next r |}.
Definition rc_set_groups (g : list (string * tgrp)) (r : rcst) : rcst :=
  {| rc_tcp := rc_tcp r; rc_udp := rc_udp r; rc_groups := g; rc_bound := rc_bound r; rc_squat := rc_squat r;
     rc_objs := rc_objs r; rc_next := rc_next r |}.
Definition rc_set_bound (b : list binding) (r : rcst) : rcst :=
  {| rc_tcp := rc_tcp r; rc_udp := rc_udp r; rc_groups := rc_groups r; rc_bound := b; rc_squat := rc_squat r;
     rc_objs := rc_objs r; rc_next := rc_next r |}.
Definition rc_set_squat (q : list (Z * Z)) (r : rcst) : rcst :=
  {| rc_tcp := rc_tcp r; rc_udp := rc_udp r; rc_groups := rc_groups r; rc_bound := rc_bound r; rc_squat := q;
     rc_objs := rc_objs r; rc_next := rc_next r |}.
Definition rc_set_objs (o : list (Z * pobj)) (r : rcst) : rcst :=
  {| rc_tcp := rc_tcp r; rc_udp := rc_udp r; rc_groups := rc_groups r; rc_bound := rc_bound r; rc_squat := rc_squat r;
     rc_objs := o; rc_next := rc_next r |}.
Definition rc_set_next (n : Z) (r : rcst) : rcst :=
  {| rc_tcp := rc_tcp r; rc_udp := rc_udp r; rc_groups := rc_groups r; rc_bound := rc_bound r; rc_squat := rc_squat r;
     rc_objs := rc_objs r; rc_next := n |}.

Definition rc_new (ranges : list prange) : rcst :=
  {| rc_tcp := pm_new ranges; rc_udp := pm_new ranges; rc_groups := []; rc_bound := []; rc_squat := [];
     rc_objs := []; rc_next := 1 |}.

Definition bound_ports (proto : Z) (b : list binding) : list Z :=
  map b_port (filter (fun x => b_proto x =? proto) b).
Definition squat_ports (proto : Z) (q : list (Z * Z)) : list Z :=
  map snd (filter (fun x => fst x =? proto) q).

(* isPortAvailable as the OS answers it in this state *)
Definition rc_probe (r : rcst) (proto : Z) : Z -> bool :=
  probe_of (bound_ports proto (rc_bound r) ++ squat_ports proto (rc_squat r)).

(* closing the listening socket (proto, port) *)
Definition unbind (proto port : Z) (b : list binding) : list binding :=
  filter (fun x => negb ((b_proto x =? proto) && (b_port x =? port))) b.

(* ---- a registration request and its oracles ---- *)
Record xreq := {
  xq_kind : pkind; xq_name : pname; xq_port : Z; xq_group : string; xq_gkey : string;
  xq_addr : Z;                 (* serverCfg.ProxyBindAddr handed to the proxy (an identifier) *)
  xq_choice : option Z;        (* oracle: port picked by the random path *)
  xq_lok : bool }.             (* oracle: net.Listen / net.ListenUDP succeeded *)

Inductive xerr := XAcq (e : perr) | XListen | XGroupParams | XGroupPort | XGroupAuth.
Inductive xres := XOk (id real : Z) | XErr (e : xerr).

Definition mk_obj (q : xreq) (real : Z) : pobj :=
  {| po_kind := xq_kind q; po_group := xq_group q; po_real := real; po_closed := false |}.

(* TCPProxy.Run, LoadBalancer.Group == "" *)
Definition tcp_run (r : rcst) (q : xreq) : option (rcst * xres) :=
  match pm_acquire (rc_probe r 0) (xq_choice q) (rc_tcp r) (xq_name q) (xq_port q) with
  | None => None
  | Some (t', PErr e) => Some (rc_set_tcp t' r, XErr (XAcq e))
  | Some (t', POk rp) =>
      if xq_lok q then
        let h := rc_next r in
        Some (rc_set_next (h + 1) (rc_set_objs (aset h (mk_obj q rp) (rc_objs r))
               (rc_set_bound ((0, rp) :: rc_bound r) (rc_set_tcp t' r))), XOk h rp)
      else
        (* deferred: if err != nil { Release(realBindPort) } *)
        Some (rc_set_tcp (pm_release t' rp) r, XErr XListen)
  end.

(* UDPProxy.Run *)
Definition udp_run (r : rcst) (q : xreq) : option (rcst * xres) :=
  match pm_acquire (rc_probe r 1) (xq_choice q) (rc_udp r) (xq_name q) (xq_port q) with
  | None => None
  | Some (u', PErr e) => Some (rc_set_udp u' r, XErr (XAcq e))
  | Some (u', POk rp) =>
      if xq_lok q then
        let h := rc_next r in
        Some (rc_set_next (h + 1) (rc_set_objs (aset h (mk_obj q rp) (rc_objs r))
               (rc_set_bound ((1, rp) :: rc_bound r) (rc_set_udp u' r))), XOk h rp)
      else Some (rc_set_udp (pm_release u' rp) r, XErr XListen)
  end.

Definition empty_grp : tgrp := {| tg_key := ""; tg_addr := 0; tg_port := 0; tg_real := 0; tg_lns := [] |}.

(* TCPGroupCtl.Listen + TCPGroup.Listen (TCPProxy.Run with a group) *)
Definition group_listen (r : rcst) (q : xreq) : option (rcst * xres) :=
  let g := xq_group q in
  (* the controller creates the group entry before anything can fail *)
  let '(tg, r1) := match sget g (rc_groups r) with
                   | Some tg => (tg, r)
                   | None => (empty_grp, rc_set_groups (sset g empty_grp (rc_groups r)) r)
                   end in
  match tg_lns tg with
  | [] =>
      match pm_acquire (rc_probe r1 0) (xq_choice q) (rc_tcp r1) (xq_name q) (xq_port q) with
      | None => None
      | Some (t', PErr e) => Some (rc_set_tcp t' r1, XErr (XAcq e))
      | Some (t', POk rp) =>
          if xq_lok q then
            let id := rc_next r1 in
            let tg' := {| tg_key := xq_gkey q; tg_addr := xq_addr q; tg_port := xq_port q; tg_real := rp;
                          tg_lns := [id] |} in
            Some (rc_set_next (id + 1) (rc_set_objs (aset id (mk_obj q rp) (rc_objs r1))
                   (rc_set_bound ((0, rp) :: rc_bound r1)
                     (rc_set_groups (sset g tg' (rc_groups r1)) (rc_set_tcp t' r1)))), XOk id rp)
          else Some (rc_set_tcp (pm_release t' rp) r1, XErr XListen)
      end
  | _ :: _ =>
      if negb (tg_addr tg =? xq_addr q) then Some (r1, XErr XGroupParams)
      else if negb (tg_port tg =? xq_port q) then Some (r1, XErr XGroupPort)
      else if negb (String.eqb (tg_key tg) (xq_gkey q)) then Some (r1, XErr XGroupAuth)
      else
        let id := rc_next r1 in
        let tg' := {| tg_key := tg_key tg; tg_addr := tg_addr tg; tg_port := tg_port tg; tg_real := tg_real tg;
                      tg_lns := tg_lns tg ++ [id] |} in
        Some (rc_set_next (id + 1) (rc_set_objs (aset id (mk_obj q (tg_real tg)) (rc_objs r1))
               (rc_set_groups (sset g tg' (rc_groups r1)) r1)), XOk id (tg_real tg))
  end.

(* proxies that use no remote port (stcp, ...): Run touches neither manager *)
Definition other_run (r : rcst) (q : xreq) : option (rcst * xres) :=
  let id := rc_next r in
  Some (rc_set_next (id + 1) (rc_set_objs (aset id (mk_obj q 0) (rc_objs r)) r), XOk id 0).

Definition px_run (r : rcst) (q : xreq) : option (rcst * xres) :=
  match xq_kind q with
  | KTcp => if String.eqb (xq_group q) "" then tcp_run r q else group_listen r q
  | KUdp => udp_run r q
  | KOther => other_run r q
  end.

Definition mark_closed (id : Z) (o : pobj) (r : rcst) : rcst :=
  rc_set_objs (aset id {| po_kind := po_kind o; po_group := po_group o; po_real := po_real o; po_closed := true |}
                    (rc_objs r)) r.

(* TCPGroupListener.Close -> TCPGroup.CloseListener.  None = the listener is not a member of the
   group its proxy names: a state the sequential server never reaches *)
Definition close_group_listener (r : rcst) (g : string) (id : Z) : option rcst :=
  match sget g (rc_groups r) with
  | None => None
  | Some tg =>
      if negb (zmem id (tg_lns tg)) then None
      else
        let lns' := zrem id (tg_lns tg) in
        match lns' with
        | [] =>
            (* close(acceptCh); tcpLn.Close(); portManager.Release(realPort); ctl.RemoveGroup(group) *)
            Some (rc_set_groups (sdel g (rc_groups r))
                   (rc_set_tcp (pm_release (rc_tcp r) (tg_real tg))
                     (rc_set_bound (unbind 0 (tg_real tg) (rc_bound r)) r)))
        | _ :: _ =>
            Some (rc_set_groups (sset g {| tg_key := tg_key tg; tg_addr := tg_addr tg; tg_port := tg_port tg;
                                           tg_real := tg_real tg; tg_lns := lns' |} (rc_groups r)) r)
        end
  end.

(* Proxy.Close.  A tcp object is closed at most once by the server (None otherwise); a udp object is
   closed by the control AND by its own forwarding goroutine: the second call finds isClosed set. *)
Definition px_close (r : rcst) (id : Z) : option rcst :=
  match aget id (rc_objs r) with
  | None => None
  | Some o =>
      match po_kind o with
      | KTcp =>
          if po_closed o then None
          else if String.eqb (po_group o) "" then
            (* BaseProxy.Close closes the listener; then Release(realBindPort) *)
            Some (mark_closed id o (rc_set_tcp (pm_release (rc_tcp r) (po_real o))
                                      (rc_set_bound (unbind 0 (po_real o) (rc_bound r)) r)))
          else match close_group_listener r (po_group o) id with
               | Some r' => Some (mark_closed id o r')
               | None => None
               end
      | KUdp =>
          if po_closed o then Some r
          else Some (mark_closed id o (rc_set_udp (pm_release (rc_udp r) (po_real o))
                                         (rc_set_bound (unbind 1 (po_real o) (rc_bound r)) r)))
      | KOther => if po_closed o then None else Some (mark_closed id o r)
      end
  end.

Inductive xop :=
| XRun (q : xreq)
| XClose (id : Z)
| XSquat (proto port : Z)
| XUnsquat (proto port : Z).

Inductive xout := XoRun (res : xres) | XoNone.

Definition x_step (r : rcst) (o : xop) : option (rcst * xout) :=
  match o with
  | XRun q => match px_run r q with Some (r', res) => Some (r', XoRun res) | None => None end
  | XClose id => match px_close r id with Some r' => Some (r', XoNone) | None => None end
  | XSquat proto port =>
      (* another process binds the port: possible only if the OS has it free *)
      if (1 <=? port) && rc_probe r proto port then Some (rc_set_squat ((proto, port) :: rc_squat r) r, XoNone) else None
  | XUnsquat proto port =>
      Some (rc_set_squat (filter (fun x => negb ((fst x =? proto) && (snd x =? port))) (rc_squat r)) r, XoNone)
  end.

Fixpoint x_run (ops : list xop) (r : rcst) : option rcst :=
  match ops with
  | [] => Some r
  | o :: t => match x_step r o with Some (r', _) => x_run t r' | None => None end
  end.

(* ======================= level Y: sessions, names, quota ======================= *)
Definition pweight (k : pkind) : Z := match k with KOther => 0 | _ => 1 end.

(* Control.proxies (name -> object, with the object's usedPortsNum) and Control.portsUsedNum *)
Record ctl := { c_proxies : list (pname * (Z * pkind)); c_used : Z }.

Record srv := {
  s_rc : rcst;
  s_names : list (pname * Z);      (* proxy.Manager.pxys: global name -> proxy, projected to the owning session *)
  s_ctls : list (Z * ctl) }.       (* live sessions *)

Definition srv_new (ranges : list prange) : srv := {| s_rc := rc_new ranges; s_names := []; s_ctls := [] |}.

Definition live_weight (c : ctl) : Z := fold_right (fun e acc => pweight (snd (snd e)) + acc) 0 (c_proxies c).

Inductive yres := YOk (id real : Z) | YErrQuota | YErrExists | YErrRun (e : xerr).

(* Control.RegisterProxy *)
Definition y_register (maxp : Z) (s : srv) (c : Z) (q : xreq) : option (srv * yres) :=
  match aget c (s_ctls s) with
  | None => None
  | Some ct =>
      let w := pweight (xq_kind q) in
      if (0 <? maxp) && (maxp <? c_used ct + w) then Some (s, YErrQuota)
      else
        (* ctl.portsUsedNum += n, rolled back by the deferred function on every error below *)
        let ct1 := {| c_proxies := c_proxies ct; c_used := if 0 <? maxp then c_used ct + w else c_used ct |} in
        let rollback (x : ctl) := {| c_proxies := c_proxies x; c_used := if 0 <? maxp then c_used x - w else c_used x |} in
        match sget (xq_name q) (s_names s) with
        | Some _ =>
            Some ({| s_rc := s_rc s; s_names := s_names s; s_ctls := aset c (rollback ct1) (s_ctls s) |}, YErrExists)
        | None =>
            match px_run (s_rc s) q with
            | None => None
            | Some (r', XErr e) =>
                Some ({| s_rc := r'; s_names := s_names s; s_ctls := aset c (rollback ct1) (s_ctls s) |}, YErrRun e)
            | Some (r', XOk id real) =>
                (* pxyManager.Add cannot fail here: Exist was false and the handler is one step *)
                Some ({| s_rc := r'; s_names := sset (xq_name q) c (s_names s);
                         s_ctls := aset c {| c_proxies := sset (xq_name q) (id, xq_kind q) (c_proxies ct1);
                                             c_used := c_used ct1 |} (s_ctls s) |}, YOk id real)
            end
        end
  end.

(* Control.CloseProxy *)
Definition y_close (maxp : Z) (s : srv) (c : Z) (name : pname) : option srv :=
  match aget c (s_ctls s) with
  | None => None
  | Some ct =>
      match sget name (c_proxies ct) with
      | None => Some s
      | Some (id, k) =>
          match px_close (s_rc s) id with
          | None => None
          | Some r' =>
              Some {| s_rc := r'; s_names := sdel name (s_names s);
                      s_ctls := aset c {| c_proxies := sdel name (c_proxies ct);
                                          c_used := if 0 <? maxp then c_used ct - pweight k else c_used ct |} (s_ctls s) |}
          end
      end
  end.

(* the teardown loop of Control.worker: every proxy closed and unregistered, the session dropped *)
Fixpoint close_all (r : rcst) (names : list (pname * Z)) (l : list (pname * (Z * pkind))) : option (rcst * list (pname * Z)) :=
  match l with
  | [] => Some (r, names)
  | (n, (id, _)) :: t =>
      match px_close r id with
      | None => None
      | Some r' => close_all r' (sdel n names) t
      end
  end.

Definition y_end (s : srv) (c : Z) : option srv :=
  match aget c (s_ctls s) with
  | None => None
  | Some ct =>
      match close_all (s_rc s) (s_names s) (c_proxies ct) with
      | None => None
      | Some (r', names') => Some {| s_rc := r'; s_names := names'; s_ctls := adel c (s_ctls s) |}
      end
  end.

Inductive yop :=
| YLogin (c : Z)
| YNewProxy (c : Z) (q : xreq)
| YCloseProxy (c : Z) (name : pname)
| YSessionEnd (c : Z)
| YLateClose (id : Z)                 (* the udp forwarding goroutine's own Close *)
| YSquat (proto port : Z)
| YUnsquat (proto port : Z).

Inductive yout := YoReg (r : yres) | YoNone.

Definition y_step (maxp : Z) (s : srv) (o : yop) : option (srv * yout) :=
  match o with
  | YLogin c =>
      match aget c (s_ctls s) with
      | Some _ => None
      | None => Some ({| s_rc := s_rc s; s_names := s_names s;
                         s_ctls := aset c {| c_proxies := []; c_used := 0 |} (s_ctls s) |}, YoNone)
      end
  | YNewProxy c q => match y_register maxp s c q with Some (s', r) => Some (s', YoReg r) | None => None end
  | YCloseProxy c n => match y_close maxp s c n with Some s' => Some (s', YoNone) | None => None end
  | YSessionEnd c => match y_end s c with Some s' => Some (s', YoNone) | None => None end
  | YLateClose id =>
      match aget id (rc_objs (s_rc s)) with
      | Some o =>
          match po_kind o with
          | KUdp => match px_close (s_rc s) id with
                    | Some r' => Some ({| s_rc := r'; s_names := s_names s; s_ctls := s_ctls s |}, YoNone)
                    | None => None
                    end
          | _ => None
          end
      | None => None
      end
  | YSquat proto port =>
      match x_step (s_rc s) (XSquat proto port) with
      | Some (r', _) => Some ({| s_rc := r'; s_names := s_names s; s_ctls := s_ctls s |}, YoNone)
      | None => None
      end
  | YUnsquat proto port =>
      match x_step (s_rc s) (XUnsquat proto port) with
      | Some (r', _) => Some ({| s_rc := r'; s_names := s_names s; s_ctls := s_ctls s |}, YoNone)
      | None => None
      end
  end.

Fixpoint y_run (maxp : Z) (ops : list yop) (s : srv) : option srv :=
  match ops with
  | [] => Some s
  | o :: t => match y_step maxp s o with Some (s', _) => y_run maxp t s' | None => None end
  end.
