(* C03 — UDP tunnels preserve datagram payloads, boundaries and reply addressing.
   Only statements here; proofs live in Proofs/.  Every theorem is followed by Print Assumptions. *)
From FRP Require Import Model.Base64 Model.Udp Model.UdpSched Proofs.Base64Proofs Proofs.UdpProofs Proofs.UdpFwdProofs
  Proofs.UdpSchedProofs Model.UdpSrvPump Proofs.UdpSrvPumpProofs Model.UdpLoops Proofs.UdpLoopsProofs
  Model.UdpSrvLoop Proofs.UdpSrvLoopProofs gen.GenC03Udp Proofs.RegistryCheck.
Open Scope Z_scope.

Definition today_registry := registry type_consts type_map.
Definition registered := reg_of today_registry.

(** * base64 (encoding/base64 StdEncoding as used by NewUDPPacket / GetContent) *)

Theorem C03_base64_roundtrip : forall d : bytes, b64_decode (b64_encode d) = Some d.
Proof. exact b64_roundtrip. Qed.
Print Assumptions C03_base64_roundtrip.

(* encoded length = 4 * ceil(n / 3) *)
Theorem C03_base64_length : forall d : bytes, blen (b64_encode d) = 4 * ((blen d + 2) / 3).
Proof. exact b64_encode_length. Qed.
Print Assumptions C03_base64_length.

(** * one datagram through NewUDPPacket, WriteMsg, ReadMsg, GetContent *)

(* reflective over today's translator output: 'u' is registered and is the UDPPacket message *)
Theorem C03_udp_type_registered :
  registered udp_type_byte = true /\ In (Z_of_byte udp_type_byte, "UDPPacket"%string) today_registry.
Proof. vm_compute. split; [reflexivity|]. repeat (try (left; reflexivity); right). Qed.
Print Assumptions C03_udp_type_registered.

(* payload, boundaries and both addresses survive, whatever follows on the stream, whenever the
   frame fits the message bound: 4*ceil(n/3) + overhead(l, r) <= 10240.  The JSON text PARSER is
   an oracle (encoding/json): the theorem asks of it only that it inverts the (concrete) renderer
   on this very text *)
Theorem C03_datagram_roundtrip : forall parse d l r rest,
  parse (udp_text (new_udp_packet d l r)) = Some (enc_obj udp_fields (upacket_vals (new_udp_packet d l r))) ->
  4 * ((blen d + 2) / 3) + udp_overhead l r <= 10240 ->
  exists p, udp_decode_msg registered parse (udp_encode_msg (new_udp_packet d l r) ++ rest) = UDOk p rest /\
            get_content p = Some d /\ up_laddr p = l /\ up_raddr p = r.
Proof.
  intros parse d l r rest. apply (udp_datagram_roundtrip registered parse d l r rest).
  exact (proj1 C03_udp_type_registered).
Qed.
Print Assumptions C03_datagram_roundtrip.

(* every payload up to the default udpPacketSize satisfies the size condition *)
Theorem C03_default_packet_size_fits : forall d l r,
  blen d <= 1500 -> uaddr_small l -> uaddr_small r ->
  4 * ((blen d + 2) / 3) + udp_overhead l r <= 10240.
Proof. exact udp_default_size_fits. Qed.
Print Assumptions C03_default_packet_size_fits.

(* a datagram whose frame does not fit is refused by the receiving ReadMsg (and the work
   connection dies with it): the claim is made below the bound only *)
Theorem C03_oversize_frame_rejected : forall parse p rest,
  upacket_fits p = false -> blen (udp_text p) < 2 ^ 63 ->
  udp_decode_msg registered parse (udp_encode_msg p ++ rest) = UDFrameErr ErrMaxLen.
Proof.
  intros parse p rest. apply udp_oversize_rejected. exact (proj1 C03_udp_type_registered).
Qed.
Print Assumptions C03_oversize_frame_rejected.

(* non-vacuity: a 3-byte datagram from 127.0.3.1:4000, its text and its frame *)
Example C03_example_packet :
  let a := Some {| ua_ip := bs "127.0.3.1"; ua_port := 4000; ua_zone := [] |} in
  udp_text (new_udp_packet (bs "abc") None a) = bs "{""c"":""YWJj"",""r"":{""IP"":""127.0.3.1"",""Port"":4000,""Zone"":""""}}" /\
  upacket_fits (new_udp_packet (bs "abc") None a) = true /\
  4 * ((3 + 2) / 3) + udp_overhead None a = 57 /\ uaddr_small a.
Proof. vm_compute. repeat split; discriminate. Qed.

(** * the tunnel: ForwardUserConn, work-connection pumps, Forwarder — all event histories *)

(* Notation: [usent c h] = datagrams (user address, payload as read into the uc_buf-byte buffer)
   in history h; [ubackend tr] = datagrams written to the backend in trace tr; [ucount f l] =
   number of elements of l satisfying f, so "for every f, count f A <= count f B" is multiset
   inclusion A <= B. *)

(* every datagram handed to the backend is one datagram some user sent, with that user's address
   and exactly its payload, and no datagram is handed over more often than it was sent: never
   corrupted, merged, split or duplicated, across any number of work-connection replacements *)
Theorem C03_delivered_is_sent : forall c h (f : uview -> bool),
  ucount f (ubackend (snd (urun c uinit h))) <= ucount f (usent c h).
Proof. exact delivered_is_sent. Qed.
Print Assumptions C03_delivered_is_sent.

(* ... and never truncated for payloads up to the configured packet size *)
Theorem C03_payload_untruncated : forall c d, blen d <= uc_buf c -> uread c d = d.
Proof. exact uread_id. Qed.
Print Assumptions C03_payload_untruncated.

(* exact accounting: sent = delivered + still in the pipeline + dropped (each with its reason) *)
Theorem C03_forward_accounting : forall c h (f : uview -> bool),
  ucount f (usent c h) =
  ucount f (ubackend (snd (urun c uinit h))) +
  ucount f (map upview (ufwd_pending (fst (urun c uinit h)))) +
  ucount f (udropped_fwd (snd (urun c uinit h))).
Proof. exact (fun c h f => fwd_accounting c f h). Qed.
Print Assumptions C03_forward_accounting.

Theorem C03_reply_accounting : forall c h (f : uview -> bool),
  ucount f (utagged (snd (urun c uinit h))) =
  ucount f (uuser (snd (urun c uinit h))) +
  ucount f (map upview (urev_pending (fst (urun c uinit h)))) +
  ucount f (udropped_rev (snd (urun c uinit h))).
Proof. exact (fun c h f => rev_accounting c f h). Qed.
Print Assumptions C03_reply_accounting.

(* "Datagrams may be dropped only under overload or while the work connection is being
   re-established; at light load they arrive."

   REFUTED at lock granularity (Model/UdpSched.v: the Forwarder's readCh loop and its reader
   goroutines as a schedule model).  Witness: user a sends "one", then "two"; the loop looks a's
   socket up and releases the mutex; the socket's 30 s read deadline fires, its reader locks,
   deletes the map entry, unlocks and closes; the loop's Write hits the closed socket: "two" is
   lost with empty queues and no replacement.  Replayed on the real udp.Forwarder by driver part
   `race` (gate udp.forwarder.before_write); failure key udp.Forwarder:write-after-idle-close;
   proposed patch proposed-fixes/C03_forwarder_idle_boundary.diff *)
Theorem C03_drop_only_when_full_or_replacing_refuted :
  exists (q : list upacket) (sched : list gtid) s ra d,
    In (GWriteErr s ra d) (snd (grun {| uc_buf := 1500 |} (ginit q) sched)).
Proof.
  exists race_queue, race_sched, 0%N, (Some race_user), (bs "two").
  rewrite (proj1 race_witness). cbn. auto.
Qed.
Print Assumptions C03_drop_only_when_full_or_replacing_refuted.

(* PARTIAL (1), lock granularity: on every schedule on which the loop's lookup..Write section never
   overlaps the exit section (deadline error .. Close) of the reader of the same socket — exactly the
   class the witness belongs to — the Forwarder loses no datagram, for any queue of packets, any
   number of users, deadlines and replies *)
Theorem C03_forwarder_no_loss_without_overlap_partial : forall c q sched,
  gsafe c (ginit q) sched = true ->
  forallb (fun o => negb (gout_lost o)) (snd (grun c (ginit q) sched)) = true.
Proof. intros c q sched. apply no_loss_without_overlap. apply closed_done_init. Qed.
Print Assumptions C03_forwarder_no_loss_without_overlap_partial.

(* PARTIAL (2), whole tunnel, where those two sections are single steps (ECliPump, ESockIdle), i.e. for
   the interleavings without that overlap: the only reasons a datagram or a reply is ever lost for
   are a full 1024-slot queue (select-default) or a dying / replaced work connection — provided the
   read buffer is small enough for every frame to fit (uc_buf <= 7563), user addresses are of the
   usual size and the OS can open sockets.  Bad base64, a nil address or an oversize frame never occur. *)
Theorem C03_drop_only_when_full_or_replacing_partial : forall c h,
  ucfg_ok c -> forallb uev_ok h = true ->
  forallb uout_drop_ok (snd (urun c uinit h)) = true.
Proof. exact drops_only_allowed. Qed.
Print Assumptions C03_drop_only_when_full_or_replacing_partial.

(* "... only while the work connection is being re-established": the server side of the work connection
   (server/proxy/udp.go: fetch loop, per-connection sender goroutines on the shared sendCh) as a schedule
   model with the cancel() of the connection given up as an explicit step (Model/UdpSrvPump.v).  With the
   cancel, for every schedule (any number of replacements, any sender chosen by the scheduler): a datagram
   is lost to the sender of a dead connection only at moments when NO live work connection exists —
   never once the next connection is up *)
Theorem C03_no_loss_once_reestablished : forall h,
  forallb (fun x => negb (plost_while_established x)) (prun true pinit h) = true.
Proof. intros h. apply no_loss_once_established. exact pinv_init. Qed.
Print Assumptions C03_no_loss_once_reestablished.

(* ... and the cancel is what makes it true: if the sender of the connection given up is not stopped,
   it stays parked on sendCh, takes a datagram that arrives long after the new connection is up and
   loses it (the same schedule loses nothing with the cancel) *)
Theorem C03_stale_sender_loses_after_reestablishment :
  exists h, existsb plost_while_established (prun false pinit h) = true /\
            existsb plost_while_established (prun true pinit h) = false.
Proof. exists stale_sender_history. rewrite (proj1 stale_sender_witness), (proj2 stale_sender_witness). split; reflexivity. Qed.
Print Assumptions C03_stale_sender_loses_after_reestablishment.

(* the replacement loop with the notifications on checkCloseCh explicit (Model/UdpSrvLoop.v).  Reflective over
   today's source: the only function literal of UDPProxy.Run that sends on pxy.checkCloseCh is the reader *)
Theorem C03_only_the_reader_notifies :
  gen_c03_unknown = false /\ gen_c03_checkclose_notifiers = ["workConnReaderFn"]%string.
Proof. vm_compute. split; reflexivity. Qed.
Print Assumptions C03_only_the_reader_notifies.

(* then, for every schedule (breaks, failing writes, any order of reader / sender / loop steps, any number of
   replacements): the loop never gives up a healthy work connection — every notification it consumes belongs to
   a connection that is dead — and at most one notification is pending: one failure, one replacement.  Together
   with C03_no_loss_once_reestablished: light-load datagrams arrive once the replacement is up *)
Theorem C03_one_failure_one_replacement : forall h,
  forallb (fun o => negb (lout_alive o)) (snd (lrun false linit h)) = true /\
  (l_notes (fst (lrun false linit h)) <= 1)%N.
Proof. intros h. apply healthy_connection_never_given_up. exact linv_init. Qed.
Print Assumptions C03_one_failure_one_replacement.

(* a sender that notifies as well refutes it: the second notification of ONE failure takes the healthy
   replacement down, closing it makes its reader notify, and so on; the same schedule is harmless today *)
Theorem C03_double_notification_refuted :
  snd (lrun true linit double_notify_history) = [LGaveUpDead 0; LGaveUpAlive 1; LGaveUpAlive 2] /\
  snd (lrun false linit double_notify_history) = [LGaveUpDead 0].
Proof. exact double_notify_witness. Qed.
Print Assumptions C03_double_notification_refuted.

(* the packet size as configured: reflective over pkg/config/legacy/conversion.go — a legacy ini file's
   udp_packet_size reaches the v1 configuration of frpc and frps by plain copies; with C03_payload_untruncated
   (uc_buf = the configured size) payloads up to the configured size are not truncated in any format *)
Theorem C03_legacy_ini_packet_size_unchanged :
  gen_c03_legacy_packet_size = ["out.UDPPacketSize = conf.UDPPacketSize"; "out.UDPPacketSize = conf.UDPPacketSize"]%string.
Proof. vm_compute. reflexivity. Qed.
Print Assumptions C03_legacy_ini_packet_size_unchanged.

(* at light load (nothing dropped, pipeline drained) exactly the datagrams sent have arrived,
   and exactly the replies read have reached their users *)
Theorem C03_light_load_all_arrive : forall c h (f : uview -> bool),
  udropped_fwd (snd (urun c uinit h)) = [] -> ufwd_pending (fst (urun c uinit h)) = [] ->
  ucount f (ubackend (snd (urun c uinit h))) = ucount f (usent c h).
Proof. exact light_load_all_arrive. Qed.
Print Assumptions C03_light_load_all_arrive.

Theorem C03_light_load_all_replies_arrive : forall c h (f : uview -> bool),
  udropped_rev (snd (urun c uinit h)) = [] -> urev_pending (fst (urun c uinit h)) = [] ->
  ucount f (uuser (snd (urun c uinit h))) = ucount f (utagged (snd (urun c uinit h))).
Proof. exact light_load_all_replies_arrive. Qed.
Print Assumptions C03_light_load_all_replies_arrive.

(* order: within one work connection (no replacement in the history) the tunnel is a FIFO pipeline:
   the sequence handed to the backend is a subsequence of the sequence sent, hence so is the
   sequence of every single user.  Across a replacement order is NOT preserved (the old Forwarder
   drains concurrently with the new one); the property text does not ask for it. *)
Theorem C03_order_preserved_within_connection : forall c h,
  forallb (fun e => negb (is_replace e)) h = true ->
  usubseq (ubackend (snd (urun c (fst (ustep c uinit EWorkConnReplaced)) h))) (usent c h) /\
  (forall f, usubseq (filter f (ubackend (snd (urun c (fst (ustep c uinit EWorkConnReplaced)) h)))) (filter f (usent c h))).
Proof.
  intros c h Hh. pose proof (order_preserved c h Hh) as H. cbv zeta in H.
  split; [exact H|]. intros f. now apply usubseq_filter.
Qed.
Print Assumptions C03_order_preserved_within_connection.

(** * the reply goroutine and the alphabet of the work connection *)

(* reflective over today's source (translator unit c03udp): the reply goroutine of ForwardUserConn
   `for udpMsg := range readCh` exists, contains exactly one WriteToUDP and NO statement that leaves the
   loop (return / break / goto / panic): a WriteToUDP error cannot end the only consumer of readCh; and the only
   functions called in the body are GetContent (decodes a Content of any length into a fresh slice, as
   [get_content] does — no fixed-size buffer a long reply could overrun) and udpConn.WriteToUDP *)
Theorem C03_reply_loop_has_no_exit :
  gen_c03_unknown = false /\ gen_c03_reply_loop_found = true /\ gen_c03_reply_loop_exits = [] /\
  gen_c03_reply_loop_calls = ["GetContent"; "udpConn.WriteToUDP"]%string.
Proof. vm_compute. repeat split. Qed.
Print Assumptions C03_reply_loop_has_no_exit.

(* such a loop attempts every reply; the fate of a reply depends on its own destination only: a reply the
   OS refuses to send (user address with port 0, EPERM, ENETUNREACH ...) never stops replies to others *)
Theorem C03_failed_reply_does_not_stop_replies : forall (l : list (Z * bool)) a,
  rl_run (negb (match gen_c03_reply_loop_exits with [] => true | _ => false end)) true l =
    map (fun x : Z * bool => if snd x then RLDelivered (fst x) else RLFailed (fst x)) l /\
  (In (a, true) l -> In (RLDelivered a) (rl_run false true l)).
Proof.
  intros l a. split; [exact (rl_survives l)|apply rl_failed_reply_does_not_stop_others].
Qed.
Print Assumptions C03_failed_reply_does_not_stop_replies.

(* ... whereas a loop that returns on the error is refuted; and in the tunnel model the reply step has
   no state of its own: whatever happened before, the head of readCh is consumed and, if the OS accepts
   its destination, written to its user *)
Theorem C03_reply_loop_exit_refuted :
  rl_run true true [(1, true); (2, false); (1, true); (3, true)] = [RLDelivered 1; RLFailed 2; RLStuck 1; RLStuck 3].
Proof. exact rl_exits_witness. Qed.
Print Assumptions C03_reply_loop_exit_refuted.

Theorem C03_reply_step_total : forall c st p q d a,
  s_readq st = p :: q -> get_content p = Some d -> up_raddr p = Some a ->
  snd (ustep c st (ESrvDeliver true)) = [OUser a d] /\ s_readq (fst (ustep c st (ESrvDeliver true))) = q /\
  s_readq (fst (ustep c st (ESrvDeliver false))) = q.
Proof. exact srv_deliver_total. Qed.
Print Assumptions C03_reply_step_total.

(* alphabet, reflective over today's source: everything frps (server/proxy/udp.go) and the sudp visitor's
   worker pass to msg.WriteMsg on the work connection is a variable received from a chan *msg.UDPPacket;
   the client readers decode type-blind (ReadMsgInto) *)
Theorem C03_work_connection_alphabet :
  writes_only_packets gen_c03_srv_udp_writes gen_c03_srv_sendch_elem = true /\
  writes_only_packets gen_c03_visitor_writes "*msg.UDPPacket" = true /\
  gen_c03_cli_udp_reader = "ReadMsgInto"%string /\ gen_c03_cli_sudp_reader = "ReadMsgInto"%string.
Proof. vm_compute. repeat split. Qed.
Print Assumptions C03_work_connection_alphabet.

(* with packets only on the wire the type-blind reader hands the Forwarder exactly the packets written
   (so the tunnel model, whose wire carries packets, is exact and C03_delivered_is_sent applies) ... *)
Theorem C03_blind_reader_exact_on_packets : forall ms,
  forallb is_wpacket ms = true ->
  map cli_blind_read ms = flat_map (fun m => match m with WPacket p => [p] | _ => [] end) ms.
Proof. exact blind_read_exact. Qed.
Print Assumptions C03_blind_reader_exact_on_packets.

(* ... and any other message refutes "every datagram handed to the backend was sent by a user": a Pong
   becomes the zero packet, the Forwarder opens a socket for the user <nil> and writes an EMPTY datagram
   to the backend; no user datagram has a nil address *)
Theorem C03_non_packet_on_work_connection_refuted :
  snd (ustep {| uc_buf := 1500 |} pong_state (ECliPump true)) = [OSockNew 0 None; OBackend 0 None []] /\
  (forall c h v, In v (usent c h) -> exists a d, v = (Some a, Some d)).
Proof. split; [exact pong_injects_datagram|exact usent_has_address]. Qed.
Print Assumptions C03_non_packet_on_work_connection_refuted.

(* reply addressing.  (1) the socket map is injective on live entries; (2) a reply read on socket
   s is tagged with the address whose first datagram created s; (3) a socket is created once, so
   that address is unique; (4) every datagram ever written to s came from the same printed
   address; (5) what users receive is a sub-multiset of the tagged replies (address and payload) *)
Theorem C03_reply_to_originating_user_only : forall c h,
  let st := fst (urun c uinit h) in
  let tr := snd (urun c uinit h) in
  (forall k k' s, In (k, s) (c_map st) -> In (k', s) (c_map st) -> k = k') /\
  (forall s ra d, In (OTagged s ra d) tr -> In (OSockNew s ra) tr) /\
  (forall s ra ra', In (OSockNew s ra) tr -> In (OSockNew s ra') tr -> ra = ra') /\
  (forall s ra d, In (OBackend s ra d) tr ->
     exists ra0, In (OSockNew s ra0) tr /\ uaddr_string ra0 = uaddr_string ra) /\
  (forall f : uview -> bool, ucount f (uuser tr) <= ucount f (utagged tr)).
Proof.
  intros c h. cbv zeta. split; [|split; [|split; [|split]]].
  - intros k k' s. exact (sock_map_injective c h k k' s).
  - exact (proj1 (reply_tagging c h)).
  - exact (proj1 (proj2 (reply_tagging c h))).
  - exact (proj2 (proj2 (reply_tagging c h))).
  - intros f. exact (replies_delivered_were_tagged c h f).
Qed.
Print Assumptions C03_reply_to_originating_user_only.

(* the map key identifies the user: two well-formed addresses (IP text as net.IP prints it — IPv4,
   IPv6, v4-in-v6 —, any zone without ']', port 0..65535) that print the same are the same, so two
   users never share a map key; IPv4 special case kept for reference *)
Theorem C03_printed_address_identifies_user : forall a b,
  uaddr_wf a -> uaddr_wf b -> uaddr_string (Some a) = uaddr_string (Some b) -> a = b.
Proof. exact uaddr_string_inj. Qed.
Print Assumptions C03_printed_address_identifies_user.

Theorem C03_printed_address_identifies_v4_user : forall a b,
  uaddr_v4 a -> uaddr_v4 b -> uaddr_string (Some a) = uaddr_string (Some b) -> a = b.
Proof. exact uaddr_string_inj_v4. Qed.
Print Assumptions C03_printed_address_identifies_v4_user.

(* order across replacements, precisely: the sequence handed to the backend is a subsequence of the
   sequence sent for EVERY history in which each replacement happens while nothing is buffered in the
   readCh of the Forwarder being replaced ... *)
Theorem C03_order_preserved_when_replaced_drained : forall c h,
  replaced_when_drained c h ->
  usubseq (ubackend (snd (urun c uinit h))) (usent c h).
Proof. exact order_preserved_when_drained. Qed.
Print Assumptions C03_order_preserved_when_replaced_drained.

(* ... and without that hypothesis it is refuted: a datagram left in the old Forwarder's readCh is
   overtaken by a later one of the same user that travels over the new connection (the multiset
   theorems above still hold; the property text does not promise order) *)
Theorem C03_order_across_replacement_refuted :
  exists c h, ~ usubseq (ubackend (snd (urun c uinit h))) (usent c h).
Proof. exists {| uc_buf := 1500 |}, reorder_history. exact reorder_not_subseq. Qed.
Print Assumptions C03_order_across_replacement_refuted.

(* after the reader goroutine of a socket has ended (idle timeout, or its Forwarder was replaced)
   the socket is never created again, never written to and no reply is ever read from it,
   whatever follows (new users, new work connections); a late datagram for it is discarded.
   Socket identity is the Go object; reuse of the same ephemeral PORT NUMBER by the OS for a
   later socket is outside the model (residue, see design/C03.md) *)
Theorem C03_no_crosstalk_after_socket_reuse : forall c h1 h2 s,
  In (OSockClosed s) (snd (urun c uinit h1)) ->
  (forall o, In o (snd (urun c (fst (urun c uinit h1)) h2)) -> ~ out_speaks s o) /\
  (forall st d, ~ In s (map fst (ulive st)) -> ustep c st (EBackendReply s d) = (st, [OLate s d])).
Proof.
  intros c h1 h2 s Hc. split.
  - intros o Ho. exact (closed_socket_is_silent c h1 h2 s o Hc Ho).
  - intros st d. apply late_reply_discarded.
Qed.
Print Assumptions C03_no_crosstalk_after_socket_reuse.

(* non-vacuity: two users behind one IP, an idle timeout, a late reply and a replacement *)
Example C03_example_history :
  let c := {| uc_buf := 1500 |} in
  let a := {| ua_ip := bs "127.0.3.10"; ua_port := 40001; ua_zone := [] |} in
  let b := {| ua_ip := bs "127.0.3.10"; ua_port := 40002; ua_zone := [] |} in
  let h := [EWorkConnReplaced; EUserSend a (bs "one"); EUserSend b (bs "two"); ESrvSend; ESrvSend;
            ECliRecv; ECliRecv; ECliPump true; ECliPump true; EBackendReply 1 (bs "TWO"); EBackendReply 0 (bs "ONE");
            ECliSend; ECliSend; ESrvRecv; ESrvRecv; ESrvDeliver true; ESrvDeliver true;
            ESockIdle 0; EBackendReply 0 (bs "late"); EUserSend a (bs "again"); ESrvSend; ECliRecv; ECliPump true;
            EWorkConnReplaced; EBackendReply 2 (bs "lost")] in
  snd (urun c uinit h) =
    [OSockNew 0 (Some a); OBackend 0 (Some a) (bs "one"); OSockNew 1 (Some b); OBackend 1 (Some b) (bs "two");
     OTagged 1 (Some b) (bs "TWO"); OTagged 0 (Some a) (bs "ONE"); OUser b (bs "TWO"); OUser a (bs "ONE");
     OSockClosed 0; OLate 0 (bs "late"); OSockNew 2 (Some a); OBackend 2 (Some a) (bs "again");
     OTagged 2 (Some a) (bs "lost"); ODropRev DReplacing (new_udp_packet (bs "lost") None (Some a)); OSockClosed 2] /\
  ucfg_ok c /\ forallb uev_ok h = true.
Proof. vm_compute. split; [reflexivity|]. split; [split; discriminate|reflexivity]. Qed.
