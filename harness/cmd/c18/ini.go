package main

// Legacy INI: the same logical proxy / visitor written as a legacy ini section and as a TOML table must
// load (config.LoadClientConfig, which detects the ini format by its [common] section and converts through
// pkg/config/legacy) to the same structure.  Every proxy and visitor type; every optional list setting
// (custom_domains, locations, allow_users) absent / present-but-empty / given.

import (
	"fmt"
	"os"
	"path/filepath"
	"sort"
	"strconv"
	"strings"

	"github.com/fatedier/frp/pkg/config"
)

// values that mean the same in an ini file and in a TOML string
var iniSafe = []string{"a", "alice", "bob", "x-1", "ünï", "日本", "v1.2", "key_2"}
var iniDomains = []string{"a.example.org", "b.frps.com", "X.Example.ORG", "日本.example"}
var iniPaths = []string{"/", "/api", "/ünï"}

type iniSection struct {
	name  string
	lines []string
	tree  obj
	kind  string // "proxy" | "visitor"
	note  string
}

func (g *gen) listChoice(pool []string) (mode string, vs []string) {
	switch g.intn(3) {
	case 0:
		return "absent", nil
	case 1:
		return "empty", []string{}
	}
	n := 1 + g.intn(3)
	for i := 0; i < n; i++ {
		vs = append(vs, g.pick(pool))
	}
	return "given", vs
}

func (g *gen) iniProxy(typ string, i int) iniSection {
	s := iniSection{name: fmt.Sprintf("%s-%d", typ, i), kind: "proxy"}
	put := func(ik, tk string, v any) {
		switch x := v.(type) {
		case string:
			if x == "" {
				return
			}
			s.lines = append(s.lines, ik+" = "+x)
			s.tree = append(s.tree, kv{tk, x})
		case int64:
			if x == 0 {
				return
			}
			s.lines = append(s.lines, ik+" = "+strconv.FormatInt(x, 10))
			s.tree = append(s.tree, kv{tk, x})
		}
	}
	s.tree = obj{{"name", s.name}, {"type", typ}}
	s.lines = append(s.lines, "type = "+typ)
	if g.chance(0.6) {
		put("local_ip", "localIP", g.pick([]string{"127.0.0.1", "10.0.0.5", "host.local"}))
	}
	put("local_port", "localPort", g.pickInt([]int64{22, 80, 8080, 65535}))
	tr := obj{}
	if g.chance(0.4) {
		s.lines = append(s.lines, "use_encryption = true")
		tr = append(tr, kv{"useEncryption", true})
	}
	if g.chance(0.4) {
		s.lines = append(s.lines, "use_compression = true")
		tr = append(tr, kv{"useCompression", true})
	}
	if g.chance(0.4) {
		bw := g.pick([]string{"1MB", "100KB", "2MB"})
		s.lines = append(s.lines, "bandwidth_limit = "+bw)
		tr = append(tr, kv{"bandwidthLimit", bw})
		if g.chance(0.5) {
			s.lines = append(s.lines, "bandwidth_limit_mode = server")
			tr = append(tr, kv{"bandwidthLimitMode", "server"})
		}
	}
	if g.chance(0.3) {
		v := g.pick([]string{"v1", "v2"})
		s.lines = append(s.lines, "proxy_protocol_version = "+v)
		tr = append(tr, kv{"proxyProtocolVersion", v})
	}
	if len(tr) > 0 {
		s.tree = append(s.tree, kv{"transport", tr})
	}
	if g.chance(0.4) {
		grp, key := g.pick(iniSafe), g.pick(iniSafe)
		s.lines = append(s.lines, "group = "+grp, "group_key = "+key)
		s.tree = append(s.tree, kv{"loadBalancer", obj{{"group", grp}, {"groupKey", key}}})
	}
	if g.chance(0.4) {
		m := map[string]string{}
		for k := 0; k < 1+g.intn(2); k++ {
			m[g.pick([]string{"k1", "k2", "Key"})] = g.pick(iniSafe)
		}
		keys := []string{}
		for k := range m {
			keys = append(keys, k)
		}
		sort.Strings(keys)
		for _, k := range keys {
			s.lines = append(s.lines, "meta_"+k+" = "+m[k])
		}
		s.tree = append(s.tree, kv{"metadatas", mapObj(m)})
	}
	list := func(ik, tk string, pool []string) {
		mode, vs := g.listChoice(pool)
		s.note += ik + ":" + mode + " "
		switch mode {
		case "empty":
			s.lines = append(s.lines, ik+" =")
			s.tree = append(s.tree, kv{tk, []string{}})
		case "given":
			s.lines = append(s.lines, ik+" = "+strings.Join(vs, ","))
			s.tree = append(s.tree, kv{tk, vs})
		}
	}
	switch typ {
	case "tcp", "udp":
		put("remote_port", "remotePort", g.pickInt([]int64{0, 6000, 65535}))
	case "http":
		list("custom_domains", "customDomains", iniDomains)
		put("subdomain", "subdomain", g.pick([]string{"", "app", "x-1"}))
		list("locations", "locations", iniPaths)
		put("http_user", "httpUser", g.pick([]string{"", "alice"}))
		put("http_pwd", "httpPassword", g.pick([]string{"", "secret"}))
		put("host_header_rewrite", "hostHeaderRewrite", g.pick([]string{"", "inner.example"}))
		put("route_by_http_user", "routeByHTTPUser", g.pick([]string{"", "bob"}))
		if g.chance(0.4) {
			v := g.pick(iniSafe)
			s.lines = append(s.lines, "header_X-From = "+v)
			s.tree = append(s.tree, kv{"requestHeaders", obj{{"set", obj{{"X-From", v}}}}})
		}
	case "https":
		list("custom_domains", "customDomains", iniDomains)
		put("subdomain", "subdomain", g.pick([]string{"", "app"}))
	case "tcpmux":
		list("custom_domains", "customDomains", iniDomains)
		put("subdomain", "subdomain", g.pick([]string{"", "app"}))
		put("http_user", "httpUser", g.pick([]string{"", "alice"}))
		put("http_pwd", "httpPassword", g.pick([]string{"", "secret"}))
		put("route_by_http_user", "routeByHTTPUser", g.pick([]string{"", "bob"}))
		put("multiplexer", "multiplexer", "httpconnect")
	case "stcp", "sudp", "xtcp":
		put("sk", "secretKey", g.pick([]string{"", "abc", "ünï"}))
		list("allow_users", "allowUsers", []string{"*", "alice", "bob", "ünï"})
	}
	return s
}

func (g *gen) iniVisitor(typ string, i int) iniSection {
	s := iniSection{name: fmt.Sprintf("%s-visitor-%d", typ, i), kind: "visitor"}
	s.tree = obj{{"name", s.name}, {"type", typ}}
	s.lines = append(s.lines, "type = "+typ, "role = visitor")
	puts := func(ik, tk, v string) {
		if v != "" {
			s.lines = append(s.lines, ik+" = "+v)
			s.tree = append(s.tree, kv{tk, v})
		}
	}
	puti := func(ik, tk string, v int64) {
		if v != 0 {
			s.lines = append(s.lines, ik+" = "+strconv.FormatInt(v, 10))
			s.tree = append(s.tree, kv{tk, v})
		}
	}
	tr := obj{}
	if g.chance(0.4) {
		s.lines = append(s.lines, "use_encryption = true")
		tr = append(tr, kv{"useEncryption", true})
	}
	if g.chance(0.4) {
		s.lines = append(s.lines, "use_compression = true")
		tr = append(tr, kv{"useCompression", true})
	}
	if len(tr) > 0 {
		s.tree = append(s.tree, kv{"transport", tr})
	}
	puts("sk", "secretKey", g.pick([]string{"", "abc"}))
	puts("server_user", "serverUser", g.pick([]string{"", "other"}))
	puts("server_name", "serverName", g.pick([]string{"secret-svc", "ünï"}))
	puts("bind_addr", "bindAddr", g.pick([]string{"", "127.0.0.1", "0.0.0.0"}))
	puti("bind_port", "bindPort", g.pickInt([]int64{9000, -1, 65535}))
	if typ == "xtcp" {
		puts("protocol", "protocol", g.pick([]string{"", "kcp", "quic"}))
		if g.chance(0.4) {
			s.lines = append(s.lines, "keep_tunnel_open = true")
			s.tree = append(s.tree, kv{"keepTunnelOpen", true})
		}
		puti("max_retries_an_hour", "maxRetriesAnHour", g.pickInt([]int64{0, 20}))
		puti("min_retry_interval", "minRetryInterval", g.pickInt([]int64{0, 30}))
		puts("fallback_to", "fallbackTo", g.pick([]string{"", "stcp-visitor"}))
		puti("fallback_timeout_ms", "fallbackTimeoutMs", g.pickInt([]int64{0, 500}))
	}
	return s
}

func (d *drv) runIni(g *gen, n int, dir string) map[string]any {
	st := map[string]int{}
	for i := 0; i < n; i++ {
		user := g.pick([]string{"", "", "user"})
		var secs []iniSection
		for k, t := range proxyTypes {
			if i%2 == 0 || g.chance(0.5) {
				secs = append(secs, g.iniProxy(t, k))
			}
		}
		for k, t := range visitorTypeNames {
			if g.chance(0.6) {
				secs = append(secs, g.iniVisitor(t, k))
			}
		}
		var ini strings.Builder
		ini.WriteString("[common]\nserver_addr = 127.0.0.1\nserver_port = 7000\n")
		tree := obj{{"serverAddr", "127.0.0.1"}, {"serverPort", int64(7000)}}
		if user != "" {
			ini.WriteString("user = " + user + "\n")
			tree = append(tree, kv{"user", user})
		}
		var ps, vs []obj
		for _, s := range secs {
			ini.WriteString("\n[" + s.name + "]\n" + strings.Join(s.lines, "\n") + "\n")
			if s.kind == "proxy" {
				ps = append(ps, s.tree)
			} else {
				vs = append(vs, s.tree)
			}
		}
		if len(ps) > 0 {
			tree = append(tree, kv{"proxies", ps})
		}
		if len(vs) > 0 {
			tree = append(tree, kv{"visitors", vs})
		}
		ipath := filepath.Join(dir, "legacy.ini")
		tpath := filepath.Join(dir, "same.toml")
		_ = os.WriteFile(ipath, []byte(ini.String()), 0o644)
		_ = os.WriteFile(tpath, render(tree)["toml"], 0o644)
		_, ip, iv, legacy, err1 := config.LoadClientConfig(ipath, true)
		_, tp, tv, _, err2 := config.LoadClientConfig(tpath, true)
		_ = os.Remove(ipath)
		_ = os.Remove(tpath)
		if err1 != nil || err2 != nil || !legacy {
			d.fail("ini-load", fmt.Sprintf("ini / toml form rejected: %v / %v (legacy detected: %v)", err1, err2, legacy), ini.String())
			continue
		}
		st["documents"]++
		byName := func(l []string) map[string]string {
			m := map[string]string{}
			for _, x := range l {
				m[x[:strings.Index(x, "|")]] = x[strings.Index(x, "|")+1:]
			}
			return m
		}
		var il, tl []string
		for _, p := range ip {
			il = append(il, p.GetBaseConfig().Name+"|"+coqCfg(p))
		}
		for _, p := range tp {
			tl = append(tl, p.GetBaseConfig().Name+"|"+coqCfg(p))
		}
		for _, v := range iv {
			il = append(il, v.GetBaseConfig().Name+"|"+coqVisitor(v))
		}
		for _, v := range tv {
			tl = append(tl, v.GetBaseConfig().Name+"|"+coqVisitor(v))
		}
		im, tm := byName(il), byName(tl)
		if len(im) != len(tm) {
			d.fail("ini-vs-toml:count", fmt.Sprintf("the ini form yields %d proxies/visitors, the toml form %d", len(im), len(tm)), ini.String())
		}
		for _, s := range secs {
			st["sections"]++
			st["sections_"+s.kind]++
			for _, w := range strings.Fields(s.note) {
				st["list_"+w]++
			}
			name := s.name
			if user != "" {
				name = user + "." + name
			}
			a, okA := im[name]
			b, okB := tm[name]
			if !okA || !okB {
				d.fail("ini-vs-toml:missing:"+s.kind, "a section is missing from one of the two loads under its expected name "+name, ini.String())
				continue
			}
			if a != b {
				typ := strings.SplitN(s.name, "-", 2)[0]
				d.fail("ini-vs-toml:"+s.kind+":"+typ+":"+strings.TrimSpace(s.note),
					"the legacy ini form of a "+typ+" "+s.kind+" does not load to the same structure as its toml form ("+firstLineDiff(b, a)+")",
					"["+s.name+"]\n"+strings.Join(s.lines, "\n")+"\n--- ini  "+a+"\n--- toml "+b)
			}
		}
	}
	out := map[string]any{}
	for k, v := range st {
		out[k] = v
	}
	return out
}
